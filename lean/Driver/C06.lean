import Orb.Proto
import Orb.Core
import Orb.CoreNil
import Orb.Round
import Orb.Heap
import Generated.Params

/-! Driver for C06 (Clone / Equal / Bound / Reverse / Orientation / Round). -/
namespace Driver.C06
open Orb Orb.Proto Orb.Core Orb.CoreNil

def b2s (b : Bool) : String := if b then "1" else "0"

/-- Go's float `==` on bit patterns (NaN ≠ NaN, -0 == +0). -/
instance : BEq UInt64 := inferInstance
def fEq (a b : UInt64) : Bool := Float.ofBits a == Float.ofBits b

/-- coordinates as `Float` (twin of the Go code) -/
def toF (g : Geom UInt64) : Geom Float := mapGeom Float.ofBits g
def toFV (g : GVal UInt64) : GVal Float := mapGVal Float.ofBits g

def ebF : Bound Float :=
  ⟨⟨Float.ofInt Generated.Params.emptyBoundMinX, Float.ofInt Generated.Params.emptyBoundMinY⟩,
   ⟨Float.ofInt Generated.Params.emptyBoundMaxX, Float.ofInt Generated.Params.emptyBoundMaxY⟩⟩

def showBoundF (b : Bound Float) : String :=
  s!"{floatToHex b.lo.x} {floatToHex b.lo.y} {floatToHex b.hi.x} {floatToHex b.hi.y}"

def boundP : P (Bound Float) := fun ts => do
  let (a, ts) ← pt ts
  let (b, ts) ← pt ts
  pure (⟨mapPt Float.ofBits a, mapPt Float.ofBits b⟩, ts)

def boundEqF (a b : Bound Float) : Bool :=
  a.lo.x == b.lo.x && a.lo.y == b.lo.y && a.hi.x == b.hi.x && a.hi.y == b.hi.y

/-! ### the Float twin with Go's `math.Min` / `math.Max`

`Bound.Extend` calls `math.Min` / `math.Max`.  Lean's `Min Float` / `Max Float` instances
(`if a ≤ b then a else b`) give the same VALUE on numbers, but not on NaN (Go: NaN as soon as one
argument is NaN, unless the other is the infinity that wins) and not the same zero on (+0, -0).  The
twin below is instantiated with Go's functions, so that inputs with NaN coordinates — which are
outside the order-theoretic clauses — are still compared with the code, coordinate for coordinate. -/

def negInfF : Float := Float.ofBits 0xfff0000000000000
def posInfF : Float := Float.ofBits 0x7ff0000000000000
def nanF : Float := Float.ofBits 0x7ff8000000000001
def signBit (x : Float) : Bool := x.toBits >>> 63 == 1

/-- `math.Min` -/
def goMin (x y : Float) : Float :=
  if x == negInfF || y == negInfF then negInfF
  else if x.isNaN || y.isNaN then nanF
  else if x == 0 && x == y then (if signBit x then x else y)
  else if x < y then x else y

/-- `math.Max` -/
def goMax (x y : Float) : Float :=
  if x == posInfF || y == posInfF then posInfF
  else if x.isNaN || y.isNaN then nanF
  else if x == 0 && x == y then (if signBit x then y else x)
  else if x > y then x else y

local instance (priority := high) goMinInst : Min Float := ⟨goMin⟩
local instance (priority := high) goMaxInst : Max Float := ⟨goMax⟩

/-- Go's `==` on numbers; two NaNs count as the same outcome (payloads are not compared) -/
def sameF (a b : Float) : Bool := a == b || (a.isNaN && b.isNaN)

/-- agreement of two computed boxes: `==` on every coordinate, NaN against NaN -/
def boundSameF (a b : Bound Float) : Bool :=
  sameF a.lo.x b.lo.x && sameF a.lo.y b.lo.y && sameF a.hi.x b.hi.x && sameF a.hi.y b.hi.y

def boundHasNaN (b : Bound Float) : Bool := b.lo.x.isNaN || b.lo.y.isNaN || b.hi.x.isNaN || b.hi.y.isNaN

/-- exact tight box of a vertex list, `none` when there are no vertices -/
def tightBox (vs : List (Pt Float)) : Option (Bound Float) :=
  match vs with
  | [] => none
  | v :: rest => some (rest.foldl (fun b p =>
      ⟨⟨if p.x < b.lo.x then p.x else b.lo.x, if p.y < b.lo.y then p.y else b.lo.y⟩,
       ⟨if p.x > b.hi.x then p.x else b.hi.x, if p.y > b.hi.y then p.y else b.hi.y⟩⟩) ⟨v, v⟩)

/-! ### values with nil members on the wire (`Orb.CoreNil.NGeom`)

Input geometries are written by `gsN` (harness/proto.go): the count token `n` is a nil slice below
the top level, `nMP` … `nC` a typed nil slice (top level or member of a collection), `nil` the nil
interface (top level or member of a collection).  Unlike `Orb.Proto.geom` this reader keeps all of it. -/

def npts : P (NPts UInt64) := fun ts =>
  match ts with
  | "n" :: ts => some (none, ts)
  | _ => do
    let (n, ts) ← nat ts
    let (l, ts) ← many pt n ts
    pure (some l, ts)

def nptsL : P (List (NPts UInt64)) := fun ts => do
  let (n, ts) ← nat ts
  many npts n ts

def nptss : P (NPtss UInt64) := fun ts =>
  match ts with
  | "n" :: ts => some (none, ts)
  | _ => (nptsL ts).map fun (l, ts) => (some l, ts)

def nptssL : P (List (NPtss UInt64)) := fun ts => do
  let (n, ts) ← nat ts
  many nptss n ts

partial def ngeom : P (NGeom UInt64) := fun ts =>
  match ts with
  | "nil" :: ts => some (.nilIface, ts)
  | "nMP" :: ts => some (.multiPoint none, ts)
  | "nLS" :: ts => some (.lineString none, ts)
  | "nMLS" :: ts => some (.multiLineString none, ts)
  | "nR" :: ts => some (.ring none, ts)
  | "nPG" :: ts => some (.polygon none, ts)
  | "nMPG" :: ts => some (.multiPolygon none, ts)
  | "nC" :: ts => some (.nilCollection, ts)
  | "P" :: ts => (pt ts).map fun (p, ts) => (.point p, ts)
  | "MP" :: ts => (npts ts).map fun (p, ts) => (.multiPoint p, ts)
  | "LS" :: ts => (npts ts).map fun (p, ts) => (.lineString p, ts)
  | "R" :: ts => (npts ts).map fun (p, ts) => (.ring p, ts)
  | "MLS" :: ts => (nptsL ts).map fun (p, ts) => (.multiLineString (some p), ts)
  | "PG" :: ts => (nptsL ts).map fun (p, ts) => (.polygon (some p), ts)
  | "MPG" :: ts => (nptssL ts).map fun (p, ts) => (.multiPolygon (some p), ts)
  | "B" :: ts => do
    let (a, ts) ← pt ts
    let (b, ts) ← pt ts
    pure (.bound a b, ts)
  | "C" :: ts => do
    let (n, ts) ← nat ts
    let rec go : Nat → Toks → Option (List (NGeom UInt64) × Toks)
      | 0, ts => some ([], ts)
      | n+1, ts => do
        let (g, ts) ← ngeom ts
        let (gs, ts) ← go n ts
        pure (g :: gs, ts)
    let (gs, ts) ← go n ts
    pure (.collection gs, ts)
  | _ => none

def showNPts : NPts UInt64 → String
  | none => "n"
  | some ps => showPts ps
def showNPtsL (l : List (NPts UInt64)) : String :=
  l.foldl (fun s p => s ++ " " ++ showNPts p) (toString l.length)
def showNPtss : NPtss UInt64 → String
  | none => "n"
  | some l => showNPtsL l
def showNPtssL (l : List (NPtss UInt64)) : String :=
  l.foldl (fun s p => s ++ " " ++ showNPtss p) (toString l.length)

/-- the printer matching `gsN` -/
partial def showN : NGeom UInt64 → String
  | .nilIface => "nil"
  | .point p => "P " ++ showPt p
  | .multiPoint none => "nMP"
  | .multiPoint (some p) => "MP " ++ showPts p
  | .lineString none => "nLS"
  | .lineString (some p) => "LS " ++ showPts p
  | .ring none => "nR"
  | .ring (some p) => "R " ++ showPts p
  | .multiLineString none => "nMLS"
  | .multiLineString (some p) => "MLS " ++ showNPtsL p
  | .polygon none => "nPG"
  | .polygon (some p) => "PG " ++ showNPtsL p
  | .multiPolygon none => "nMPG"
  | .multiPolygon (some p) => "MPG " ++ showNPtssL p
  | .bound a b => "B " ++ showPt a ++ " " ++ showPt b
  | .nilCollection => "nC"
  | .collection gs => gs.foldl (fun s g => s ++ " " ++ showN g) ("C " ++ toString gs.length)

def toFN (g : NGeom UInt64) : NGeom Float := g.map Float.ofBits
/-- back to bit patterns; every NaN prints as the one pattern `Float.toBits` gives -/
def ofFN (g : NGeom Float) : NGeom UInt64 := g.map Float.toBits
/-- an implementation value with its NaNs canonicalised the same way -/
def canonN (g : NGeom UInt64) : NGeom UInt64 := ofFN (toFN g)

/-- all coordinates in storage order -/
partial def coordsN {α : Type} : NGeom α → List α
  | .nilIface | .nilCollection => []
  | .point p => [p.x, p.y]
  | .multiPoint p | .lineString p | .ring p => (CoreNil.ptsOf p).flatMap fun q => [q.x, q.y]
  | .multiLineString p | .polygon p => (CoreNil.ptssOf p).flatMap fun l => l.flatMap fun q => [q.x, q.y]
  | .multiPolygon p => (CoreNil.ptsssOf p).flatMap fun pg => pg.flatMap fun l => l.flatMap fun q => [q.x, q.y]
  | .bound a b => [a.x, a.y, b.x, b.y]
  | .collection gs => gs.flatMap coordsN

def ptsSame (p q : List (Pt Float)) : Bool :=
  p.length == q.length && (p.zip q).all fun (a, b) => a.x == b.x && a.y == b.y
def ptssSame (p q : List (List (Pt Float))) : Bool :=
  p.length == q.length && (p.zip q).all fun (a, b) => ptsSame a b
def ptsssSame (p q : List (List (List (Pt Float)))) : Bool :=
  p.length == q.length && (p.zip q).all fun (a, b) => ptssSame a b

/-- members of a collection value (a nil collection has none) -/
def membersN {α : Type} : NGeom α → Option (List (NGeom α))
  | .nilCollection => some []
  | .collection gs => some gs
  | _ => none

/-- executable statement of `Equal`: same kind, same nesting, same lengths, every coordinate `==`;
    a nil slice counts as the empty slice of its type, the nil interface only matches itself -/
partial def sameStructN : NGeom Float → NGeom Float → Bool
  | .nilIface, .nilIface => true
  | .point p, .point q => p.x == q.x && p.y == q.y
  | .multiPoint p, .multiPoint q | .lineString p, .lineString q | .ring p, .ring q =>
    ptsSame (CoreNil.ptsOf p) (CoreNil.ptsOf q)
  | .multiLineString p, .multiLineString q | .polygon p, .polygon q => ptssSame (CoreNil.ptssOf p) (CoreNil.ptssOf q)
  | .multiPolygon p, .multiPolygon q => ptsssSame (CoreNil.ptsssOf p) (CoreNil.ptsssOf q)
  | .bound a b, .bound c d => a.x == c.x && a.y == c.y && b.x == d.x && b.y == d.y
  | g, h =>
    match membersN g, membersN h with
    | some p, some q => p.length == q.length && (p.zip q).all fun (a, b) => sameStructN a b
    | _, _ => false

/-- is every `Bound` value inside the geometry well-formed (min ≤ max)? -/
partial def boundsWF : Geom Float → Bool
  | .bound a b => a.x ≤ b.x && a.y ≤ b.y
  | .collection gs => gs.all boundsWF
  | _ => true

partial def hasNilMember {α : Type} : NGeom α → Bool
  | .collection gs => gs.any fun g => g.isNilIface || hasNilMember g
  | _ => false

def isTypedNilTop {α : Type} : NGeom α → Bool
  | .multiPoint none | .lineString none | .multiLineString none | .ring none | .polygon none
  | .multiPolygon none | .nilCollection => true
  | _ => false

/-- `geom <g> => <clone> eq indep <bound>` -/
def handleGeom (inp out : Toks) : String :=
  match ngeom inp with
  | none => "bad input"
  | some (v, _) =>
    if out == ["panic"] then "propfail panic" else
    if out == ["mutated-argument"] then "propfail argument-mutated" else
    match ngeom out with
    | none => "bad output"
    | some (cl, o) =>
      match o with
      | eq :: indep :: bt =>
        let vF := toFN v
        let mclone := cloneN v
        let mb : Option (Bound Float) := if vF.isNilIface then none else some (boundN ebF vF)
        let meq := b2s (equalN vF (toFN mclone))
        let model := showN mclone ++ " " ++ meq ++ " 1" ++
          (match mb with | none => " nobound" | some b => " " ++ showBoundF b)
        -- implementation's outcome; the clone bit for bit (nil-ness included), bounds modulo float ==
        let implB := (boundP bt).map (·.1)
        let okClone := showN cl == showN mclone
        let okBound := match mb, implB with
          | none, none => bt == ["nobound"]
          | some b, some b' => boundSameF b b'
          | _, _ => false
        let agree := okClone && eq == meq && okBound
        let fin (s : String) : String := if s.startsWith "propfail" || agree then s else "diff " ++ model
        -- executable property on the implementation's outcome (a property failure outranks a mere disagreement)
        fin <|
        -- NaN coordinates are outside the order (and `==` is not reflexive on them): the clauses about
        -- equality and the box are not judged; the clone (bit for bit), Equal's answer and the box are
        -- compared with the Float twin (`agree`), memory independence is judged as everywhere
        if (coordsN vF).any Float.isNaN then
          (if indep != "1" then "propfail clone-shares-memory" else
           match v with | .collection _ => "ok nan-twin-coll" | _ => "ok nan-twin") else
        if eq != "1" then "propfail clone-not-equal" else
        if !(sameStructN vF (toFN cl)) then "propfail clone-differs" else
        if indep != "1" then "propfail clone-shares-memory" else
        let nm := if hasNilMember v then "-nilmember" else ""
        match strip vF, implB with
        | some g, some b =>
          if !boundsWF g then "ok bound-illformed" else
          (match tightBox (bverts g) with
           | none => if !b.isEmpty then "propfail bound-empty-iff"
                     else if isTypedNilTop v then "ok nilslice" else s!"ok empty{nm}"
           | some t => if b.isEmpty then "propfail bound-empty-iff"
                       else if !boundEqF b t then "propfail bound-tight" else
                       let cs := coordsN vF
                       let x := (if cs.any Float.isInf then "-inf" else "") ++
                         (if cs.any (fun c => c == 0 && signBit c) then "-negzero" else "")
                       (match g with | .collection _ => s!"ok coll{nm}{x}" | .point _ => s!"ok triv-point{x}" | _ => s!"ok geom{x}"))
        | none, none => "ok triv-nil"
        | _, _ => "bad output"
      | _ => "bad output"

/-- `pair <g> <h> => eq(g,h) eq(h,g)` -/
def handlePair (inp out : Toks) : String :=
  match (do
    let (g, i) ← ngeom inp
    let (h, _) ← ngeom i
    pure (toFN g, toFN h)) with
  | none => "bad input"
  | some (g, h) =>
    let m := b2s (equalN g h) ++ " " ++ b2s (equalN h g)
    if out == ["panic"] then "propfail panic" else
    if out.length != 2 then "bad output" else
    let agree := out == [b2s (equalN g h), b2s (equalN h g)]
    let fin (s : String) : String := if s.startsWith "propfail" || agree then s else "diff " ++ m
    fin <|
    let e := out.head! == "1"
    -- NaN coordinates: correspondence with the twin only (`agree`)
    if (coordsN g).any Float.isNaN || (coordsN h).any Float.isNaN then
      (if e then "ok nan-twin-equal" else "ok nan-twin-unequal") else
    if out.head! != out.getLast! then "propfail equal-symmetric" else
    if e != sameStructN g h then "propfail equal-structural" else
    let nm := if hasNilMember g || hasNilMember h then "-nilmember" else ""
    -- equal as values but not bit for bit: the sign of a zero
    let rep := if e && (coordsN g).map Float.toBits != (coordsN h).map Float.toBits then "-zerosign" else ""
    let x := if (coordsN g).any Float.isInf || (coordsN h).any Float.isInf then "-inf" else ""
    if e then s!"ok equal{nm}{rep}{x}" else s!"ok unequal{nm}{x}"

/-- `bounds b1 b2 b3 p => u12 u21 u12_3 u1_23 ext1p c1p i12 i21 u11` -/
def handleBounds (inp out : Toks) : String :=
  match (do
    let (b1, i) ← boundP inp
    let (b2, i) ← boundP i
    let (b3, i) ← boundP i
    let (p, _) ← pt i
    let (u12, o) ← boundP out
    let (u21, o) ← boundP o
    let (u123, o) ← boundP o
    let (u1_23, o) ← boundP o
    let (e1p, o) ← boundP o
    let (c1p, o) ← nat o
    let (i12, o) ← nat o
    let (i21, o) ← nat o
    let (u11, _) ← boundP o
    pure (b1, b2, b3, mapPt Float.ofBits p, u12, u21, u123, u1_23, e1p, c1p == 1, i12 == 1, i21 == 1, u11)) with
  | none => if out == ["panic"] then "propfail panic" else "bad bounds"
  | some (b1, b2, b3, p, u12, u21, u123, u1_23, e1p, c1p, i12, i21, u11) =>
    -- correspondence with the model
    let ok := boundSameF (b1.union b2) u12 && boundSameF (b2.union b1) u21 &&
      boundSameF ((b1.union b2).union b3) u123 && boundSameF (b1.union (b2.union b3)) u1_23 &&
      boundSameF (b1.extend p) e1p && b1.contains p == c1p && b1.intersects b2 == i12 && b2.intersects b1 == i21 &&
      boundSameF (b1.union b1) u11
    let fin (s : String) : String := if s.startsWith "propfail" || ok then s else "diff " ++ showBoundF (b1.union b2) ++ " …"
    fin <|
    -- NaN coordinates are outside the order: the lattice laws are not judged, the nine answers are
    -- compared with the Float twin (`ok`)
    if boundHasNaN b1 || boundHasNaN b2 || boundHasNaN b3 || p.x.isNaN || p.y.isNaN then "ok nan-twin-bounds" else
    -- lattice laws on the implementation's outcome (∅ is the identity; empties compare as empty)
    let same (a b : Bound Float) : Bool := (a.isEmpty && b.isEmpty) || boundEqF a b
    let ne (b : Bound Float) : Bool := !b.isEmpty
    if !(same u12 u21) then "propfail union-comm" else
    if !(same u123 u1_23) then "propfail union-assoc" else
    if !(same u11 b1) then "propfail union-idem" else
    if b2.isEmpty && !(same u12 b1) then "propfail union-identity" else
    if b1.isEmpty && !(same u12 b2) then "propfail union-identity-left" else
    if !(same e1p (b1.union ⟨p, p⟩)) then "propfail extend-union-point" else
    if !(e1p.contains p) then "propfail extend-contains" else
    if c1p && ne b1 && !(same e1p b1) then "propfail extend-absorb" else
    if i12 != i21 then "propfail intersects-symmetric" else
    -- non-empty boxes intersect iff they share a point (the max of mins ≤ min of maxes)
    let common := (if b1.lo.x < b2.lo.x then b2.lo.x else b1.lo.x) ≤ (if b1.hi.x < b2.hi.x then b1.hi.x else b2.hi.x) &&
                  (if b1.lo.y < b2.lo.y then b2.lo.y else b1.lo.y) ≤ (if b1.hi.y < b2.hi.y then b1.hi.y else b2.hi.y)
    if ne b1 && ne b2 && i12 != common then "propfail intersects-iff-common-point" else
    -- union is the least upper bound of non-empty boxes
    if ne b1 && ne b2 && !(u12.contains b1.lo && u12.contains b1.hi && u12.contains b2.lo && u12.contains b2.hi) then "propfail union-contains" else
    if ne b1 && ne b2 then
      let t := tightBox [b1.lo, b1.hi, b2.lo, b2.hi]
      (match t with
       | some t =>
         let x := if [b1.lo.x, b1.lo.y, b1.hi.x, b1.hi.y, b2.lo.x, b2.lo.y, b2.hi.x, b2.hi.y, p.x, p.y].any Float.isInf then "-inf" else ""
         if !boundEqF t u12 then "propfail union-least" else (if i12 then s!"ok meet{x}" else s!"ok apart{x}")
       | none => "ok")
    else "ok with-empty"

/-- `rev <n pts> => <n pts reversed> <n pts reversed twice>` -/
def handleRev (inp out : Toks) : String :=
  match pts inp with
  | none => "bad input"
  | some (ps, _) =>
    if out == ["panic"] then "propfail panic" else
    match (do
      let (r1, o) ← pts out
      let (r2, _) ← pts o
      pure (r1, r2)) with
    | none => "bad output"
    | some (r1, r2) =>
      let m := Core.reverse ps
      let agree := showPts m == showPts r1 && showPts (Core.reverse m) == showPts r2
      let fin (s : String) : String := if s.startsWith "propfail" || agree then s else "diff " ++ showPts m
      fin <|
      if showPts r1 != showPts ps.reverse then "propfail reverse-order" else
      if showPts r2 != showPts ps then "propfail reverse-involution" else
      if ps.length ≤ 1 then "ok triv-short" else "ok rev"

/-- `orient <n pts> => o o_rev`.  The Float twin is compared on every input.  The clause "reversing
    negates the orientation" is a statement of exact arithmetic (theorem `orientation_reverse`); it is
    judged where the float signs are the exact ones — the exact value is computed over `Rat` from the
    bit patterns, so half-integers and general finite floats are judged too, not only integers. -/
def handleOrient (inp out : Toks) : String :=
  match pts inp with
  | none => "bad input"
  | some (ps, _) =>
    if out == ["panic"] then "propfail panic" else
    match out with
    | [o, orv] =>
      let rats := ps.filterMap fun p => do
        let x ← bitsToRat? p.x
        let y ← bitsToRat? p.y
        pure (⟨x, y⟩ : Pt Rat)
      let isInt := ps.all fun p => (bitsToInt? p.x).isSome && (bitsToInt? p.y).isSome
      let fl := ps.map (mapPt Float.ofBits)
      let mF := Core.orientation fl
      let mFr := Core.orientation (Core.reverse fl)
      let agree := toString mF == o && toString mFr == orv
      let fin (s : String) : String := if s.startsWith "propfail" || agree then s else s!"diff {mF} {mFr}"
      fin <|
      if rats.length != ps.length then "skip non-finite" else
      let mI := Core.orientation rats
      let mIr := Core.orientation (Core.reverse rats)
      if mI != mF || mIr != mFr then "skip rounding-sensitive" else
      if toString mI != o then "propfail orientation-sign" else
      -- property: reversing negates the orientation
      if orv.toInt? != some (-mI) then "propfail orientation-reverse" else
      let k := if isInt then "" else "-float"
      if mI == 0 then s!"ok degenerate{k}" else s!"ok orient{k}"
    | _ => "bad output"

/-! ### `orb.Round` (model `Orb.Round`, Float instance `goEnv`) -/

/-- kind, nesting, lengths and nil-ness of a value: the value with its coordinates erased -/
def shapeN (g : NGeom UInt64) : String := showN (g.map fun _ => (0 : UInt64))

def isTypedNil {α : Type} : NGeom α → Bool
  | .multiPoint none | .lineString none | .multiLineString none | .ring none | .polygon none
  | .multiPolygon none | .nilCollection => true
  | _ => false

partial def hasTypedNilMember {α : Type} : NGeom α → Bool
  | .collection gs => gs.any fun g => isTypedNil g || hasTypedNilMember g
  | _ => false

partial def hasCollMember {α : Type} : NGeom α → Bool
  | .collection gs => !gs.isEmpty
  | _ => false

/-- the shape with every typed nil slice (top level or member of a collection, at any depth) replaced
    by the nil interface: what `Round` returns for it -/
partial def typedNilToIface {α : Type} : NGeom α → NGeom α
  | .collection gs => .collection (gs.map typedNilToIface)
  | g => if isTypedNil g then .nilIface else g

/-- `round k <factor…> <g> => <result> <argument after the call> <same-memory> <result of a second call>`
    and `roundd <default factor bits> <g> => …` (no factor argument, `orb.DefaultRoundingFactor` set
    to the given value for the call). -/
def handleRoundWith (dflt : Float) (factors : List Int) (inp out : Toks) : String :=
  match ngeom inp with
  | none => "bad input"
  | some (v, _) =>
    if out == ["panic"] then "propfail panic" else
    match (do
      let (r, o) ← ngeom out
      let (a, o) ← ngeom o
      let (same, o) ← nat o
      let (r2, o) ← ngeom o
      if o != [] then none else pure (r, a, same, r2)) with
    | none => "bad output"
    | some (r, a, same, r2) =>
      let env := Orb.Round.goEnv dflt
      let f := Orb.Round.factorOf env factors
      let vF := toFN v
      -- the model (twin): result, the argument afterwards, a second call on the result
      let mr := Orb.Round.roundN env f vF
      let ma := Orb.Round.argAfterN env f vF
      let mr2 := Orb.Round.roundN env f mr
      let model := showN (ofFN mr) ++ " " ++ showN (ofFN ma) ++ " 1 " ++ showN (ofFN mr2)
      let agree := showN (canonN r) == showN (ofFN mr) && showN (canonN a) == showN (ofFN ma) && same == 1 &&
        showN (canonN r2) == showN (ofFN mr2)
      let fin (s : String) : String := if s.startsWith "propfail" || agree then s else "diff " ++ model
      fin <|
      -- (1) kind, nesting, lengths and nil-ness are those of the argument
      if shapeN r != shapeN v then "propfail round-shape" else
      -- (2) every coordinate x became math.Round(x*f)/f, with the ONE factor of the call at every depth
      let want := (coordsN vF).map fun x => (Orb.Round.rc env.rnd f x).toBits
      let got := (coordsN (toFN r)).map Float.toBits
      if want != got then "propfail round-vertex" else
      -- (3) the argument afterwards: a Point / Bound is passed by value and a typed nil slice stays what it
      --     was; everything else reads as the result
      let byValue := (match v with | .point _ | .bound _ _ => true | _ => false) || isTypedNil v
      if byValue && showN (canonN a) != showN (canonN v) then "propfail round-argument-by-value" else
      if !byValue && showN (canonN a) != showN (canonN r) then "propfail round-argument-in-place" else
      -- (4) idempotent whenever round(round(x*f)/f*f) = round(x*f) for every coordinate (theorem round_idem)
      let hyp := (coordsN vF).all fun x =>
        (env.rnd (Orb.Round.rc env.rnd f x * f)).toBits == (env.rnd (x * f)).toBits
      if hyp && showN (canonN r2) != showN (canonN r) then "propfail round-idempotent" else
      -- Go's math.Round against libm's round (what `Float.round` is)
      if !((coordsN vF).all fun x => (env.rnd (x * f)).toBits == (Float.round (x * f)).toBits) then "diff goRound-vs-libm" else
      let cs := coordsN (toFN r)
      let k := if v.isNilIface then "triv-round-nil"
        else if cs.isEmpty then "round-novertex"
        else if cs.any Float.isNaN then "round-nan"
        else if cs.any Float.isInf then "round-inf"
        else if hyp then "round" else "round-not-idempotent"
      let c := match v with | .collection _ => "-coll" | _ => ""
      s!"ok {k}{c}"

def handleRound (inp out : Toks) : String :=
  match (do
    let (k, t) ← nat inp
    let (fs, t) ← many Orb.Proto.int k t
    pure (fs, t)) with
  | none => "bad input"
  | some (fs, t) => handleRoundWith 1000000.0 fs t out

def handleRoundD (inp out : Toks) : String :=
  match bits inp with
  | none => "bad input"
  | some (d, t) => handleRoundWith (Float.ofBits d) [] t out

/-! ### alias structure: the heap model `Orb.Heap` against the real backing arrays -/

/-- every point slice of a value, in traversal order (= the order of `Heap.footprint`) -/
partial def slicesOf : Geom UInt64 → List (List (Pt UInt64))
  | .multiPoint p | .lineString p | .ring p => [p]
  | .multiLineString ls | .polygon ls => ls
  | .multiPolygon ps => ps.flatten
  | .collection gs => gs.flatMap slicesOf
  | _ => []

/-- headers of a value whose j-th point slice (traversal order) is array `ids[j]` -/
partial def toHeap : Geom UInt64 → List Nat → Heap.HGeom UInt64 × List Nat
  | .point p, ids => (.point p, ids)
  | .bound a b, ids => (.bound a b, ids)
  | .multiPoint _, ids => (.multiPoint ids.head!, ids.drop 1)
  | .lineString _, ids => (.lineString ids.head!, ids.drop 1)
  | .ring _, ids => (.ring ids.head!, ids.drop 1)
  | .multiLineString ls, ids => (.multiLineString (ids.take ls.length), ids.drop ls.length)
  | .polygon ls, ids => (.polygon (ids.take ls.length), ids.drop ls.length)
  | .multiPolygon ps, ids =>
    let r := ps.foldl (fun (acc : List (List Nat) × List Nat) pg =>
      (acc.1 ++ [acc.2.take pg.length], acc.2.drop pg.length)) ([], ids)
    (.multiPolygon r.1, r.2)
  | .collection gs, ids =>
    let r := gs.foldl (fun (acc : List (Heap.HGeom UInt64) × List Nat) g =>
      let h := toHeap g acc.2
      (acc.1 ++ [h.1], h.2)) ([], ids)
    (.collection r.1, r.2)

/-- name array ids by small integers in order of first occurrence (what the Go side prints for pointers) -/
def canonIds (ids : List Nat) : List Nat :=
  (ids.foldl (fun (acc : List (Nat × Nat) × List Nat) a =>
    match acc.1.lookup a with
    | some n => (acc.1, acc.2 ++ [n])
    | none => ((a, acc.1.length) :: acc.1, acc.2 ++ [acc.1.length])) ([], [])).2

def showNats (l : List Nat) : String := l.foldl (fun s n => s ++ " " ++ toString n) (toString l.length)

def sentinelPt : Pt UInt64 := ⟨0x4197d78400000000, 0xc197d78400000000⟩

/-- `alias <g> k s_0 … s_{k-1} j i => <orig> <clone> no c… nc c… ovOC ovCC indep <write-orig> <write-clone>` -/
def handleAlias (inp out : Toks) : String :=
  match (do
    let (g, t) ← geom inp
    let (slots, t) ← counted nat t
    let (j, t) ← nat t
    let (i, _) ← nat t
    pure (g, slots, j, i)) with
  | none => "bad input"
  | some (g, slots, j, i) =>
    let σ : Heap.Store UInt64 := slicesOf g
    if slots.length != σ.length || !((slots.zipIdx).all fun (s, ix) => s ≤ ix && slots.getD s 0 == s) then "bad slots" else
    if out == ["panic"] then "propfail panic" else
    if out == ["mutated-argument"] then "propfail argument-mutated" else
    -- the model: original headers, the clone call, footprints, one write through either side
    let hg := (toHeap g slots).1
    let r := Heap.clone σ hg
    let σ' := r.1
    let hc := r.2
    let fo := Heap.footprint hg
    let fc := Heap.footprint hc
    let ne (a : Nat) : Bool := !(Heap.read σ' a).isEmpty
    let cls := canonIds (fo.filter ne ++ fc.filter ne)
    let no := (fo.filter ne).length
    let vo := Heap.denote σ' hg
    let vc := Heap.denote σ' hc
    let probe (fp : List Nat) : String :=
      if j < fp.length && i < (Heap.read σ' (fp.getD j 0)).length then
        let σw := Heap.write σ' (fp.getD j 0) i sentinelPt
        showGeom (Heap.denote σw hg) ++ " " ++ showGeom (Heap.denote σw hc)
      else "nowrite"
    let model := showGeom vo ++ " " ++ showGeom vc ++ " " ++ showNats (cls.take no) ++ " " ++ showNats (cls.drop no) ++
      " 0 0 1 " ++ probe fo ++ " " ++ probe fc
    let agree := splitLine model == out
    let fin (s : String) : String := if s.startsWith "propfail" || agree then s else "diff " ++ model
    -- the implementation's outcome
    match (do
      let (go, t) ← geom out
      let (gc, t) ← geom t
      let (co, t) ← counted nat t
      let (cc, t) ← counted nat t
      let (ovOC, t) ← nat t
      let (ovCC, t) ← nat t
      let (indep, t) ← nat t
      let (w1, t) ← (match t with
        | "nowrite" :: t => some (none, t)
        | t => do let (a, t) ← geom t; let (b, t) ← geom t; pure (some (a, b), t))
      let (w2, t) ← (match t with
        | "nowrite" :: t => some (none, t)
        | t => do let (a, t) ← geom t; let (b, t) ← geom t; pure (some (a, b), t))
      if t != [] then none else
      pure (go, gc, co, cc, ovOC, ovCC, indep, w1, w2)) with
    | none => "bad output"
    | some (go, gc, co, cc, ovOC, _ovCC, indep, w1, w2) =>
      fin <|
      -- executable statement on the implementation's outcome: the clone has the original's value …
      if showGeom go != showGeom gc then "propfail clone-differs" else
      -- … no array of the clone is (or overlaps) an array of the original …
      if cc.any (fun n => co.contains n) || ovOC != 0 then "propfail clone-shares-memory arrays" else
      -- … and mutating either leaves the other unchanged (every vertex: `indep`; the probed vertex: values)
      if indep != 1 then "propfail clone-shares-memory mutation" else
      if (match w1 with | some (_, c1) => showGeom c1 != showGeom gc | none => false) then
        "propfail clone-shares-memory write-original" else
      if (match w2 with | some (o2, _) => showGeom o2 != showGeom go | none => false) then
        "propfail clone-shares-memory write-clone" else
      -- the model's own prediction, evaluated (theorems clone_fresh / clone_denote on this instance)
      if !(fc.all fun a => σ.length ≤ a && !fo.contains a) || fc.eraseDups.length != fc.length then "diff model-not-fresh" else
      if no == 0 then "ok triv-alias-noarrays" else
      let shared := (fo.filter ne).eraseDups.length != no
      let wr := if w1.isSome then "-write" else ""
      if shared then s!"ok alias-shared-original{wr}" else s!"ok alias-plain{wr}"

def handle (ts : Toks) : String :=
  match ts with
  | op :: rest =>
    let (inp, out) := splitArrow rest
    match op with
    | "geom" => handleGeom inp out
    | "pair" => handlePair inp out
    | "bounds" => handleBounds inp out
    | "rev" => handleRev inp out
    | "orient" => handleOrient inp out
    | "round" => handleRound inp out
    | "roundd" => handleRoundD inp out
    | "alias" => handleAlias inp out
    | _ => "bad op " ++ op
  | [] => "bad empty"

end Driver.C06
