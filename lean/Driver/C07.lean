import Orb.Proto
import Orb.Clip

/-! Driver for C07 (line clipping) — shared clip glue is reused by C08. -/
namespace Driver.C07
open Orb Orb.Proto Orb.Core Orb.Clip

abbrev F := Float
abbrev Q := Rat

def ptsF (ps : List (Pt UInt64)) : List (Pt F) := ps.map (mapPt Float.ofBits)
def ptsQ (ps : List (Pt UInt64)) : Option (List (Pt Q)) :=
  ps.mapM fun p => do
    let x ← bitsToRat? p.x
    let y ← bitsToRat? p.y
    pure ⟨x, y⟩

def boundP : P (Bound UInt64) := fun ts => do
  let (a, ts) ← pt ts
  let (b, ts) ← pt ts
  pure (⟨a, b⟩, ts)
def boundF (b : Bound UInt64) : Bound F := ⟨mapPt Float.ofBits b.lo, mapPt Float.ofBits b.hi⟩
def boundQ (b : Bound UInt64) : Option (Bound Q) := do
  let lx ← bitsToRat? b.lo.x; let ly ← bitsToRat? b.lo.y
  let hx ← bitsToRat? b.hi.x; let hy ← bitsToRat? b.hi.y
  pure ⟨⟨lx, ly⟩, ⟨hx, hy⟩⟩

def showPtsF (ps : List (Pt F)) : String :=
  ps.foldl (fun s p => s ++ " " ++ floatToHex p.x ++ " " ++ floatToHex p.y) (toString ps.length)
def showMlsF (l : List (List (Pt F))) : String :=
  l.foldl (fun s p => s ++ " " ++ showPtsF p) (toString l.length)

/-- remove consecutive duplicates -/
def dedup (ps : List (Pt Q)) : List (Pt Q) :=
  match ps with
  | [] => []
  | p :: rest =>
    let rec go (prev : Pt Q) : List (Pt Q) → List (Pt Q)
      | [] => []
      | q :: t => if q == prev then go prev t else q :: go q t
    p :: go p rest

/-- drop interior vertices that are collinear between their neighbours (same direction) -/
def dropCollinear : List (Pt Q) → List (Pt Q)
  | a :: b :: c :: rest =>
    let cr := (b.x - a.x) * (c.y - b.y) - (b.y - a.y) * (c.x - b.x)
    let dt := (b.x - a.x) * (c.x - b.x) + (b.y - a.y) * (c.y - b.y)
    if cr == 0 && dt > 0 then dropCollinear (a :: c :: rest)
    else a :: dropCollinear (b :: c :: rest)
  | l => l
termination_by l => l.length

def normPieces (l : List (List (Pt Q))) : List (List (Pt Q)) := l.map fun p => dropCollinear (dedup p)

/-- consecutive points closer than 1e-9 are merged (for results affected by rounding) -/
def dedupApprox (ps : List (Pt Q)) : List (Pt Q) :=
  let near (a b : Pt Q) : Bool := (a.x - b.x).abs ≤ (1 : Q) / 1000000000 && (a.y - b.y).abs ≤ (1 : Q) / 1000000000
  match ps with
  | [] => []
  | p :: rest =>
    let rec go (prev : Pt Q) : List (Pt Q) → List (Pt Q)
      | [] => []
      | q :: t => if near q prev then go prev t else q :: go q t
    p :: go p rest

/-- `dropCollinear` with a tolerance: `b` is dropped when the turn at `b` has sin² ≤ 1e-18 and the
    direction is kept.  (A clipped end point that float64 rounds off the carrier line by an ulp makes an
    exactly collinear run a→b→c inexactly collinear: the Go result keeps `b`, the exact one drops it;
    both sides are normalised with this function before a tolerant comparison.) -/
def dropCollinearApprox : List (Pt Q) → List (Pt Q)
  | a :: b :: c :: rest =>
    let cr := (b.x - a.x) * (c.y - b.y) - (b.y - a.y) * (c.x - b.x)
    let dt := (b.x - a.x) * (c.x - b.x) + (b.y - a.y) * (c.y - b.y)
    let n1 := (b.x - a.x) * (b.x - a.x) + (b.y - a.y) * (b.y - a.y)
    let n2 := (c.x - b.x) * (c.x - b.x) + (c.y - b.y) * (c.y - b.y)
    if cr * cr * 1000000000000000000 ≤ n1 * n2 && dt > 0 then dropCollinearApprox (a :: c :: rest)
    else a :: dropCollinearApprox (b :: c :: rest)
  | l => l
termination_by l => l.length

def normPiecesApprox (l : List (List (Pt Q))) : List (List (Pt Q)) := l.map fun p => dropCollinearApprox (dedupApprox p)

/-! ### the specification: Liang–Barsky per segment, exact -/

/-- closed / open intersection of `{a + t(b-a) | t ∈ [0,1]}` with the box, as a parameter interval -/
def lbInterval (box : Bound Q) (isOpen : Bool) (a b : Pt Q) : Option (Q × Q) :=
  -- each constraint lo ≤ a + t d ≤ hi narrows [t0, t1]
  let axis (a d lo hi : Q) (iv : Option (Q × Q)) : Option (Q × Q) :=
    match iv with
    | none => none
    | some (t0, t1) =>
      if d == 0 then
        (if isOpen then (if lo < a && a < hi then some (t0, t1) else none)
         else (if lo ≤ a && a ≤ hi then some (t0, t1) else none))
      else
        let ta := (lo - a) / d
        let tb := (hi - a) / d
        let (tmin, tmax) := if ta ≤ tb then (ta, tb) else (tb, ta)
        let t0' := if tmin > t0 then tmin else t0
        let t1' := if tmax < t1 then tmax else t1
        if isOpen then (if t0' < t1' then some (t0', t1') else none)
        else (if t0' ≤ t1' then some (t0', t1') else none)
  let iv := axis a.x (b.x - a.x) box.lo.x box.hi.x (some (0, 1))
  let iv := axis a.y (b.y - a.y) box.lo.y box.hi.y iv
  match iv with
  | some (t0, t1) => if isOpen && !(t0 < t1) then none else some (t0, t1)
  | none => none

def lerp (a b : Pt Q) (t : Q) : Pt Q := ⟨a.x + t * (b.x - a.x), a.y + t * (b.y - a.y)⟩

def strictlyInside (box : Bound Q) (p : Pt Q) : Bool :=
  box.lo.x < p.x && p.x < box.hi.x && box.lo.y < p.y && p.y < box.hi.y
def inClosed (box : Bound Q) (p : Pt Q) : Bool :=
  box.lo.x ≤ p.x && p.x ≤ box.hi.x && box.lo.y ≤ p.y && p.y ≤ box.hi.y

/-- pieces of `input ∩ box` in travel order: consecutive segment parts are joined when they meet
    at a shared vertex that is inside (closed mode) / strictly inside (open mode) -/
def specPieces (box : Bound Q) (isOpen : Bool) (inp : List (Pt Q)) : List (List (Pt Q)) :=
  let rec go (ps : List (Pt Q)) (cur : List (Pt Q)) (acc : List (List (Pt Q))) : List (List (Pt Q)) :=
    match ps with
    | a :: b :: rest =>
      (match lbInterval box isOpen a b with
       | none =>
         go (b :: rest) [] (if cur.isEmpty then acc else acc ++ [cur])
       | some (t0, t1) =>
         let p0 := lerp a b t0
         let p1 := lerp a b t1
         -- does this part continue the current piece? only if it starts at the vertex `a` itself
         let cont := !cur.isEmpty && t0 == 0
         let cur' := if cont then cur ++ [p0, p1] else [p0, p1]
         let acc' := if cont || cur.isEmpty then acc else acc ++ [cur]
         -- the piece can continue past `b` only if the part reaches `b` and `b` is inside
         let reaches := t1 == 1 && (if isOpen then strictlyInside box b else inClosed box b)
         if reaches then go (b :: rest) cur' acc'
         else go (b :: rest) [] (acc' ++ [cur']))
    | _ => if cur.isEmpty then acc else acc ++ [cur]
  go inp [] []

def parseMls (ts : Toks) : Option (List (List (Pt UInt64)) × Toks) := ptss ts

/-- `line <open> <box> <pts> => <mls> <idem> <unmod>` -/
def handleLine (inp out : Toks) : String :=
  match (do
    let (o, i) ← nat inp
    let (b, i) ← boundP i
    let (ps, _) ← pts i
    pure (o == 1, b, ps)) with
  | none => "bad input"
  | some (isOpen, b, ps) =>
    if out == ["panic"] then "propfail panic" else
    match (do
      let (mls, o) ← parseMls out
      let (idem, o) ← nat o
      let (unmod, _) ← nat o
      pure (mls, idem == 1, unmod == 1)) with
    | none => "bad output"
    | some (mls, idem, unmod) =>
      -- Float twin
      let m := line (boundF b) isOpen (ptsF ps)
      let ms := match m with | some l => showMlsF l | none => "stuck"
      let got := showMlsF (mls.map ptsF)
      let agree := ms == got
      let fin (s : String) : String := if s.startsWith "propfail" || agree then s else "diff " ++ ms
      fin <|
      if !unmod then "propfail input-modified" else
      if !idem then "propfail not-idempotent" else
      -- exact instance
      match boundQ b, ptsQ ps, mls.mapM ptsQ with
      | some bq, some pq, some outq =>
        if !(bq.lo.x < bq.hi.x && bq.lo.y < bq.hi.y) then "skip degenerate-box" else
        -- vertices in the box (exact: the clipped coordinate is set to the edge value; the other one is interpolated)
        let mq := line bq isOpen pq
        let exact := match mq with
          | some l => l == outq
          | none => false
        let spec := normPieces (specPieces bq isOpen pq)
        -- single-point pieces (zero-length touches of the boundary)
        let strip (l : List (List (Pt Q))) : List (List (Pt Q)) := l.filter fun p => p.length > 1
        let close (a b : Q) : Bool := (a - b).abs ≤ (1 : Q) / 1000000000
        let approxEq (x y : List (List (Pt Q))) : Bool :=
          x.length == y.length && (x.zip y).all fun (p, q) =>
            p.length == q.length && (p.zip q).all fun (u, v) => close u.x v.x && close u.y v.y
        let judge (gotN : List (List (Pt Q))) (isExact : Bool) : String :=
          let spec := if isExact then spec else normPiecesApprox spec
          if (if isExact then gotN == spec else approxEq gotN spec) then
            (if gotN.isEmpty then "ok none-inside" else if gotN.length > 1 then "ok multi-piece" else "ok one-piece")
              ++ (if isExact then "" else " approx")
          else if isOpen && (if isExact then strip gotN == spec else approxEq (strip gotN) spec) then
            "propfail open-zero-length-touch"
          else if !isExact && approxEq (strip gotN) (strip spec) then
            "propfail missing-portion zero-length rounding-sensitive"
          else if (strip gotN).length < (strip spec).length then "propfail missing-portion"
          else "propfail pieces-differ"
        if !(outq.all fun piece => piece.all fun v =>
              bq.lo.x - 1/1000000000 ≤ v.x && v.x ≤ bq.hi.x + 1/1000000000 &&
              bq.lo.y - 1/1000000000 ≤ v.y && v.y ≤ bq.hi.y + 1/1000000000) then "propfail vertex-outside-box" else
        if exact then judge (normPieces outq) true
        else
          (match mq with
           | none => "propfail model-stuck"
           | some l =>
             -- the exact model itself must meet the spec (modulo the open-mode touch class) …
             let mN := normPieces l
             if !(mN == spec || (isOpen && strip mN == spec)) then "propfail exact-model-vs-spec"
             -- … and the float result is judged with a 1e-9 tolerance
             else judge (normPiecesApprox outq) false)
      | _, _, _ => "skip non-finite"

def handle (ts : Toks) : String :=
  match ts with
  | op :: rest =>
    let (inp, out) := splitArrow rest
    match op with
    | "line" => handleLine inp out
    | _ => "bad op " ++ op
  | [] => "bad empty"

end Driver.C07
