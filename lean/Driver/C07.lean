import Orb.Proto
import Orb.Clip
import Orb.ClipOptions

/-! Driver for C07 (line clipping) — shared clip glue is reused by C08. -/
namespace Driver.C07
open Orb Orb.Proto Orb.Core Orb.Clip

abbrev F := Float
abbrev Q := Rat

def ptsF (ps : List (Pt UInt64)) : List (Pt F) := ps.map (mapPt Float.ofBits)
def ptsQ (ps : List (Pt UInt64)) : Option (List (Pt Q)) :=
  ps.mapM fun p => do
    let x ← bitsToRat? p.x
    let y ← bitsToRat? p.y
    pure ⟨x, y⟩

def boundP : P (Bound UInt64) := fun ts => do
  let (a, ts) ← pt ts
  let (b, ts) ← pt ts
  pure (⟨a, b⟩, ts)
def boundF (b : Bound UInt64) : Bound F := ⟨mapPt Float.ofBits b.lo, mapPt Float.ofBits b.hi⟩
def boundQ (b : Bound UInt64) : Option (Bound Q) := do
  let lx ← bitsToRat? b.lo.x; let ly ← bitsToRat? b.lo.y
  let hx ← bitsToRat? b.hi.x; let hy ← bitsToRat? b.hi.y
  pure ⟨⟨lx, ly⟩, ⟨hx, hy⟩⟩

def showPtsF (ps : List (Pt F)) : String :=
  ps.foldl (fun s p => s ++ " " ++ floatToHex p.x ++ " " ++ floatToHex p.y) (toString ps.length)
def showMlsF (l : List (List (Pt F))) : String :=
  l.foldl (fun s p => s ++ " " ++ showPtsF p) (toString l.length)

/-- remove consecutive duplicates -/
def dedup (ps : List (Pt Q)) : List (Pt Q) :=
  match ps with
  | [] => []
  | p :: rest =>
    let rec go (prev : Pt Q) : List (Pt Q) → List (Pt Q)
      | [] => []
      | q :: t => if q == prev then go prev t else q :: go q t
    p :: go p rest

/-- drop interior vertices that are collinear between their neighbours (same direction) -/
def dropCollinear : List (Pt Q) → List (Pt Q)
  | a :: b :: c :: rest =>
    let cr := (b.x - a.x) * (c.y - b.y) - (b.y - a.y) * (c.x - b.x)
    let dt := (b.x - a.x) * (c.x - b.x) + (b.y - a.y) * (c.y - b.y)
    if cr == 0 && dt > 0 then dropCollinear (a :: c :: rest)
    else a :: dropCollinear (b :: c :: rest)
  | l => l
termination_by l => l.length

def normPieces (l : List (List (Pt Q))) : List (List (Pt Q)) := l.map fun p => dropCollinear (dedup p)

/-- consecutive points closer than 1e-9 are merged (for results affected by rounding) -/
def dedupApprox (ps : List (Pt Q)) : List (Pt Q) :=
  let near (a b : Pt Q) : Bool := (a.x - b.x).abs ≤ (1 : Q) / 1000000000 && (a.y - b.y).abs ≤ (1 : Q) / 1000000000
  match ps with
  | [] => []
  | p :: rest =>
    let rec go (prev : Pt Q) : List (Pt Q) → List (Pt Q)
      | [] => []
      | q :: t => if near q prev then go prev t else q :: go q t
    p :: go p rest

/-- `dropCollinear` with a tolerance: `b` is dropped when the turn at `b` has sin² ≤ 1e-18 and the
    direction is kept.  (A clipped end point that float64 rounds off the carrier line by an ulp makes an
    exactly collinear run a→b→c inexactly collinear: the Go result keeps `b`, the exact one drops it;
    both sides are normalised with this function before a tolerant comparison.) -/
def dropCollinearApprox : List (Pt Q) → List (Pt Q)
  | a :: b :: c :: rest =>
    let cr := (b.x - a.x) * (c.y - b.y) - (b.y - a.y) * (c.x - b.x)
    let dt := (b.x - a.x) * (c.x - b.x) + (b.y - a.y) * (c.y - b.y)
    let n1 := (b.x - a.x) * (b.x - a.x) + (b.y - a.y) * (b.y - a.y)
    let n2 := (c.x - b.x) * (c.x - b.x) + (c.y - b.y) * (c.y - b.y)
    if cr * cr * 1000000000000000000 ≤ n1 * n2 && dt > 0 then dropCollinearApprox (a :: c :: rest)
    else a :: dropCollinearApprox (b :: c :: rest)
  | l => l
termination_by l => l.length

def normPiecesApprox (l : List (List (Pt Q))) : List (List (Pt Q)) := l.map fun p => dropCollinearApprox (dedupApprox p)

/-! ### the specification: Liang–Barsky per segment, exact -/

/-- closed / open intersection of `{a + t(b-a) | t ∈ [0,1]}` with the box, as a parameter interval -/
def lbInterval (box : Bound Q) (isOpen : Bool) (a b : Pt Q) : Option (Q × Q) :=
  -- each constraint lo ≤ a + t d ≤ hi narrows [t0, t1]
  let axis (a d lo hi : Q) (iv : Option (Q × Q)) : Option (Q × Q) :=
    match iv with
    | none => none
    | some (t0, t1) =>
      if d == 0 then
        (if isOpen then (if lo < a && a < hi then some (t0, t1) else none)
         else (if lo ≤ a && a ≤ hi then some (t0, t1) else none))
      else
        let ta := (lo - a) / d
        let tb := (hi - a) / d
        let (tmin, tmax) := if ta ≤ tb then (ta, tb) else (tb, ta)
        let t0' := if tmin > t0 then tmin else t0
        let t1' := if tmax < t1 then tmax else t1
        if isOpen then (if t0' < t1' then some (t0', t1') else none)
        else (if t0' ≤ t1' then some (t0', t1') else none)
  let iv := axis a.x (b.x - a.x) box.lo.x box.hi.x (some (0, 1))
  let iv := axis a.y (b.y - a.y) box.lo.y box.hi.y iv
  match iv with
  | some (t0, t1) => if isOpen && !(t0 < t1) then none else some (t0, t1)
  | none => none

def lerp (a b : Pt Q) (t : Q) : Pt Q := ⟨a.x + t * (b.x - a.x), a.y + t * (b.y - a.y)⟩

def strictlyInside (box : Bound Q) (p : Pt Q) : Bool :=
  box.lo.x < p.x && p.x < box.hi.x && box.lo.y < p.y && p.y < box.hi.y
def inClosed (box : Bound Q) (p : Pt Q) : Bool :=
  box.lo.x ≤ p.x && p.x ≤ box.hi.x && box.lo.y ≤ p.y && p.y ≤ box.hi.y

/-- pieces of `input ∩ box` in travel order: consecutive segment parts are joined when they meet
    at a shared vertex that is inside (closed mode) / strictly inside (open mode) -/
def specPieces (box : Bound Q) (isOpen : Bool) (inp : List (Pt Q)) : List (List (Pt Q)) :=
  let rec go (ps : List (Pt Q)) (cur : List (Pt Q)) (acc : List (List (Pt Q))) : List (List (Pt Q)) :=
    match ps with
    | a :: b :: rest =>
      (match lbInterval box isOpen a b with
       | none =>
         go (b :: rest) [] (if cur.isEmpty then acc else acc ++ [cur])
       | some (t0, t1) =>
         let p0 := lerp a b t0
         let p1 := lerp a b t1
         -- does this part continue the current piece? only if it starts at the vertex `a` itself
         let cont := !cur.isEmpty && t0 == 0
         let cur' := if cont then cur ++ [p0, p1] else [p0, p1]
         let acc' := if cont || cur.isEmpty then acc else acc ++ [cur]
         -- the piece can continue past `b` only if the part reaches `b` and `b` is inside
         let reaches := t1 == 1 && (if isOpen then strictlyInside box b else inClosed box b)
         if reaches then go (b :: rest) cur' acc'
         else go (b :: rest) [] (acc' ++ [cur']))
    | _ => if cur.isEmpty then acc else acc ++ [cur]
  go inp [] []

/-- on the boundary of the box, exactly (some coordinate IS an edge value) -/
def onBoundary (box : Bound Q) (p : Pt Q) : Bool :=
  p.x == box.lo.x || p.x == box.hi.x || p.y == box.lo.y || p.y == box.hi.y

/-! ### provenance of the output vertices: COPIES and COMPUTED points

  `clip.line` pushes, for an accepted segment, its two ends `a`, `b` as they are after the inner loop.
  An end is either still the input vertex (`in[i-1]`, `in[i]`: never touched because its region code was 0,
  or — open bound — the far end that is a vertex on the boundary) — a COPY, bit-identical to an input
  vertex, no arithmetic — or it was replaced by `intersect` (which sets one coordinate to the edge value
  itself, the other one is computed: three roundings) and possibly `clampToBound` (which sets coordinates
  to edge values) — a COMPUTED point, with at least one coordinate that IS an edge value of the box.
  Exact consequences, judged with no tolerance whatever the arithmetic did:

  * every output vertex is in the closed box (a copy was compared with the edges as it is; a computed
    point is re-coded with the closed `bitCode` and clipped again or snapped until its code is 0);
  * every output vertex is an input vertex or lies on the boundary of the box (`onBoundary`);
  * every input vertex of a line of two or more vertices that lies in the closed box (closed bound) /
    strictly inside the box (open bound) comes back, bit for bit: with region code 0 the segment that
    ends there and the segment that starts there cannot be rejected (`codeA & codeB = 0`) and the loop
    ends in the accepting branch (at most two clips and a snap per end), which pushes it.

  The tolerance `tolOf` of the rounding-affected branch therefore only ever excuses the COMPUTED coordinate
  of a computed point. -/

def parseMls (ts : Toks) : Option (List (List (Pt UInt64)) × Toks) := ptss ts

/-! ### tolerance of the rounding-affected branch

  Error analysis (u = 2⁻⁵³, M = largest absolute coordinate of box and input).  One `intersect` evaluates
  `a + (b - a) * (e - a') / (b' - a')` on exact float inputs with the quotient in [0, 1]: three roundings on
  the product/quotient term (relative 5u of a term bounded by |b - a| ≤ 2M) and one on the sum (relative u
  of a value bounded by M), so the first clipped point of a segment is within 12·u·M ≈ 1.4e-15·M of the
  exact one; its clamped coordinate is exact.  A second `intersect` on the same segment starts from that
  perturbed point: the perturbation of the interpolated coordinate is multiplied by at most the slope
  (or inverse slope) S of the segment.  Segments with S > 1e4 are not judged in this branch
  (`skip steep-segment`), so every returned vertex is within (1e4 + 1)·12·u·M < 1.4e-11·M of the exact
  model's vertex.  The tolerance used is `tol = 1e-9 · max 1 M` (two orders of magnitude above the bound).
  Returned vertices are accepted only with closed region code 0, so "inside the box" is tested exactly. -/

def absMax (a b : Q) : Q := if a.abs ≤ b.abs then b.abs else a.abs

/-- M: the largest absolute coordinate of the box corners and the input vertices -/
def magnitude (box : Bound Q) (inp : List (Pt Q)) : Q :=
  inp.foldl (fun m p => absMax m (absMax p.x p.y)) (absMax (absMax box.lo.x box.lo.y) (absMax box.hi.x box.hi.y))

def tolOf (box : Bound Q) (inp : List (Pt Q)) : Q :=
  let m := magnitude box inp
  (if m ≤ 1 then 1 else m) / 1000000000

/-- some input segment is neither horizontal nor vertical and steeper (or flatter) than 1e4 -/
def hasSteep (inp : List (Pt Q)) : Bool :=
  (inp.zip (inp.drop 1)).any fun (a, b) =>
    let dx := (b.x - a.x).abs
    let dy := (b.y - a.y).abs
    dx != 0 && dy != 0 && (dy > 10000 * dx || dx > 10000 * dy)

def nearPt (tol : Q) (a b : Pt Q) : Bool := (a.x - b.x).abs ≤ tol && (a.y - b.y).abs ≤ tol

/-- consecutive points closer than `tol` are merged -/
def dedupTol (tol : Q) (ps : List (Pt Q)) : List (Pt Q) :=
  match ps with
  | [] => []
  | p :: rest =>
    let rec go (prev : Pt Q) : List (Pt Q) → List (Pt Q)
      | [] => []
      | q :: t => if nearPt tol q prev then go prev t else q :: go q t
    p :: go p rest

def normPiecesTol (tol : Q) (l : List (List (Pt Q))) : List (List (Pt Q)) :=
  l.map fun p => dropCollinearApprox (dedupTol tol p)

/-- squared distance from `q` to the segment `a b`, exact -/
def ptSegDist2 (a b q : Pt Q) : Q :=
  let dx := b.x - a.x; let dy := b.y - a.y
  let l2 := dx * dx + dy * dy
  if l2 == 0 then (q.x - a.x) * (q.x - a.x) + (q.y - a.y) * (q.y - a.y) else
  let t := ((q.x - a.x) * dx + (q.y - a.y) * dy) / l2
  let t := if t < 0 then 0 else if t > 1 then 1 else t
  let px := a.x + t * dx; let py := a.y + t * dy
  (q.x - px) * (q.x - px) + (q.y - py) * (q.y - py)

def nearPolyline (d2 : Q) (poly : List (Pt Q)) (v : Pt Q) : Bool :=
  match poly with
  | [] => false
  | [p] => ptSegDist2 p p v ≤ d2
  | _ => (poly.zip (poly.drop 1)).any fun (a, b) => ptSegDist2 a b v ≤ d2

/-- two pieces are the same polyline up to `4·tol`: same end points (within `4·tol` per coordinate) and every
    vertex of each within distance `4·tol` of the other polyline.  The vertex-by-vertex comparison of the
    normalised pieces is brittle exactly AT its thresholds — two points `tol` apart (merged on one side, kept
    on the other), an interior vertex whose turn has sin² within rounding of 1e-18 (dropped on one side only):
    near-miss vertices sit there.  `dedupTol` moves a point by at most `tol`, `dropCollinearApprox` removes a
    vertex at most `1e-9 · (segment length) ≤ 3·tol` off the chord, so two normalisations of the same
    polyline pass this test; it compares the pieces as point sets, which is what the property speaks of. -/
def pieceNear (tol : Q) (p q : List (Pt Q)) : Bool :=
  match p.head?, q.head?, p.getLast?, q.getLast? with
  | some a, some b, some c, some d =>
    nearPt (4 * tol) a b && nearPt (4 * tol) c d &&
    p.all (nearPolyline (16 * tol * tol) q) && q.all (nearPolyline (16 * tol * tol) p)
  | _, _, _, _ => p.isEmpty && q.isEmpty

/-- THE DOCUMENTED SITUATION of known finding C07-open-zero-length-touch, and nothing else: `p` lies on
    the boundary of the box, and some input segment whose two end points are BOTH outside the closed box
    meets the closed box in the single point `p` (it passes through a corner).  `tol = 0` when the float
    arithmetic was exact on the case. -/
def touchesFromOutside (box : Bound Q) (tol : Q) (inp : List (Pt Q)) (p : Pt Q) : Bool :=
  inClosed box p && !strictlyInside box p &&
  (inp.zip (inp.drop 1)).any fun (a, b) =>
    !inClosed box a && !inClosed box b &&
    match lbInterval box false a b with
    | some (t0, t1) => t0 == t1 && nearPt tol (lerp a b t0) p
    | none => false

/-- the pieces `got` (normalised) equal `spec` except for extra pieces of at most one vertex, every one
    of which is a touch from outside in the sense above -/
def onlyOutsideTouchesExtra (box : Bound Q) (tol : Q) (inp : List (Pt Q))
    (eqv : List (List (Pt Q)) → List (List (Pt Q)) → Bool) (got spec : List (List (Pt Q))) : Bool :=
  eqv (got.filter fun p => p.length > 1) spec &&
  (got.filter fun p => p.length ≤ 1).all fun p =>
    match p with
    | [v] => touchesFromOutside box tol inp v
    | _ => false

/-- the verdicts that known findings match: they may be given only when model and implementation agree -/
def isKnownClass (s : String) : Bool :=
  s == "propfail open-zero-length-touch" || s == "propfail missing-portion zero-length rounding-sensitive" ||
  s == "propfail non-finite-output"

/-- judgement of one `clip.LineString` result against the exact specification (no Float twin here) -/
def judgeLine (b : Bound UInt64) (isOpen : Bool) (ps : List (Pt UInt64)) (mls : List (List (Pt UInt64))) : String :=
  match boundQ b, ptsQ ps, mls.mapM ptsQ with
  | some bq, some pq, some outq =>
    if !(bq.lo.x < bq.hi.x && bq.lo.y < bq.hi.y) then "skip degenerate-box" else
    let mq := line bq isOpen pq
    let exact := match mq with
      | some l => l == outq
      | none => false
    let spec := normPieces (specPieces bq isOpen pq)
    let tol := tolOf bq pq
    -- single-point pieces (zero-length touches of the boundary)
    let strip (l : List (List (Pt Q))) : List (List (Pt Q)) := l.filter fun p => p.length > 1
    let approxEq (x y : List (List (Pt Q))) : Bool :=
      x.length == y.length && (x.zip y).all fun (p, q) =>
        (p.length == q.length && (p.zip q).all fun (u, v) => nearPt tol u v) ||
        -- same number of pieces, each the same polyline up to 4·tol (see `pieceNear`); a piece that
        -- collapsed to a single point only matches a piece that did
        ((p.length ≤ 1) == (q.length ≤ 1) && pieceNear tol p q)
    let judge (gotN : List (List (Pt Q))) (isExact : Bool) : String :=
      let spec := if isExact then spec else normPiecesTol tol spec
      let eqv (x y : List (List (Pt Q))) : Bool := if isExact then x == y else approxEq x y
      if eqv gotN spec then
        (match pq with
         | [] => "ok triv empty-input"
         -- a one-vertex line has no segment: nothing is returned even when the vertex is inside the box
         -- (theorem clip_one_vertex; "a line wholly inside is returned as is" starts at two vertices)
         | [v] => if inClosed bq v then "ok triv one-vertex-inside-dropped" else "ok triv one-vertex-outside"
         | _ =>
          (if gotN.isEmpty then "ok none-inside" else if gotN.length > 1 then "ok multi-piece" else "ok one-piece")
            ++ (if isExact then "" else " approx"))
      else if isOpen && onlyOutsideTouchesExtra bq (if isExact then 0 else tol) pq eqv gotN spec then
        "propfail open-zero-length-touch"
      -- OPEN bound, rounding-affected branch: result and specification agree on every piece that is longer
      -- than the tolerance and differ only in pieces that collapse to a single point under it.  Whether such a
      -- piece exists is decided 1e-15 away from the box (a vertex a few ulps off an edge or a corner: the
      -- near-miss families), six orders of magnitude below the resolution `tol` of this branch: outside what
      -- it can judge.  The case is NOT accepted on that ground: the verdict is `skip`, and `fin` turns it into
      -- `diff` unless the Float twin reproduces the implementation bit for bit; the exact clauses above
      -- (vertices in the box, provenance, inside vertices kept) have already been checked.  The closed bound
      -- keeps its own label below (finding C07-corner-touch-rounding).
      else if isOpen && !isExact && approxEq (strip gotN) (strip spec) then
        "skip open-bound sub-tolerance-piece rounding-sensitive"
      else if isOpen && eqv (strip gotN) spec then
        "propfail spurious-zero-length-piece"
      else if !isExact && approxEq (strip gotN) (strip spec) then
        "propfail missing-portion zero-length rounding-sensitive"
      else if (strip gotN).length < (strip spec).length then "propfail missing-portion"
      else "propfail pieces-differ"
    if !(outq.all fun piece => piece.all (inClosed bq)) then "propfail vertex-outside-box" else
    if !(outq.all fun piece => piece.all fun v => pq.contains v || onBoundary bq v) then
      "propfail vertex-neither-input-nor-on-boundary" else
    if pq.length ≥ 2 && !(pq.all fun v => !(if isOpen then strictlyInside bq v else inClosed bq v) || outq.any (·.contains v)) then
      "propfail inside-vertex-missing" else
    if exact then judge (normPieces outq) true
    else
      (match mq with
       | none => "propfail model-stuck"
       | some l =>
         -- the exact model itself must meet the spec (modulo the open-mode touch class) …
         let mN := normPieces l
         if !(mN == spec || (isOpen && onlyOutsideTouchesExtra bq 0 pq (· == ·) mN spec)) then "propfail exact-model-vs-spec"
         else if hasSteep pq then "skip steep-segment rounding-sensitive"
         -- … and the float result is judged with the tolerance `tol`
         else judge (normPiecesTol tol outq) false)
  -- finite box and input, but a coordinate of the RESULT is NaN or infinite
  | some _, some _, none => "propfail non-finite-output"
  | _, _, _ => "skip non-finite"

/-- the implementation did not return within its time limit (outcome `hang`, observed by the harness's
    child-process watchdog).  Since clip.line clips an end point at most twice and then snaps it onto the
    box (fix of finding C07-corner-rounding-nontermination) the loop is bounded whatever the arithmetic
    does — theorem `line_total_any`; the Float twin never runs out of fuel — so a hang is a plain
    violation, never a known class. -/
def hangVerdict : String := "propfail hang"

/-- an option list `<k> <b_1> … <b_k>` as the model's `List Opt` -/
def optsP : P (List Orb.Clip.Opt) := fun ts => do
  let (k, ts) ← nat ts
  let (bs, ts) ← many nat k ts
  pure (Orb.Clip.optsOfBools (bs.map (· == 1)), ts)

/-- which spellings the explicit-list ops exercised -/
def optsTag (opts : List Orb.Clip.Opt) : String :=
  match opts with
  | [] => " opts:none"
  | [_] => " opts:one"
  | _ =>
    let ys := opts.map Orb.Clip.Opt.yes
    if ys.all (· == ys.head!) then " opts:repeated" else
    if ys.getLast? == some false then " opts:override-to-closed" else " opts:override-to-open"

/-- the request of a case: its first token `req`; when an option list trails the input (`<k> <b_1> … <b_k>`,
    the list that was really passed) the request is the MODEL's reading of that list, `applyOptions`
    (last entry wins, none: closed bound), and `req` (the generator's reading) must agree with it -/
def requestOf (req : Nat) (rest : Toks) : Option (Bool × String) :=
  if rest.isEmpty then some (req == 1, "") else
  match optsP rest with
  | some (opts, []) =>
    let r := Orb.Clip.applyOptions opts
    if r == (req == 1) then some (r, optsTag opts) else none
  | _ => none

/-- `line <req> <box> <pts> [<k> <b_1> … <b_k>] => <mls> <idem> <unmod>` (or `=> hang`): the request is
    given and the harness chose a spelling of it, or the spelling is given as well. -/
def handleLine (inp out : Toks) : String :=
  match (do
    let (o, i) ← nat inp
    let (b, i) ← boundP i
    let (ps, rest) ← pts i
    let (isOpen, tag) ← requestOf o rest
    pure (isOpen, tag, b, ps)) with
  | none => "bad input"
  | some (isOpen, tag, b, ps) =>
    (fun (s : String) => if s.startsWith "ok" then s ++ tag else s) <|
    if out == ["panic"] then "propfail panic" else
    if out == ["hang"] then hangVerdict else
    match (do
      let (mls, o) ← parseMls out
      let (idem, o) ← nat o
      let (unmod, _) ← nat o
      pure (mls, idem == 1, unmod == 1)) with
    | none => "bad output"
    | some (mls, idem, unmod) =>
      -- Float twin
      let m := line (boundF b) isOpen (ptsF ps)
      let ms := match m with | some l => showMlsF l | none => "stuck"
      let got := showMlsF (mls.map ptsF)
      let agree := ms == got
      -- a verdict that a known finding matches is given only when model and implementation agree
      let fin (s : String) : String :=
        if s.startsWith "propfail" then (if isKnownClass s && !agree then s ++ " and-model-differs " ++ ms else s)
        else if agree then s else "diff " ++ ms
      fin <|
      if !unmod then "propfail input-modified" else
      if !idem then "propfail not-idempotent" else
      judgeLine b isOpen ps mls

/-- `mls <req> <box> <k> <pts_1> … <pts_k> [<n> <b_1> … <b_n>] => <mls out> <unmod> <k> <mls_1> … <mls_k>`:
    `out` = `clip.MultiLineString(box, members, OpenBound(open))`, `mls_i` = `clip.LineString` of member i
    with the same option (each member is also sent as a `line` case and judged there against the
    specification).  Judged here: bit-for-bit agreement with the Float twin `multiLineString`, and the
    property of this entry point — the result is the concatenation of the member results, in order
    (theorem `mls_concat_iff`). -/
def handleMls (inp out : Toks) : String :=
  match (do
    let (o, i) ← nat inp
    let (b, i) ← boundP i
    let (ms, rest) ← ptss i
    let (isOpen, tag) ← requestOf o rest
    pure (isOpen, tag, b, ms)) with
  | none => "bad input"
  | some (isOpen, tag, b, members) =>
    (fun (s : String) => if s.startsWith "ok" then s ++ tag else s) <|
    if out == ["panic"] then "propfail panic" else
    if out == ["hang"] then hangVerdict else
    match (do
      let (res, o) ← ptss out
      let (unmod, o) ← nat o
      let (per, _) ← ptsss o
      pure (res, unmod == 1, per)) with
    | none => "bad output"
    | some (res, unmod, per) =>
      if per.length != members.length then "bad member-count" else
      let m := multiLineString (boundF b) isOpen (members.map ptsF)
      let ms := match m with | some l => showMlsF l | none => "stuck"
      let got := showMlsF (res.map ptsF)
      let perAgree := (members.zip per).all fun (mem, r) =>
        (match line (boundF b) isOpen (ptsF mem) with | some l => showMlsF l | none => "stuck") == showMlsF (r.map ptsF)
      let agree := ms == got && perAgree
      let fin (s : String) : String := if s.startsWith "propfail" || agree then s else "diff " ++ ms
      fin <|
      if !unmod then "propfail input-modified" else
      if got != showMlsF (per.flatten.map ptsF) then "propfail mls-not-concatenation" else
      match members with
      | [] => "ok triv mls-no-members"
      | [_] => if res.isEmpty then "ok mls one-member none-inside" else "ok mls one-member"
      | _ =>
        let nonEmpty := (per.filter fun r => !r.isEmpty).length
        if nonEmpty == 0 then "ok mls multi-member none-inside"
        else if nonEmpty == 1 then "ok mls multi-member one-contributes"
        else "ok mls multi-member several-contribute"

def handle (ts : Toks) : String :=
  match ts with
  | op :: rest =>
    let (inp, out) := splitArrow rest
    match op with
    | "line" => handleLine inp out
    | "mls" => handleMls inp out
    | _ => "bad op " ++ op
  | [] => "bad empty"

end Driver.C07
