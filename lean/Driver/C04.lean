import Orb.Proto
import Orb.WKT
import Orb.WKTFloat

/-!
  Driver for C04 (WKT text round trip, typed entry points, re-spellings; `handleSeq`: a text returned
  by an encoder call stays what it was across later calls; `handlePar`: concurrent parse phase;
  `handleBseq` / `handleBrt`: implementation-only clauses at sizes beyond the model) and the WKT share of C05
  (`handleHostile`: no panic, no timeout, allocation within `allocC·len + allocK`).

  `fmt %g` and `strconv.ParseFloat` are parameters of the model.  Every case line carries Go's own
  answers: `F n (bits texthex)*` — the `%g` text of every coordinate — and `T m (tokhex bits|err)*` —
  ParseFloat's result for every maximal run of bytes in `[0-9A-Za-z.+_-]` of the text(s) that get
  parsed (a superset of what ParseFloat can accept).  A token outside the table that contains a byte
  outside that class, or is empty, is rejected (ParseFloat consumes the whole string or fails); a
  token inside the class but missing from the table is answered twice, once as an error and once as
  a value: the parser's control flow depends only on accept/reject, so if both runs agree the
  outcome does not depend on the unknown answer; if they differ the line is reported `diff table-miss`.
-/
namespace Driver.C04
open Orb Orb.Proto Orb.WKT

/-! ### hex strings -/

def hexChar (n : Nat) : Char := if n < 10 then Char.ofNat (48 + n) else Char.ofNat (87 + n)

def hexOfStr (s : Str) : String :=
  if s.isEmpty then "empty" else String.ofList (s.flatMap fun b => [hexChar (b.toNat / 16), hexChar (b.toNat % 16)])

def strOfHex (h : String) : Option Str :=
  if h == "empty" then some [] else
  let rec go : List Char → Option Str
    | [] => some []
    | a :: b :: rest => do
      let x ← hexDigit? a
      let y ← hexDigit? b
      let r ← go rest
      pure (UInt8.ofNat (x * 16 + y) :: r)
    | _ => none
  go h.toList

/-! ### tables -/

abbrev FT := List (UInt64 × Str)
abbrev PT := List (Str × Option UInt64)

def fEntry : P (UInt64 × Str) := fun ts => do
  let (b, ts) ← bits ts
  let (h, ts) ← tok ts
  let s ← strOfHex h
  pure ((b, s), ts)

def tEntry : P (Str × Option UInt64) := fun ts => do
  let (h, ts) ← tok ts
  let s ← strOfHex h
  let (r, ts) ← tok ts
  if r == "err" then pure ((s, none), ts) else do
    let n ← hexToNat? r
    pure ((s, some (UInt64.ofNat n)), ts)

def expect (w : String) : P Unit := fun ts =>
  match ts with
  | t :: ts => if t == w then some ((), ts) else none
  | [] => none

def fTable : P FT := fun ts => do
  let (_, ts) ← expect "F" ts
  counted fEntry ts

def tTable : P PT := fun ts => do
  let (_, ts) ← expect "T" ts
  counted tEntry ts

def isFA (b : UInt8) : Bool :=
  (48 ≤ b && b ≤ 57) || (65 ≤ b && b ≤ 90) || (97 ≤ b && b ≤ 122) || b == 46 || b == 43 || b == 45 || b == 95

/-- `%g` from the table; a coordinate the table does not contain prints as `?` (and shows up as a diff) -/
def mkFmt (t : FT) : UInt64 → Str := fun b =>
  match t.lookup b with
  | some s => s
  | none => [63]

def mkParse (t : PT) (miss : Option UInt64) : Str → Option UInt64 := fun tk =>
  match t.lookup tk with
  | some r => r
  | none => if !tk.isEmpty && tk.all isFA then miss else none

/-! ### outcomes -/

def showR (r : R G) : String :=
  match r with
  | .ok g => "ok " ++ showGeom g
  | .err .notWKT => "err notwkt"
  | .err .incorrect => "err incorrect"
  | .err .unsupported => "err unsupported"
  | .panic _ => "panic"

/-- the model's eight outcomes: Unmarshal, then the seven typed functions -/
def outcomes8 (pf : Str → Option UInt64) (s : Str) : List String :=
  (unmarshal pf s :: typedAll pf s).map showR

/-- model outcomes under both miss policies; `none` = they differ (table miss matters) -/
def modelOutcomes (t : PT) (s : Str) : Option (List String) :=
  let a := outcomes8 (mkParse t none) s
  let b := outcomes8 (mkParse t (some 0)) s
  if a == b then some a else none

def splitSemi (ts : Toks) : List Toks :=
  let rec go (ts : Toks) (cur : Toks) (acc : List Toks) : List Toks :=
    match ts with
    | [] => (cur.reverse :: acc).reverse
    | ";" :: rest => go rest [] (cur.reverse :: acc)
    | t :: rest => go rest (t :: cur) acc
  go ts [] []

def joinToks (l : List Toks) : List String := l.map (" ".intercalate ·)

/-! ### the executable statement of the property -/

def kindName : G → String
  | .point _ => "point" | .multiPoint _ => "multipoint" | .lineString _ => "linestring"
  | .multiLineString _ => "multilinestring" | .polygon _ => "polygon" | .ring _ => "ring" | .bound _ _ => "bound"
  | .multiPolygon _ => "multipolygon" | .collection _ => "collection"

/-- a multi-geometry with a member printed as `()` (anywhere, also inside collections) -/
partial def hasEmptyMember : G → Bool
  | .multiLineString ls => ls.any (·.isEmpty)
  | .polygon rs => rs.any (·.isEmpty)
  | .ring r => r.isEmpty
  | .multiPolygon ps => ps.any fun p => p.isEmpty || p.any (·.isEmpty)
  | .collection gs => gs.any hasEmptyMember
  | _ => false

def isColl : G → Bool := isCollection

/-- number of collection levels (0 for a non-collection); tags carry `deep` from three levels on -/
partial def collDepth : G → Nat
  | .collection gs => 1 + (gs.map collDepth).foldl max 0
  | _ => 0

def deepTag (g : G) : String := if collDepth g ≥ 3 then " deep" else ""

def isAlpha (b : UInt8) : Bool := (65 ≤ b && b ≤ 90) || (97 ≤ b && b ≤ 122)

/-- the failure classes of the round trip for values WITHOUT a `()` member: the three classes of the
    letter-splitting `splitGeometryCollection` that /repo 5a01c04 repaired (kept as live clauses: they
    must not come back), at any depth of nesting -/
def failClass (fmt : UInt64 → Str) (g : G) : String :=
  match g with
  | .collection gs =>
    if gs.any isColl then "collection-nested"
    else if gs.any isEmptyValue then "collection-empty-member"
    else if (WKT.coords g).any (fun b => (fmt b).any isAlpha) then "collection-exponent"
    else "other"
  | _ => "other"

def isFinite (g : G) : Bool := (WKT.coords g).all fun b => (b.toNat / 2^52) % 2048 != 2047

/-- expected eight outcomes for a text that denotes `g` -/
def expected8 (g : G) : List String :=
  let own := "ok " ++ showGeom g
  own :: (List.range 7).map fun i => if i == kindIdx g then own else "err incorrect"

/-- The recorded finding (DESIGN §7 #16, known_findings `C04-multi-empty-member`) in full: the text of a
    value with a `()` member is answered `ErrNotWKT` by `Unmarshal` and by the typed function that owns
    the kind, `ErrIncorrectGeometry` by the six others.  ONLY these eight outcomes are the finding. -/
def documented8 (g : G) : List String :=
  "err notwkt" :: (List.range 7).map fun i => if i == kindIdx g then "err notwkt" else "err incorrect"

/-- the label of the recorded finding; every other verdict on a value with a `()` member is a
    failure of its own -/
def knownLabel : String := "roundtrip multi-empty-member"

/-- first violated clause, comparing the implementation's eight outcomes with the expected ones.
    A value with a `()` member gets the recorded label only for exactly the documented outcomes;
    any other wrong answer on such a value (a wrong value, another error, a typed function out of
    line) is `empty-member-undocumented`, which no recorded finding matches. -/
def judge8 (fmt : UInt64 → Str) (g : G) (got : List String) : Option String :=
  let want := expected8 g
  if got.any (· == "panic") then some "panic"
  else if got == want then none
  else if hasEmptyMember g then
    (if got == documented8 g then some knownLabel
     else some ("empty-member-undocumented " ++ kindName g ++ " got " ++ (tagOf (got.headD "")) ))
  else if got.head? != want.head? then some ("roundtrip " ++ failClass fmt g)
  else if got[kindIdx g + 1]? != want[kindIdx g + 1]? then some ("typed-accept " ++ kindName g)
  else some ("typed-reject " ++ kindName g)
where
  tagOf (o : String) : String :=
    match o.splitOn " " with
    | "ok" :: k :: _ => "ok-" ++ k
    | "err" :: c :: _ => "err-" ++ c
    | _ => o

/-! ### the assumptions about `%g` / `ParseFloat`, checked on Go's own answers

  `FloatText` (Orb/WKT.lean) at every finite coordinate: the `%g` text is `gLayout` of some
  `(sign, digits, dp)` (Orb/WKTFloat.lean; the theorems of OrbProofs.C04Float derive non-emptiness,
  absence of delimiter bytes and of adjacent letters from that) and `ParseFloat` maps it back to the
  same bits.  A violation is a disagreement between Go's standard library and what the theorems
  assume of it, reported as `diff`. -/
def floatAssumption (f : FT) (pf : Str → Option UInt64) : Option String :=
  f.findSome? fun (b, s) =>
    if (b.toNat / 2^52) % 2048 == 2047 then none
    else if !gShaped b s then some ("diff assumption-gfmt " ++ hexOfStr s)
    else if pf s != some b then some ("diff assumption-floattext " ++ hexOfStr s)
    else none

/-! ### re-spelling (mirror of `respellWKT` in harness/c04.go)

  Codes are consumed left to right: one per letter of a keyword (alphabetic run of length ≥ 2; odd
  code = lower case), one per gap — before the text, before and after every `(` `)` `,`, after the
  text — choosing the blanks to insert.  Nothing is ever inserted inside a coordinate. -/

def blankOf (c : Nat) : Str :=
  match c % 8 with
  | 4 => [32] | 5 => [9] | 6 => [10] | 7 => [32, 32, 9]
  | _ => []

def nextCode : List Nat → Nat × List Nat
  | [] => (0, [])
  | c :: cs => (c, cs)

/-- `inWord` = the previous byte was a letter; `kw` = the current alphabetic run has length ≥ 2 -/
def respellAux : Str → Bool → List Nat → Str
  | [], _, cs => blankOf (nextCode cs).1
  | b :: rest, prevAlpha, cs =>
    if b == cLP || b == cRP || b == cComma then
      let (c1, cs) := nextCode cs
      let (c2, cs) := nextCode cs
      blankOf c1 ++ b :: (blankOf c2 ++ respellAux rest false cs)
    else if isAlpha b then
      let nextAlpha := match rest with | b' :: _ => isAlpha b' | [] => false
      if prevAlpha || nextAlpha then
        let (c, cs) := nextCode cs
        (if c % 2 == 1 then foldByte b else b) :: respellAux rest true cs
      else b :: respellAux rest true cs
    else b :: respellAux rest false cs

def respell (cs : List Nat) (s : Str) : Str :=
  let (c, cs) := nextCode cs
  blankOf c ++ respellAux s false cs

/-! ### handlers -/

def parseTables : P (FT × PT) := fun ts => do
  let (_, ts) ← expect "|" ts
  let (f, ts) ← fTable ts
  let (t, ts) ← tTable ts
  pure ((f, t), ts)

def tagOfOutcome (o : String) : String :=
  match o.splitOn " " with
  | "ok" :: k :: _ => "ok-" ++ k
  | "err" :: c :: _ => c
  | _ => o

/-- `rt <gval> | F… T… => <texthex> ; o0 ; … ; o7`  (or `=> panic` when Marshal panics) -/
def handleRt (inp out : Toks) : String :=
  match (do
    let (v, i) ← gval inp
    let ((f, t), _) ← parseTables i
    pure (v, f, t)) with
  | none => "bad input"
  | some (v, f, t) =>
    let fmt := mkFmt f
    match marshal fmt v with
    | .panic _ => "bad marshal-of-impossible-value"
    | .err _ => "bad marshal-err"
    | .ok mtext =>
      if out == ["panic"] then (if v matches .nilIface then "propfail marshal-nil-panic" else "propfail marshal-panic") else
      match splitSemi out with
      | [hex] :: outs =>
        if outs.length != 8 then "bad output" else
        let got := joinToks outs
        let mo? := modelOutcomes t mtext
        let agree : Bool := match mo? with
          | some mo => hexOfStr mtext == hex && mo == got
          | none => false
        let diffMsg : String := match mo? with
          | some mo => "diff " ++ hexOfStr mtext ++ " ; " ++ " ; ".intercalate mo
          | none => "diff table-miss"
        match canonV v with
        | none =>
          if got.any (· == "panic") then "propfail panic" else if agree then "ok triv-nil" else diffMsg
        | some g =>
          if !isFinite g then (if agree then "skip non-finite" else diffMsg) else
          -- the executable property is judged on the implementation's outcomes alone (it needs neither
          -- the model's outcomes nor the ParseFloat table) and outranks `diff` — EXCEPT the label of the
          -- recorded finding, which is only given when the model reproduces the documented outcomes too:
          -- a recorded finding must never absorb a model/implementation disagreement
          match judge8 fmt g got with
          | some clause =>
            if clause == knownLabel then (if agree then "propfail " ++ knownLabel else diffMsg)
            else "propfail " ++ clause
          | none =>
            if !agree then diffMsg else
            match floatAssumption f (mkParse t none) with
            | some d => d
            | none =>
              match v with
              | .val g0 => "ok rt " ++ kindName g0 ++ deepTag g0
              | _ => "ok rt typed-nil"
      | _ => "bad output"

/-- `respell <gval> R k c* | F… T… => <texthex> ; <respelled hex> ; 8 outcomes(text) ; 8 outcomes(respelled)` -/
def handleRespell (inp out : Toks) : String :=
  match (do
    let (v, i) ← gval inp
    let (_, i) ← expect "R" i
    let (cs, i) ← counted nat i
    let ((f, t), _) ← parseTables i
    pure (v, cs, f, t)) with
  | none => "bad input"
  | some (v, cs, f, t) =>
    let fmt := mkFmt f
    match marshal fmt v, canonV v with
    | .ok mtext, some g =>
      if out.any (· == "panic") then "propfail panic" else
      match splitSemi out with
      | [hex] :: [hex'] :: outs =>
        if outs.length != 16 then "bad output" else
        let got := joinToks (outs.take 8)
        let got' := joinToks (outs.drop 8)
        let mtext' := respell cs mtext
        match modelOutcomes t mtext, modelOutcomes t mtext' with
        | some mo, some mo' =>
          let agree := hexOfStr mtext == hex && hexOfStr mtext' == hex' && mo == got && mo' == got'
          let fin (s : String) : String :=
            if s.startsWith "propfail" || agree then s
            else "diff " ++ hexOfStr mtext' ++ " ; " ++ " ; ".intercalate mo'
          fin <|
          if !isFinite g then "skip non-finite" else
          if got' != got then
            "propfail respell " ++ (if isColl g then "collection-blank" else kindName g)
          else
          -- the plain text's own outcomes are judged as in `rt`: "both fail alike" is accepted only for
          -- exactly the documented outcomes of the recorded finding (and, being an `ok`, only when the
          -- model agrees on both texts); any other failure of the plain text is reported here as well
          match judge8 fmt g got with
          | some clause =>
            if clause == knownLabel then "ok respell " ++ kindName g ++ deepTag g ++ " (both-fail)" else "propfail " ++ clause
          | none =>
            match floatAssumption f (mkParse t none) with
            | some d => d
            | none =>
              if mtext' == mtext then "ok triv-respell-identity" else "ok respell " ++ kindName g ++ deepTag g
        | _, _ => "diff table-miss"
      | _ => "bad output"
    | _, _ => "bad respell-of-nil"

/-- `parse <texthex> | T… => o0 ; … ; o7` -/
def handleParse (inp out : Toks) : String :=
  match (do
    let (h, i) ← tok inp
    let s ← strOfHex h
    let (_, i) ← expect "|" i
    let (t, _) ← tTable i
    pure (s, t)) with
  | none => "bad input"
  | some (s, t) =>
    let outs := splitSemi out
    if outs.length != 8 then "bad output" else
    let got := joinToks outs
    match modelOutcomes t s with
    | none => "diff table-miss"
    | some mo =>
      if got.any (· == "panic") then "propfail panic"
      else if mo != got then "diff " ++ " ; ".intercalate mo
      else "ok parse " ++ tagOfOutcome (got.headD "")

/-! ### op `seq`: several encoder calls in a row, every result kept, all judged afterwards

  "A returned text must stay what it was": the `[]byte` / `string` handed out by `wkt.Marshal` /
  `wkt.MarshalString` belongs to the caller.  It must still be the model's text of ITS value after any
  number of later encoder calls (same or another goroutine), it must still parse back to its value
  then, and overwriting it (up to its capacity) must not change what a later call returns.

  `seq <mode> n (entry gval)*n | F… T… => (callhex ; endhex|= ; outcome ; freshhex|=)*n` -/

def seqItem : P (Nat × GVal UInt64) := fun ts => do
  let (c, ts) ← nat ts
  let (v, ts) ← gval ts
  pure ((c, v), ts)

def entryName (c : Nat) : String := if c == 0 then "bytes" else "string"

/-- `wkt.Unmarshal` of the model under both miss policies -/
def modelUnmarshal (t : PT) (s : Str) : Option String :=
  let a := showR (unmarshal (mkParse t none) s)
  let b := showR (unmarshal (mkParse t (some 0)) s)
  if a == b then some a else none

def handleSeq (inp out : Toks) : String :=
  match (do
    let (mode, i) ← tok inp
    let (items, i) ← counted seqItem i
    let ((f, t), _) ← parseTables i
    pure (mode, items, f, t)) with
  | none => "bad input"
  | some (mode, items, f, t) =>
    let n := items.length
    if out == ["panic"] then "propfail marshal-panic seq" else
    let secs := joinToks (splitSemi out)
    if secs.length != 4 * n then "bad output" else
    let fmt := mkFmt f
    -- rows: (index, entry, value, text at call, kept text at the end, outcome, fresh text)
    let rows := (List.range n).filterMap fun k =>
      match items[k]?, secs[4*k]?, secs[4*k+1]?, secs[4*k+2]?, secs[4*k+3]? with
      | some (c, v), some a, some e, some o, some fr =>
        some (k, c, v, a, (if e == "=" then a else e), o, (if fr == "=" then a else fr))
      | _, _, _, _, _ => none
    if rows.length != n then "bad output" else
    -- (1) the kept result is still the text that was returned
    match rows.find? (fun (_, _, _, a, e, _, _) => e != a) with
    | some (k, c, _, _, _, _, _) =>
      s!"propfail marshal-result-changed {entryName c} item {k} of {n} mode {mode}"
    | none =>
    -- (2) writing into a result the caller owns does not change a later call's text
    match rows.find? (fun (_, _, _, a, _, _, fr) => fr != a) with
    | some (k, c, _, _, _, _, _) =>
      s!"propfail marshal-after-overwrite {entryName c} item {k} of {n} mode {mode}"
    | none =>
    -- (3) every text is the model's text, every kept text parses as the model says, and back to its value
    let verdicts := rows.map fun (k, _, v, a, _, o, _) =>
      match marshal fmt v with
      | .ok mtext =>
        (match modelUnmarshal t mtext with
         | none => (2, "diff table-miss")
         | some mo =>
           if o == "panic" then (0, "propfail panic") else
           let agree := hexOfStr mtext == a && mo == o
           match canonV v with
           | none => if agree then (9, "nil") else (2, s!"diff seq item {k} {hexOfStr mtext} ; {mo}")
           | some g =>
             if !isFinite g then (if agree then (8, "nonfinite") else (2, s!"diff seq item {k} {hexOfStr mtext} ; {mo}")) else
             if hasEmptyMember g then
               (if agree && o == "err notwkt" then (9, "both-fail") else
                if !agree then (2, s!"diff seq item {k} {hexOfStr mtext} ; {mo}") else (1, "propfail empty-member-undocumented seq"))
             else if o != "ok " ++ showGeom g then (1, "propfail roundtrip " ++ failClass fmt g ++ s!" seq item {k}")
             else if !agree then (2, s!"diff seq item {k} {hexOfStr mtext} ; {mo}")
             else (9, "ok"))
      | _ => (3, "bad marshal-of-impossible-value")
    match verdicts.find? (·.1 == 0), verdicts.find? (·.1 == 1), verdicts.find? (·.1 == 2), verdicts.find? (·.1 == 3) with
    | some (_, m), _, _, _ => m
    | _, some (_, m), _, _ => m
    | _, _, some (_, m), _ => m
    | _, _, _, some (_, m) => m
    | _, _, _, _ =>
      match floatAssumption f (mkParse t none) with
      | some d => d
      | none =>
        let kinds := (if items.any (·.1 == 0) then " bytes" else "") ++ (if items.any (·.1 != 0) then " string" else "")
        s!"ok seq {mode}{kinds}" ++ (if n ≥ 4 then " n>=4" else "")

/-! ### white-box round: ops `par`, `bseq`, `brt` (harness/c04_wb.go)

  `par` — a concurrent PARSE phase: the solo outcomes of every text are judged as in `rt`; every
  outcome seen while G goroutines parse all texts at once (optionally next to a goroutine that
  encodes), and alone afterwards, must be the solo outcome (`propfail parse-concurrent`,
  `propfail marshal-concurrent`).  The Lean model is a pure function: this clause is executable on
  the implementation only.

  `bseq` / `brt` — values given by a descriptor, far beyond what the (quadratic) model parser can
  follow: judged on the implementation's answers alone.  The harness compares decoded values with the
  described value bit for bit (ring / bound as the one-ring polygon) and reports `same`, the error
  class, `other <kind>` or `panic`; the clauses are those of `seq` and `rt`. -/

/-- mirror of `wktWBSpell` -/
def spell (sp : Nat) (s : Str) : Str :=
  match sp with
  | 1 => s.map foldByte
  | 2 => [32, 9] ++ s.map foldByte ++ [10]
  | 3 => 10 :: (s ++ [32])
  | 4 => s.dropLast
  | 5 => 88 :: s.drop 1
  | 6 => s ++ [120]
  | _ => s

def fnName (i : Nat) : String :=
  match i with
  | 0 => "Unmarshal" | 1 => "UnmarshalPoint" | 2 => "UnmarshalMultiPoint" | 3 => "UnmarshalLineString"
  | 4 => "UnmarshalMultiLineString" | 5 => "UnmarshalPolygon" | 6 => "UnmarshalMultiPolygon"
  | 7 => "UnmarshalCollection" | 8 => "MarshalString" | _ => "Marshal"

/-- the solo outcomes of one text of `par`, judged as `handleRt` judges them; rank 0/1 = propfail,
    2 = diff, 3 = bad, 9 = fine -/
def parItemVerdict (f : FT) (t : PT) (k sp : Nat) (v : GVal UInt64) (hex : String) (got : List String) : Nat × String :=
  let fmt := mkFmt f
  match marshal fmt v with
  | .ok plain =>
    let mtext := spell sp plain
    let mo? := modelOutcomes t mtext
    let agree : Bool := match mo? with
      | some mo => hexOfStr mtext == hex && mo == got
      | none => false
    let diffMsg : String := match mo? with
      | some mo => s!"diff par text {k} " ++ hexOfStr mtext ++ " ; " ++ " ; ".intercalate mo
      | none => "diff table-miss"
    if got.any (· == "panic") then (0, "propfail panic") else
    if sp ≥ 4 then (if agree then (9, "broken") else (2, diffMsg)) else
    match canonV v with
    | none => if agree then (9, "nil") else (2, diffMsg)
    | some g =>
      if !isFinite g then (if agree then (8, "nonfinite") else (2, diffMsg)) else
      match judge8 fmt g got with
      | some clause =>
        if clause == knownLabel then (if agree then (9, "both-fail") else (2, diffMsg))
        else (1, "propfail " ++ clause ++ s!" (par text {k})")
      | none => if agree then (9, "ok") else (2, diffMsg)
  | _ => (3, "bad marshal-of-impossible-value")

/-- `par G rounds enc n (sp gval)*n | F… T… => (texthex ; o0 ; … ; o7 ;)*n conc <calls> <mism> [; m <c|a> idx fn outcome…]*` -/
def handlePar (inp out : Toks) : String :=
  match (do
    let (g, i) ← nat inp
    let (rounds, i) ← nat i
    let (enc, i) ← nat i
    let (items, i) ← counted seqItem i
    let ((f, t), _) ← parseTables i
    pure (g, rounds, enc, items, f, t)) with
  | none => "bad input"
  | some (gN, rounds, enc, items, f, t) =>
    let n := items.length
    if out == ["panic"] then "propfail marshal-panic par" else
    let secs := splitSemi out
    if secs.length < 9 * n + 1 then "bad output" else
    match secs[9 * n]? with
    | some ["conc", callsT, mismT] =>
      (match callsT.toNat?, mismT.toNat? with
       | some calls, some mism =>
         let kindOf (i : Nat) : String :=
           match items[i]? with
           | some (_, v) => (match canonV v with | some g => kindName g | none => "nil")
           | none => "?"
         if mism > 0 then
           match secs[9 * n + 1]? with
           | some ("m" :: phase :: iT :: fT :: o) =>
             let fn := fT.toNat?.getD 99
             let i := iT.toNat?.getD 0
             let ph := if phase == "c" then "during" else "after"
             let ot := " ".intercalate o
             if fn ≥ 8 then s!"propfail marshal-concurrent {fnName fn} {ph} value {i} {kindOf i} G={gN} n={n} mismatches={mism} of {calls}"
             else s!"propfail parse-concurrent {fnName fn} {ph} text {i} {kindOf i} got {tagOfOutcome ot} G={gN} n={n} mismatches={mism} of {calls}"
           | _ => "bad output"
         else
         if calls != gN * rounds * n * 8 + (if enc == 1 then rounds * n * 2 else 0) then "bad call-count" else
         let verdicts := (List.range n).map fun k =>
           match items[k]?, secs[9*k]? with
           | some (sp, v), some [hex] =>
             let got := joinToks ((secs.drop (9*k+1)).take 8)
             parItemVerdict f t k sp v hex got
           | _, _ => (3, "bad output")
         match verdicts.find? (·.1 == 0), verdicts.find? (·.1 == 1), verdicts.find? (·.1 == 2), verdicts.find? (·.1 == 3) with
         | some (_, m), _, _, _ => m
         | _, some (_, m), _, _ => m
         | _, _, some (_, m), _ => m
         | _, _, _, some (_, m) => m
         | _, _, _, _ =>
           match floatAssumption f (mkParse t none) with
           | some d => d
           | none =>
             s!"ok par g{gN}" ++ (if enc == 1 then " enc" else "") ++ (if items.any (fun it => it.1 != 0 && it.1 < 4) then " respelt" else "")
               ++ (if items.any (·.1 ≥ 4) then " broken" else "") ++ (if n ≥ 4 then " n>=4" else "")
       | _, _ => "bad output")
    | _ => "bad output"

/-- position of the typed function that owns the text of a described kind (order of `typedAll`) -/
def bigKindIdx (kind : String) : Option Nat :=
  match kind with
  | "P" => some 0 | "MP" => some 1 | "LS" => some 2 | "MLS" => some 3 | "PG" => some 4 | "R" => some 4
  | "MPG" => some 5
  | "CP" | "CL" | "CM" | "CC" | "CCC" | "CMP" | "CLS" | "CMLS" | "CPG" | "CMPG" | "NEST" => some 6
  | _ => none

def sizeClass (n : Nat) : String :=
  if n ≤ 1 then "2^0" else s!"2^{Nat.log2 (n - 1) + 1}"

def sizedItem : P (Nat × String × Nat × Nat) := fun ts => do
  let (e, ts) ← nat ts
  let (k, ts) ← tok ts
  let (l, ts) ← nat ts
  let (s, ts) ← nat ts
  pure ((e, k, l, s), ts)

/-- `bseq <mode> n (entry kind L salt)*n => (len b ; kept =|chg off len ; rt verdict ; fresh =|chg off len)*n` -/
def handleBseq (inp out : Toks) : String :=
  match (do
    let (mode, i) ← tok inp
    let (items, _) ← counted sizedItem i
    pure (mode, items)) with
  | none => "bad input"
  | some (mode, items) =>
    let n := items.length
    if out == ["panic"] then "propfail marshal-panic bseq" else
    let secs := splitSemi out
    if secs.length != 4 * n then "bad output" else
    let rows := (List.range n).filterMap fun k =>
      match items[k]?, secs[4*k]?, secs[4*k+1]?, secs[4*k+2]?, secs[4*k+3]? with
      | some (c, kind, l, _), some ["len", lt], some ("kept" :: kp), some ("rt" :: rt), some ("fresh" :: fr) =>
        (match lt.toNat?, bigKindIdx kind with
         | some len, some _ => some (k, c, kind, l, len, kp, " ".intercalate rt, fr)
         | _, _ => none)
      | _, _, _, _, _ => none
    if rows.length != n then "bad output" else
    match rows.find? (fun (_, _, _, _, _, kp, _, _) => kp != ["="]) with
    | some (k, c, kind, _, len, kp, _, _) =>
      s!"propfail marshal-result-changed {entryName c} item {k} of {n} mode {mode} {kind} len={len} {" ".intercalate kp}"
    | none =>
    match rows.find? (fun (_, _, _, _, _, _, _, fr) => fr != ["="]) with
    | some (k, c, kind, _, len, _, _, fr) =>
      s!"propfail marshal-after-overwrite {entryName c} item {k} of {n} mode {mode} {kind} len={len} {" ".intercalate fr}"
    | none =>
    match rows.find? (fun (_, _, _, _, _, _, rt, _) => rt != "same") with
    | some (k, _, kind, _, len, _, rt, _) =>
      if rt == "panic" then "propfail panic" else s!"propfail roundtrip big-text {kind} item {k} len={len} got {rt}"
    | none =>
      let maxLen := rows.foldl (fun m (_, _, _, _, len, _, _, _) => max m len) 0
      let exact := rows.all fun (_, _, _, l, len, _, _, _) => l == len
      s!"ok bseq {mode} <={sizeClass maxLen}" ++ (if exact then "" else " near")

/-- `brt sp kind a per pts salt => len b ; enc same|differ ; v0 ; … ; v7` -/
def handleBrt (inp out : Toks) : String :=
  match (do
    let (sp, i) ← nat inp
    let (kind, i) ← tok i
    let (a, i) ← nat i
    let (per, i) ← nat i
    let (pts, i) ← nat i
    let (_, _) ← nat i
    let idx ← bigKindIdx kind
    pure (sp, kind, a, per, pts, idx)) with
  | none => "bad input"
  | some (sp, kind, a, per, pts, idx) =>
    if out == ["panic"] then "propfail marshal-panic brt" else
    match splitSemi out with
    | ["len", lt] :: ["enc", e] :: outs =>
      if outs.length != 8 then "bad output" else
      match lt.toNat? with
      | none => "bad output"
      | some len =>
      let got := joinToks outs
      let want := "same" :: (List.range 7).map fun i => if i == idx then "same" else "err incorrect"
      let what := s!"{kind} a={a} per={per} pts={pts} len={len}"
      if got.any (· == "panic") then s!"propfail panic brt {what}"
      else if e != "same" then s!"propfail marshal-entry-points-differ {what}"
      else if got == want then
        let members := max a (max per pts)
        let cls := if kind == "NEST" then (if a > 65535 then "d>=2^16" else if a > 4097 then "d>4097" else "d<=4097")
          else if members > 131071 then ">=2^17" else if members > 65535 then ">=2^16" else "<2^16"
        s!"ok brt {kind} {cls}" ++ (if sp != 0 then " respelt" else "")
      else if got.head? != want.head? then s!"propfail roundtrip big {what} got {got.headD ""}"
      else if got[idx + 1]? != want[idx + 1]? then s!"propfail typed-accept big {what} got {(got[idx + 1]?).getD ""}"
      else s!"propfail typed-reject big {what}"
    | _ => "bad output"

/-! ### C05: hostile input

  `allocC·len + allocK` bounds `runtime.MemStats.TotalAlloc` around one `wkt.Unmarshal` call.
  Measured on the pinned tree (go1.23, amd64): the first regexp use costs a ~40 kB machine
  (constant); the densest linear consumer is `FindAllStringSubmatchIndex` on `),(),(…`, ~52 B per
  input byte (a 4-int index slice per 3-byte match plus the growth of the result slice); points cost
  16 B per ≥ 4 input bytes, doubling `append` excluded by the `count+1` capacity.  `allocC = 128`
  leaves a factor ≈ 2.5, `allocK = 256 kB` covers the regexp machine and measurement noise. -/
def allocC : Nat := 128
def allocK : Nat := 262144

/-- is this text routed to `unmarshalCollection` by `Unmarshal`? -/
def onCollectionPath (s : Str) : Bool := hasPrefix (upperPrefix (trimSpace s)) kwCollection

/-- `hostile`: input `<texthex> | T…`, output `o0 ; … ; o7 ; alloc <bytes>` or `timeout` -/
def handleHostile (inp out : List String) : String :=
  match (do
    let (h, i) ← tok inp
    let s ← strOfHex h
    let (_, i) ← expect "|" i
    let (t, _) ← tTable i
    pure (s, t)) with
  | none => "bad input"
  | some (s, t) =>
    if out == ["timeout"] then
      "propfail timeout" ++ (if onCollectionPath s then " collection-quadratic" else "")
    else
    match (splitSemi out).reverse with
    | ["alloc", a] :: routs =>
      let outs := routs.reverse
      if outs.length != 8 then "bad output" else
      match a.toNat? with
      | none => "bad alloc"
      | some bytes =>
        let got := joinToks outs
        match modelOutcomes t s with
        | none => "diff table-miss"
        | some mo =>
          if got.any (· == "panic") then "propfail panic"
          else if bytes > allocC * s.length + allocK then
            "propfail alloc " ++ (if onCollectionPath s then "collection-quadratic" else "other") ++ s!" bytes={bytes} len={s.length}"
          else if mo != got then "diff " ++ " ; ".intercalate mo
          else "ok hostile " ++ tagOfOutcome (got.headD "")
    | _ => "bad output"

def handle (ts : Toks) : String :=
  match ts with
  | op :: rest =>
    let (inp, out) := splitArrow rest
    match op with
    | "rt" => handleRt inp out
    | "respell" => handleRespell inp out
    | "parse" => handleParse inp out
    | "hostile" => handleHostile inp out
    | "seq" => handleSeq inp out
    | "par" => handlePar inp out
    | "bseq" => handleBseq inp out
    | "brt" => handleBrt inp out
    | _ => "bad op " ++ op
  | [] => "bad empty"

end Driver.C04
