import Orb.Proto
import Orb.Contains
import Orb.EvenOdd
import Generated.Params

/-! Driver for C09 (point in ring / polygon / multi-polygon vs. the exact even-odd region). -/
namespace Driver.C09
open Orb Orb.Proto Orb.Core Orb.Contains

def ebOf {α} (f : Int → α) : Bound α :=
  ⟨⟨f Generated.Params.emptyBoundMinX, f Generated.Params.emptyBoundMinY⟩,
   ⟨f Generated.Params.emptyBoundMaxX, f Generated.Params.emptyBoundMaxY⟩⟩

def ebF : Bound Float := ebOf Float.ofInt
def ebQ : Bound Rat := ebOf fun i => (i : Rat)

/-- the variants of a ring the property quantifies over: every rotation and the reversal,
    each unclosed and explicitly closed (order shared with harness/c09.go) -/
def variants {β} (r : List β) : List (List β) :=
  let n := r.length
  let rots := if n == 0 then [r] else (List.range n).map fun k => r.drop k ++ r.take k
  (rots ++ [r.reverse]).flatMap fun b => [b, match b with | [] => [] | v :: _ => b ++ [v]]

def resChar : Res Unit Bool → Char
  | .ok true => '1'
  | .ok false => '0'
  | _ => 'p'

def bChar (b : Bool) : Char := if b then '1' else '0'

/-- "small dyadic": a multiple of 2^-8 with |v| ≤ 2^16; returned scaled by 2^8.  On these the
    float computation of `rayIntersect` is order-exact (differences < 2^26, distinct slopes differ
    relatively by > 2^-52, one ulp is far below every coordinate gap). -/
def scaled? (b : UInt64) : Option Int :=
  match bitsToRat? b with
  | some q =>
    let s := q * 256
    if s.den == 1 && s.num.natAbs ≤ 2^24 then some s.num else none
  | none => none

def scaledPt? (p : Pt UInt64) : Option (Pt Int) := do
  let x ← scaled? p.x
  let y ← scaled? p.y
  pure ⟨x, y⟩

def ratPt? (p : Pt UInt64) : Option (Pt Rat) := do
  let x ← bitsToRat? p.x
  let y ← bitsToRat? p.y
  pure ⟨x, y⟩

def allSome {α β} (f : α → Option β) (l : List α) : Option (List β) := l.mapM f

/-- a query point over the rationals together with the REAL one-ulp step of its abscissa
    (`math.Nextafter(p[0], +Inf)` on the bit pattern), exactly -/
def ratPtNext? (p : Pt UInt64) : Option (Pt Rat × Rat) := do
  let q ← ratPt? p
  let nx ← bitsToRat? (nextUp (Float.ofBits p.x)).toBits
  pure (q, nx)

/-- THE FINITE-NUDGE CONDITION `NudgeCond` (OrbProofs/C09.lean: `nudgeCond_iff`, `ringContains_of_nudgeCond'`),
    evaluated exactly with the real one-ulp step: `p.x < next p.x`, and `edgeNudgeOK` on every edge of the
    implicitly closed ring unless the point is on the boundary.  Where it holds the exact answer of
    `RingContains` WITH THE ONE-ULP NUDGE is proved to be the even-odd region; where it fails the case rests
    on the Float twin (sampling).  Evaluated on the base ring of a case: it passes to every rotation, the
    reversal and the closing (`nudgeCond_rotate`, `nudgeCond_reverse`, `nudgeCond_close`). -/
def nudgeProvedRing (r : List (Pt Rat)) (q : Pt Rat) (nx : Rat) : Bool :=
  decide (q.x < nx) &&
    (((EvenOdd.edges r).all fun se => edgeNudgeOK (fun _ => nx) q se.1 se.2) || EvenOdd.onBoundary r q)

def nudgeTag (b : Bool) : String := if b then "+nudge-proved" else "+nudge-sampled"

def toFP (p : Pt UInt64) : Pt Float := mapPt Float.ofBits p

/-- all vertices on one line (or equal): the ring has no area -/
def noArea (r : List (Pt Int)) : Bool :=
  match r with
  | [] => true
  | a :: t =>
    match t.find? fun b => !(b.x == a.x && b.y == a.y) with
    | none => true
    | some b => t.all fun c => EvenOdd.cross a b c == 0

def clauseOf (nVariants idx : Nat) : String :=
  if idx == 0 then "even-odd" else
  if idx % 2 == 1 then (if idx == 1 then "closing" else if idx + 2 ≥ nVariants then "reversal-closed" else "rotation-closed")
  else if idx + 2 ≥ nVariants then "reversal" else "rotation"

/-- first index where two strings differ -/
def firstDiff (a b : List Char) : Option Nat :=
  let rec go : List Char → List Char → Nat → Option Nat
    | x :: xs, y :: ys, i => if x != y then some i else go xs ys (i+1)
    | [], [], _ => none
    | _, _, i => some i
  go a b 0

def classTag (specs : List (Bool × Bool)) : String :=
  let on := specs.any (·.1)
  let inn := specs.any fun s => !s.1 && s.2
  let out := specs.any fun s => !s.2
  (if on then "+on" else "") ++ (if inn then "+in" else "") ++ (if out then "+out" else "")

/-- shared judge: `r` the base ring, `qs` the query points, `out` one token per variant -/
def judgeRing (r : List (Pt UInt64)) (qs : List (Pt UInt64)) (out : Toks) (exactModel : Bool) : String :=
  let rF := r.map toFP
  let qF := qs.map toFP
  let vsF := variants rF
  let twin : List String := vsF.map fun v => String.ofList (qF.map fun q => resChar (ringContains (Nudge.real nextUp) ebF v q))
  let agree := twin == out
  let fin (s : String) : String := if s.startsWith "propfail" || agree then s else "diff " ++ " ".intercalate twin
  fin <|
  if out.length != vsF.length then "bad variant-count" else
  if out.any fun t => t.length != qs.length then (if out.any (· == "panic") then "propfail panic" else "bad answer-length") else
  let nV := out.length
  match allSome scaledPt? r, allSome scaledPt? qs with
  | some ri, some qi =>
    -- exact spec on scaled integers
    let specs : List (Bool × Bool) := qi.map fun q => (EvenOdd.onBoundary ri q, EvenOdd.inside ri q)
    let want := specs.map fun s => bChar s.2
    let bad := (out.zipIdx).findSome? fun (t, i) => (firstDiff t.toList want).map fun j => (i, j)
    match bad with
    | some (i, j) => s!"propfail {clauseOf nV i} variant={i} point={j} spec={String.ofList want}"
    | none =>
      -- the finite-nudge condition (base ring: it passes to every variant, see `nudgeProvedRing`)
      let proved : Bool :=
        match allSome ratPt? r, allSome ratPtNext? qs with
        | some rq, some qn => qn.all fun (q, nx) => nudgeProvedRing rq q nx
        | _, _ => false
      -- the exact model on every variant: infinitesimal nudge, and — where the condition holds — the model
      -- with the real one-ulp step over the rationals (must both be the spec: the theorems, re-executed)
      let exOK : Option String :=
        if !exactModel then none else
        match allSome ratPt? r, allSome ratPtNext? qs with
        | some rq, some qn =>
          if !((variants rq).all fun v => String.ofList (qn.map fun (q, _) => resChar (ringContains Nudge.inf ebQ v q)) == String.ofList want) then
            some "diff exact-model-differs-from-spec"
          else if proved && !([rq, rq.reverse].all fun v =>
              String.ofList (qn.map fun (q, nx) => resChar (ringContains (Nudge.real fun _ => nx) ebQ v q)) == String.ofList want) then
            some "diff finite-nudge-model-differs-from-spec"
          else none
        | _, _ => none
      match exOK with
      | some d => d
      | none =>
      if r.isEmpty then "ok triv-empty-ring" else
      s!"ok ring{if r.length ≤ 2 then "-degenerate" else ""}{classTag specs}{nudgeTag proved}"
  | _, _ =>
    match allSome ratPt? r, allSome ratPt? qs with
    | some rq, some qq =>
      let want := String.ofList (qq.map fun q => bChar (EvenOdd.inside rq q))
      let proved : Bool :=
        match allSome ratPtNext? qs with
        | some qn => qn.all fun (q, nx) => nudgeProvedRing rq q nx
        | none => false
      if out.all (· == want) then s!"ok float-ring{nudgeTag proved}" else s!"skip rounding-sensitive{nudgeTag proved}"
    | _, _ => "skip non-finite"

/-- `ring <n pts> <m pts> => <token per variant>` -/
def handleRing (inp out : Toks) : String :=
  match (do
    let (r, i) ← pts inp
    let (qs, _) ← pts i
    pure (r, qs)) with
  | none => "bad input"
  | some (r, qs) => judgeRing r qs out true

/-- `grid lo2 hi2 <n pts> => <token per variant>`: query points are the half-step lattice
    `(i/2, j/2)`, `lo2 ≤ i, j ≤ hi2`, row-major in `i` -/
def handleGrid (inp out : Toks) : String :=
  match (do
    let (lo, i) ← int inp
    let (hi, i) ← int i
    let (r, _) ← pts i
    pure (lo, hi, r)) with
  | none => "bad input"
  | some (lo, hi, r) =>
    let n := (hi - lo + 1).toNat
    let axis : List Float := (List.range n).map fun (k : Nat) => Float.ofInt (lo + (k : Int)) / 2
    let qs : List (Pt UInt64) := axis.flatMap fun x => axis.map fun y => ⟨x.toBits, y.toBits⟩
    judgeRing r qs out true

/-- the forms of `gridp` (order shared with harness/c09.go `gridPolyAnswers`): the ring `v` wrapped as
    `Polygon{v}`, `Polygon{box, v}`, `Polygon{box, {}, v}`, `MultiPolygon{{v}}`, `MultiPolygon{{box, v}}`,
    `MultiPolygon{{box, v}, {v}}`; the name is the clause a mismatch breaks -/
def gridPolyForms {β} (box v : List β) : List (String × List (List (List β))) :=
  [("polygon-outer-ring-only", [[v]]),
   ("polygon-ring-as-hole", [[box, v]]),
   ("polygon-ring-as-second-hole", [[box, [], v]]),
   ("multipolygon-of-ring", [[v]]),
   ("multipolygon-ring-as-hole", [[box, v]]),
   ("multipolygon-hole-then-ring", [[box, v], [v]])]

/-- forms 0..2 go through `PolygonContains`, 3..5 through `MultiPolygonContains` -/
def gridPolyIsMulti (k : Nat) : Bool := k ≥ 3

def boxOf {β} (f : Int → β) (b0 b1 : Int) : List (Pt β) :=
  [⟨f b0, f b0⟩, ⟨f b1, f b0⟩, ⟨f b1, f b1⟩, ⟨f b0, f b1⟩, ⟨f b0, f b0⟩]

/-- `gridp lo2 hi2 b0 b1 <n pts> => <6 tokens per variant>`: the grid family through `PolygonContains` and
    `MultiPolygonContains`.  Every variant of the ring (rotations, reversal, closings) in every form is compared
    with the Float twin and with the exact spec `EvenOdd.polyInside` / `multiInside` of the BASE ring's forms
    (the region does not depend on the variant). -/
def handleGridP (inp out : Toks) : String :=
  match (do
    let (lo, i) ← int inp
    let (hi, i) ← int i
    let (b0, i) ← int i
    let (b1, i) ← int i
    let (r, _) ← pts i
    pure (lo, hi, b0, b1, r)) with
  | none => "bad input"
  | some (lo, hi, b0, b1, r) =>
    let n := (hi - lo + 1).toNat
    let axis : List Float := (List.range n).map fun (k : Nat) => Float.ofInt (lo + (k : Int)) / 2
    let qs : List (Pt UInt64) := axis.flatMap fun x => axis.map fun y => ⟨x.toBits, y.toBits⟩
    let qF := qs.map toFP
    let boxF : List (Pt Float) := boxOf Float.ofInt b0 b1
    let vsF := variants (r.map toFP)
    let twin : List String := vsF.flatMap fun v =>
      (gridPolyForms boxF v).zipIdx.map fun ((_, mp), k) =>
        String.ofList (qF.map fun q =>
          if gridPolyIsMulti k then resChar (multiPolygonContains (Nudge.real nextUp) ebF mp q)
          else match mp with
            | [pg] => resChar (polygonContains (Nudge.real nextUp) ebF pg q)
            | _ => '?')
    let agree := twin == out
    let fin (s : String) : String := if s.startsWith "propfail" || agree then s else "diff " ++ " ".intercalate twin
    fin <|
    if out.length != 6 * vsF.length then "bad token-count" else
    if out.any fun t => t.length != qs.length then (if out.any (· == "panic") then "propfail panic" else "bad answer-length") else
    if out.any fun t => t.toList.any (· == 'p') then
      let k := (out.zipIdx.find? fun (t, _) => t.toList.any (· == 'p')).map (·.2) |>.getD 0
      s!"propfail panic variant={k / 6} form={k % 6}" else
    match allSome scaledPt? r, allSome scaledPt? qs with
    | some ri, some qi =>
      let boxI : List (Pt Int) := boxOf (fun i => i * 256) b0 b1
      let wants : List (String × String) := (gridPolyForms boxI ri).map fun (nm, mp) =>
        (nm, String.ofList (qi.map fun q => bChar (EvenOdd.multiInside mp q)))
      let nV := vsF.length
      let bad := (out.zipIdx).findSome? fun (t, i) =>
        match wants[i % 6]? with
        | some (nm, want) => (firstDiff t.toList want.toList).map fun j => (i, j, nm, want)
        | none => none
      match bad with
      | some (i, j, nm, want) => s!"propfail {nm} ({clauseOf nV (i / 6)}) variant={i / 6} form={i % 6} point={j} spec={want}"
      | none =>
        if r.isEmpty then "ok triv-gridp-empty-ring" else
        let specs : List (Bool × Bool) := qi.map fun q => (EvenOdd.onBoundary ri q, EvenOdd.inside ri q)
        s!"ok gridp{if r.length ≤ 2 then "-degenerate" else ""}{classTag specs}"
    | _, _ => "bad gridp-not-dyadic"

def panicFreeSpec (want got : List Char) : Option Nat := firstDiff got want

/-- `poly <PG …> <m pts> => answers` -/
def handlePoly (inp out : Toks) : String :=
  match (do
    let (g, i) ← geom inp
    let (qs, _) ← pts i
    pure (g, qs)) with
  | some (.polygon rs, qs) =>
    let rsF := rs.map (·.map toFP)
    let twin := String.ofList (qs.map fun q => resChar (polygonContains (Nudge.real nextUp) ebF rsF (toFP q)))
    let agree := out == [twin]
    let fin (s : String) : String := if s.startsWith "propfail" || agree then s else "diff " ++ twin
    fin <|
    match out with
    | [got] =>
      if rs.isEmpty then
        (if got.toList.all (· == 'p') then "ok triv-zero-ring-polygon-panics" else "ok triv-zero-ring-polygon")
      else if got.toList.any (· == 'p') then "propfail panic" else
      (match allSome (allSome scaledPt?) rs, allSome scaledPt? qs with
       | some ri, some qi =>
         let want := qi.map fun q => bChar (EvenOdd.polyInside ri q)
         (match firstDiff got.toList want with
          | some j => s!"propfail polygon-outer-and-no-hole point={j} spec={String.ofList want}"
          | none =>
            let inHole := match ri with
              | o :: hs => qi.any fun q => EvenOdd.inside o q && hs.any fun h => EvenOdd.inside h q
              | [] => false
            -- points EXACTLY on a hole's boundary (resp. at a hole vertex) that the outer ring contains: the
            -- answer '0' (already checked against `polyInside`) is decided by the hole clause alone
            let onHole := match ri with
              | o :: hs => qi.any fun q => EvenOdd.inside o q && hs.any fun h => EvenOdd.onBoundary h q
              | [] => false
            let onHoleVtx := match ri with
              | o :: hs => qi.any fun q => EvenOdd.inside o q && hs.any fun h => h.any fun v => v.x == q.x && v.y == q.y
              | [] => false
            let proved : Bool :=
              match allSome (allSome ratPt?) rs, allSome ratPtNext? qs with
              | some rq, some qn => rq.all fun rg => qn.all fun (q, nx) => nudgeProvedRing rg q nx
              | _, _ => false
            -- rings of fewer than three vertices and rings without area (all vertices collinear or equal), as
            -- outer ring with a query the polygon CONTAINS (it lies on that ring), as hole with a query in the
            -- outer ring that lies ON the hole (so the answer '0' is the hole's doing)
            let smallOuter := match ri with
              | o :: _ => o.length < 3 && qi.any fun q => EvenOdd.polyInside ri q
              | [] => false
            let flatOuter := match ri with
              | o :: _ => o.length ≥ 3 && noArea o && qi.any fun q => EvenOdd.polyInside ri q
              | [] => false
            let smallHole := match ri with
              | o :: hs => qi.any fun q => EvenOdd.inside o q && hs.any fun h => h.length < 3 && EvenOdd.inside h q
              | [] => false
            let flatHole := match ri with
              | o :: hs => qi.any fun q => EvenOdd.inside o q && hs.any fun h => h.length ≥ 3 && noArea h && EvenOdd.inside h q
              | [] => false
            s!"ok poly{if rs.length > 1 then "+holes" else ""}{if smallOuter then "+on-outer-under3" else ""}{if flatOuter then "+on-flat-outer" else ""}{if smallHole then "+on-hole-under3" else ""}{if flatHole then "+on-flat-hole" else ""}{if inHole then "+inhole" else ""}{if onHole then "+onhole" else ""}{if onHoleVtx then "+onholevertex" else ""}{nudgeTag proved}")
       | _, _ =>
         (match allSome (allSome ratPt?) rs, allSome ratPt? qs with
          | some rq, some qq =>
            if got == String.ofList (qq.map fun q => bChar (EvenOdd.polyInside rq q)) then "ok float-poly" else "skip rounding-sensitive"
          | _, _ => "skip non-finite"))
    | _ => "bad output"
  | _ => "bad input"

/-- `mpoly <MPG …> <m pts> => answers` -/
def handleMPoly (inp out : Toks) : String :=
  match (do
    let (g, i) ← geom inp
    let (qs, _) ← pts i
    pure (g, qs)) with
  | some (.multiPolygon ps, qs) =>
    let psF := ps.map (·.map (·.map toFP))
    let twin := String.ofList (qs.map fun q => resChar (multiPolygonContains (Nudge.real nextUp) ebF psF (toFP q)))
    let agree := out == [twin]
    let fin (s : String) : String := if s.startsWith "propfail" || agree then s else "diff " ++ twin
    fin <|
    match out with
    | [got] =>
      if ps.any (·.isEmpty) then "ok triv-zero-ring-member"
      else if got.toList.any (· == 'p') then "propfail panic" else
      (match allSome (allSome (allSome scaledPt?)) ps, allSome scaledPt? qs with
       | some pi, some qi =>
         let want := qi.map fun q => bChar (EvenOdd.multiInside pi q)
         (match firstDiff got.toList want with
          | some j => s!"propfail multipolygon-any-member point={j} spec={String.ofList want}"
          | none =>
            let onHole := pi.any fun pg => match pg with
              | o :: hs => qi.any fun q => EvenOdd.inside o q && hs.any fun h => EvenOdd.onBoundary h q
              | [] => false
            let proved : Bool :=
              match allSome (allSome (allSome ratPt?)) ps, allSome ratPtNext? qs with
              | some pq, some qn => pq.all fun pg => pg.all fun rg => qn.all fun (q, nx) => nudgeProvedRing rg q nx
              | _, _ => false
            let smallOuter := pi.any fun pg => match pg with
              | o :: _ => (o.length < 3 || noArea o) && qi.any fun q => EvenOdd.polyInside pg q
              | [] => false
            let smallHole := pi.any fun pg => match pg with
              | o :: hs => qi.any fun q => EvenOdd.inside o q && hs.any fun h => (h.length < 3 || noArea h) && EvenOdd.inside h q
              | [] => false
            if ps.isEmpty then "ok triv-empty-multipolygon" else
            s!"ok mpoly{if ps.length > 1 then "+multi" else ""}{if smallOuter then "+on-degenerate-outer" else ""}{if smallHole then "+on-degenerate-hole" else ""}{if onHole then "+onhole" else ""}{nudgeTag proved}")
       | _, _ =>
         (match allSome (allSome (allSome ratPt?)) ps, allSome ratPt? qs with
          | some pq, some qq =>
            if got == String.ofList (qq.map fun q => bChar (EvenOdd.multiInside pq q)) then "ok float-mpoly" else "skip rounding-sensitive"
          | _, _ => "skip non-finite"))
    | _ => "bad output"
  | _ => "bad input"

def handle (ts : Toks) : String :=
  match ts with
  | op :: rest =>
    let (inp, out) := splitArrow rest
    match op with
    | "ring" => handleRing inp out
    | "grid" => handleGrid inp out
    | "gridp" => handleGridP inp out
    | "poly" => handlePoly inp out
    | "mpoly" => handleMPoly inp out
    | _ => "bad op " ++ op
  | [] => "bad empty"

end Driver.C09
