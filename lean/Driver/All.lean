import Driver.C01
import Driver.C02
import Driver.C03
import Driver.C04
import Driver.C05
import Driver.C06
import Driver.C07
import Driver.C08
import Driver.C09
import Driver.C10
import Driver.C11
import Driver.C12
import Driver.C13
import Driver.C14
import Driver.C15
import Driver.C16
import Driver.C17
import Driver.C18
import Driver.C19
import Driver.C20

namespace Driver
def dispatch (p : String) (rest : List String) : String :=
  match p with
  | "C01" => C01.handle rest
  | "C02" => C02.handle rest
  | "C03" => C03.handle rest
  | "C04" => C04.handle rest
  | "C05" => C05.handle rest
  | "C06" => C06.handle rest
  | "C07" => C07.handle rest
  | "C08" => C08.handle rest
  | "C09" => C09.handle rest
  | "C10" => C10.handle rest
  | "C11" => C11.handle rest
  | "C12" => C12.handle rest
  | "C13" => C13.handle rest
  | "C14" => C14.handle rest
  | "C15" => C15.handle rest
  | "C16" => C16.handle rest
  | "C17" => C17.handle rest
  | "C18" => C18.handle rest
  | "C19" => C19.handle rest
  | "C20" => C20.handle rest
  | _ => "bad unknown-property " ++ p
end Driver
