import Orb.Proto
import Orb.Clip
import Orb.SmartClip
import Driver.C07
import Driver.C08
import Generated.Params

/-!
  Driver for C16 (smart clipping closes cut rings around the box with the asked winding).

  For every case: (1) the Float twin of `Orb.SmartClip` is run and compared token-for-token with the
  implementation's outcome; (2) the executable statement of the property is evaluated on the
  IMPLEMENTATION's outcome, exactly over `Rat`.

  Verdict discipline: a `propfail` verdict carries ` +diff` when model and implementation disagree on
  that case; the mechanism labels (`rounding-sensitive touch-order region-differs`,
  `caller-memory-written implicit-close`, `nested-member hole-misassigned`,
  `box-inside-outer-ring`) are emitted only when the model reproduces the implementation's outcome
  AND the documented mechanism is recognised on the case itself.  Only `box-inside-outer-ring` is still
  matched by a known finding (C16-box-inside-outer-ring); the other three name repaired defects
  (2c23ded, b1f15ae, 5037fea) and are plain violations now.
-/
namespace Driver.C16
open Orb Orb.Proto Orb.Core Orb.SmartClip Driver.C07 Driver.C08

abbrev MP (α : Type) := List (List (List (Pt α)))

def tolQ : Q := 1 / 1000000000
def eps2 : Q := 1 / 1000000000000        -- (1e-6)²
def margin : Q := 1 / 1000000

/-! ### printing -/

def showRes (r : Res String String) : String :=
  match r with
  | .ok s => s
  | .panic _ => "panic"
  | .err e => "model-error " ++ e

def showMPF (mp : MP F) : String :=
  if mp.isEmpty then "nil" else showGeom (mapGeom Float.toBits (.multiPolygon mp))

/-- like `showGeom`, but an empty collection prints as Go's typed nil (`nC`): smartclip and clip never
    return an empty non-nil collection -/
partial def showG : Geom UInt64 → String
  | .collection [] => "nC"
  | .collection gs => gs.foldl (fun s g => s ++ " " ++ showG g) ("C " ++ toString gs.length)
  | g => showGeom g

def showGV (v : GVal F) : String :=
  match v with
  | .nilIface => "nil"
  | .nilSlice k => showKindNil k
  | .val g => showG (mapGeom Float.toBits g)

/-! ### exact helpers -/

def mpQ (mp : MP UInt64) : Option (MP Q) := mp.mapM fun pg => pg.mapM ptsQ

def orientQ (a b c : Pt Q) : Q := (b.x - a.x) * (c.y - a.y) - (b.y - a.y) * (c.x - a.x)

def inBBox (a b p : Pt Q) : Bool :=
  min a.x b.x ≤ p.x && p.x ≤ max a.x b.x && min a.y b.y ≤ p.y && p.y ≤ max a.y b.y

/-- closed segments `a b` and `c d` share a point -/
def segsMeet (a b c d : Pt Q) : Bool :=
  let d1 := orientQ c d a; let d2 := orientQ c d b
  let d3 := orientQ a b c; let d4 := orientQ a b d
  (((d1 > 0 && d2 < 0) || (d1 < 0 && d2 > 0)) && ((d3 > 0 && d4 < 0) || (d3 < 0 && d4 > 0))) ||
  (d1 == 0 && inBBox c d a) || (d2 == 0 && inBBox c d b) || (d3 == 0 && inBBox a b c) || (d4 == 0 && inBBox a b d)

/-- edges of the implicitly closed vertex list -/
def edgesOf (ps : List (Pt Q)) : List (Pt Q × Pt Q) :=
  match ps with
  | [] => []
  | f :: _ => let c := ps ++ [f]; c.zip (c.drop 1)

/-- drop an explicit closing vertex -/
def unclose (r : List (Pt Q)) : List (Pt Q) :=
  if r.length ≥ 2 && r.head? == r.getLast? then r.dropLast else r

/-- the implicitly closed vertex list is a simple polygon of non-zero area -/
def simpleQ (ps : List (Pt Q)) : Bool :=
  let n := ps.length
  if n < 3 || area2 ps == 0 then false else
  let es := (edgesOf ps).toArray
  (List.range n).all fun i =>
    let (a, b) := es[i]!
    a != b &&
    (List.range n).all fun j =>
      if j ≤ i then true else
      let (c, d) := es[j]!
      if j == i + 1 then
        -- share only `b = c`
        !(orientQ a b d == 0 && inBBox a b d) && !(orientQ c d a == 0 && inBBox c d a)
      else if i == 0 && j == n - 1 then
        -- share only `d = a`
        !(orientQ a b c == 0 && inBBox a b c) && !(orientQ c d b == 0 && inBBox c d b)
      else !(segsMeet a b c d)

/-- no edge of `r1` meets an edge of `r2` (both implicitly closed) -/
def ringsApart (r1 r2 : List (Pt Q)) : Bool :=
  (edgesOf r1).all fun (a, b) => (edgesOf r2).all fun (c, d) => !(segsMeet a b c d)

/-- some segment of the path meets the OPEN box -/
def meetsOpenBox (box : Bound Q) (path : List (Pt Q)) : Bool :=
  (path.zip (path.drop 1)).any fun (a, b) => (lbInterval box true a b).isSome

def signOf (x : Q) : Int := if x > 0 then 1 else if x < 0 then -1 else 0

/-- even-odd membership in a polygon with holes -/
def inPolygon (pg : List (List (Pt Q))) (q : Pt Q) : Bool :=
  match pg with
  | [] => false
  | outer :: holes => evenOdd outer q && !(holes.any fun h => evenOdd h q)

def nearBoxEdge (box : Bound Q) (q : Pt Q) : Bool :=
  q.x - box.lo.x ≤ margin || box.hi.x - q.x ≤ margin || q.y - box.lo.y ≤ margin || box.hi.y - q.y ≤ margin

/-- sample points usable for the region comparison: strictly inside the box and more than 1e-6 from the
    box edges and from every ring in `rings` -/
def goodSamples (box : Bound Q) (rings : List (List (Pt Q))) (qs : List (Pt Q)) : List (Pt Q) :=
  qs.filter fun q => strictlyInside box q && !(nearBoxEdge box q) && !(rings.any fun r => nearRing r q eps2)

/-- position along the perimeter, measured counter-clockwise from the bottom-left corner -/
def perimPos (box : Bound Q) (p : Pt Q) : Option Q :=
  let w := box.hi.x - box.lo.x; let h := box.hi.y - box.lo.y
  if p.y == box.lo.y then some (p.x - box.lo.x)
  else if p.x == box.hi.x then some (w + (p.y - box.lo.y))
  else if p.y == box.hi.y then some (w + h + (box.hi.x - p.x))
  else if p.x == box.lo.x then some (2 * w + h + (box.hi.y - p.y))
  else none

/-- SPEC of "completed along the box edge": the corners passed when walking the boundary from `a` to `b`
    in direction `o` (independent of the `nexts` tables) -/
def specArc (box : Bound Q) (o : Int) (a b : Pt Q) : Option (List (Pt Q)) := do
  let sa ← perimPos box a
  let sb ← perimPos box b
  let w := box.hi.x - box.lo.x; let h := box.hi.y - box.lo.y
  let per := 2 * w + 2 * h
  let corners : List (Q × Pt Q) :=
    [(0, box.lo), (w, ⟨box.hi.x, box.lo.y⟩), (w + h, box.hi), (2 * w + h, ⟨box.lo.x, box.hi.y⟩)]
  -- distance travelled from `a` in direction `o` to reach perimeter position `s`
  let dist (s : Q) : Q :=
    let d := if o == 1 then s - sa else sa - s
    if d < 0 then d + per else d
  let target := dist sb
  let passed := corners.filter fun (s, _) => 0 < dist s && dist s < target
  -- order by distance travelled
  let sorted := passed.toArray.qsort (fun x y => dist x.1 < dist y.1)
  pure (sorted.toList.map (·.2))

/-! ### the executable property on an output multipolygon -/

def absQ (x : Q) : Q := if x < 0 then -x else x

/-- L1 length of the implicitly closed vertex list -/
def perimL1 (ps : List (Pt Q)) : Q :=
  (edgesOf ps).foldl (fun s (a, b) => s + absQ (b.x - a.x) + absQ (b.y - a.y)) 0

/-- a ring whose area is below `tol` times its length: what a touch of width ~1e-16 turns into once its
    vertices have been rounded (approximate mode only; error analysis: a vertex computed by `intersect`
    is off by a few ulps, so the doubled area of a ring of length L moves by at most a few ulps · L,
    far below tol · L with tol = 1e-9) -/
def isSliver (tol : Q) (r : List (Pt Q)) : Bool := absQ (area2 r) ≤ tol * perimL1 r

/-- approximate mode: polygons whose outer ring is a sliver and holes that are slivers are set aside
    before the winding test and the region comparison -/
def dropSlivers (tol : Q) (out : MP Q) : MP Q :=
  if tol == 0 then out else
  out.filterMap fun pg => match pg with
    | outer :: holes => if isSliver tol outer then none else some (outer :: holes.filter fun h => !(isSliver tol h))
    | [] => some []

/-! #### exact scan lines

  The region clause is decided on one horizontal line through every slab between consecutive vertex
  heights (vertices of the input rings, of the output rings and of the box): on such a line no vertex
  lies, every ring meets it in finitely many points computed exactly, and the set of points of the line
  lying in a polygon is a finite union of intervals.  Every output polygon and every connected piece of
  the expected region has positive area, hence spans a slab, hence meets one of the lines in an interval
  of positive length: each of them gets an exact interior witness, and the comparison is one of
  interval sets, not of 16 sample points. -/

/-- crossings of the implicitly closed ring with the line `y = c` (`c` is no vertex height): the
    abscissa and the weight `1 + |dx/dy|` of the crossing edge (how far a vertex error moves it) -/
def crossXs (r : List (Pt Q)) (c : Q) : List (Q × Q) :=
  (edgesOf r).filterMap fun (a, b) =>
    if (a.y < c && c < b.y) || (b.y < c && c < a.y) then
      let s := (b.x - a.x) / (b.y - a.y)
      some (a.x + (c - a.y) * s, 1 + absQ s)
    else none

def oddBelow (xs : List (Q × Q)) (m : Q) : Bool := (xs.filter fun x => x.1 < m).length % 2 == 1

/-- `outer` minus the holes, on the line -/
def polyAt (pg : List (List (Q × Q))) (m : Q) : Bool :=
  match pg with
  | [] => false
  | o :: hs => oddBelow o m && !(hs.any fun h => oddBelow h m)

/-- on the line `y = c`, inside the box: (length where the number of output polygons holding the point
    differs from the expected 0 / 1, length where two output polygons overlap, sum of crossing weights) -/
def scanLine (box : Bound Q) (expP outP : MP Q) (c : Q) : Q × Q × Q :=
  let ex := expP.map fun pg => pg.map fun r => crossXs r c
  let ou := outP.map fun pg => pg.map fun r => crossXs r c
  let all := ex.flatten.flatten ++ ou.flatten.flatten
  let bps := ([box.lo.x, box.hi.x] ++ all.map (·.1)).filter fun x => box.lo.x ≤ x && x ≤ box.hi.x
  let sorted := (bps.toArray.qsort (· < ·)).toList
  let wsum := all.foldl (fun s x => s + x.2) 0
  let (bad, ov) := (sorted.zip (sorted.drop 1)).foldl (fun (acc : Q × Q) (x : Q × Q) =>
    if x.1 == x.2 then acc else
    let m := (x.1 + x.2) / 2
    let cnt := (ou.filter fun pg => polyAt pg m).length
    let e := ex.any fun pg => polyAt pg m
    (if cnt != (if e then 1 else 0) then acc.1 + (x.2 - x.1) else acc.1,
     if cnt > 1 then acc.2 + (x.2 - x.1) else acc.2)) (0, 0)
  (bad, ov, wsum)

/-- heights of the scan lines: the middle of every slab of height > `tolH` inside the box -/
def scanHeights (box : Bound Q) (tolH : Q) (ys : List Q) : List Q :=
  let ys := ([box.lo.y, box.hi.y] ++ ys).filter fun y => box.lo.y ≤ y && y ≤ box.hi.y
  let s := (ys.toArray.qsort (· < ·)).toList
  (s.zip (s.drop 1)).filterMap fun (a, b) => if b - a > tolH then some ((a + b) / 2) else none

/-- the region clause on all scan lines.  Exact mode (`tol = 0`): the two interval sets must be equal up
    to finitely many points.  Approximate mode: slabs thinner than `tol · scale` are skipped and on each
    line the symmetric difference may have length `tol · scale · Σ weights` (each of the crossings is
    off by a few ulps · scale · (1 + |dx/dy|); tol = 1e-9 leaves six orders of magnitude). -/
def regionScan (box : Bound Q) (tol : Q) (expP outP : MP Q) : Option String :=
  let scale := 1 + absQ box.lo.x + absQ box.hi.x + absQ box.lo.y + absQ box.hi.y
  let ys := (expP.flatten.flatten ++ outP.flatten.flatten).map (·.y)
  let hs := scanHeights box (tol * scale) ys
  let res := hs.map fun c => scanLine box expP outP c
  if res.any fun (_, ov, w) => ov > tol * scale * w then some "polygons-overlap"
  else if res.any fun (bad, _, w) => bad > tol * scale * w then some "region-differs"
  else none

structure Spec where
  /-- expected membership of a point strictly inside the box -/
  inside : Pt Q → Bool
  /-- the expected region as polygons (outer ring minus holes, vertex lists not explicitly closed);
      `inside` is membership in one of them -/
  polys : MP Q
  /-- every ring whose boundary a sample point must stay away from -/
  rings : List (List (Pt Q))
  /-- holes of the input that must come back verbatim, attached to their container -/
  keptHoles : List (List (Pt Q))

/-- closure, containment in the box, winding, region equality, disjointness, hole attachment -/
def checkOutput (box : Bound Q) (o : Int) (tol : Q) (sp : Spec) (qs : List (Pt Q)) (out : MP Q) : Option String :=
  let rings := out.flatten
  if out.any (·.isEmpty) then some "empty-polygon" else
  if !(rings.all fun r => r.length ≥ 2 && r.head? == r.getLast?) then some "ring-not-closed" else
  if !(rings.all fun r => r.all fun v =>
        box.lo.x - tol ≤ v.x && v.x ≤ box.hi.x + tol && box.lo.y - tol ≤ v.y && v.y ≤ box.hi.y + tol) then
    some "vertex-outside-box" else
  -- approximate mode: slivers of rounded vertices have no winding and no area worth comparing
  let out := dropSlivers tol out
  let rings := out.flatten
  if !(out.all fun pg => match pg with
        | outer :: holes => signOf (area2 outer) == o && holes.all fun h => signOf (area2 h) == -o
        | [] => false) then
    (if rings.any fun r => area2 r == 0 then some "zero-area-ring" else some "wrong-winding") else
  let good := goodSamples box (sp.rings ++ rings) qs
  let bad := good.filter fun q =>
    let cnt := (out.filter fun pg => inPolygon pg q).length
    cnt != (if sp.inside q then 1 else 0)
  if !bad.isEmpty then
    (if bad.any fun q => (out.filter fun pg => inPolygon pg q).length > 1 then some "polygons-overlap"
     else some "region-differs") else
  -- the same on exact scan lines: an interior witness for every output polygon and every expected piece
  match regionScan box tol sp.polys out with
  | some why => some why
  | none =>
  -- holes that stay inside: verbatim, in exactly one polygon, inside that polygon's outer ring and in
  -- none of its other holes (the polygon that CONTAINS them, not merely one whose outer ring surrounds them)
  let holeBad := (sp.keptHoles.filter fun h => tol == 0 || !(isSliver tol h)).filter fun h =>
    let owners := out.filter fun pg => (pg.drop 1).any (· == h)
    match owners with
    | [pg] =>
      (match pg with
       | outer :: hs => !(h.all fun v => nearRing outer v eps2 || evenOdd outer v) ||
           (hs.any fun h' => h' != h && h.any fun v => evenOdd (unclose h') v && !(nearRing h' v eps2))
       | [] => true)
    | _ => true
  if !holeBad.isEmpty then some "hole-not-attached-to-container" else
  -- every output hole lies in its outer ring
  if !(out.all fun pg => match pg with
        | outer :: holes => holes.all fun h => h.all fun v => nearRing outer v eps2 || evenOdd outer v
        | [] => true) then some "hole-outside-its-polygon" else
  none

/-! ### tie / size classification of the endpoint sort (for tags and for the pdqsort caveat) -/

def sortClass (box : Bound F) (rings : List (List (Pt F))) : String :=
  match clipRings box rings with
  | .ok (op, _) =>
    (match mkEndpoints box 0 op with
     | .ok eps =>
       let n := eps.length
       let idx := List.range n
       let pairs (f : Endpoint F → Endpoint F → Bool) : Bool := idx.any fun i => idx.any fun j => i < j &&
         (match eps[i]?, eps[j]? with
          | some a, some b => f a b
          | _, _ => false)
       -- `touch`: two endpoints coincide (a ring vertex on the boundary); `tie`: `Less` cannot order a pair
       let touch := pairs fun a b => Core.ptEq a.point b.point
       let tie := pairs fun a b => match lessE op a b, lessE op b a with
         | .ok x, .ok y => x == y
         | _, _ => false
       (if touch then " touch" else "") ++ (if tie then " tie" else "") ++ (if n > 12 then " big" else "")
     | _ => "")
  | _ => ""


/-- a polygon that is a single ring of identical points: what a zero-length open-bound piece
    (C07 finding `open-zero-length-touch`) turns into -/
def isTouchPolygon (pg : List (List (Pt Q))) : Bool :=
  match pg with
  | [r] => (match r with | p :: rest => rest.all (· == p) | [] => false)
  | _ => false

/-- classify a failed check by the former defect class it reproduces (all repaired in /repo now;
    the clauses stay live):
    * `touch-polygon`: right once degenerate one-point polygons (zero-length pieces of the open-bound
      clipper, C07 finding `open-zero-length-touch`) are dropped from the output;
    * `touch-order`: the exact model — which orders coincident endpoints by the direction of their
      edges — produces a right output where the implementation does not. -/
def classify (why : String) (recheck : MP Q → Option String) (outq : MP Q) (modelOut : Res String (MP Q)) : String :=
  let strip (m : MP Q) : MP Q := m.filter fun pg => !(isTouchPolygon pg)
  if (strip outq).length < outq.length && (recheck (strip outq)).isNone then "propfail touch-polygon " ++ why
  else match modelOut with
    | .ok f => if (recheck f).isNone then "propfail touch-order " ++ why else "propfail " ++ why
    | _ => "propfail " ++ why

/-! ### handlers -/

def parseO (ts : Toks) : Option (Int × Toks) := int ts

def boxOK (b : Bound Q) : Bool := b.lo.x < b.hi.x && b.lo.y < b.hi.y

/-- the documented mechanism of finding C16-touch-rounding, recognised on the case: an input vertex lies
    exactly on the box boundary and a piece of the Float twin's open-bound clip ends NEXT to it (within
    1e-9, relative) without being bit-equal to it -/
def nearMissTouch (box : Bound F) (rings : List (List (Pt F))) : Bool :=
  let vb := rings.flatten.filter fun v => Clip.bitCode box v == 0 && Clip.bitCodeOpen box v != 0
  match clipRings box rings with
  | .ok (op, _) =>
    let ends := op.flatMap fun ls => ls.head?.toList ++ ls.getLast?.toList
    ends.any fun e => vb.any fun v =>
      let d := 1e-9 * (1 + Float.abs v.x + Float.abs v.y)
      !(Core.ptEq e v) && Float.abs (e.x - v.x) ≤ d && Float.abs (e.y - v.y) ≤ d
  | _ => false

/-! #### finding C16-near-line-rounding: the mechanism, recognised on the case

  A ring vertex NEXT TO one of the four box lines (not on it; a few ulps … 1e-9 away): the points where
  the edges through that vertex are cut land within rounding distance of each other, of the vertex, or of
  a box corner.  On the exact lines they have one order along the box boundary, lie on one side, bound one
  piece; the rounded intersections of `clip.line` say otherwise (two piece ends swap, an end falls onto
  the corner and so onto the next side, a piece narrower than an ulp is lost), `sortableEndpoints` sorts
  what it is given and `smartWrap` stitches the wrong ends together. -/

/-- some input vertex lies NEXT TO one of the four box lines: at a distance in (0, d] -/
def nearLineVertex (bq : Bound Q) (d : Q) (rings : List (List (Pt Q))) : Bool :=
  rings.flatten.any fun v =>
    [v.x - bq.lo.x, v.x - bq.hi.x, v.y - bq.lo.y, v.y - bq.hi.y].any fun t => t != 0 && absQ t ≤ d

/-- the combinatorial decisions of `clipRings` + the endpoint sort: the lengths of the open pieces, in
    order; the endpoints — `(piece index, is start, side)` — in the order the sort leaves them; and the
    pairs of (sorted) endpoints that lie in one point (`smartWrap` compares endpoints with `==`) -/
def wrapTrace {α : Type} [Add α] [Sub α] [Mul α] [Div α] [LT α] [LE α] [DecidableLT α] [DecidableLE α] [BEq α]
    [OfNat α 0] [OfNat α 2] (box : Bound α) (rings : List (List (Pt α))) (o : Int) :
    Option (List Nat × List (Nat × Bool × Nat) × List (Nat × Nat)) :=
  match clipRings box rings with
  | .ok (op, _) =>
    (match mkEndpoints box 0 op with
     | .ok eps =>
       (match sortE op (o != SmartClip.CCW) eps with
        | .ok s =>
          let idx := List.range s.length
          let same := idx.flatMap fun a => idx.filterMap fun c =>
            match s[a]?, s[c]? with
            | some x, some y => if a < c && Core.ptEq x.point y.point then some (a, c) else none
            | _, _ => none
          some (op.map (·.length), s.map (fun e => (e.index, e.start, e.side)), same)
        | _ => none)
     | _ => none)
  | _ => none

/-- the mechanism of finding C16-near-line-rounding: an input vertex lies next to a box line (distance in
    (0, 1e-9·scale]) AND the Float twin takes other combinatorial decisions than the exact model (other
    pieces, an endpoint on another side, two endpoints in another order, two endpoints in one point that
    are apart on the exact lines or the other way round) -/
def nearLineRounding (bq : Bound Q) (ringsQ : List (List (Pt Q))) (bf : Bound F) (ringsF : List (List (Pt F))) (o : Int) : Bool :=
  let d : Q := tolQ * (1 + absQ bq.lo.x + absQ bq.hi.x + absQ bq.lo.y + absQ bq.hi.y)
  nearLineVertex bq d ringsQ &&
  (match wrapTrace bq ringsQ o, wrapTrace bf ringsF o with
   | some tq, some tf => tq != tf
   | _, _ => false)

/-- the last step of every handler: model agreement, `+diff`, and the float-only classes.
    * `propfail touch-order …` (the exact model passes where the implementation fails) with the Float twin
      reproducing the implementation is a failure of float rounding only:
      `propfail rounding-sensitive near-line-vertex …` (finding C16-near-line-rounding) when `nearVtx`
      recognises its mechanism on the case; the former finding
      `rounding-sensitive touch-order region-differs | polygons-overlap` when the clause is the region
      (wrong, or covered twice) and `nearMiss` recognises that mechanism; and
      `propfail float-only …` (never matched by a known finding) otherwise;
    * every other `propfail` gets ` +diff` when the model disagrees with the implementation. -/
def finish (model got : String) (cls : String) (verdict : String) (nearMiss : Bool := false)
    (nearVtx : Unit → Bool := fun _ => false) : String :=
  let agree := model == got
  if verdict.startsWith "propfail touch-order" && agree then
    (if nearVtx () then "propfail rounding-sensitive near-line-vertex " ++ (verdict.drop 21).toString
     else if (verdict.startsWith "propfail touch-order region-differs" ||
         verdict.startsWith "propfail touch-order polygons-overlap") && nearMiss then
      "propfail rounding-sensitive " ++ (verdict.drop 9).toString
     else "propfail float-only " ++ (verdict.drop 9).toString)
  else
  if verdict.startsWith "propfail" then (if agree then verdict else verdict ++ " +diff")
  else if agree then verdict
  else if cls.endsWith " tie big" then "skip pdqsort-tie-order"
  else "diff " ++ model

/-- outcomes of the watchdog: `hang` (the worker burnt its CPU allowance on the case twice without
    answering) and `crash` (the worker process died twice).  Before /repo 2c23ded the inner loop of
    clip.line did not terminate when a ring vertex sat exactly on a corner of a general-position box
    (11 of 41 304 generated cases); since then the loop is bounded (theorem `Clip.line_total_any`, any
    arithmetic) and `hang` is a plain property failure. -/
def watchdogClause (_ms : String) (out : Toks) : Option String :=
  if out == ["hang"] then some "propfail hang"
  else if out == ["crash"] then some "propfail crash"
  else none

def validO (o : Int) : Bool := o == 1 || o == -1

/-- parse the implementation's multipolygon outcome -/
def parseMP (out : Toks) : Option (MP UInt64) :=
  match out with
  | ["nil"] => some []
  | "MPG" :: ts => (ptsss ts).map (·.1)
  | _ => none

def panicClause (m : Res String (MP F)) : String :=
  match m with
  | .panic "unreachable" => "propfail panic unreachable-in-Less"
  | .panic w => "propfail panic " ++ (w.replace " " "-")
  | _ => "propfail panic"

/-- the judgement shared by `ring` and `open`: `path` is the input, `full` the closed ring it is a
    sub-path of (`full = path` for closed input) -/
def judgeRing (o : Int) (bq : Bound Q) (path full qs : List (Pt Q)) (outq : MP Q) (exact : Bool) (kind : String)
    (fixedOut : Res String (MP Q)) : String :=
  if !(boxOK bq) then "ok degenerate-box (model only)" else
  let tol : Q := if exact then 0 else tolQ
  let sfx := if exact then "" else " approx"
  let closedIn := path.length ≥ 4 && path.head? == path.getLast?
  let endIn := match path.head?, path.getLast? with
    | some f, some l => inClosed bq f || inClosed bq l
    | _, _ => false
  -- the closed ring whose region is expected
  let eff : Option (List (Pt Q)) :=
    if closedIn then some path
    else if endIn then (match path.head? with | some f => some (path ++ [f]) | none => none)
    else
      -- open input, both ends outside the closed box: the omitted part must avoid the open box
      let omitted := full.drop (path.length - 1)
      if meetsOpenBox bq omitted then none else some full
  match eff with
  | none => "skip omitted-part-meets-box"
  | some eff =>
    let u := unclose eff
    if !(simpleQ u) then "ok not-simple (model only)" else
    if signOf (area2 u) != o then "ok miswound (model only)" else
    let mode := if closedIn then kind else if endIn then kind ++ "-implicit-close" else kind ++ "-open-path"
    if !(meetsOpenBox bq eff) then
      -- boundary does not meet the open box: all of the box or none of it is inside the region
      let centre : Pt Q := ⟨(bq.lo.x + bq.hi.x) / 2, (bq.lo.y + bq.hi.y) / 2⟩
      if evenOdd u centre then "skip box-inside-ring"
      else if outq.isEmpty then "ok " ++ mode ++ " outside-nil"
      else classify "outside-not-nil" (fun m => if m.isEmpty then none else some "x") outq fixedOut
    else if eff.all (strictlyInside bq) then
      (if outq == [[path]] then "ok " ++ mode ++ " inside-unchanged" else "propfail inside-not-unchanged")
    else
      let sp : Spec := { inside := evenOdd u, polys := [[u]], rings := [u], keptHoles := [] }
      match checkOutput bq o tol sp qs outq with
      | some why => classify why (checkOutput bq o tol sp qs) outq fixedOut
      | none =>
        let n := outq.length
        "ok " ++ mode ++ (if n == 0 then " none" else if n == 1 then " one-polygon" else " multi-polygon") ++ sfx

/-- `ring <o> <box> <pts> <qs>` and `open <o> <box> <path> <full> <qs>` -/
def handleRing (isOpen : Bool) (inp out : Toks) : String :=
  match (do
    let (o, i) ← parseO inp
    let (b, i) ← boundP i
    let (ps, i) ← pts i
    let (full, i) ← (if isOpen then pts i else some (ps, i))
    let (qs, _) ← pts i
    pure (o, b, ps, full, qs)) with
  | none => "bad input"
  | some (o, b, ps, full, qs) =>
    let m := SmartClip.ring (boundF b) (ptsF ps) o
    let ms := showRes (m.map showMPF)
    let got := " ".intercalate out
    let cls := sortClass (boundF b) [ptsF ps]
    finish ms got cls (nearMiss := nearMissTouch (boundF b) [ptsF ps])
      (nearVtx := fun _ => match boundQ b, ptsQ ps with
        | some bq, some pq => nearLineRounding bq [pq] (boundF b) [ptsF ps] o
        | _, _ => false) <|
    if !(validO o) then "ok invalid-orientation (model only)" else
    if let some v := watchdogClause ms out then v else
    if out == ["panic"] then panicClause m else
    match parseMP out with
    | none => "bad output"
    | some outb =>
      match boundQ b, ptsQ ps, ptsQ full, ptsQ qs, mpQ outb with
      | some bq, some pq, some fq, some qq, some outq =>
        let exact := match SmartClip.ring bq pq o with
          | .ok r => r == outq
          | _ => false
        let fq := if isOpen then fq else (if pq.length ≥ 4 && pq.head? == pq.getLast? then pq else
          match pq.head? with | some f => pq ++ [f] | none => pq)
        judgeRing o bq pq fq qq outq exact (if isOpen then "open" else "ring") (SmartClip.ring bq pq o) ++ cls
      | _, _, _, _, _ => "skip non-finite"

/-- `arc <o> <box> <path> <qs>`: a one-piece open path; the expected ring is the piece followed by the
    corners between its end and its start in direction `o` (`specArc`) -/
def handleArc (inp out : Toks) : String :=
  match (do
    let (o, i) ← parseO inp
    let (b, i) ← boundP i
    let (ps, i) ← pts i
    let (qs, _) ← pts i
    pure (o, b, ps, qs)) with
  | none => "bad input"
  | some (o, b, ps, qs) =>
    let m := SmartClip.ring (boundF b) (ptsF ps) o
    let ms := showRes (m.map showMPF)
    let got := " ".intercalate out
    finish ms got "" <|
    if !(validO o) then "ok invalid-orientation (model only)" else
    if let some v := watchdogClause ms out then v else
    if out == ["panic"] then panicClause m else
    match parseMP out with
    | none => "bad output"
    | some outb =>
      match boundQ b, ptsQ ps, ptsQ qs, mpQ outb with
      | some bq, some pq, some qq, some outq =>
        -- the piece: the path without its two outside end vertices
        let piece := (pq.drop 1).dropLast
        (match piece.head?, piece.getLast? with
         | some s, some e =>
           let codeA := SmartClip.bitCodeOpen bq e
           let codeB := SmartClip.bitCodeOpen bq s
           let tag := s!"arc {codeA}->{codeB} o={o}"
           if s == e then
             -- leaves where it entered: a closed piece touching the boundary in one point
             (match outq with
              | [[r]] => if r == piece && r.head? == r.getLast? then "ok " ++ tag ++ " same-point" else "propfail arc-ring-differs"
              | _ => "propfail arc-ring-differs")
           else
           (match specArc bq o e s with
           | none => "bad arc endpoints not on the boundary"
           | some corners =>
             let expect := piece ++ corners
             (match outq with
              | [[r]] =>
                if !(r.length ≥ 2 && r.head? == r.getLast?) then "propfail ring-not-closed" else
                if !(r.all (inClosed bq)) then "propfail vertex-outside-box" else
                if area2 r != 0 && signOf (area2 r) != o then "propfail wrong-winding" else
                -- same polygon as the spec ring up to collinear side points
                if dropCollinear (dedup r) != dropCollinear (dedup (expect ++ [s])) then "propfail arc-ring-differs" else
                let good := goodSamples bq [r, expect] qq
                if good.any fun q => evenOdd r q != evenOdd expect q then "propfail region-differs"
                else "ok " ++ tag
              | _ => "propfail arc-not-one-polygon"))
         | _, _ => "bad arc path")
      | _, _, _, _ => "skip non-finite"

/-- `some p`: the two (implicitly closed) rings have exactly ONE point in common — `p`, a vertex of one of
    them lying on the other — and no two of their edges cross properly or overlap; `none`: they are apart,
    or they meet in any other way -/
def touchPoint? (r1 r2 : List (Pt Q)) : Option (Pt Q) :=
  let onRing (r : List (Pt Q)) (v : Pt Q) : Bool := (edgesOf r).any fun (a, b) => orientQ a b v == 0 && inBBox a b v
  let cands := ((r1.filter (onRing r2)) ++ (r2.filter (onRing r1))).eraseDups
  match cands with
  | [p] =>
    let proper := (edgesOf r1).any fun (a, b) => (edgesOf r2).any fun (c, d) =>
      let d1 := orientQ c d a; let d2 := orientQ c d b
      let d3 := orientQ a b c; let d4 := orientQ a b d
      ((d1 > 0 && d2 < 0) || (d1 < 0 && d2 > 0)) && ((d3 > 0 && d4 < 0) || (d3 < 0 && d4 > 0))
    if proper then none else some p
  | _ => none

/-- `ringsApart`, or (with `touch`) one common point -/
def apartOrTouch (touch : Bool) (r1 r2 : List (Pt Q)) : Bool :=
  ringsApart r1 r2 || (touch && (touchPoint? r1 r2).isSome)

/-- every vertex of `a` other than the touching point satisfies `f` -/
def allBut (touch : Bool) (a c : List (Pt Q)) (f : Pt Q → Bool) : Bool :=
  let tp := if touch then touchPoint? a c else none
  a.all fun v => tp == some v || f v

/-- well-formedness of a polygon for the property: simple rings, outer wound `o`, holes wound `-o`,
    strictly inside the outer ring, pairwise apart and not nested.  With `touch` a hole may share exactly
    one point with the outer ring (a valid OGC polygon still; the quantifier's "interior holes" read
    strictly excludes it: such cases are judged, tagged `ring-touch`, and are their own finding class). -/
def polyWellFormedT (touch : Bool) (o : Int) (pg : List (List (Pt Q))) : Bool :=
  match pg with
  | [] => false
  | outer :: holes =>
    let closedOK := pg.all fun r => r.length ≥ 4 && r.head? == r.getLast?
    let uo := unclose outer
    let uh := holes.map unclose
    closedOK && simpleQ uo && signOf (area2 uo) == o &&
    uh.all (fun h => simpleQ h && signOf (area2 h) == -o && apartOrTouch touch h uo && allBut touch h uo (evenOdd uo)) &&
    (List.range uh.length).all fun i => (List.range uh.length).all fun j =>
      if j ≤ i then true else
      match uh[i]?, uh[j]? with
      | some a, some b => ringsApart a b && !(a.any (evenOdd b)) && !(b.any (evenOdd a))
      | _, _ => true

def polyWellFormed (o : Int) (pg : List (List (Pt Q))) : Bool := polyWellFormedT false o pg

/-- the (unclosed) ring `a` lies inside one of the holes of `pg` -/
def insideHoleOf (a : List (Pt Q)) (pg : List (List (Pt Q))) : Bool :=
  (pg.drop 1).any fun h => let uh := unclose h; ringsApart a uh && a.all (evenOdd uh)

/-- members `p`, `q` of a valid multi-polygon: outer rings apart (with `touch`: or sharing one point), and
    either side by side or one of them inside a hole of the other (an island in a lake).  The property's
    quantifier says "multi-polygons": valid OGC multi-polygons, whose members have disjoint interiors —
    nesting through a hole included. -/
def membersOKT (touch : Bool) (p q : List (List (Pt Q))) : Bool :=
  match p, q with
  | po :: _, qo :: _ =>
    let a := unclose po; let c := unclose qo
    (ringsApart a c && ((!(a.any (evenOdd c)) && !(c.any (evenOdd a))) || insideHoleOf a q || insideHoleOf c p)) ||
    (touch && (touchPoint? a c).isSome && allBut true a c (fun v => !(evenOdd c v)) && allBut true c a (fun v => !(evenOdd a v)))
  | _, _ => true

def membersOK (p q : List (List (Pt Q))) : Bool := membersOKT false p q

def pairsAll (l : MP Q) (f : List (List (Pt Q)) → List (List (Pt Q)) → Bool) : Bool :=
  (List.range l.length).all fun i => (List.range l.length).all fun j =>
    if j ≤ i then true else
    match l[i]?, l[j]? with
    | some a, some c => f a c
    | _, _ => true

/-- some member lies inside a hole of another one -/
def hasNested (mpq : MP Q) : Bool :=
  !(pairsAll mpq fun p q => match p, q with
    | po :: _, qo :: _ => !(insideHoleOf (unclose po) q) && !(insideHoleOf (unclose qo) p)
    | _, _ => true)

def boxCentre (bq : Bound Q) : Pt Q := ⟨(bq.lo.x + bq.hi.x) / 2, (bq.lo.y + bq.hi.y) / 2⟩

/-- some member's outer ring contains the whole box (does not meet the open box, contains its centre)
    while one of that member's holes meets the open box: inside the quantifier (the polygon's boundary
    meets the open box), and the situation of finding C16-box-inside-outer-ring -/
def boxInOuter (bq : Bound Q) (mpq : MP Q) : Bool :=
  mpq.any fun pg => match pg with
    | outer :: holes => !(meetsOpenBox bq outer) && evenOdd (unclose outer) (boxCentre bq) &&
        holes.any fun h => meetsOpenBox bq h
    | [] => false

/-- the property's quantifier for a multi-polygon (members without rings are skipped by the code and
    enclose nothing: they are left out first): every member well formed, members pairwise apart and side
    by side or nested through a hole (`some "not-well-formed"` otherwise), and no member whose region
    contains the whole box while none of its rings meets the open box (`some "box-inside-ring"`: smartclip
    returns nothing for such a member, as for a single ring; outside the quantifier, which asks for a
    boundary that meets the open box) -/
def mpOutsideQuantifierT (touch : Bool) (o : Int) (bq : Bound Q) (mpq : MP Q) : Option String :=
  let mpq := mpq.filter fun pg => !pg.isEmpty
  if !(mpq.all (polyWellFormedT touch o)) then some "not-well-formed" else
  if !(pairsAll mpq (membersOKT touch)) then some "not-well-formed" else
  let swallow := mpq.any fun pg => !(pg.any fun r => meetsOpenBox bq r) && inPolygon (pg.map unclose) (boxCentre bq)
  if swallow then some "box-inside-ring" else none

def mpOutsideQuantifier (o : Int) (bq : Bound Q) (mpq : MP Q) : Option String := mpOutsideQuantifierT false o bq mpq

/-- two open pieces of the Float twin's `clipRings` START in the same point: the one situation in which
    `smartWrap`'s test for "loop complete" (`ep.Point.Equal(current[0])`, a comparison of POINTS) can take the
    start of another piece for the start of the ring being stitched -/
def coincidentStarts (box : Bound F) (rings : List (List (Pt F))) : Bool :=
  match clipRings box rings with
  | .ok (op, _) =>
    let starts := op.filterMap (·.head?)
    let idx := List.range starts.length
    idx.any fun i => idx.any fun j => i < j &&
      (match starts[i]?, starts[j]? with
       | some a, some c => Core.ptEq a c
       | _, _ => false)
  | _ => false

/-- every hole of the output re-attached to the innermost outer ring that contains it (the repair of
    finding C16-nested-hole-misassigned, applied to the implementation's output) -/
def reassignHoles (out : MP Q) : MP Q :=
  let outers := out.filterMap (·.head?)
  let holes := out.flatMap (·.drop 1)
  let ownerOf (h : List (Pt Q)) : Option (List (Pt Q)) :=
    (outers.filter fun oR => h.any fun v => evenOdd (unclose oR) v && !(nearRing oR v eps2)).foldl
      (fun best oR => match best with
        | none => some oR
        | some b => if absQ (area2 oR) < absQ (area2 b) then some oR else some b) none
  outers.map fun oR => oR :: holes.filter fun h => ownerOf h == some oR

/-- `poly <o> <box> PG … <qs>` / `mpoly <o> <box> MPG … <qs>` -/
def handlePolys (multi : Bool) (inp out : Toks) : String :=
  match (do
    let (o, i) ← parseO inp
    let (b, i) ← boundP i
    let (g, i) ← geom i
    let (qs, _) ← pts i
    let mp : MP UInt64 ← (match g with
      | .polygon p => if multi then none else some [p]
      | .multiPolygon l => if multi then some l else none
      | _ => none)
    pure (o, b, mp, qs)) with
  | none => "bad input"
  | some (o, b, mpb, qs) =>
    let mpf : MP F := mpb.map (·.map ptsF)
    let run {α : Type} [Add α] [Sub α] [Mul α] [Div α] [LT α] [LE α] [DecidableLT α] [DecidableLE α] [BEq α]
        [OfNat α 0] [OfNat α 2] (box : Bound α) (mp : MP α) : Res String (MP α) :=
      if multi then SmartClip.multiPolygon box mp o
      else match mp with
        | [p] => SmartClip.polygon box p o
        | _ => .err "shape"
    let m := run (boundF b) mpf
    let ms := showRes (m.map showMPF)
    let got := " ".intercalate out
    let cls := sortClass (boundF b) (mpf.flatten)
    -- the rings in the order their pieces reach `smartWrap`
    let ringOrder {β : Type} (mp : MP β) : List (List (Pt β)) :=
      if multi then (mp.filterMap (·.head?)) ++ (mp.flatMap fun p => p.drop 1) else mp.flatten
    finish ms got cls (nearMiss := nearMissTouch (boundF b) mpf.flatten)
      (nearVtx := fun _ => match boundQ b, mpQ mpb with
        | some bq, some mq => nearLineRounding bq (ringOrder mq) (boundF b) (ringOrder mpf) o
        | _, _ => false) <|
    if !(validO o) then "ok invalid-orientation (model only)" else
    if let some v := watchdogClause ms out then v else
    if out == ["panic"] then panicClause m else
    match parseMP out with
    | none => "bad output"
    | some outb =>
      match boundQ b, mpQ mpb, ptsQ qs, mpQ outb with
      | some bq, some mpq0, some qq, some outq0 =>
        if !(boxOK bq) then "ok degenerate-box (model only)" else
        let exact := match run bq mpq0 with
          | .ok r => r == outq0
          | _ => false
        let tol : Q := if exact then 0 else tolQ
        let sfx := (if exact then "" else " approx") ++ cls
        let kind := if multi then "mpoly" else "poly"
        -- `touching`: outside the strict quantifier only because two rings share exactly one point
        let strict := mpOutsideQuantifier o bq mpq0
        let relaxed := if strict == some "not-well-formed" then mpOutsideQuantifierT true o bq mpq0 else strict
        let touching := strict.isSome && relaxed.isNone
        match relaxed with
        | some "box-inside-ring" => "skip box-inside-ring"
        | some _ => "ok not-well-formed (model only)"
        | none =>
        let sfx := (if touching then " ring-touch" else "") ++ sfx
        -- members without rings are skipped by the code (`if len(p) == 0 { continue }`) and enclose nothing
        let mpq := mpq0.filter fun pg => !pg.isEmpty
        let emptyTag := if mpq.length < mpq0.length then " empty-members" else ""
        let nested := hasNested mpq
        let swallowed := boxInOuter bq mpq
        let allRings := mpq.flatten
        -- a ring is cut when it meets the open box but does not lie strictly inside it
        let cut := allRings.any fun r => meetsOpenBox bq r && !(r.all (strictlyInside bq))
        let anyIn := allRings.any fun r => r.all (strictlyInside bq)
        let holesIn := (mpq.flatMap fun pg => pg.drop 1).filter fun h => h.all (strictlyInside bq)
        -- an input handed back whole keeps its members without rings: they are not judged
        let outq := if !cut then outq0.filter fun pg => !pg.isEmpty else outq0
        let sp : Spec :=
          { inside := fun q => mpq.any fun pg => inPolygon (pg.map unclose) q
            polys := mpq.map fun pg => pg.map unclose
            rings := allRings.map unclose
            keptHoles := holesIn }
        let fixedOut : Res String (MP Q) := run bq mpq0
        -- the recognised situations of the known findings (labels only; `finish` adds `+diff` when the
        -- model does not reproduce the implementation)
        let label (why : String) : Option String :=
          if swallowed then some ("propfail box-inside-outer-ring " ++ why)
          else if touching then
            -- a failure of rounding only (the exact model's output passes) goes the way of all such failures
            let c := if why == "inside-not-unchanged" then "" else classify why (checkOutput bq o tol sp qq) outq fixedOut
            if c.startsWith "propfail touch-order" then some c
            -- finding C16-ring-touch-on-box-side: recognised when two pieces start in one point
            else if coincidentStarts (boundF b) mpf.flatten then some ("propfail ring-touch-on-box-side " ++ why)
            else some ("propfail ring-touch " ++ why)
          else if nested && (checkOutput bq o tolQ sp qq (reassignHoles outq)).isNone then
            some ("propfail nested-member hole-misassigned " ++ why)
          else none
        if !cut && !anyIn then
          (if outq.isEmpty then "ok " ++ kind ++ " outside-nil" ++ emptyTag
           else classify "outside-not-nil" (fun m => if m.isEmpty then none else some "x") outq fixedOut)
        else
        match checkOutput bq o tol sp qq outq with
        | some why =>
          -- a multi-polygon none of whose outer rings is cut comes back whole, outside members included
          if multi && !cut && !swallowed && outq0 == mpq0 && why == "vertex-outside-box" then "propfail uncut-multipolygon-keeps-outside-members"
          else match label why with
            | some l => l
            | none => classify why (checkOutput bq o tol sp qq) outq fixedOut
        | none =>
          -- nothing is cut: the members inside the box come back verbatim ("returned unchanged")
          let unchanged := mpq.filter fun pg => match pg with
            | outer :: _ => outer.all (strictlyInside bq)
            | [] => false
          if !cut && outq != unchanged then
            (match label "inside-not-unchanged" with
             | some l => l
             | none => "propfail inside-not-unchanged")
          else
          let holesOut := (outq.flatMap fun pg => pg.drop 1).length
          "ok " ++ kind ++ (if !cut then " inside-unchanged" else "")
            ++ (if outq.length > 1 then " multi" else if outq.isEmpty then " none" else "")
            ++ (if holesOut > 0 then " holes-kept" else "")
            ++ (if (mpq.flatMap fun pg => pg.drop 1).any (fun h => meetsOpenBox bq h && !(h.all (strictlyInside bq))) then " hole-cut" else "")
            ++ (if nested then " nested" else "") ++ (if swallowed then " box-in-outer" else "") ++ emptyTag ++ sfx
      | _, _, _, _ => "skip non-finite"

/-! ### caller buffers (`aring`, `apoly`, `ampoly`) -/

/-- `if !r.Closed() && (box.Contains(r[0]) || box.Contains(r[len(r)-1])) { r = append(r, r[0]) }`: the
    append that writes into the caller's backing array when the ring has spare capacity -/
def implicitClose (box : Bound F) (r : List (Pt F)) : Bool :=
  !r.isEmpty && !(SmartClip.ringClosed r) &&
    (match r.head?, r.getLast? with
     | some f, some l => box.contains f || box.contains l
     | _, _ => false)

/-- the rings `clipRings` is called on, in order (`kind` 0 ring, 1 polygon, 2 multi-polygon; the inner
    rings of a multi-polygon only when `MultiPolygon` does not return early) -/
def processedRings (box : Bound F) (kind : Nat) (mp : MP F) : List (List (Pt F)) :=
  if kind != 2 then mp.flatten else
  let outers := SmartClip.outerRings mp
  let early := match clipRings box outers with
    | .ok (op, co) => op.isEmpty && (co.isEmpty || co.length == outers.length)
    | _ => true
  outers ++ (if early then [] else mp.flatMap fun p => p.drop 1)

/-- `aring | apoly | ampoly <o> <box> <rings>`; outcome `<result on a private copy> alias <wS> <sameS> <wB> <sameB>`.
    Judged: the call leaves every slot of the caller's buffer as it was and returns what it returns on a
    private copy.  The known finding (`caller-memory-written implicit-close`) is reported only when the
    model predicts the implicit closing, the number of slots written in the spare-capacity layout is
    exactly the number of implicitly closed rings, and the result on that layout is the reference one. -/
def handleAlias (kind : Nat) (inp out : Toks) : String :=
  match (do
    let (o, i) ← parseO inp
    let (b, i) ← boundP i
    let mp : MP UInt64 ← (if kind == 0 then
        (match pts i with
         | some (ps, _) => some [[ps]]
         | none => none)
      else
        match geom i with
        | some (.polygon p, _) => if kind == 1 then some [p] else none
        | some (.multiPolygon l, _) => if kind == 2 then some l else none
        | _ => none : Option (MP UInt64))
    pure (o, b, mp)) with
  | none => "bad input"
  | some (o, b, mpb) =>
    let mpf : MP F := mpb.map fun pg => pg.map ptsF
    let box := boundF b
    let m : Res String (MP F) :=
      if kind == 2 then SmartClip.multiPolygon box mpf o
      else match mpf with
        | [[r]] => if kind == 0 then SmartClip.ring box r o else SmartClip.polygon box [r] o
        | [p] => if kind == 1 then SmartClip.polygon box p o else .err "shape"
        | _ => .err "shape"
    let ms := showRes (m.map showMPF)
    let main := out.takeWhile (· != "alias")
    let al := (out.dropWhile (· != "alias")).drop 1
    let got := " ".intercalate main
    finish ms got "" <|
    if !(validO o) then "ok invalid-orientation (model only)" else
    if let some v := watchdogClause ms main then v else
    if main == ["panic"] then panicClause m else
    let expected := ((processedRings box kind mpf).filter (implicitClose box)).length
    match al with
    | [wS, sS, wB, sB] =>
      if wS == "0" && wB == "0" && sS == "1" && sB == "1" then
        "ok alias clean" ++ (if expected > 0 then " implicit-close" else "")
      else if expected > 0 && wS == toString expected && sS == "1" then
        "propfail caller-memory-written implicit-close" ++ (if sB != "1" then " result-differs" else "")
      else "propfail caller-memory-written unexplained"
    | _ => "bad output"

def ebF : Bound F := Driver.C08.ebF

/-- every polygon (as rings) of a geometry value -/
partial def polysOf : Geom UInt64 → MP UInt64
  | .ring r => [[r]]
  | .polygon p => [p]
  | .multiPolygon l => l
  | .collection gs => gs.flatMap polysOf
  | _ => []

/-- `geom <o> <box> <gval>`: the generic entry point (model agreement, nil rules, closure and containment) -/
def handleGeom (inp out : Toks) : String :=
  match (do
    let (o, i) ← parseO inp
    let (b, i) ← boundP i
    let (g, _) ← gval i
    pure (o, b, g)) with
  | none => "bad input"
  | some (o, b, v) =>
    let m := SmartClip.geometryV ebF (boundF b) o (mapGVal Float.ofBits v)
    let ms := showRes (m.map showGV)
    let got := " ".intercalate out
    finish ms got "" <|
    if !(validO o) then "ok invalid-orientation (model only)" else
    if let some v := watchdogClause ms out then v else
    if out == ["panic"] then
      (match m with
       | .panic "unreachable" => "propfail panic unreachable-in-Less"
       | .panic w => "propfail panic " ++ (w.replace " " "-")
       | _ => "propfail panic") else
    let kindTag := match v with
      | .nilIface => "nil-iface" | .nilSlice _ => "typed-nil"
      | .val g => (match g with
        | .ring _ => "ring" | .polygon _ => "polygon" | .multiPolygon _ => "multipolygon" | .bound _ _ => "bound"
        | .collection _ => "collection" | _ => "dim<2")
    if got == "nil" then "ok geom " ++ kindTag ++ " -> nil" else
    if got == "nC" then "ok geom " ++ kindTag ++ " -> typed-nil-collection" else
    -- nested typed-nil collections are printed `nC` by the harness
    let out' := out.flatMap fun t => if t == "nC" then ["C", "0"] else [t]
    match geom out', boundQ b with
    | some (r, _), some bq =>
      if !(boxOK bq) then "ok degenerate-box (model only)" else
      let inB : MP UInt64 := match v with | .val g => polysOf g | _ => []
      (match ptsQ (allPts r), mpQ inB with
       | some vs, some inq =>
         -- containment in the box is claimed for input inside the property's quantifier
         let wf := (mpOutsideQuantifier o bq inq).isNone
         if wf && !(vs.all (inBoxTol bq)) then
           (if boxInOuter bq inq then "propfail box-inside-outer-ring vertex-outside-box" else "propfail vertex-outside-box") else
         -- an output ring that is not closed must be an input ring handed back as it was
         let inRings := inB.flatten
         -- bit patterns: -0 and +0 are the same coordinate (Go compares with ==)
         let nz (rg : List (Pt UInt64)) : List (Pt UInt64) :=
           rg.map (mapPt fun c => if c == 0x8000000000000000 then 0 else c)
         let inRingsN := inRings.map nz
         if !((polysOf r).flatten.all fun rg => (rg.length ≥ 2 && (nz rg).head? == (nz rg).getLast?) || inRingsN.contains (nz rg)) then
           "propfail ring-not-closed"
         else "ok geom " ++ kindTag ++ (if wf then "" else " (garbage)") ++
           (match r with | .collection _ => " -> collection" | .polygon _ => " -> polygon" | .multiPolygon _ => " -> multipolygon" | _ => " -> other")
       | _, _ => "skip non-finite")
    | _, _ => "bad output"

def handle (ts : Toks) : String :=
  match ts with
  | op :: rest =>
    let (inp, out) := splitArrow rest
    match op with
    | "ring" => handleRing false inp out
    | "open" => handleRing true inp out
    | "arc" => handleArc inp out
    | "poly" => handlePolys false inp out
    | "mpoly" => handlePolys true inp out
    | "geom" => handleGeom inp out
    | "aring" => handleAlias 0 inp out
    | "apoly" => handleAlias 1 inp out
    | "ampoly" => handleAlias 2 inp out
    -- reach self-test of the generator (harness/clipreach.go): the number of cases of the edge-through-corner
    -- family on which a replica of clip.line's loop takes the `clips == 2` (clampToBound) arm
    | "reach" => (match inp with
      | [n] => if n == "0" then "bad reach-gate clamp-arm-unreached" else "ok reach-clamp"
      | _ => "bad reach")
    | _ => "bad op " ++ op
  | [] => "bad empty"

end Driver.C16
