import Orb.Proto
import Orb.Planar
import Orb.PlanarScale

/-! Driver for C10 (planar area, centroid, length, distance). -/
namespace Driver.C10
open Orb Orb.Proto Orb.Planar

abbrev Q := Rat

instance : NatCast Float := ⟨Float.ofNat⟩

/-! ### numbers -/

def qabs (x : Q) : Q := if x < 0 then -x else x
def qmax (a b : Q) : Q := if a < b then b else a
def qmin (a b : Q) : Q := if b < a then b else a

/-- square root on rationals: exact on squares of rationals, otherwise correct to a RELATIVE 1e-40
    (`√(n/d) = √(n·d)/d`, the integer root taken of `n·d·10^80`), whatever the magnitude — tiny and huge pools included
    (only ever compared under the 1e-9 tolerance of the property's quantifier) -/
def sqrtQ (x : Q) : Q :=
  if x ≤ 0 then 0 else
  let n := x.num.toNat
  let d := x.den
  let sn := Nat.sqrt n
  let sd := Nat.sqrt d
  if sn * sn == n && sd * sd == d then (sn : Q) / (sd : Q) else
  let k : Nat := 10 ^ 40
  (Nat.sqrt (n * d * k * k) : Q) / ((k * d : Nat) : Q)

def tolRel : Q := 1 / 1000000000
def tolAbs : Q := 1 / 1000000000000

/-- within the quantifier's relative 1e-9 (with an absolute floor of 1e-12 of the coordinate scale `m`) -/
def close (m a b : Q) : Bool := qabs (a - b) ≤ tolRel * qmax (qabs a) (qabs b) + tolAbs * m

def fbits (f : Float) : String := floatToHex f
/-- float tokens agree: same bits, or both NaN -/
def sameTok (a b : String) : Bool :=
  a == b || (match hexToNat? a, hexToNat? b with
    | some x, some y => (Float.ofBits (UInt64.ofNat x)).isNaN && (Float.ofBits (UInt64.ofNat y)).isNaN
    | _, _ => false)
def sameToks (a b : List String) : Bool := a.length == b.length && (a.zip b).all fun (x, y) => sameTok x y

def fQ? (f : Float) : Option Q := bitsToRat? f.toBits

def tokQ? (t : String) : Option Q := (hexToNat? t).bind fun n => bitsToRat? (UInt64.ofNat n)

/-! ### geometry plumbing -/

def toF (g : Geom UInt64) : Geom Float := mapGeom Float.ofBits g

partial def toQ? : Geom UInt64 → Option (Geom Q)
  | .point p => do pure (.point ⟨← bitsToRat? p.x, ← bitsToRat? p.y⟩)
  | .multiPoint ps => do pure (.multiPoint (← ps.mapM pq))
  | .lineString ps => do pure (.lineString (← ps.mapM pq))
  | .ring ps => do pure (.ring (← ps.mapM pq))
  | .multiLineString l => do pure (.multiLineString (← l.mapM (·.mapM pq)))
  | .polygon l => do pure (.polygon (← l.mapM (·.mapM pq)))
  | .multiPolygon l => do pure (.multiPolygon (← l.mapM (·.mapM (·.mapM pq))))
  | .bound a b => do pure (.bound (← pq a) (← pq b))
  | .collection gs => do pure (.collection (← gs.mapM toQ?))
where pq (p : Pt UInt64) : Option (Pt Q) := do pure ⟨← bitsToRat? p.x, ← bitsToRat? p.y⟩

def emptyOfK {α} : Kind → Geom α
  | .multiPoint => .multiPoint [] | .lineString => .lineString [] | .multiLineString => .multiLineString []
  | .ring => .ring [] | .polygon => .polygon [] | .multiPolygon => .multiPolygon []
  | _ => .collection []

/-- a top-level value as the geometry the type switch sees (`none`: nil interface) -/
def normG {α} : GVal α → Option (Geom α)
  | .nilIface => none
  | .nilSlice k => some (emptyOfK k)
  | .val g => some g

/-- 2-adic valuation of a non-zero dyadic rational (`num / 2^j`): the exponent of its lowest set bit -/
def v2Q (q : Q) : Int :=
  let rec tz (fuel : Nat) (n : Nat) (acc : Nat) : Nat :=
    match fuel with
    | 0 => acc
    | fuel + 1 => if n != 0 && n % 2 == 0 then tz fuel (n / 2) (acc + 1) else acc
  (tz 2200 q.num.natAbs 0 : Int) - (Nat.log2 q.den : Int)

/-- the exact part of the property's quantifier: integer coordinates with |v| ≤ 2^20 — or, white-box round, such a
    lattice times ONE power of two (`n·2^e`, |n| ≤ 2^20, the same `e` for every coordinate; tiny and huge pools):
    multiplying by `2^e` is exact, so areas, squared distances and clamped distances are exact there as well.
    `e` is the largest exponent with every coordinate a multiple of `2^e`. -/
def isDyadicList (bs : List UInt64) : Bool :=
  match bs.mapM bitsToRat? with
  | none => false
  | some qs =>
    let nz := qs.filter (· != 0)
    match nz with
    | [] => true
    | q0 :: _ =>
      let e : Int := nz.foldl (fun m q => min m (v2Q q)) (v2Q q0)
      let u : Q := if e ≥ 0 then ((2 : Q) ^ e.toNat) else 1 / ((2 : Q) ^ (-e).toNat)
      nz.all fun q => qabs q ≤ u * ((2 : Q) ^ 20)

def isIntDomain (g : Geom UInt64) : Bool := isDyadicList (coords g)

/-- the coordinate scale of a case: the largest coordinate magnitude (no floor: a case from a tiny pool is judged
    relative to ITS scale; all coordinates zero: scale 0, everything is then exact) -/
def scaleOf (g : Geom Q) (extra : List Q := []) : Q :=
  ((coords g) ++ extra).foldl (fun m c => qmax m (qabs c)) 0

/-! ### the independent exact specification (rationals) -/

def crossQ (p q : Pt Q) : Q := p.x * q.y - q.x * p.y
def openPairs {β} (l : List β) : List (β × β) := l.zip l.tail
/-- consecutive pairs of the implicitly closed chain (the closing pair `(last, first)` included) -/
def closedPairs {β} (r : List β) : List (β × β) :=
  match r with
  | [] => []
  | v :: t => r.zip (t ++ [v])

def add3 (a b : Q × Q × Q) : Q × Q × Q := (a.1 + b.1, a.2.1 + b.2.1, a.2.2 + b.2.2)
def scale3 (k : Q) (a : Q × Q × Q) : Q × Q × Q := (k * a.1, k * a.2.1, k * a.2.2)

/-- (signed area, area·cx, area·cy) of the implicitly closed ring — the textbook shoelace moments -/
def ringMom (r : List (Pt Q)) : Q × Q × Q :=
  (closedPairs r).foldl (fun s (pq : Pt Q × Pt Q) =>
    let c := crossQ pq.1 pq.2
    add3 s (c / 2, (pq.1.x + pq.2.x) * c / 6, (pq.1.y + pq.2.y) * c / 6)) (0, 0, 0)

def sgn (x : Q) : Q := if x < 0 then -1 else 1

/-- a ring of zero area carries no weight (the code answers `(r[0], 0)` for it) -/
def ringMomNZ (r : List (Pt Q)) : Q × Q × Q :=
  let m := ringMom r
  if m.1 == 0 then (0, 0, 0) else m

/-- a part of zero weight has no centroid to contribute (the code answers area 0 for it): the mean is taken
    level by level, as in the theorems `polygon_centroid_weighted`, `multi_centroid_weighted` -/
def nz (m : Q × Q × Q) : Q × Q × Q := if m.1 == 0 then (0, 0, 0) else m

/-- |outer| − Σ|holes| with the matching first moments -/
def polyMom (p : List (List (Pt Q))) : Q × Q × Q :=
  match p with
  | [] => (0, 0, 0)
  | o :: hs =>
    let mo := ringMomNZ o
    nz (hs.foldl (fun s h => let mh := ringMomNZ h; add3 s (scale3 (-(sgn mh.1)) mh)) (scale3 (sgn mo.1) mo))

def d2Q (a b : Pt Q) : Q := (a.x - b.x) * (a.x - b.x) + (a.y - b.y) * (a.y - b.y)

/-- (length, length·midx, length·midy) of an open chain -/
def lineMom (l : List (Pt Q)) : Q × Q × Q :=
  (openPairs l).foldl (fun s (pq : Pt Q × Pt Q) =>
    let d := sqrtQ (d2Q pq.1 pq.2)
    add3 s (d, d * (pq.1.x + pq.2.x) / 2, d * (pq.1.y + pq.2.y) / 2)) (0, 0, 0)

def ptsMom (l : List (Pt Q)) : Q × Q × Q := l.foldl (fun s p => add3 s (1, p.x, p.y)) (0, 0, 0)

def sum3 (l : List (Q × Q × Q)) : Q × Q × Q := l.foldl add3 (0, 0, 0)

/-- top dimension as the code computes it: `maxDim` for a collection, `Dimensions()` otherwise -/
def topDim (g : Geom Q) : Int :=
  match g with
  | .collection gs => maxDim gs
  | g => dimensions g

/-- (weight, weight·cx, weight·cy) over the parts of dimension `d`: area for 2, length for 1, count for 0 -/
partial def moments (d : Int) (g : Geom Q) : Q × Q × Q :=
  match g with
  | .collection gs => nz (sum3 (gs.map fun m => if dimensions m == d then moments d m else (0, 0, 0)))
  | g =>
    if dimensions g != d then (0, 0, 0) else
    match g with
    | .point p => (1, p.x, p.y)
    | .multiPoint ps => ptsMom ps
    | .lineString l => lineMom l
    | .multiLineString ls => sum3 (ls.map lineMom)
    | .ring r => ringMomNZ r
    | .polygon p => polyMom p
    | .multiPolygon mp => nz (sum3 (mp.map polyMom))
    | .bound lo hi => ringMomNZ (boundRing lo hi)
    | .collection _ => (0, 0, 0)

/-- point–segment squared distance, cross-product formulation -/
def segDistS (a b p : Pt Q) : Q :=
  let d : Pt Q := ⟨b.x - a.x, b.y - a.y⟩
  let w : Pt Q := ⟨p.x - a.x, p.y - a.y⟩
  let l := d.x * d.x + d.y * d.y
  if l == 0 then w.x * w.x + w.y * w.y else
  let dot := w.x * d.x + w.y * d.y
  if dot ≤ 0 then w.x * w.x + w.y * w.y
  else if l ≤ dot then d2Q p b
  else let c := crossQ d w; c * c / l

def lineAtoms (p : Pt Q) (l : List (Pt Q)) : List Q := (openPairs l).map fun ab => segDistS ab.1 ab.2 p

/-- squared distances from `p` to every point / consecutive segment of the geometry, grouped by top-level member -/
partial def atoms (p : Pt Q) : Geom Q → List Q
  | .point g => [d2Q g p]
  | .multiPoint mp => mp.map (d2Q · p)
  | .lineString l | .ring l => lineAtoms p l
  | .multiLineString ls | .polygon ls => ls.flatMap (lineAtoms p)
  | .multiPolygon mp => mp.flatMap fun pg => pg.flatMap (lineAtoms p)
  | .bound lo hi => lineAtoms p (boundRing lo hi)
  | .collection gs => gs.flatMap (atoms p)

def minQ? (l : List Q) : Option Q :=
  match l with
  | [] => none
  | x :: t => some (t.foldl qmin x)

/-- atoms per indexable sub-geometry (what the returned index refers to); `none`: index not judged -/
def subAtoms (p : Pt Q) : Geom Q → Option (List (List Q))
  | .point g => some [[d2Q g p]]
  | .multiPoint mp => some (mp.map fun q => [d2Q q p])
  | .lineString l | .ring l => some ((lineAtoms p l).map fun a => [a])
  | .multiLineString ls => some (ls.map (lineAtoms p))
  | .polygon _ => none      -- the code reports the segment index inside the nearest ring (loop counter shadowed)
  | .multiPolygon mp => some (mp.map fun pg => pg.flatMap (lineAtoms p))
  | .bound lo hi => some ((lineAtoms p (boundRing lo hi)).map fun a => [a])
  | .collection gs => some (gs.map (atoms p))

/-- position of the first element equal to the minimum of the defined elements (exact) -/
def firstMinIdx? (l : List (Option Q)) : Option Nat :=
  match minQ? (l.filterMap id) with
  | none => none
  | some mn =>
    (l.zipIdx.foldl (fun (acc : Option Nat) (xi : Option Q × Nat) =>
      match acc with
      | some k => some k
      | none => if xi.1 == some mn then some xi.2 else none) none)

/-- the index the property asks for: the FIRST indexable sub-geometry attaining the minimum, compared exactly on the
    squared distances (theorems `lineStringDistanceFrom_index`, `multiPointDistanceFrom_index`,
    `multiLineStringDistanceFrom_index`, `multiPolygonDistanceFrom_index`, `collectionDistanceFrom_index`).
    A polygon reports the first nearest SEGMENT of its first nearest RING (loop counter shadowed in the code). -/
def specIndex (p : Pt Q) (g : Geom Q) : Option Int :=
  match g with
  | .polygon rs =>
    (match firstMinIdx? (rs.map fun r => minQ? (lineAtoms p r)) with
     | none => some (-1)
     | some k => (match firstMinIdx? ((lineAtoms p (rs.getD k [])).map some) with
                  | some i => some (i : Int)
                  | none => none))
  | g =>
    (match subAtoms p g with
     | none => none
     | some subs => (match firstMinIdx? (subs.map minQ?) with
                     | some i => some (i : Int)
                     | none => some (-1)))

/-! ### convexity / nesting tests (exact) -/

def dedupClosed (r : List (Pt Q)) : List (Pt Q) :=
  match r with
  | [] => []
  | v :: t => if t.getLast? == some v then v :: t.dropLast else r

/-- strictly convex-or-flat ring: all consecutive turns have the same sign (not all zero) and the total
    turning is a single loop (checked by: every vertex on the same side of every edge) -/
def isConvex (r0 : List (Pt Q)) : Bool :=
  let r := dedupClosed r0
  if r.length < 3 then false else
  let es := closedPairs r
  let sides := es.flatMap fun (e : Pt Q × Pt Q) => r.map fun v =>
    (e.2.x - e.1.x) * (v.y - e.1.y) - (e.2.y - e.1.y) * (v.x - e.1.x)
  (sides.all (· ≥ 0) || sides.all (· ≤ 0)) && sides.any (· != 0)

def inConvex (r0 : List (Pt Q)) (v : Pt Q) : Bool :=
  let r := dedupClosed r0
  let s := (closedPairs r).map fun (e : Pt Q × Pt Q) =>
    (e.2.x - e.1.x) * (v.y - e.1.y) - (e.2.y - e.1.y) * (v.x - e.1.x)
  s.all (· ≥ 0) || s.all (· ≤ 0)

def bboxQ (r : List (Pt Q)) : Option (Q × Q × Q × Q) :=
  match r with
  | [] => none
  | v :: t => some (t.foldl (fun b p => (qmin b.1 p.x, qmin b.2.1 p.y, qmax b.2.2.1 p.x, qmax b.2.2.2 p.y)) (v.x, v.y, v.x, v.y))

def boxesDisjoint (a b : Q × Q × Q × Q) : Bool :=
  a.2.2.1 < b.1 || b.2.2.1 < a.1 || a.2.2.2 < b.2.1 || b.2.2.2 < a.2.1

/-- no vertex is listed twice (an explicit closing vertex apart) -/
def distinctVerts (r0 : List (Pt Q)) : Bool :=
  let r := dedupClosed r0
  r.zipIdx.all fun (a, i) => r.zipIdx.all fun (b, j) => i ≥ j || !(a == b)

/-- sufficient test for "holes nested in the outer ring and mutually disjoint": convex outer ring,
    every hole vertex inside it, hole boxes pairwise disjoint — and every hole of a shape whose |shoelace area| cannot
    exceed the area of its convex hull: at most four vertices (theorem `ring_small_le_ring`, any quadrilateral or
    triangle) or convex without a repeated vertex (a simple convex polygon).  Without that last condition the test
    is unsound: a hole running twice round a triangle has twice its area (`polygon_area_nonneg_full_false`). -/
def nestedPolygon (p : List (List (Pt Q))) : Bool :=
  match p with
  | [] => false
  | o :: hs =>
    isConvex o && hs.all (fun h => !h.isEmpty && h.all (inConvex o) &&
      ((dedupClosed h).length ≤ 4 || (isConvex h && distinctVerts h))) &&
    (let bs := hs.filterMap bboxQ
     (bs.zipIdx.all fun (a, i) => bs.zipIdx.all fun (b, j) => i ≥ j || boxesDisjoint a b))

/-! ### handlers -/

def showPtF (p : Pt Float) : String := fbits p.x ++ " " ++ fbits p.y

def kindTag : Geom Q → String
  | .point _ => "point" | .multiPoint _ => "mpoint" | .lineString _ => "line" | .multiLineString _ => "mline"
  | .ring _ => "ring" | .polygon _ => "poly" | .multiPolygon _ => "mpoly" | .bound _ _ => "bound" | .collection _ => "coll"

/-- does some multi-line (at any depth, of dimension `d`=1 context) mix zero-length and positive-length lines? -/
partial def hasZeroLenLineMix (g : Geom Q) : Bool :=
  match g with
  | .multiLineString ls =>
    let lens := (ls.filter (!·.isEmpty)).map fun l => (lineMom l).1
    lens.any (· == 0) && lens.any (· != 0)
  | .collection gs => gs.any hasZeroLenLineMix
  | _ => false

/-- the centroid of a vertex chain taken AS A LINE (spec side, independent of the model: no origin shift, moments of
    the consecutive segments): length-weighted mean of the segment midpoints; the first vertex when the length is 0;
    the origin when there is no vertex -/
def lineCentroidSpec (l : List (Pt Q)) : Pt Q :=
  let mo := lineMom l
  if mo.1 != 0 then ⟨mo.2.1 / mo.1, mo.2.2 / mo.1⟩ else
  match l with
  | [] => ⟨0, 0⟩
  | v :: _ => v

def meanPts (ps : List (Pt Q)) : Pt Q :=
  match ps with
  | [] => ⟨0, 0⟩
  | _ => let s := ptsMom ps; ⟨s.2.1 / s.1, s.2.2 / s.1⟩

/-- what the documented fall-backs answer for a geometry whose total weight (area / length / count, by top
    dimension) is ZERO — anchored mechanism "degenerate fallback to line centroid" (area.go:193-216) and its
    relatives: a flat polygon answers the centroid of its OUTER RING AS A LINE; a flat ring its first vertex; lines
    without length the plain mean of their first vertices; everything weighted over members (multi-polygon,
    collection) or without a vertex the origin.
    Theorems: `polygon_degenerate_centroid(_nil)`, `ring_degenerate_centroid`, `mls_centroid_weighted` (L = 0),
    `multi_degenerate_centroid`, `collection_degenerate_centroid`. -/
def zeroWeightSpec : Geom Q → Pt Q
  | .point p => p
  | .multiPoint _ => ⟨0, 0⟩
  | .lineString l => meanPts (l.head?.toList)
  | .multiLineString ls => meanPts (ls.filterMap List.head?)
  | .ring r => (r.head?).getD ⟨0, 0⟩
  | .bound lo _ => lo
  | .polygon p => (match p with | [] => ⟨0, 0⟩ | o :: _ => lineCentroidSpec o)
  | .multiPolygon _ | .collection _ => ⟨0, 0⟩

/-- judge `(cx, cy, area)` of the implementation against the exact spec; `agree`: the implementation's outcome is
    bit-for-bit the Float twin's -/
def judgeCA (gU : Geom UInt64) (gq : Geom Q) (exact : Pt Q × Q) (twin : Option (Pt Q × Q)) (cx cy ar : Q)
    (agree : Bool) : String :=
  -- rounding sensitivity is a property of the MODEL (Float twin vs. exact instance), never of the implementation's answer
  let twinFar (f : Pt Q × Q → Q) (scale : Q) : Bool := match twin with
    | some t => !(close scale (f t) (f exact))
    | none => true
  let m := scaleOf gq
  let intDom := isIntDomain gU
  let d := topDim gq
  let mom := moments d gq
  let specArea : Q := if d == 2 then mom.1 else 0
  let kt := kindTag gq
  -- area
  let areaOk := if intDom then ar == specArea else close (m * m) ar specArea
  let areaSens := !intDom && twinFar (·.2) (m * m)
  if areaSens then "skip rounding-sensitive" else
  if !areaOk then
    (match gq with
     | .ring _ | .bound _ _ => s!"propfail area-shoelace {kt}"
     | .polygon _ => "propfail polygon-area-outer-minus-holes"
     | .multiPolygon _ => "propfail multi-area-sum"
     | .collection _ => "propfail collection-area-sum-topdim"
     | _ => s!"propfail area-lowerdim-zero {kt}") else
  -- nested rings: never negative
  let nested := match gq with | .polygon p => nestedPolygon p | _ => false
  if nested && ar < 0 then "propfail polygon-area-nonneg-nested" else
  -- centroid
  if mom.1 == 0 then
    -- total weight 0: the degenerate fall-backs, judged against their own spec
    let zs := zeroWeightSpec gq
    if close m cx zs.x && close m cy zs.y then
      (match gq with
       | .polygon (o :: _) => if (lineMom o).1 != 0 then "ok poly-degenerate-line-centroid" else s!"ok triv-zero-weight {kt}"
       | _ => s!"ok triv-zero-weight {kt}")
    else if twinFar (·.1.x) m || twinFar (·.1.y) m then "skip rounding-sensitive" else
    (match gq with
     | .polygon _ => "propfail centroid-degenerate-line-fallback"
     | .ring _ | .bound _ _ => s!"propfail centroid-degenerate-first-vertex {kt}"
     | .lineString _ | .multiLineString _ => s!"propfail centroid-zero-length-mean {kt}"
     | _ => s!"propfail centroid-zero-weight-origin {kt}")
  else
  let sc : Pt Q := ⟨mom.2.1 / mom.1, mom.2.2 / mom.1⟩
  let okC := close m cx sc.x && close m cy sc.y
  if okC then
    -- convex ring: centroid lies in its bound
    (match gq with
     | .ring r =>
       if isConvex r then
         (match bboxQ r with
          | some b => if b.1 - tolAbs * m ≤ cx && cx ≤ b.2.2.1 + tolAbs * m && b.2.1 - tolAbs * m ≤ cy && cy ≤ b.2.2.2 + tolAbs * m
                      then "ok ring-convex" else "propfail centroid-in-bound-convex"
          | none => "ok ring")
       else "ok ring"
     | .polygon p => if nested then "ok poly-nested" else if p.length > 1 then "ok poly-holes" else "ok poly"
     | _ => s!"ok {kt} dim{d}")
  else
    -- is the implementation merely rounding-sensitive here?  (exact model agrees with the spec but not with the floats)
    if twinFar (·.1.x) m || twinFar (·.1.y) m then "skip rounding-sensitive" else
    match gq with
    | .collection _ =>
      -- the recorded finding, and nothing else: implementation = model (bit for bit), the exact model answers the
      -- origin as well (`collection_lowerdim_centroid_origin`), and the spec centroid is elsewhere (we are in `!okC`)
      if d < 2 && cx == 0 && cy == 0 && agree && exact.1.x == 0 && exact.1.y == 0 && exact.2 == 0 then
        s!"propfail centroid-collection-lowerdim dim{d}" else
      if d == 1 && hasZeroLenLineMix gq then "propfail centroid-zero-length-line-weight coll" else "propfail centroid-weighted-mean coll"
    | .multiLineString _ =>
      if hasZeroLenLineMix gq then "propfail centroid-zero-length-line-weight mline" else "propfail centroid-weighted-mean mline"
    | _ => s!"propfail centroid-weighted-mean {kt}"

/-- `ca <gval> => cx cy area area'` -/
def handleCA (inp out : Toks) : String :=
  match gval inp with
  | none => "bad input"
  | some (v, _) =>
    if out == ["panic"] then "propfail panic" else
    match normG v with
    | none =>
      if sameToks out [fbits 0, fbits 0, fbits 0, fbits 0] then "ok triv-nil" else "diff 0 0 0 0"
    | some gU =>
      let gF := toF gU
      let tw := centroidArea Float.sqrt gF
      let twin := [fbits tw.1.x, fbits tw.1.y, fbits tw.2, fbits (area Float.sqrt gF)]
      let agree := sameToks twin out
      let fin (s : String) : String := if s.startsWith "propfail" || agree then s else "diff " ++ " ".intercalate twin
      fin <|
      match out with
      | [tcx, tcy, ta, ta2] =>
        if !sameTok ta ta2 then "propfail area-vs-centroidarea" else
        (match toQ? gU, tokQ? tcx, tokQ? tcy, tokQ? ta with
         | some gq, some cx, some cy, some ar =>
           let twQ : Option (Pt Q × Q) := do pure (⟨← fQ? tw.1.x, ← fQ? tw.1.y⟩, ← fQ? tw.2)
           judgeCA gU gq (centroidArea sqrtQ gq) twQ cx cy ar agree
         | none, _, _, _ => "skip non-finite-input"
         | _, _, _, _ => "skip non-finite-output")
      | _ => "bad output"

/-- the ring variants of `ringvar`: rotations and the reversal, each open and closed; then the
    translation of the open and of the closed base ring (order shared with harness/c10.go) -/
def ringVariants {β} (r : List β) (tr : β → β) : List (List β) :=
  let n := r.length
  let rots := if n == 0 then [r] else (List.range n).map fun k => r.drop k ++ r.take k
  let close (b : List β) : List β := match b with | [] => [] | v :: _ => b ++ [v]
  ((rots ++ [r.reverse]).flatMap fun b => [b, close b]) ++ [r.map tr, close (r.map tr)]

/-- `ringvar <n pts> tx ty => (cx cy area) per variant` -/
def handleRingVar (inp out : Toks) : String :=
  match (do
    let (r, i) ← pts inp
    let (t, _) ← pt i
    pure (r, t)) with
  | none => "bad input"
  | some (rU, tU) =>
    if out == ["panic"] then "propfail panic" else
    let rF := rU.map (mapPt Float.ofBits)
    let tF := mapPt Float.ofBits tU
    let vsF := ringVariants rF fun p => ⟨p.x + tF.x, p.y + tF.y⟩
    let twin := vsF.flatMap fun v => let ca := ringCentroidArea v; [fbits ca.1.x, fbits ca.1.y, fbits ca.2]
    let agree := sameToks twin out
    let fin (s : String) : String := if s.startsWith "propfail" || agree then s else "diff " ++ " ".intercalate (twin.take 12) ++ " …"
    fin <|
    match (toQ? (.ring rU)), (toQ? (.point tU)), out.mapM tokQ? with
    | some (.ring rq), some (.point tq), some vals =>
      let nV := 2 * ((if rq.isEmpty then 1 else rq.length) + 1) + 2
      if vals.length != 3 * nV then "bad output" else
      -- integer lattice (|v| ≤ 2^20, translate included): areas exactly; otherwise (general-position floats): areas
      -- and centroids within the quantifier's relative 1e-9, a variant whose Float twin is itself farther than that
      -- from its exact instance being rounding-sensitive (as in 'ca')
      let intDom := isDyadicList (coords (.ring rU) ++ [tU.x, tU.y])
      let m := scaleOf (.ring rq) [tq.x, tq.y] * 2
      let base := ringMom rq
      let triple (i : Nat) : Q × Q × Q := (vals.getD (3 * i) 0, vals.getD (3 * i + 1) 0, vals.getD (3 * i + 2) 0)
      let nRot := nV - 4   -- rotations (open, closed interleaved)
      let vsQ := ringVariants rq fun p => ⟨p.x + tq.x, p.y + tq.y⟩
      -- per variant: none = fine, some (clause, sensitive)
      let res : List (String × Bool) := (List.range nV).filterMap fun i =>
        let v := triple i
        let isRev := nRot ≤ i && i < nRot + 2
        let isTr := nRot + 2 ≤ i
        let wantA := if isRev then -base.1 else base.1
        -- Float twin of THIS variant vs. its exact instance (the exact instance translates exactly)
        let ex := ringCentroidArea (vsQ.getD i [])
        let twv := ringCentroidArea (vsF.getD i [])
        let areaBad := if intDom then v.2.2 != wantA else !(close (m * m) v.2.2 wantA)
        if areaBad then
          let far := !intDom && (match fQ? twv.2 with
            | some a => !(close (m * m) a ex.2)
            | none => true)
          some (if i == 0 then "area-shoelace" else if isRev then "area-reverse-negates" else if isTr then "area-translate" else
                if i % 2 == 1 then "area-closing" else "area-rotate", far)
        else if base.1 == 0 then none
        else
          let c : Pt Q := ⟨base.2.1 / base.1 + (if isTr then tq.x else 0), base.2.2 / base.1 + (if isTr then tq.y else 0)⟩
          if close m v.1 c.x && close m v.2.1 c.y then none else
          let far := match fQ? twv.1.x, fQ? twv.1.y with
            | some x, some y => !(close m x ex.1.x && close m y ex.1.y)
            | _, _ => true
          some (if isTr then "centroid-translate" else if isRev then "centroid-reverse" else "centroid-rotate", far)
      let fl := if intDom then "" else "-float"
      match res.find? (fun r => !r.2), res.head? with
      | some (cl, _), _ => s!"propfail {cl}"
      | none, some _ => "skip rounding-sensitive"
      | none, none => if rq.isEmpty then "ok triv-empty-ring" else if base.1 == 0 then s!"ok ringvar-zero-area{fl}" else
                if base.1 < 0 then s!"ok ringvar-cw{fl}" else s!"ok ringvar-ccw{fl}"
    | _, _, _ => "skip non-finite"

def sqrtExact? (x : Q) : Option Q :=
  if x < 0 then none else
  let n := x.num.toNat
  let d := x.den
  let sn := Nat.sqrt n
  let sd := Nat.sqrt d
  if sn * sn == n && sd * sd == d then some ((sn : Q) / (sd : Q)) else none

/-- all consecutive segments of every part (for the length spec) -/
partial def segsOf : Geom Q → List (Pt Q × Pt Q)
  | .point _ | .multiPoint _ => []
  | .lineString l | .ring l => openPairs l
  | .multiLineString ls | .polygon ls => ls.flatMap openPairs
  | .multiPolygon mp => mp.flatMap fun pg => pg.flatMap openPairs
  | .bound lo hi => openPairs (boundRing lo hi)
  | .collection gs => gs.flatMap segsOf

/-- `len <gval> => length` -/
def handleLen (inp out : Toks) : String :=
  match gval inp with
  | none => "bad input"
  | some (v, _) =>
    if out == ["panic"] then "propfail panic" else
    match normG v with
    | none => if sameToks out [fbits 0] then "ok triv-nil" else "diff 0"
    | some gU =>
      let twin := [fbits (length Float.sqrt (toF gU))]
      let agree := sameToks twin out
      let fin (s : String) : String := if s.startsWith "propfail" || agree then s else "diff " ++ " ".intercalate twin
      fin <|
      match toQ? gU, out.mapM tokQ? with
      | some gq, some [l] =>
        let segs := segsOf gq
        let d2s := segs.map fun ab => d2Q ab.1 ab.2
        let m := scaleOf gq
        (match d2s.mapM sqrtExact? with
         | some roots =>
           let s := roots.foldl (· + ·) 0
           if isIntDomain gU then (if l == s then (if segs.isEmpty then "ok triv-no-segments" else "ok length-exact") else "propfail length-sum exact")
           else if close m l s then "ok length-float-squares" else "propfail length-sum"
         | none =>
           let s := (d2s.map sqrtQ).foldl (· + ·) 0
           if close m l s then "ok length" else "propfail length-sum")
      | none, _ => "skip non-finite-input"
      | _, _ => "skip non-finite-output"

def optTok (o : Option Float) : String :=
  match o with
  | some f => fbits f
  | none => "7ff0000000000000"

/-- `dist <gval> px py => d idx d'` -/
def handleDist (inp out : Toks) : String :=
  match (do
    let (v, i) ← gval inp
    let (p, _) ← pt i
    pure (v, p)) with
  | none => "bad input"
  | some (v, pU) =>
    if out == ["panic"] then "propfail panic" else
    match normG v with
    | none => if out == ["7ff0000000000000", "-1", "7ff0000000000000"] then "ok triv-nil" else "diff inf -1 inf"
    | some gU =>
      let pF := mapPt Float.ofBits pU
      let tw := distanceFromWithIndex Float.sqrt pF (toF gU)
      let twin := [optTok tw.1, toString tw.2, optTok (distanceFrom Float.sqrt (toF gU) pF)]
      let agree := sameToks [twin.getD 0 "", twin.getD 2 ""] [out.getD 0 "", out.getD 2 ""] && twin.getD 1 "" == out.getD 1 "?"
      let fin (s : String) : String := if s.startsWith "propfail" || agree then s else "diff " ++ " ".intercalate twin
      fin <|
      match out with
      | [td, tidx, td2] =>
        if !sameTok td td2 then "propfail distancefrom-vs-withindex" else
        (match toQ? gU, toQ? (.point pU), tidx.toInt? with
         | some gq, some (.point pq), some idx =>
           let at' := atoms pq gq
           let m := scaleOf gq [pq.x, pq.y]
           (match minQ? at', tokQ? td with
            | none, none => if idx == -1 then s!"ok triv-empty {kindTag gq}" else "propfail empty-index"
            | none, some _ => "propfail distance-of-empty-not-inf"
            | some _, none => "propfail distance-inf-of-nonempty"
            | some mn, some d =>
              let sd := sqrtQ mn
              -- zero exactly on the boundary
              if mn == 0 && !(qabs d ≤ tolRel * m) then "propfail distance-zero-on-boundary" else
              if d == 0 && !(sd ≤ tolRel * m) then "propfail distance-zero-only-on-boundary" else
              let ok := close m d sd
              -- the exact model, to tell rounding apart
              let ex := (distanceFromWithIndex sqrtQ pq gq).1
              let twinFar := match ex, tw.1.bind fQ? with | some e, some t => !(close m e t) | _, _ => true
              let exClose := !twinFar
              if !ok then (if twinFar then "skip rounding-sensitive" else s!"propfail distance-min {kindTag gq}") else
              -- index: the sub-geometry it names attains the minimum
              -- … and it is the FIRST one doing so.  Exact ties (and near-ties) may be ordered differently by float
              -- rounding: that is rounding sensitivity of the MODEL (index of the Float twin ≠ index of the exact
              -- instance), never judged from the implementation's answer.
              let okTag := s!"ok dist {kindTag gq}{if mn == 0 then "+on" else ""}"
              let exIdx := (distanceFromWithIndex sqrtQ pq gq).2
              let first (tag : String) : String :=
                match specIndex pq gq with
                | none => tag
                | some si =>
                  if idx == si then tag
                  else if tw.2 != exIdx then "skip rounding-sensitive"
                  else s!"propfail index-first-min {kindTag gq}"
              (match subAtoms pq gq with
               | none => first okTag
               | some subs =>
                 if idx < 0 || idx.toNat ≥ subs.length then "propfail index-range" else
                 (match minQ? (subs.getD idx.toNat []) with
                  | some a =>
                    if close m (sqrtQ a) sd then first okTag
                    else if exClose then "propfail index-attains-min" else "skip rounding-sensitive"
                  | none => "propfail index-attains-min empty-member")))
         | none, _, _ => "skip non-finite-input"
         | _, _, _ => "bad output")
      | _ => "bad output"

/-- `seg ax ay bx by px py => DistanceFromSegmentSquared DistanceFromSegment Distance(a,p) DistanceSquared(a,p)` -/
def handleSeg (inp out : Toks) : String :=
  match (do
    let (a, i) ← pt inp
    let (b, i) ← pt i
    let (p, _) ← pt i
    pure (a, b, p)) with
  | none => "bad input"
  | some (aU, bU, pU) =>
    if out == ["panic"] then "propfail panic" else
    let a := mapPt Float.ofBits aU
    let b := mapPt Float.ofBits bU
    let p := mapPt Float.ofBits pU
    let twin := [fbits (segmentDistanceFromSquared a b p), fbits (distanceFromSegment Float.sqrt a b p),
                 fbits (distance Float.sqrt a p), fbits (distanceSquared a p)]
    let agree := sameToks twin out
    let fin (s : String) : String := if s.startsWith "propfail" || agree then s else "diff " ++ " ".intercalate twin
    fin <|
    match toQ? (.multiPoint [aU, bU, pU]), out.mapM tokQ? with
    | some (.multiPoint [aq, bq, pq]), some [s2, s, d, d2] =>
      let intDom := isIntDomain (.multiPoint [aU, bU, pU])
      let m := scaleOf (.multiPoint [aq, bq, pq])
      let sp := segDistS aq bq pq
      let dd := d2Q aq pq
      -- Distance / DistanceSquared
      if intDom && d2 != dd then "propfail distance-squared-exact" else
      if !close (m * m) d2 dd then "propfail distance-squared" else
      if (match sqrtExact? dd with | some r => intDom && d != r | none => false) then "propfail distance-exact" else
      if !close m d (sqrtQ dd) then "propfail distance" else
      -- segment distance is the minimum over the segment: never above either end, never below the line
      let ex := segmentDistanceFromSquared aq bq pq
      let sens := match fQ? (segmentDistanceFromSquared a b p) with | some t => !close (m * m) ex t | none => true
      if sens then "skip rounding-sensitive" else
      if !close (m * m) s2 sp then "propfail segdist-min" else
      if !close m s (sqrtQ sp) then "propfail segdist-sqrt" else
      -- clamped cases are exact on the integer lattice
      let l := d2Q aq bq
      let dot := (pq.x - aq.x) * (bq.x - aq.x) + (pq.y - aq.y) * (bq.y - aq.y)
      let clamped := l == 0 || dot ≤ 0 || l ≤ dot
      if intDom && clamped && s2 != sp then "propfail segdist-clamp-exact" else
      if sp == 0 then "ok seg on" else if l == 0 then "ok seg degenerate" else if clamped then "ok seg clamped" else "ok seg projected"
    | none, _ => "skip non-finite-input"
    | _, _ => "skip non-finite-output"

/-! ### scale invariance by powers of two (white-box round) -/

/-- the float64 `2^k` (|k| ≤ 1022) -/
def pow2F (k : Int) : Float := (1.0 : Float).scaleB k

/-- `2^k · g` in float64: the model's `scaleGeom` with the factor `2^k` (a multiplication by a power of two is exact as
    long as nothing under- or overflows, and always equal to Go's `math.Ldexp(x, k)`: both are correctly rounded) -/
def scaleF (k : Int) (g : Geom Float) : Geom Float := scaleGeom (pow2F k) g

def tokF? (t : String) : Option Float := (hexToNat? t).map fun n => Float.ofBits (UInt64.ofNat n)

/-- the eight outcome tokens of op `scale` for one geometry and query point, from the Float twin of the model:
    `cx cy area area' length dist index dist'` -/
def scaleTwin (g : Option (Geom Float)) (p : Pt Float) : List String :=
  match g with
  | none => [fbits 0, fbits 0, fbits 0, fbits 0, fbits 0, "7ff0000000000000", "-1", "7ff0000000000000"]
  | some gF =>
    let ca := centroidArea Float.sqrt gF
    let d := distanceFromWithIndex Float.sqrt p gF
    [fbits ca.1.x, fbits ca.1.y, fbits ca.2, fbits (area Float.sqrt gF), fbits (length Float.sqrt gF),
     optTok d.1, toString d.2, optTok (distanceFrom Float.sqrt gF p)]

/-- names and degrees (power of the scale factor) of the eight outcome components; the index has no degree -/
def scaleComps : List (String × Option Int) :=
  [("centroid-x", some 1), ("centroid-y", some 1), ("area", some 2), ("area-fn", some 2), ("length", some 1),
   ("distance", some 1), ("index", none), ("distance-fn", some 1)]

/-- the components on which `scaled` is NOT exactly `2^(k·degree) · base` (bit for bit; the index: equal) -/
def scaleBroken (k : Int) (base scaled : List String) : List String :=
  ((scaleComps.zip (base.zip scaled)).filterMap fun ((nm, deg), (b, s)) =>
    match deg with
    | none => if b == s then none else some nm
    | some d =>
      (match tokF? b with
       | some bf => if sameTok (fbits (bf.scaleB (k * d))) s then none else some nm
       | none => some nm))

/-- `scale k <gval> px py => <8 outcomes of (g, p)> <8 outcomes of (2^k g, 2^k p)>`: the executable clause
    `CentroidArea(2^k g) = (2^k c, 4^k a)`, `Length(2^k g) = 2^k Length(g)`,
    `DistanceFromWithIndex(2^k g, 2^k p) = (2^k d, i)`, bit for bit (theorems `centroidArea_scale`, `length_scale`,
    `distanceFromWithIndex_scale` over an ordered field; in float64 a multiplication by a power of two is exact).
    Under- or overflow is a property of the MODEL: the clause is judged only on the components on which the Float twin
    of the model is itself exactly scale-covariant (otherwise `skip scale-inexact`). -/
def handleScale (inp out : Toks) : String :=
  match (do
    let (k, i) ← Orb.Proto.int inp
    let (v, i) ← gval i
    let (p, _) ← pt i
    pure (k, v, p)) with
  | none => "bad input"
  | some (k, v, pU) =>
    if out == ["panic"] then "propfail panic" else
    if out.length != 16 then "bad output" else
    let gF := (normG v).map toF
    let pF := mapPt Float.ofBits pU
    let twB := scaleTwin gF pF
    let twS := scaleTwin (gF.map (scaleF k)) (scalePt (pow2F k) pF)
    let outB := out.take 8
    let outS := out.drop 8
    let agree := twB.getD 6 "" == outB.getD 6 "?" && twS.getD 6 "" == outS.getD 6 "?" &&
      sameToks (twB.eraseIdx 6) (outB.eraseIdx 6) && sameToks (twS.eraseIdx 6) (outS.eraseIdx 6)
    let fin (s : String) : String :=
      if s.startsWith "propfail" || agree then s else "diff " ++ " ".intercalate (twB ++ twS)
    let kt := match (normG v) with
      | none => "nil"
      | some gU => (match toQ? gU with | some gq => kindTag gq | none => "nonfinite")
    fin <|
    if !sameTok (outB.getD 2 "") (outB.getD 3 "") || !sameTok (outS.getD 2 "") (outS.getD 3 "") then "propfail area-vs-centroidarea" else
    if !sameTok (outB.getD 5 "") (outB.getD 7 "") || !sameTok (outS.getD 5 "") (outS.getD 7 "") then "propfail distancefrom-vs-withindex" else
    let brokenImpl := scaleBroken k outB outS
    let brokenTwin := scaleBroken k twB twS
    match brokenImpl.filter (fun c => !brokenTwin.contains c) with
    | c :: _ => s!"propfail scale-invariance {c} {kt}"
    | [] =>
      if !brokenImpl.isEmpty || !brokenTwin.isEmpty then "skip scale-inexact" else
      if (normG v).isNone then "ok triv-nil" else
      s!"ok scale {kt} {if k < 0 then "down" else "up"}"

def handle (ts : Toks) : String :=
  match ts with
  | op :: rest =>
    let (inp, out) := splitArrow rest
    match op with
    | "ca" => handleCA inp out
    | "ringvar" => handleRingVar inp out
    | "len" => handleLen inp out
    | "dist" => handleDist inp out
    | "seg" => handleSeg inp out
    | "scale" => handleScale inp out
    | _ => "bad op " ++ op
  | [] => "bad empty"

end Driver.C10
