import Orb.Proto
import Orb.CoreNil
import Orb.GeoJSON
import Orb.GeoJSONExt

/-!
  Driver for C02 (GeoJSON via JSON and BSON) and the GeoJSON share of C05 (`handleHostile`).

  Tree tokens:  n | t | f | B | d <16hex> | i <decimal> | s x<hex> | a <n> tree* | o <n> (x<hex> tree)*
                (B: a bson boolean with a payload byte other than 0 / 1 — `Json.bad`)
  Feature:      F [x<hex Type>] <id: - | tree> <bbox: - | b n hex*> <gval> <props: - | o …>   (N = nil pointer)
  FC:           FC [x<hex Type>] <bbox> <features: - | l n feature*> <extra: - | o …>
                (Type: always present in outcomes; optional in inputs, default "Feature" / "FeatureCollection")
  Input geometries are written by `gsN`: nil rings / lines / polygons (`n`), typed-nil and
  nil-interface collection members — read into `Orb.CoreNil.NGeom` (`ngeom`).

  White-box round (harness/c02_wb.go): `hook <sub-op> …` (the case again with pass-through
  CustomJSONMarshaler / CustomJSONUnmarshaler installed, hook calls counted per step), `own item+`
  (returned and input buffers belong to the caller), `val item` (every form of holding a value);
  item = G <gsN> | T <gsN> | F… | FC… | H….

  VERDICTS.  `propfail` outranks `diff` — except for the labels of KNOWN findings (`knownLabels`):
  those are emitted only when implementation and model agree on the WHOLE case (documents and every
  decode outcome; the model predicts the documented behaviour too), otherwise the case is a `diff`.
-/
namespace Driver.C02
open Orb Orb.Proto Orb.GeoJSON

/-! ### token parsing / printing (glue) -/

def hexVal (c : Char) : Option Nat := hexDigit? c

def bytesOfHexChars : List Char → Option (List UInt8)
  | [] => some []
  | [_] => none
  | a :: b :: rest => do
    let x ← hexVal a
    let y ← hexVal b
    let r ← bytesOfHexChars rest
    pure (UInt8.ofNat (x * 16 + y) :: r)

/-- token `x<hex of utf-8 bytes>` -/
def xstr? (t : String) : Option String :=
  match t.toList with
  | 'x' :: rest => do
    let bs ← bytesOfHexChars rest
    String.fromUTF8? (ByteArray.mk bs.toArray)
  | _ => none

def xstr : P String := fun ts =>
  match ts with
  | [] => none
  | t :: ts => (xstr? t).map (·, ts)

def hexByte (b : UInt8) : String := natToHex b.toNat 2

def showX (s : String) : String :=
  s.toUTF8.data.foldl (fun acc b => acc ++ hexByte b) "x"

partial def json : P Json := fun ts =>
  match ts with
  | "n" :: ts => some (.null, ts)
  | "t" :: ts => some (.bool true, ts)
  | "f" :: ts => some (.bool false, ts)
  | "B" :: ts => some (.bad, ts)
  | "d" :: ts => (bits ts).map fun (b, ts) => (.num b, ts)
  | "i" :: ts => (int ts).map fun (n, ts) => (.num (Float.ofInt n).toBits, ts)
  | "s" :: ts => (xstr ts).map fun (s, ts) => (.str s, ts)
  | "a" :: ts => do
    let (n, ts) ← nat ts
    let rec go : Nat → Toks → Option (List Json × Toks)
      | 0, ts => some ([], ts)
      | n+1, ts => do
        let (j, ts) ← json ts
        let (js, ts) ← go n ts
        pure (j :: js, ts)
    let (l, ts) ← go n ts
    pure (.arr l, ts)
  | "o" :: ts => do
    let (n, ts) ← nat ts
    let rec goM : Nat → Toks → Option (Members × Toks)
      | 0, ts => some ([], ts)
      | n+1, ts => do
        let (k, ts) ← xstr ts
        let (j, ts) ← json ts
        let (js, ts) ← goM n ts
        pure ((k, j) :: js, ts)
    let (l, ts) ← goM n ts
    pure (.obj l, ts)
  | _ => none

partial def showJson : Json → String
  | .null => "n"
  | .bool true => "t"
  | .bool false => "f"
  | .bad => "B"
  | .num b => "d " ++ showBits b
  | .str s => "s " ++ showX s
  | .arr l => l.foldl (fun acc j => acc ++ " " ++ showJson j) ("a " ++ toString l.length)
  | .obj ms => ms.foldl (fun acc (k, v) => acc ++ " " ++ showX k ++ " " ++ showJson v) ("o " ++ toString ms.length)

def bbox : P (Option (List UInt64)) := fun ts =>
  match ts with
  | "-" :: ts => some (none, ts)
  | "b" :: ts => (counted bits ts).map fun (l, ts) => (some l, ts)
  | _ => none

def showBBox : Option (List UInt64) → String
  | none => "-"
  | some l => l.foldl (fun acc b => acc ++ " " ++ showBits b) ("b " ++ toString l.length)

def members : P (Option Members) := fun ts =>
  match ts with
  | "-" :: ts => some (none, ts)
  | ts =>
    match json ts with
    | some (.obj ms, ts) => some (some ms, ts)
    | _ => none

def showMembers : Option Members → String
  | none => "-"
  | some ms => showJson (.obj ms)

/-! values with nil members on the wire (the reader of Driver/C06.lean, kept local) -/

def npts : P (CoreNil.NPts UInt64) := fun ts =>
  match ts with
  | "n" :: ts => some (none, ts)
  | _ => do
    let (n, ts) ← nat ts
    let (l, ts) ← many pt n ts
    pure (some l, ts)

def nptsL : P (List (CoreNil.NPts UInt64)) := fun ts => do
  let (n, ts) ← nat ts
  many npts n ts

def nptss : P (CoreNil.NPtss UInt64) := fun ts =>
  match ts with
  | "n" :: ts => some (none, ts)
  | _ => (nptsL ts).map fun (l, ts) => (some l, ts)

def nptssL : P (List (CoreNil.NPtss UInt64)) := fun ts => do
  let (n, ts) ← nat ts
  many nptss n ts

partial def ngeom : P NG := fun ts =>
  match ts with
  | "nil" :: ts => some (.nilIface, ts)
  | "nMP" :: ts => some (.multiPoint none, ts)
  | "nLS" :: ts => some (.lineString none, ts)
  | "nMLS" :: ts => some (.multiLineString none, ts)
  | "nR" :: ts => some (.ring none, ts)
  | "nPG" :: ts => some (.polygon none, ts)
  | "nMPG" :: ts => some (.multiPolygon none, ts)
  | "nC" :: ts => some (.nilCollection, ts)
  | "P" :: ts => (pt ts).map fun (p, ts) => (.point p, ts)
  | "MP" :: ts => (npts ts).map fun (p, ts) => (.multiPoint p, ts)
  | "LS" :: ts => (npts ts).map fun (p, ts) => (.lineString p, ts)
  | "R" :: ts => (npts ts).map fun (p, ts) => (.ring p, ts)
  | "MLS" :: ts => (nptsL ts).map fun (p, ts) => (.multiLineString (some p), ts)
  | "PG" :: ts => (nptsL ts).map fun (p, ts) => (.polygon (some p), ts)
  | "MPG" :: ts => (nptssL ts).map fun (p, ts) => (.multiPolygon (some p), ts)
  | "B" :: ts => do
    let (a, ts) ← pt ts
    let (b, ts) ← pt ts
    pure (.bound a b, ts)
  | "C" :: ts => do
    let (n, ts) ← nat ts
    let rec go : Nat → Toks → Option (List NG × Toks)
      | 0, ts => some ([], ts)
      | n+1, ts => do
        let (g, ts) ← ngeom ts
        let (gs, ts) ← go n ts
        pure (g :: gs, ts)
    let (gs, ts) ← go n ts
    pure (.collection gs, ts)
  | _ => none

/-- an optional `x<hex>` Type token -/
def optType (dflt : String) : P String := fun ts =>
  match ts with
  | t :: rest =>
    (match xstr? t with
     | some s => some (s, rest)
     | none => some (dflt, ts))
  | [] => some (dflt, [])

/-- a feature together with the Go value of its geometry (`f.geom = toV n`) -/
def featureN : P (Option (Feature × NG)) := fun ts =>
  match ts with
  | "N" :: ts => some (none, ts)
  | "F" :: ts => do
    let (ty, ts) ← optType "Feature" ts
    let (id, ts) ← (match ts with
      | "-" :: ts => some (none, ts)
      | ts => (json ts).map fun (j, ts) => (some j, ts))
    let (bb, ts) ← bbox ts
    let (n, ts) ← ngeom ts
    let (ps, ts) ← members ts
    pure (some ({ id := id, typ := ty, bbox := bb, geom := toV n, props := ps }, n), ts)
  | _ => none

/-- outcome token: the decoded `Type` field is printed -/
def showFeature : Option Feature → String
  | none => "N"
  | some f =>
    "F " ++ showX f.typ ++ " " ++ (match f.id with | none => "-" | some j => showJson j) ++ " " ++ showBBox f.bbox ++ " " ++
      showGVal f.geom ++ " " ++ showMembers f.props

/-- a feature collection together with the Go values of its features' geometries (in order) -/
def fcN : P (FC × List NG) := fun ts =>
  match ts with
  | "FC" :: ts => do
    let (ty, ts) ← optType "FeatureCollection" ts
    let (bb, ts) ← bbox ts
    let (fs, ts) ← (match ts with
      | "-" :: ts => some (none, ts)
      | "l" :: ts => (counted featureN ts).map fun (l, ts) => (some l, ts)
      | _ => none)
    let (ex, ts) ← members ts
    let feats := fs.map fun l => l.map fun o => o.map (·.1)
    let ns := (fs.getD []).filterMap fun o => o.map (·.2)
    pure (({ typ := ty, bbox := bb, features := feats, extra := ex }, ns), ts)
  | _ => none

def showFC (x : FC) : String :=
  "FC " ++ showX x.typ ++ " " ++ showBBox x.bbox ++ " " ++
    (match x.features with
     | none => "-"
     | some l => l.foldl (fun acc f => acc ++ " " ++ showFeature f) ("l " ++ toString l.length)) ++ " " ++
    showMembers x.extra

/-- a decoded `*geojson.Geometry`: its `Type` field and `Geometry()`; `nil` for a nil pointer -/
def showGOut : V → String
  | .nilIface => "nil"
  | v => showX (typeOfV v) ++ " " ++ showGVal v

def errClass : Err → String
  | .json => "json" | .invalid => "invalid" | .notType => "nottype"

def showRes {α : Type} (sh : α → String) : R α → String
  | .ok a => "ok " ++ sh a
  | .err e => "err " ++ errClass e
  | .panic _ => "panic"

/-- split a token list at `;` tokens -/
def splitSemi (ts : Toks) : List Toks :=
  let rec go (ts : Toks) (cur : Toks) (acc : List Toks) : List Toks :=
    match ts with
    | [] => (cur.reverse :: acc).reverse
    | ";" :: rest => go rest [] (cur.reverse :: acc)
    | t :: rest => go rest (t :: cur) acc
  go ts [] []

def unw (ts : Toks) : String := " ".intercalate ts

/-- the whole token list is one tree -/
def wholeJson (ts : Toks) : Option Json :=
  match json ts with
  | some (j, []) => some j
  | _ => none

/-! ### predicates used to name the clause a failure belongs to -/

mutual
partial def hasNestedEmpty : G → Bool
  | .collection gs => gs.any fun g => isEmptyColl g || hasNestedEmpty g
  | _ => false
end

/-- some multi-geometry (at any depth) has length 0: bson `omitempty` drops its coordinates -/
partial def hasEmptyMulti : G → Bool
  | .multiPoint [] | .lineString [] | .multiLineString [] | .polygon [] | .multiPolygon [] => true
  | .collection gs => gs.any hasEmptyMulti
  | _ => false

def vNestedEmpty : V → Bool
  | .val g => hasNestedEmpty g
  | _ => false

def vEmptyMulti : V → Bool
  | .val g => hasEmptyMulti g
  | .nilSlice k => k != .ring && k != .collection
  | _ => false

def vIsNullGeom (v : V) : Bool :=
  match canonV v with
  | .nilIface => true
  | _ => false

def vIsTopNil : V → Bool
  | .val _ => false
  | _ => true

/-- documents compared modulo member order (bson writes Go maps in iteration order) -/
def sameModOrder (a b : Json) : Bool := valOf a == valOf b

structure Sides where
  jdoc : Toks
  dec1 : Toks      -- UnmarshalX
  dec2 : Toks      -- json.Unmarshal into a pointer
  rm : Toks
  bdoc : Toks
  bdec : Toks
  brm : Toks
  extra : Toks := []   -- fc: `em same|mutated`

def sides (out : Toks) : Option Sides :=
  match splitSemi out with
  | [a, b, c, d, e, f, g] => some ⟨a, b, c, d, e, f, g, []⟩
  | [a, b, c, d, e, f, g, h] => some ⟨a, b, c, d, e, f, g, h⟩
  | _ => none

/-! Implementation outcomes are re-read and re-printed before they are compared: the harness
    writes a typed-nil MEMBER of a decoded collection as `nMP` …, which the model's decoded value
    (`Geom`: no nil below the top level) prints as the empty value `MP 0`.  Top-level nil-ness is kept. -/

def normGeomOut (ts : Toks) : String :=
  match ts with
  | "ok" :: x :: rest =>
    (match ngeom rest with
     | some (n, []) => "ok " ++ x ++ " " ++ showGVal (toV n)
     | _ => unw ts)
  | _ => unw ts

def normTypedOut (ts : Toks) : String :=
  match ts with
  | "ok" :: rest =>
    (match ngeom rest with
     | some (n, []) => "ok " ++ showGVal (toV n)
     | _ => unw ts)
  | _ => unw ts

def normFeatOut (ts : Toks) : String :=
  match ts with
  | "ok" :: rest =>
    (match featureN rest with
     | some (o, []) => "ok " ++ showFeature (o.map (·.1))
     | _ => unw ts)
  | _ => unw ts

def normFCOut (ts : Toks) : String :=
  match ts with
  | ["ok", "N"] => "ok N"
  | "ok" :: rest =>
    (match fcN rest with
     | some ((x, _), []) => "ok " ++ showFC x
     | _ => unw ts)
  | _ => unw ts

/-- labels of known findings: emitted only when implementation and model agree on the whole case -/
def knownLabels : List String :=
  ["propfail nested-empty-collection-rejected", "propfail empty-collection-unmarshalgeometry-rejects-null",
   "propfail bson-empty-coordinates-dropped", "propfail nil-member-written-as-null",
   "propfail nil-geometry-pointer-bson-panic", "propfail geometry-receiver-keeps-stale-field"]

/-- final verdict: a NEW violation outranks a model disagreement; a KNOWN label needs agreement -/
def finish (agree : Bool) (diffMsg : String) (r : String) : String :=
  if agree then r
  else if r.startsWith "propfail" && !(knownLabels.contains r) then r
  else diffMsg

def treeIs (ts : Toks) (p : Json → Bool) : Bool :=
  match wholeJson ts with
  | some j => p j
  | none => false

/-- the shape verdict for a document that is not RFC 7946 shaped: the known nil-member finding only
    when the value has a nil slice member and the document of the same value WITHOUT nil-ness is
    well-formed (so that the `null`s are the only reason) -/
def shapeFail (c : Codec) (n : NG) (generic : String) : String :=
  if hasNilSliceMember n && wellformed (geomDoc c (.val (forgetNil n))) then "propfail nil-member-written-as-null"
  else generic

/-! ### geom -/

/-- `geom <gsN value> => J ; UnmarshalGeometry ; json.Unmarshal(&ptr) ; remarshal ; B ; bson.Unmarshal ; remarshal` -/
def handleGeom (inp out : Toks) : String :=
  match ngeom inp, sides out with
  | some (n, _), some s =>
    let v := toV n
    let jd := geomDocN .json n
    let bd := geomDocN .bson n
    let m1 := showRes showGOut (geomOfDoc .json jd)
    let m2 := showRes showGOut (geomPtrOfDoc jd)
    let mb := showRes showGOut (geomOfDoc .bson bd)
    -- correspondence: documents and every decode outcome (incl. the decoded Type field)
    let docOk := treeIs s.jdoc (· == jd)
    let bdocOk := treeIs s.bdoc (· == bd)
    let agree := docOk && bdocOk && normGeomOut s.dec1 == m1 && normGeomOut s.dec2 == m2 && normGeomOut s.bdec == mb
    finish agree s!"diff doc={docOk} bdoc={bdocOk} ; {showJson jd} ; {m1} ; {m2} ; {showJson bd} ; {mb}" <|
    -- the property, on the implementation's outcome
    let want := "ok " ++ showGOut (canonV v)
    let anyPanic := out.any (· == "panic")
    if anyPanic then
      (if vNestedEmpty v then "propfail nested-empty-collection-panics" else "propfail panic")
    else if hasNilIfaceMember n then "ok triv-nil-iface-member"   -- a nil interface is not a geometry
    else if vIsTopNil v && !(match v with | .nilSlice .collection => true | _ => false) then
      -- nil interface / typed nil slices: not geometries of the quantifier; correspondence only
      "ok triv-topnil"
    else if s.jdoc == ["merr"] || s.bdoc == ["merr"] then "propfail marshal-error"
    else if vNestedEmpty v && normGeomOut s.dec2 != want then "propfail nested-empty-collection-rejected"
    else if normGeomOut s.dec2 != want then "propfail json-roundtrip-pointer"
    else if vIsNullGeom v then
      -- empty collection: `null`; UnmarshalGeometry rejects what NewGeometry(...).MarshalJSON wrote
      (if normGeomOut s.dec1 != want then "propfail empty-collection-unmarshalgeometry-rejects-null" else "ok empty-coll")
    else if normGeomOut s.dec1 != want then "propfail json-roundtrip"
    else if s.rm != ["same"] then "propfail json-remarshal"
    else if !(treeIs s.jdoc wellformed) then shapeFail .json n "propfail json-wellformed"
    else if normGeomOut s.bdec != want then
      (if vEmptyMulti v then "propfail bson-empty-coordinates-dropped" else "propfail bson-roundtrip")
    else if s.brm != ["same"] then "propfail bson-remarshal"
    else if !(treeIs s.bdoc wellformed) then shapeFail .bson n "propfail bson-wellformed"
    else
      match v with
      | .val (.collection _) => "ok coll"
      | .val (.ring _) | .val (.bound _ _) => "ok to-polygon"
      | _ => "ok geom"
  | none, _ => "bad input"
  | _, none => "bad output"

/-! ### typed helper types -/

def kindOfNG : NG → Option Kind
  | .point _ => some .point
  | .multiPoint _ => some .multiPoint
  | .lineString _ => some .lineString
  | .multiLineString _ => some .multiLineString
  | .polygon _ => some .polygon
  | .multiPolygon _ => some .multiPolygon
  | _ => none

/-- `typed <gsN value> => J ; decode ; B ; decode` (geojson.Point … geojson.MultiPolygon) -/
def handleTyped (inp out : Toks) : String :=
  match ngeom inp with
  | none => "bad input"
  | some (n, _) =>
    match kindOfNG n, splitSemi out with
    | none, _ => if out == ["na"] then "ok triv-na" else "bad output"
    | some k, [jdoc, jdec, bdoc, bdec] =>
      let v := toV n
      -- the helper types marshal `&Geometry{Coordinates: x}`: same documents as NewGeometry
      let jd := geomDocN .json n
      let bd := geomDocN .bson n
      let m1 := showRes showGVal (typedOfDoc .json k jd)
      let mb := showRes showGVal (typedOfDoc .bson k bd)
      let docOk := treeIs jdoc (· == jd)
      let bdocOk := treeIs bdoc (· == bd)
      let agree := docOk && bdocOk && normTypedOut jdec == m1 && normTypedOut bdec == mb
      finish agree s!"diff doc={docOk} bdoc={bdocOk} ; {showJson jd} ; {m1} ; {showJson bd} ; {mb}" <|
      if out.any (· == "panic") then "propfail typed-panic"
      else if vIsTopNil v then "ok triv-topnil"
      else
        let want := "ok " ++ showGVal (canonV v)
        if normTypedOut jdec != want then "propfail typed-json-roundtrip"
        else if !(treeIs jdoc wellformed) then shapeFail .json n "propfail typed-json-wellformed"
        else if normTypedOut bdec != want then
          (if vEmptyMulti v then "propfail bson-empty-coordinates-dropped" else "propfail typed-bson-roundtrip")
        else "ok typed"
    | _, _ => "bad output"

/-! ### feature -/

def fNestedEmpty (f : Feature) : Bool := vNestedEmpty f.geom
def fEmptyMulti (f : Feature) : Bool := vEmptyMulti f.geom

/-- the geometry member of a feature document is RFC 7946 shaped (or `null`) -/
def geomMemberShaped (j : Json) : Bool :=
  match j with
  | .obj ms =>
    (match lookupKey "geometry" ms with
     | some .null => true
     | some g => wellformed g
     | none => false)
  | _ => false

def handleFeat (inp out : Toks) : String :=
  match featureN inp, sides out with
  | some (some (f, n), _), some s =>
    let jd := featureDocN .json f n
    let bd := featureDocN .bson f n
    let m1 := showRes (fun x => showFeature (some x)) (featureOfDoc .json false jd)
    let m2 := showRes showFeature (featurePtrOfDoc jd)
    let mb := showRes (fun x => showFeature (some x)) (featureOfDoc .bson false bd)
    let docOk := treeIs s.jdoc (· == jd)
    let bdocOk := treeIs s.bdoc (sameModOrder · bd)
    let agree := docOk && bdocOk && normFeatOut s.dec1 == m1 && normFeatOut s.dec2 == m2 && normFeatOut s.bdec == mb
    finish agree s!"diff doc={docOk} bdoc={bdocOk} ; {showJson jd} ; {m1} ; {m2} ; {showJson bd} ; {mb}" <|
    let want := "ok " ++ showFeature (some (canonF f))
    if out.any (· == "panic") then
      (if fNestedEmpty f then "propfail nested-empty-collection-panics" else "propfail panic")
    else if hasNilIfaceMember n then "ok triv-nil-iface-member"
    else if s.jdoc == ["merr"] || s.bdoc == ["merr"] then "propfail marshal-error"
    else if fNestedEmpty f && normFeatOut s.dec1 != want then "propfail nested-empty-collection-rejected"
    else if normFeatOut s.dec1 != want then "propfail feature-json-roundtrip"
    else if normFeatOut s.dec2 != want then "propfail feature-json-roundtrip-pointer"
    else if s.rm != ["same"] then "propfail feature-json-remarshal"
    else if !(treeIs s.jdoc geomMemberShaped) && !(vIsTopNil f.geom) then
      shapeFail .json n "propfail feature-json-wellformed"
    else if normFeatOut s.bdec != want then
      (if fEmptyMulti f then "propfail bson-empty-coordinates-dropped" else "propfail feature-bson-roundtrip")
    else if s.brm != ["same"] then "propfail feature-bson-remarshal"
    else
      match f.props, f.id with
      | some (_ :: _), some _ => "ok feat id props"
      | some (_ :: _), none => "ok feat props"
      | _, some _ => "ok feat id"
      | _, none => (if vIsNullGeom f.geom then "ok triv-feat-bare" else "ok feat")
  | some (none, _), _ => "bad nil-feature"
  | none, _ => "bad input"
  | _, none => "bad output"

/-! ### feature collection -/

def fcFeatures (x : FC) : List Feature := (x.features.getD []).filterMap id

/-- every feature member of a collection document has a shaped (or null) geometry -/
def featuresShaped (j : Json) : Bool :=
  match j with
  | .obj ms =>
    (match lookupKey "features" ms with
     | some (.arr l) => l.all fun f => match f with | .null => true | f => geomMemberShaped f
     | _ => false)
  | _ => false

def handleFC (inp out : Toks) : String :=
  match fcN inp, sides out with
  | some ((x, ns), _), some s =>
    let jd := fcDocN .json x ns
    let bd := fcDocN .bson x ns
    let m1 := showRes showFC (fcOfDoc .json false jd)
    let m2 := showRes (fun o => match o with | some y => showFC y | none => "N") (fcPtrOfDoc jd)
    let mb := showRes showFC (fcOfDoc .bson false bd)
    let docOk := treeIs s.jdoc (· == jd)
    let bdocOk := treeIs s.bdoc (sameModOrder · bd)
    let agree := docOk && bdocOk && normFCOut s.dec1 == m1 && normFCOut s.dec2 == m2 && normFCOut s.bdec == mb
    finish agree s!"diff doc={docOk} bdoc={bdocOk} ; {showJson jd} ; {m1} ; {m2} ; {showJson bd} ; {mb}" <|
    let want := "ok " ++ showFC (canonFC x)
    let nilSliceMem := ns.any hasNilSliceMember
    if out.any (· == "panic") then
      (if (fcFeatures x).any fNestedEmpty then "propfail nested-empty-collection-panics" else "propfail panic")
    else if s.extra != ["em", "same"] then "propfail fc-marshal-mutates-extramembers"
    else if ns.any hasNilIfaceMember then "ok triv-nil-iface-member"
    else if s.jdoc == ["merr"] || s.bdoc == ["merr"] then "propfail marshal-error"
    else if (fcFeatures x).any fNestedEmpty && normFCOut s.dec1 != want then "propfail nested-empty-collection-rejected"
    else if normFCOut s.dec1 != want then "propfail fc-json-roundtrip"
    else if normFCOut s.dec2 != want then "propfail fc-json-roundtrip-pointer"
    else if s.rm != ["same"] then "propfail fc-json-remarshal"
    else if !(treeIs s.jdoc featuresShaped) && (fcFeatures x).all (fun f => !(vIsTopNil f.geom) || vIsNullGeom f.geom) then
      (if nilSliceMem && (fcFeatures x).all (fun f => vIsNullGeom f.geom || wellformed (geomDoc .json f.geom)) then
        "propfail nil-member-written-as-null"
       else "propfail fc-json-wellformed")
    else if normFCOut s.bdec != want then
      (if (fcFeatures x).any fEmptyMulti then "propfail bson-empty-coordinates-dropped" else "propfail fc-bson-roundtrip")
    else if s.brm != ["same"] then "propfail fc-bson-remarshal"
    else
      match x.extra, fcFeatures x with
      | some (_ :: _), _ :: _ => "ok fc extra"
      | _, _ :: _ => "ok fc"
      | some (_ :: _), [] => "ok fc-empty extra"
      | _, [] => "ok triv-fc-empty"
  | none, _ => "bad input"
  | _, none => "bad output"

/-! ### bbox.go -/

def showBound (b : Pt UInt64 × Pt UInt64) : String := showPt b.1 ++ " " ++ showPt b.2

/-- `bbox <bbox> <bound: 4 hex> => valid b ; bound 4hex ; new <bbox> ; newbound 4hex` -/
def handleBBox (inp out : Toks) : String :=
  match bbox inp with
  | none => "bad input"
  | some (bb, ts) =>
    match pt ts with
    | none => "bad input"
    | some (a, ts) =>
      match pt ts with
      | none => "bad input"
      | some (b, _) =>
        let mv := "valid " ++ (if bboxValid bb then "1" else "0")
        let mb := "bound " ++ (match bboxBound bb with | .ok r => showBound r | .err _ => "err" | .panic _ => "panic")
        let mn := "new " ++ showBBox (some (newBBox a b))
        let mnb := "newbound " ++ (match bboxBound (some (newBBox a b)) with | .ok r => showBound r | .err _ => "err" | .panic _ => "panic")
        match splitSemi out with
        | [v, bd, nw, nb] =>
          let agree := unw v == mv && unw bd == mb && unw nw == mn && unw nb == mnb
          finish agree s!"diff {mv} ; {mb} ; {mn} ; {mnb}" <|
          if out.any (· == "panic") then "propfail bbox-panic"
          else if unw nb != "newbound " ++ showBound (a, b) then "propfail bbox-bound-roundtrip"
          else if bboxValid bb then "ok bbox valid" else "ok bbox invalid"
        | _ => "bad output"

/-! ### C05: hostile documents -/

/-- some object has two members selecting the same struct field among "geometries", "geometry",
    "properties": the struct decoders then decode INTO the partly filled value of the first
    occurrence (pointer / slice element / map reuse), which the model does not follow.  Repeated
    "type", "coordinates", "id", "bbox" members are modelled (each occurrence is an assignment). -/
partial def hasDupKeys (c : Codec) : Json → Bool
  | .arr l => l.any (hasDupKeys c)
  | .obj ms =>
    let ks := (ms.map fun kv => fieldKey c kv.1).filter fun k => k == "geometries" || k == "geometry" || k == "properties"
    let rec dup : List String → Bool
      | [] => false
      | k :: rest => rest.contains k || dup rest
    dup ks || ms.any fun kv => hasDupKeys c kv.2
  | _ => false

def classOf {α : Type} (isNil : α → Bool) : R α → String
  | .ok a => if isNil a then "nil" else "ok"
  | .err e => "err:" ++ errClass e
  | .panic _ => "panic"

def isNilV : V → Bool
  | .nilIface => true
  | _ => false

/-- allocation allowed for the six (three) decode calls — and, separately, for the six typed-helper
    calls — on `len` input bytes (slack recorded in props.json: a one-member object costs a Go map,
    ~300 bytes, in each accepting decoder) -/
def allocBound (len : Nat) : Nat := 1024 * len + 1048576

/-- nesting depth of objects: every nested geometry / feature is a nested Unmarshaler call that
    re-validates (json) or copies (bson) its whole sub-document -/
partial def odepth : Json → Nat
  | .arr l => l.foldl (fun m j => max m (odepth j)) 0
  | .obj ms => 1 + ms.foldl (fun m kv => max m (odepth kv.2)) 0
  | _ => 0

def typedClassOf : R V → String
  | .ok _ => "ok"
  | .err e => "err:" ++ errClass e
  | .panic _ => "panic"

/-- `hostile json|bson <hex> => tree|nojson|exotic ; rawnull b ; ug C ; ugp C ; uf C ; ufp C ; ufc C ; ufcp C ;
      ty C C C C C C ; alloc n len ntyped`.
    Model outcome class vs implementation for the documents that parse at all; `propfail` on a
    panic (named after the model's reason when — and only when — the model predicts exactly that
    panic and everything else agrees), on a timeout, or on over-allocation. -/
def handleHostile (inp out : List String) : String :=
  match inp, splitSemi out with
  | kind :: _, [tree, ["rawnull", rn], ["ug", ug], ["ugp", ugp], ["uf", uf], ["ufp", ufp], ["ufc", ufc], ["ufcp", ufcp],
      "ty" :: ty, ["alloc", al, ln, tal]] =>
    if ty.length != 6 then "bad hostile typed" else
    let implMain := [ug, ugp, uf, ufp, ufc, ufcp]
    let impl := implMain ++ ty
    let c : Codec := if kind == "bson" then .bson else .json
    let rawNull := rn == "1"
    let parsed := wholeJson tree
    let allocFail : Option String :=
      match al.toNat?, ln.toNat?, tal.toNat? with
      | some a0, some l, some t =>
        let a := max a0 t
        if a ≤ allocBound l then none
        else
          -- quadratic in the nesting depth of geometry collections: named apart
          let d := (match parsed with | some j => odepth j | none => 0)
          if d ≥ 16 ∧ a ≤ allocBound (l * (d + 1)) then some s!"propfail alloc-superlinear-nesting {a} bytes for {l} input bytes at depth {d}"
          else some s!"propfail alloc {a} > bound({l})"
      | _, _, _ => some "bad alloc"
    let implPanic := impl.any (· == "panic")
    let implTimeout := impl.any (· == "timeout")
    match tree with
    | ["nojson"] | ["exotic"] =>
      -- not a document the model can read: every decoder must return (an error, for text that
      -- encoding/json rejects)
      if implPanic then
        (if c == .bson then "propfail panic-bson-corrupt-document" else "propfail panic-unparsable-input")
      else if implTimeout then "propfail timeout"
      else if let some a := allocFail then a
      else if tree == ["nojson"] && c == .json && impl.any (fun s => !(s.startsWith "err")) then "propfail accepted-invalid-json"
      else (if tree == ["nojson"] then "ok unparsable" else "ok exotic")
    | _ =>
      match parsed with
      | none => "bad tree"
      | some j =>
        let mg := geomOfDoc c j
        let mf := featureOfDoc c rawNull j
        let mfc := fcOfDoc c rawNull j
        let modelMain : List String :=
          match c with
          | .json =>
            [classOf isNilV mg, classOf isNilV (geomPtrOfDoc j),
             classOf (fun _ => false) mf, classOf (fun o : Option Feature => o.isNone) (featurePtrOfDoc j),
             classOf (fun _ => false) mfc, classOf (fun o : Option FC => o.isNone) (fcPtrOfDoc j)]
          | .bson =>
            [classOf (fun _ => false) mg, "-", classOf (fun _ => false) mf, "-", classOf (fun _ => false) mfc, "-"]
        let modelTy : List String := typedKinds.map fun k => typedClassOf (typedOfDoc c k j)
        let model := modelMain ++ modelTy
        -- FeatureCollection members are visited in Go's random map order: when SEVERAL members fail,
        -- any of their errors may be the one reported (and only one of theirs)
        let classes : List String :=
          match j with
          | .obj ms => (fcErrClasses c (normKeys ms)).map fun e => "err:" ++ errClass e
          | _ => []
        let fcTol (m i : String) : Bool :=
          m == i || (classes.length ≥ 2 && classes.contains i && (m.startsWith "err" || m == "panic"))
        let mainOk :=
          match modelMain, implMain with
          | [a, b, c', d, e, f], [a', b', c'', d', e', f'] =>
            a == a' && b == b' && c' == c'' && d == d' && fcTol e e' && fcTol f f'
          | _, _ => false
        let okAll := mainOk && modelTy == ty
        let dup := hasDupKeys c j
        let disagree := !okAll && !dup
        let diffMsg := "diff " ++ " ".intercalate model
        if implPanic then
          -- a known panic label ONLY for exactly the documented situation, predicted by the model,
          -- everything else agreeing: json `null` into the typed helpers
          if !(implMain.any (· == "panic")) && mainOk && modelTy == ty && c == .json &&
              (match j with | .null => true | _ => false) then
            "propfail panic-typed-helper-null"
          else if implMain.any (· == "panic") then "propfail panic-unmodelled"
          else "propfail panic-typed-helper-unmodelled"
        else if implTimeout then "propfail timeout"
        else if let some a := allocFail then
          (if disagree && a.startsWith "propfail alloc-superlinear-nesting" then diffMsg else a)
        else if dup then "skip duplicate-keys"
        else if !okAll then diffMsg
        else
          let tag :=
            if model.any (· == "ok") then "accepted"
            else if model.any (· == "nil") then "null"
            else "rejected"
          s!"ok hostile-{kind} {tag}"
  | _, _ => "bad hostile"


/-! ### hand-built geometries (`hand`) -/

/-- `N` | `H x<hex Type> <gsN value | nil> <Geometries: - | l n hand*>` -/
partial def hand : P HG := fun ts =>
  match ts with
  | "N" :: ts => some (.nilPtr, ts)
  | "H" :: ts => do
    let (ty, ts) ← xstr ts
    let (n, ts) ← ngeom ts
    match ts with
    | "-" :: ts => pure (.mk ty n [], ts)
    | "l" :: ts => do
      let (k, ts) ← nat ts
      let rec go : Nat → Toks → Option (List HG × Toks)
        | 0, ts => some ([], ts)
        | k+1, ts => do
          let (h, ts) ← hand ts
          let (hs, ts) ← go k ts
          pure (h :: hs, ts)
      let (hs, ts) ← go k ts
      pure (.mk ty n hs, ts)
    | _ => none
  | _ => none

def hgCoords : HG → NG
  | .nilPtr => .nilIface
  | .mk _ n _ => n

def hgGeoms : HG → List HG
  | .nilPtr => []
  | .mk _ _ gs => gs

/-- `hand <HG> => J ; UnmarshalGeometry ; json.Unmarshal(&ptr) ; remarshal ; B ; bson.Unmarshal ; remarshal ;
      WB ; bson.Unmarshal(&wrapper).G ; mut same|mutated`.
    Correspondence: the three documents against `hgTopJson` / `hgTopBson` / `hgWrapBson` (a nil pointer
    anywhere: the bson encoder panics — predicted), every decode outcome against the model's decoders
    on the model's documents.  Property, for a CONSISTENT value (only Coordinates, or only Geometries
    with consistent members; the Type string is free): the round trip to the canonical value of
    `g.Geometry()`, RFC 7946 shape, idempotent re-marshal, json / bson top level / bson as a field.
    Values whose `NewGeometry` twin falls into a known finding of the `geom` op (nil members, nested
    empty collection, empty collection = null, typed nil, bson empty coordinates) write — provably,
    `hand_doc_eq` — the same document and are judged there: correspondence only. -/
def handleHand (inp out : Toks) : String :=
  match hand inp, splitSemi out with
  | some (h, []), [jdoc, dec1, dec2, rm, bdoc, bdec, brm, wdoc, wdec, mutd] =>
    let jd := hgTopJson h
    let bd := hgTopBson h
    let wd := hgWrapBson h
    let bpanic := hgBsonPanics h
    let m1 := showRes showGOut (geomOfDoc .json jd)
    let m2 := showRes showGOut (geomPtrOfDoc jd)
    let mb := showRes showGOut (geomOfDoc .bson bd)
    let mw := (match hgMember .bson h with
      | .null => "ok nil"
      | j => showRes showGOut (geomOfDoc .bson j))
    let docOk := treeIs jdoc (· == jd)
    let jsonOk := docOk && normGeomOut dec1 == m1 && normGeomOut dec2 == m2
    let bsonOk :=
      if bpanic then bdoc == ["panic"] && wdoc == ["panic"] && bdec == ["na"] && wdec == ["na"]
      else treeIs bdoc (· == bd) && normGeomOut bdec == mb && treeIs wdoc (· == wd) && normGeomOut wdec == mw
    let agree := jsonOk && bsonOk
    finish agree s!"diff json={jsonOk} bson={bsonOk} ; {showJson jd} ; {m1} ; {m2} ; {showJson bd} ; {mb} ; {showJson wd} ; {mw}" <|
    if mutd != ["mut", "same"] then "propfail hand-marshal-mutates-value"
    else if (jdoc ++ dec1 ++ dec2 ++ rm).any (· == "panic") then "propfail hand-panic"
    else if (bdoc ++ bdec ++ brm ++ wdoc ++ wdec).any (· == "panic") then
      (if bpanic then "propfail nil-geometry-pointer-bson-panic" else "propfail hand-panic")
    else if jdoc == ["merr"] || bdoc == ["merr"] || wdoc == ["merr"] then "propfail hand-marshal-error"
    else
      match hgValue h with
      | none => "ok hand-inconsistent"
      | some n =>
        let v := toV n
        let want := "ok " ++ showGOut (canonV v)
        if emptyCollCoords (hgCoords h) then "ok hand-empty-collection-in-coordinates"
        else if hasNilIfaceMember n || vIsTopNil v || vNestedEmpty v || vIsNullGeom v || hasNilSliceMember n then
          "ok triv-hand-known-class"
        else if normGeomOut dec2 != want then "propfail hand-json-roundtrip-pointer"
        else if normGeomOut dec1 != want then "propfail hand-json-roundtrip"
        else if rm != ["same"] then "propfail hand-json-remarshal"
        else if !(treeIs jdoc wellformed) then "propfail hand-json-wellformed"
        else if vEmptyMulti v then "ok hand json-only"
        else if normGeomOut bdec != want then "propfail hand-bson-roundtrip"
        else if brm != ["same"] then "propfail hand-bson-remarshal"
        else if !(treeIs bdoc wellformed) then "propfail hand-bson-wellformed"
        else if normGeomOut wdec != want then "propfail hand-bson-value-roundtrip"
        else
          match hgCoords h, hgGeoms h with
          | .ring _, _ | .bound _ _, _ => "ok hand to-polygon"
          | .collection _, _ => "ok hand coll-in-coordinates"
          | _, _ :: _ => "ok hand geometries"
          | _, _ => "ok hand geom"
  | some (_, _ :: _), _ => "bad input"
  | none, _ => "bad input"
  | _, _ => "bad output"

/-! ### sequences of documents into one receiver (`seq`) -/

/-- split a token list at `|` tokens -/
def splitBar (ts : Toks) : List Toks :=
  let rec go (ts : Toks) (cur : Toks) (acc : List Toks) : List Toks :=
    match ts with
    | [] => (cur.reverse :: acc).reverse
    | "|" :: rest => go rest [] (cur.reverse :: acc)
    | t :: rest => go rest (t :: cur) acc
  go ts [] []

/-- the receiver's fields as the harness prints them after the geometry -/
def showGRecv (r : GRecv) : String :=
  "ok " ++ showX r.ty ++ " " ++ showGVal r.geometry ++ " st " ++ (if r.coords.isSome then "1" else "0") ++ " " ++
    (match r.geoms with | none => "n" | some l => toString l.length)

/-- `ok x<Type> <gval> st a b`, the geometry re-printed (typed-nil members as empty values) -/
def normGRecvOut (ts : Toks) : String :=
  match ts with
  | "ok" :: x :: rest =>
    (match ngeom rest with
     | some (n, ["st", a, b]) => "ok " ++ x ++ " " ++ showGVal (toV n) ++ " st " ++ a ++ " " ++ b
     | _ => unw ts)
  | _ => unw ts

structure SeqStep where
  fresh : String
  reused : String
  rm : String

def resStr {α : Type} (sh : α → String) : R α → String
  | .ok a => sh a
  | .err e => "err " ++ errClass e
  | .panic _ => "panic"

/-- the receiver as a hand-built value (the members of a decoded collection are new `Geometry`
    values: one field set each) -/
partial def hgOfG : G → HG
  | .collection gs => .mk "" .nilIface (gs.map hgOfG)
  | g => .mk "" (CoreNil.ofGeom g) []

def hgOfRecv (r : GRecv) : HG :=
  .mk r.ty (match r.coords with | some v => CoreNil.ofGVal v | none => .nilIface) ((r.geoms.getD []).map hgOfG)

/-- the receiver marshalled again: `json.Marshal(&g)` / `bson.Marshal(&g)` -/
def recvDoc (c : Codec) (r : GRecv) : Json :=
  match c with
  | .json => hgTopJson (hgOfRecv r)
  | .bson => hgTopBson (hgOfRecv r)

def kindOfTn : String → Option Kind
  | "T0" => some .point | "T1" => some .multiPoint | "T2" => some .lineString
  | "T3" => some .multiLineString | "T4" => some .polygon | "T5" => some .multiPolygon
  | _ => none

/-- the model's steps.  `st`: the Geometry receiver's fields before the step (`geomInto`); the other
    receiver types take no state — `featureInto`, `fcInto`, `typedInto` ignore it on success. -/
def seqModel (c : Codec) (tn form : String) : GRecv → List (Bool × Json) → Option (List SeqStep)
  | _, [] => some []
  | st, (pad, j) :: rest =>
    let isNull := (match j with | .null => true | _ => false)
    let ptrForm := form == "pp" || form == "sp" || form == "mp" || form == "tp"
    -- a new element for every decode: maps; bson slices
    let freshForm := form == "mp" || form == "mv" || (c == .bson && (form == "sp" || form == "sv"))
    let rawNull := isNull && c == .json && !(pad && form == "m")
    let step? : Option (SeqStep × GRecv) :=
      if isNull && ptrForm then
        some (⟨if tn == "F" || tn == "C" then "ok N" else "ok nil", if tn == "F" || tn == "C" then "ok N" else "ok nil", "same"⟩, {})
      else if tn == "G" then
        let st0 : GRecv := if freshForm then {} else st
        let f := geomInto c {} j
        let r := geomInto c st0 j
        let rm := (match f, r with
          | .ok a, .ok b => if recvDoc c a == recvDoc c b then "same" else "differs"
          | _, _ => "na")
        some (⟨resStr showGRecv f, resStr showGRecv r, rm⟩, match r with | .ok b => b | _ => st0)
      else if tn == "F" then
        let f := featureOfDoc c rawNull j
        let s := resStr (fun x => "ok " ++ showFeature (some x)) f
        some (⟨s, s, if f.isOk then "same" else "na"⟩, st)
      else if tn == "C" then
        let f := fcOfDoc c rawNull j
        let s := resStr (fun x => "ok " ++ showFC x) f
        some (⟨s, s, if f.isOk then "same" else "na"⟩, st)
      else
        match kindOfTn tn with
        | none => none
        | some k =>
          let f := typedOfDoc c k j
          let s := resStr (fun v => "ok " ++ showGVal v) f
          some (⟨s, s, if f.isOk then "same" else "na"⟩, st)
    match step? with
    | none => none
    | some (s, st') => (seqModel c tn form st' rest).map (s :: ·)

def normSeqOut (tn : String) (ts : Toks) : String :=
  if tn == "G" then normGRecvOut ts
  else if tn == "F" then normFeatOut ts
  else if tn == "C" then normFCOut ts
  else normTypedOut ts

def parseSeqDoc (ts : Toks) : Option (Bool × Json) :=
  match ts with
  | "pad" :: rest => (wholeJson rest).map (true, ·)
  | ts => (wholeJson ts).map (false, ·)

def parseSeqStep (tn : String) (ts : Toks) : Option SeqStep :=
  match splitBar ts with
  | [f, r, ["rm", x]] =>
    let fs := normSeqOut tn f
    some ⟨fs, if r == ["="] then fs else normSeqOut tn r, x⟩
  | _ => none

/-- `seq <json|bson> <G|F|C|T0..T5> <form> (; [pad] tree)+ => (fresh | reused | rm x) ; …`.
    THE CLAUSE ("receiver history must not matter"): at every step the receiver that has been through
    the earlier documents holds what a brand-new receiver holds after the same document (same printed
    value incl. Type, same bytes when marshalled again); the decode is a function of the document.
    Correspondence: both columns against the model (`featureOfDoc` … for the fresh one; `geomInto` on
    the carried state for a Geometry receiver, the only one whose Go code assigns field by field). -/
def handleSeq (inp out : Toks) : String :=
  match inp with
  | codec :: tn :: form :: ";" :: rest =>
    let c : Codec := if codec == "bson" then .bson else .json
    (match (splitSemi rest).mapM parseSeqDoc, (splitSemi out).mapM (parseSeqStep tn) with
     | some docs, some steps =>
       (match seqModel c tn form {} docs with
        | none => "bad seq type"
        | some model =>
          if model.length != steps.length then "bad seq length" else
          -- FeatureCollection members are visited in Go's random map order: with several failing
          -- members the error class may differ from call to call
          let equiv (a b : String) : Bool := a == b || (tn == "C" && a.startsWith "err" && b.startsWith "err")
          let pairs := model.zip steps
          let agree := pairs.all fun (m, i) => equiv m.fresh i.fresh && equiv m.reused i.reused && m.rm == i.rm
          let hist := steps.zipIdx.filterMap fun (s, i) =>
            if !(equiv s.fresh s.reused) || s.rm == "differs" then some i else none
          let showM := " ; ".intercalate (model.map fun m => m.fresh ++ " | " ++ m.reused ++ " | rm " ++ m.rm)
          finish agree ("diff " ++ showM) <|
          if out.any (· == "panic") then "propfail seq-panic"
          else
            match hist with
            | i :: _ =>
              if tn == "G" then "propfail geometry-receiver-keeps-stale-field"
              else s!"propfail receiver-history-matters {tn} {form} {codec} step {i + 1}"
            | [] =>
              let errs := steps.any fun s => s.fresh.startsWith "err"
              s!"ok seq {tn} {codec}" ++ (if errs then " with-errors" else ""))
     | none, _ => "bad seq docs"
     | _, none => "bad seq output")
  | _ => "bad seq input"

/-! ### white-box round: hooks installed (`hook`), buffer ownership (`own`), forms of holding a value (`val`) -/

/-- split a token list at the tokens equal to `sep` -/
def splitTok (sep : String) (ts : Toks) : List Toks :=
  let rec go (ts : Toks) (cur : Toks) (acc : List Toks) : List Toks :=
    match ts with
    | [] => (cur.reverse :: acc).reverse
    | t :: rest => if t == sep then go rest [] (cur.reverse :: acc) else go rest (t :: cur) acc
  go ts [] []

/-- the handler of a sub-op that can run under the hooks -/
def subHandler (sub : String) : Option (Toks → Toks → String) :=
  match sub with
  | "geom" => some handleGeom
  | "typed" => some handleTyped
  | "feat" => some handleFeat
  | "fc" => some handleFC
  | "hand" => some handleHand
  | "seq" => some handleSeq
  | _ => none

/-- an expectation for one step of a case: the hook calls the dispatch prescribes (`none`: not
    predicted — the step ends in an error somewhere inside) -/
structure StepExp where
  label : String
  m : Option Nat := some 0
  u : Option Nat := some 0

def resOk {α : Type} : R α → Bool
  | .ok _ => true
  | _ => false

/-- the calls of the two hooks in each step of a `geom` / `typed` / `feat` / `fc` case, both hooks
    installed (`Orb.GeoJSON.hookMG`, `hookUG`: one call per `marshalJSON` / `unmarshalJSON` site reached) -/
def stepExps (sub : String) (inp : Toks) (rmSame : Bool) : Option (List StepExp) :=
  let bsonSteps : List StepExp := [{ label := "b" }, { label := "ub" }, { label := "brm" }]
  let when (b : Bool) (n : Nat) : Option Nat := if b then some n else none
  match sub with
  | "geom" =>
    (ngeom inp).map fun (n, _) =>
      let jd := geomDocN .json n
      let isNull := hookMG n == 0
      [{ label := "mj", m := some (hookMG n) },
       { label := "ug", u := if isNull then some 2 else when (resOk (geomOfDoc .json jd)) (1 + hookUG n) },
       { label := "ugp", u := if isNull then some 0 else when (resOk (geomPtrOfDoc jd)) (hookUG n) },
       { label := "rm", m := when rmSame (hookMG n) }] ++ bsonSteps
  | "typed" =>
    (ngeom inp).map fun (n, _) =>
      let jd := geomDocN .json n
      let ok := (match kindOfNG n with | some k => resOk (typedOfDoc .json k jd) | none => false)
      [{ label := "mj", m := some 2 }, { label := "uj", u := when ok 3 }] ++ bsonSteps
  | "feat" =>
    match featureN inp with
    | some (some (f, n), _) =>
      let jd := featureDocN .json f n
      let mj := 1 + hookMG n
      some ([{ label := "mj", m := some mj },
       { label := "uf", u := when (resOk (featureOfDoc .json false jd)) (1 + hookUG n) },
       { label := "ufp", u := when (resOk (featurePtrOfDoc jd)) (1 + hookUG n) },
       { label := "rm", m := when rmSame mj }] ++ bsonSteps)
    | _ => none
  | "fc" =>
    (fcN inp).map fun ((x, ns), _) =>
      let jd := fcDocN .json x ns
      let top := (match jd with | .obj ms => ms.length | _ => 0)
      let mj := 1 + ns.foldl (fun acc n => acc + 1 + hookMG n) 0
      let uf := 1 + top + ns.foldl (fun acc n => acc + 1 + hookUG n) 0
      [{ label := "mj", m := some mj },
       { label := "uf", u := when (resOk (fcOfDoc .json false jd)) uf },
       { label := "ufp", u := when (resOk (fcPtrOfDoc jd)) uf },
       { label := "rm", m := when rmSame mj }] ++ bsonSteps
  | _ => some []

/-- one combination of installed hooks, as reported: `M|U|MU (same | outcome…) (## label m u)* ## total m u` -/
structure Combo where
  name : String
  outcome : Option Toks      -- none: byte-identical to the outcome without hooks
  steps : List (String × Nat × Nat)
  total : Nat × Nat

def parseCombo (ts : Toks) : Option Combo :=
  match splitTok "##" ts with
  | (name :: o) :: rest =>
    let steps := rest.filterMap fun c =>
      match c with
      | [l, m, u] => (match m.toNat?, u.toNat? with | some a, some b => some (l, a, b) | _, _ => none)
      | _ => none
    if steps.length != rest.length then none else
    match steps.reverse with
    | ("total", tm, tu) :: more => some ⟨name, if o == ["same"] then none else some o, more.reverse, (tm, tu)⟩
    | _ => none
  | _ => none

/-- `hook <sub-op> <input> => <outcome> || M … || U … || MU …`.
    THE CLAUSE ("the documented JSON hooks are transparent"): with a pass-through
    `CustomJSONMarshaler` and / or `CustomJSONUnmarshaler` installed the case has the outcome it has
    without them (byte for byte; where Go map order shows — feat / fc / seq — the same verdict of the
    sub-op's own handler), the side that is not installed is never called, the BSON steps call neither,
    and each JSON step calls the installed hook exactly as often as the dispatch of geojson/json.go
    prescribes for the value (a site that forgets the hook, tests the wrong variable or calls it twice
    shows here).  Values in a known-finding class of the sub-op are judged for the hooks only. -/
def handleHook (inp out : Toks) : String :=
  match inp with
  | sub :: rest =>
    (match subHandler sub, splitTok "||" out with
     | some h, [base, c1, c2, c3] =>
       let baseV := h rest base
       let baseOk := baseV.startsWith "ok" || knownLabels.contains baseV
       if !baseOk then baseV else
       (match [c1, c2, c3].mapM parseCombo with
        | none => "bad hook combos"
        | some combos =>
          if combos.map (·.name) != ["M", "U", "MU"] then "bad hook combo names" else
          let strict := sub == "geom" || sub == "typed" || sub == "hand"
          let rmSame := (match splitSemi base with | _ :: _ :: _ :: r :: _ => r == ["same"] | _ => false)
          let exps := (stepExps sub rest rmSame).getD []
          let judge (c : Combo) : Option String :=
            let hasM := c.name != "U"
            let hasU := c.name != "M"
            let v := (match c.outcome with | none => baseV | some o => h rest o)
            if v != baseV then some s!"propfail hook-{c.name}-changes-outcome : {v}"
            else if strict && c.outcome.isSome then some s!"propfail hook-{c.name}-changes-outcome-bytes"
            else
              let sums := c.steps.foldl (fun (a : Nat × Nat) s => (a.1 + s.2.1, a.2 + s.2.2)) (0, 0)
              if !c.steps.isEmpty && sums != c.total then some s!"propfail hook-{c.name}-called-outside-a-step total {c.total.1} {c.total.2}"
              else if !hasM && c.total.1 != 0 then some s!"propfail hook-{c.name}-marshaler-called-but-not-installed"
              else if !hasU && c.total.2 != 0 then some s!"propfail hook-{c.name}-unmarshaler-called-but-not-installed"
              else
                c.steps.findSome? fun (l, m, u) =>
                  match exps.find? (·.label == l) with
                  | none => none
                  | some e =>
                    let wm := if hasM then e.m else some 0
                    let wu := if hasU then e.u else some 0
                    if wm.isSome && wm != some m then some s!"propfail hook-{c.name}-marshaler-calls step {l}: {m}, dispatch prescribes {wm.getD 0}"
                    else if wu.isSome && wu != some u then some s!"propfail hook-{c.name}-unmarshaler-calls step {l}: {u}, dispatch prescribes {wu.getD 0}"
                    else none
          (match combos.findSome? judge with
           | some f => f
           | none =>
             let cls := if baseV.startsWith "ok triv" then "triv-" else ""
             s!"ok {cls}hook {sub}" ++ (if knownLabels.contains baseV then " known-class" else "")))
     | none, _ => "bad hook sub-op"
     | _, _ => "bad hook output")
  | [] => "bad hook input"

/-- a value of one of the five marshalled kinds, with the model's documents -/
structure Item where
  kind : String
  jd : Json
  bd : Json
  md : Json            -- as a BSON member (struct field): `MarshalBSONValue` for a `*Geometry`
  modOrder : Bool      -- the documents hold Go maps: BSON member order is not fixed

def bsonMemberOf (m top : Json) : Json :=
  match m with
  | .null => .null
  | _ => top

def item : P Item := fun ts =>
  match ts with
  | "G" :: ts => (ngeom ts).map fun (n, ts) =>
      (⟨"G", geomDocN .json n, geomDocN .bson n, bsonMemberOf (geomMemberN .bson n) (geomDocN .bson n), false⟩, ts)
  | "T" :: ts =>
    (match ngeom ts with
     | some (n, ts) =>
       if (kindOfNG n).isSome then some (⟨"T", geomDocN .json n, geomDocN .bson n, geomDocN .bson n, false⟩, ts) else none
     | none => none)
  | "F" :: _ =>
    (match featureN ts with
     | some (some (f, n), ts) => some (⟨"F", featureDocN .json f n, featureDocN .bson f n, featureDocN .bson f n, true⟩, ts)
     | _ => none)
  | "FC" :: _ => (fcN ts).map fun ((x, ns), ts) => (⟨"C", fcDocN .json x ns, fcDocN .bson x ns, fcDocN .bson x ns, true⟩, ts)
  | "H" :: _ =>
    (match hand ts with
     | some (.nilPtr, _) => none
     | some (h, ts) => some (⟨"H", hgTopJson h, hgTopBson h, hgMember .bson h, false⟩, ts)
     | none => none)
  | _ => none

partial def items : Toks → Option (List Item)
  | [] => some []
  | ts =>
    match item ts with
    | some (i, rest) => (items rest).map (i :: ·)
    | none => none

def treeMatches (it : Item) (bson : Bool) (ts : Toks) (want : Json) : Bool :=
  if bson && it.modOrder then treeIs ts (sameModOrder · want) else treeIs ts (· == want)

def quads : Toks → Option (List (String × String × String × String))
  | [] => some []
  | a :: b :: c :: d :: rest => (quads rest).map ((a, b, c, d) :: ·)
  | _ => none

def pairs : Toks → Option (List (String × String))
  | [] => some []
  | a :: b :: rest => (pairs rest).map ((a, b) :: ·)
  | _ => none

/-- `own item+ => (J ; B ; (entry t kept again)* ; in (decoder flag)*) || …`.
    THE CLAUSES ("a returned buffer belongs to the caller"): every marshal entry point of a value
    (the methods called directly, json.Marshal, bson.Marshal, by value where the receiver is a value)
    writes the model's document; a result keeps its bytes while later calls run; after the caller has
    overwritten every result up to its capacity, every entry point returns what it returned the first
    time; a decoded value does not change when the input it was decoded from is overwritten. -/
def handleOwn (inp out : Toks) : String :=
  match items inp with
  | none => "bad input"
  | some its =>
    let outs := splitTok "||" out
    if outs.length != its.length || its.isEmpty then "bad output" else
    let judged := (its.zip outs).zipIdx.map fun ((it, o), i) =>
      match splitSemi o with
      | [jt, bt, fl, "in" :: ins] =>
        (match quads fl, pairs ins with
         | some qs, some ps =>
           let agree := treeMatches it false jt it.jd && treeMatches it true bt it.bd
           let memberNull := (match it.md with | .null => true | _ => false)
           let bad := qs.findSome? fun ((name, t, k, a) : String × String × String × String) =>
             let wantT := if (name == "bV" || name == "bw") && memberNull then "n" else "="
             if t == "p" then some s!"propfail own-panic {name} value {i + 1}"
             else if a != "1" then some s!"propfail returned-buffer-not-owned {name} value {i + 1}: overwriting a result changes a later result"
             else if k != "1" then some s!"propfail returned-buffer-reused {name} value {i + 1}: a later call wrote into an earlier result"
             else if t != wantT then some s!"propfail entry-points-disagree {name} {t} value {i + 1}"
             else none
           let badIn := ps.findSome? fun ((name, f) : String × String) =>
             if f == "1" || f == "-" then none
             else if f == "panic" then some s!"propfail own-panic decoder {name} value {i + 1}"
             else some s!"propfail decoded-value-aliases-input {name} value {i + 1}"
           (agree, bad.orElse fun _ => badIn, s!"{showJson it.jd} ; {showJson it.bd}")
         | _, _ => (false, some "bad own flags", ""))
      | _ => (false, some "bad own output", "")
    match judged.findSome? (·.2.1) with
    | some f => f
    | none =>
      if judged.all (·.1) then s!"ok own {its.length}" ++ (if its.any (fun i => i.kind == "G" || i.kind == "H") then " geometry" else "")
      else "diff " ++ " || ".intercalate (judged.map (·.2.2))

/-- the forms in which a `geojson.Geometry` VALUE is not addressable: its methods have pointer
    receivers, both serialisers fall back to the raw struct (not a marshalled kind of the property:
    the library hands out and holds `*Geometry` only) -/
def geometryValueForms : List String := ["v", "tv", "mv", "iv", "av"]

/-- `val item => J ; B ; BM ; (name flag)* [; D name tree]`.
    THE CLAUSE: a Feature, a FeatureCollection, a typed helper value — by pointer or BY VALUE, top
    level, as a struct field, slice / array element, map value, inside an interface — and a
    `*Geometry` in every such position is written as the same document, which is the model's. -/
def handleVal (inp out : Toks) : String :=
  match item inp with
  | some (it, []) =>
    (match splitSemi out with
     | jt :: bt :: mt :: fl :: more =>
       (match pairs fl with
        | none => "bad val flags"
        | some ps =>
          let agree := treeMatches it false jt it.jd && treeMatches it true bt it.bd && treeMatches it true mt it.md
          let isG := it.kind == "G" || it.kind == "H"
          let formOf (name : String) : String := String.ofList (name.toList.drop 1)
          let bad := ps.findSome? fun ((name, f) : String × String) =>
            if f == "=" then none
            else if isG && geometryValueForms.contains (formOf name) then none
            else
              let d := (match more with | ("D" :: n :: tr) :: _ => if n == name then " : " ++ unw tr else "" | _ => "")
              some s!"propfail value-marshal-differs {it.kind} {name} {f}{d}"
          let raw := ps.any fun (q : String × String) => q.2 != "="
          match bad with
          | some f => f
          | none =>
            if !agree then s!"diff {showJson it.jd} ; {showJson it.bd} ; {showJson it.md}"
            else if raw then s!"ok triv-val {it.kind} geometry-by-value-raw-struct"
            else s!"ok val {it.kind}")
     | _ => "bad output")
  | _ => "bad input"

def handle (ts : List String) : String :=
  match ts with
  | op :: rest =>
    let (inp, out) := splitArrow rest
    match op with
    | "geom" => handleGeom inp out
    | "typed" => handleTyped inp out
    | "feat" => handleFeat inp out
    | "fc" => handleFC inp out
    | "bbox" => handleBBox inp out
    | "hostile" => handleHostile inp out
    | "hand" => handleHand inp out
    | "seq" => handleSeq inp out
    | "hook" => handleHook inp out
    | "own" => handleOwn inp out
    | "val" => handleVal inp out
    | _ => "bad op"
  | [] => "bad empty"

end Driver.C02
