import Orb.Proto
import Orb.GeoJSON

/-!
  Driver for C02 (GeoJSON via JSON and BSON) and the GeoJSON share of C05 (`handleHostile`).

  Tree tokens:  n | t | f | B | d <16hex> | i <decimal> | s x<hex> | a <n> tree* | o <n> (x<hex> tree)*
                (B: a bson boolean with a payload byte other than 0 / 1 — `Json.bad`)
  Feature:      F <id: - | tree> <bbox: - | b n hex*> <gval> <props: - | o …>   (N = nil pointer)
  FC:           FC <bbox> <features: - | l n feature*> <extra: - | o …>
-/
namespace Driver.C02
open Orb Orb.Proto Orb.GeoJSON

/-! ### token parsing / printing (glue) -/

def hexVal (c : Char) : Option Nat := hexDigit? c

def bytesOfHexChars : List Char → Option (List UInt8)
  | [] => some []
  | [_] => none
  | a :: b :: rest => do
    let x ← hexVal a
    let y ← hexVal b
    let r ← bytesOfHexChars rest
    pure (UInt8.ofNat (x * 16 + y) :: r)

/-- token `x<hex of utf-8 bytes>` -/
def xstr? (t : String) : Option String :=
  match t.toList with
  | 'x' :: rest => do
    let bs ← bytesOfHexChars rest
    String.fromUTF8? (ByteArray.mk bs.toArray)
  | _ => none

def xstr : P String := fun ts =>
  match ts with
  | [] => none
  | t :: ts => (xstr? t).map (·, ts)

def hexByte (b : UInt8) : String := natToHex b.toNat 2

def showX (s : String) : String :=
  s.toUTF8.data.foldl (fun acc b => acc ++ hexByte b) "x"

partial def json : P Json := fun ts =>
  match ts with
  | "n" :: ts => some (.null, ts)
  | "t" :: ts => some (.bool true, ts)
  | "f" :: ts => some (.bool false, ts)
  | "B" :: ts => some (.bad, ts)
  | "d" :: ts => (bits ts).map fun (b, ts) => (.num b, ts)
  | "i" :: ts => (int ts).map fun (n, ts) => (.num (Float.ofInt n).toBits, ts)
  | "s" :: ts => (xstr ts).map fun (s, ts) => (.str s, ts)
  | "a" :: ts => do
    let (n, ts) ← nat ts
    let rec go : Nat → Toks → Option (List Json × Toks)
      | 0, ts => some ([], ts)
      | n+1, ts => do
        let (j, ts) ← json ts
        let (js, ts) ← go n ts
        pure (j :: js, ts)
    let (l, ts) ← go n ts
    pure (.arr l, ts)
  | "o" :: ts => do
    let (n, ts) ← nat ts
    let rec goM : Nat → Toks → Option (Members × Toks)
      | 0, ts => some ([], ts)
      | n+1, ts => do
        let (k, ts) ← xstr ts
        let (j, ts) ← json ts
        let (js, ts) ← goM n ts
        pure ((k, j) :: js, ts)
    let (l, ts) ← goM n ts
    pure (.obj l, ts)
  | _ => none

partial def showJson : Json → String
  | .null => "n"
  | .bool true => "t"
  | .bool false => "f"
  | .bad => "B"
  | .num b => "d " ++ showBits b
  | .str s => "s " ++ showX s
  | .arr l => l.foldl (fun acc j => acc ++ " " ++ showJson j) ("a " ++ toString l.length)
  | .obj ms => ms.foldl (fun acc (k, v) => acc ++ " " ++ showX k ++ " " ++ showJson v) ("o " ++ toString ms.length)

def bbox : P (Option (List UInt64)) := fun ts =>
  match ts with
  | "-" :: ts => some (none, ts)
  | "b" :: ts => (counted bits ts).map fun (l, ts) => (some l, ts)
  | _ => none

def showBBox : Option (List UInt64) → String
  | none => "-"
  | some l => l.foldl (fun acc b => acc ++ " " ++ showBits b) ("b " ++ toString l.length)

def members : P (Option Members) := fun ts =>
  match ts with
  | "-" :: ts => some (none, ts)
  | ts =>
    match json ts with
    | some (.obj ms, ts) => some (some ms, ts)
    | _ => none

def showMembers : Option Members → String
  | none => "-"
  | some ms => showJson (.obj ms)

def feature : P (Option Feature) := fun ts =>
  match ts with
  | "N" :: ts => some (none, ts)
  | "F" :: ts => do
    let (id, ts) ← (match ts with
      | "-" :: ts => some (none, ts)
      | ts => (json ts).map fun (j, ts) => (some j, ts))
    let (bb, ts) ← bbox ts
    let (g, ts) ← gval ts
    let (ps, ts) ← members ts
    pure (some { id := id, bbox := bb, geom := g, props := ps }, ts)
  | _ => none

def showFeature : Option Feature → String
  | none => "N"
  | some f =>
    "F " ++ (match f.id with | none => "-" | some j => showJson j) ++ " " ++ showBBox f.bbox ++ " " ++
      showGVal f.geom ++ " " ++ showMembers f.props

def fc : P FC := fun ts =>
  match ts with
  | "FC" :: ts => do
    let (bb, ts) ← bbox ts
    let (fs, ts) ← (match ts with
      | "-" :: ts => some (none, ts)
      | "l" :: ts => (counted feature ts).map fun (l, ts) => (some l, ts)
      | _ => none)
    let (ex, ts) ← members ts
    pure ({ bbox := bb, features := fs, extra := ex }, ts)
  | _ => none

def showFC (x : FC) : String :=
  "FC " ++ showBBox x.bbox ++ " " ++
    (match x.features with
     | none => "-"
     | some l => l.foldl (fun acc f => acc ++ " " ++ showFeature f) ("l " ++ toString l.length)) ++ " " ++
    showMembers x.extra

def errClass : Err → String
  | .json => "json" | .invalid => "invalid" | .notType => "nottype"

def showRes {α : Type} (sh : α → String) : R α → String
  | .ok a => "ok " ++ sh a
  | .err e => "err " ++ errClass e
  | .panic _ => "panic"

/-- split a token list at `;` tokens -/
def splitSemi (ts : Toks) : List Toks :=
  let rec go (ts : Toks) (cur : Toks) (acc : List Toks) : List Toks :=
    match ts with
    | [] => (cur.reverse :: acc).reverse
    | ";" :: rest => go rest [] (cur.reverse :: acc)
    | t :: rest => go rest (t :: cur) acc
  go ts [] []

def unw (ts : Toks) : String := " ".intercalate ts

/-- the whole token list is one tree -/
def wholeJson (ts : Toks) : Option Json :=
  match json ts with
  | some (j, []) => some j
  | _ => none

/-! ### predicates used to name the clause a failure belongs to -/

mutual
partial def hasNestedEmpty : G → Bool
  | .collection gs => gs.any fun g => isEmptyColl g || hasNestedEmpty g
  | _ => false
end

/-- some multi-geometry (at any depth) has length 0: bson `omitempty` drops its coordinates -/
partial def hasEmptyMulti : G → Bool
  | .multiPoint [] | .lineString [] | .multiLineString [] | .polygon [] | .multiPolygon [] => true
  | .collection gs => gs.any hasEmptyMulti
  | _ => false

def vNestedEmpty : V → Bool
  | .val g => hasNestedEmpty g
  | _ => false

def vEmptyMulti : V → Bool
  | .val g => hasEmptyMulti g
  | .nilSlice k => k != .ring && k != .collection
  | _ => false

def vIsNullGeom (v : V) : Bool :=
  match canonV v with
  | .nilIface => true
  | _ => false

def vIsTopNil : V → Bool
  | .val _ => false
  | _ => true

/-- documents compared modulo member order (bson writes Go maps in iteration order) -/
def sameModOrder (a b : Json) : Bool := valOf a == valOf b

structure Sides where
  jdoc : Toks
  dec1 : Toks      -- UnmarshalX
  dec2 : Toks      -- json.Unmarshal into a pointer
  rm : Toks
  bdoc : Toks
  bdec : Toks
  brm : Toks

def sides (out : Toks) : Option Sides :=
  match splitSemi out with
  | [a, b, c, d, e, f, g] => some ⟨a, b, c, d, e, f, g⟩
  | _ => none

/-! ### geom -/

/-- `geom <gval> => J ; UnmarshalGeometry ; json.Unmarshal(&ptr) ; remarshal ; B ; bson.Unmarshal ; remarshal` -/
def handleGeom (inp out : Toks) : String :=
  match gval inp, sides out with
  | some (v, _), some s =>
    let jd := geomDoc .json v
    let bd := geomDoc .bson v
    let m1 := showRes showGVal (geomOfDoc .json jd)
    let m2 := showRes showGVal (geomPtrOfDoc jd)
    let mb := showRes showGVal (geomOfDoc .bson bd)
    -- correspondence: documents and every decode outcome
    let docOk := (match wholeJson s.jdoc with | some j => j == jd | none => false)
    let bdocOk := (match wholeJson s.bdoc with | some j => j == bd | none => false)
    let agree := docOk && bdocOk && unw s.dec1 == m1 && unw s.dec2 == m2 && unw s.bdec == mb
    let fin (r : String) : String :=
      if r.startsWith "propfail" || agree then r
      else s!"diff doc={docOk} bdoc={bdocOk} ; {showJson jd} ; {m1} ; {m2} ; {showJson bd} ; {mb}"
    fin <|
    -- the property, on the implementation's outcome
    let want := "ok " ++ showGVal (canonV v)
    let anyPanic := out.any (· == "panic")
    if anyPanic then
      (if vNestedEmpty v then "propfail nested-empty-collection-panics" else "propfail panic")
    else if vIsTopNil v && !(match v with | .nilSlice .collection => true | _ => false) then
      -- nil interface / typed nil slices: not geometries of the quantifier; correspondence only
      "ok triv-topnil"
    else if s.jdoc == ["merr"] || s.bdoc == ["merr"] then "propfail marshal-error"
    else if vNestedEmpty v && unw s.dec2 != want then "propfail nested-empty-collection-rejected"
    else if unw s.dec2 != want then "propfail json-roundtrip-pointer"
    else if vIsNullGeom v then
      -- empty collection: `null`; UnmarshalGeometry rejects what NewGeometry(...).MarshalJSON wrote
      (if unw s.dec1 != want then "propfail empty-collection-unmarshalgeometry-rejects-null" else "ok empty-coll")
    else if unw s.dec1 != want then "propfail json-roundtrip"
    else if s.rm != ["same"] then "propfail json-remarshal"
    else if !(match wholeJson s.jdoc with | some j => wellformed j | none => false) then "propfail json-wellformed"
    else if unw s.bdec != want then
      (if vEmptyMulti v then "propfail bson-empty-coordinates-dropped" else "propfail bson-roundtrip")
    else if s.brm != ["same"] then "propfail bson-remarshal"
    else if !(match wholeJson s.bdoc with | some j => wellformed j | none => false) then "propfail bson-wellformed"
    else
      match v with
      | .val (.collection _) => "ok coll"
      | .val (.ring _) | .val (.bound _ _) => "ok to-polygon"
      | _ => "ok geom"
  | none, _ => "bad input"
  | _, none => "bad output"

/-! ### typed helper types -/

/-- `typed <gval> => J ; decode ; B ; decode` (geojson.Point … geojson.MultiPolygon) -/
def handleTyped (inp out : Toks) : String :=
  match gval inp with
  | none => "bad input"
  | some (v, _) =>
    if out == ["na"] then "ok triv-na" else
    match splitSemi out with
    | [jdoc, jdec, bdoc, bdec] =>
      -- the helper types marshal `&Geometry{Coordinates: x}`: same documents as NewGeometry
      let jd := geomDoc .json v
      let bd := geomDoc .bson v
      let m1 := showRes showGVal (geomOfDoc .json jd)
      let mb := showRes showGVal (geomOfDoc .bson bd)
      let docOk := (match wholeJson jdoc with | some j => j == jd | none => false)
      let bdocOk := (match wholeJson bdoc with | some j => j == bd | none => false)
      let agree := docOk && bdocOk && unw jdec == m1 && unw bdec == mb
      let fin (r : String) : String :=
        if r.startsWith "propfail" || agree then r
        else s!"diff doc={docOk} bdoc={bdocOk} ; {showJson jd} ; {m1} ; {showJson bd} ; {mb}"
      fin <|
      if out.any (· == "panic") then "propfail typed-panic"
      else if vIsTopNil v then "ok triv-topnil"
      else
        let want := "ok " ++ showGVal (canonV v)
        if unw jdec != want then "propfail typed-json-roundtrip"
        else if unw bdec != want then
          (if vEmptyMulti v then "propfail bson-empty-coordinates-dropped" else "propfail typed-bson-roundtrip")
        else "ok typed"
    | _ => "bad output"

/-! ### feature -/

def fNestedEmpty (f : Feature) : Bool := vNestedEmpty f.geom
def fEmptyMulti (f : Feature) : Bool := vEmptyMulti f.geom

def showOptFeature (r : R (Option Feature)) : String := showRes showFeature r

def handleFeat (inp out : Toks) : String :=
  match feature inp, sides out with
  | some (some f, _), some s =>
    let jd := featureDoc .json f
    let bd := featureDoc .bson f
    let m1 := showRes (fun x => showFeature (some x)) (featureOfDoc .json false jd)
    let m2 := showRes showFeature (featurePtrOfDoc jd)
    let mb := showRes (fun x => showFeature (some x)) (featureOfDoc .bson false bd)
    let docOk := (match wholeJson s.jdoc with | some j => j == jd | none => false)
    let bdocOk := (match wholeJson s.bdoc with | some j => sameModOrder j bd | none => false)
    let agree := docOk && bdocOk && unw s.dec1 == m1 && unw s.dec2 == m2 && unw s.bdec == mb
    let fin (r : String) : String :=
      if r.startsWith "propfail" || agree then r
      else s!"diff doc={docOk} bdoc={bdocOk} ; {showJson jd} ; {m1} ; {m2} ; {showJson bd} ; {mb}"
    fin <|
    let want := "ok " ++ showFeature (some (canonF f))
    if out.any (· == "panic") then
      (if fNestedEmpty f then "propfail nested-empty-collection-panics" else "propfail panic")
    else if s.jdoc == ["merr"] || s.bdoc == ["merr"] then "propfail marshal-error"
    else if fNestedEmpty f && unw s.dec1 != want then "propfail nested-empty-collection-rejected"
    else if unw s.dec1 != want then "propfail feature-json-roundtrip"
    else if unw s.dec2 != want then "propfail feature-json-roundtrip-pointer"
    else if s.rm != ["same"] then "propfail feature-json-remarshal"
    else if unw s.bdec != want then
      (if fEmptyMulti f then "propfail bson-empty-coordinates-dropped" else "propfail feature-bson-roundtrip")
    else if s.brm != ["same"] then "propfail feature-bson-remarshal"
    else
      match f.props, f.id with
      | some (_ :: _), some _ => "ok feat id props"
      | some (_ :: _), none => "ok feat props"
      | _, some _ => "ok feat id"
      | _, none => (if vIsNullGeom f.geom then "ok triv-feat-bare" else "ok feat")
  | some (none, _), _ => "bad nil-feature"
  | none, _ => "bad input"
  | _, none => "bad output"

/-! ### feature collection -/

def fcFeatures (x : FC) : List Feature := (x.features.getD []).filterMap id

def handleFC (inp out : Toks) : String :=
  match fc inp, sides out with
  | some (x, _), some s =>
    let jd := fcDoc .json x
    let bd := fcDoc .bson x
    let m1 := showRes showFC (fcOfDoc .json false jd)
    let m2 := showRes (fun o => match o with | some y => showFC y | none => "N") (fcPtrOfDoc jd)
    let mb := showRes showFC (fcOfDoc .bson false bd)
    let docOk := (match wholeJson s.jdoc with | some j => j == jd | none => false)
    let bdocOk := (match wholeJson s.bdoc with | some j => sameModOrder j bd | none => false)
    let agree := docOk && bdocOk && unw s.dec1 == m1 && unw s.dec2 == m2 && unw s.bdec == mb
    let fin (r : String) : String :=
      if r.startsWith "propfail" || agree then r
      else s!"diff doc={docOk} bdoc={bdocOk} ; {showJson jd} ; {m1} ; {m2} ; {showJson bd} ; {mb}"
    fin <|
    let want := "ok " ++ showFC (canonFC x)
    if out.any (· == "panic") then
      (if (fcFeatures x).any fNestedEmpty then "propfail nested-empty-collection-panics" else "propfail panic")
    else if s.jdoc == ["merr"] || s.bdoc == ["merr"] then "propfail marshal-error"
    else if (fcFeatures x).any fNestedEmpty && unw s.dec1 != want then "propfail nested-empty-collection-rejected"
    else if unw s.dec1 != want then "propfail fc-json-roundtrip"
    else if unw s.dec2 != want then "propfail fc-json-roundtrip-pointer"
    else if s.rm != ["same"] then "propfail fc-json-remarshal"
    else if unw s.bdec != want then
      (if (fcFeatures x).any fEmptyMulti then "propfail bson-empty-coordinates-dropped" else "propfail fc-bson-roundtrip")
    else if s.brm != ["same"] then "propfail fc-bson-remarshal"
    else
      match x.extra, fcFeatures x with
      | some (_ :: _), _ :: _ => "ok fc extra"
      | _, _ :: _ => "ok fc"
      | some (_ :: _), [] => "ok fc-empty extra"
      | _, [] => "ok triv-fc-empty"
  | none, _ => "bad input"
  | _, none => "bad output"

/-! ### C05: hostile documents -/

/-- some object has two members selecting the same struct field among "geometries", "geometry",
    "properties": the struct decoders then decode INTO the partly filled value of the first
    occurrence (pointer / slice element / map reuse), which the model does not follow.  Repeated
    "type", "coordinates", "id", "bbox" members are modelled (each occurrence is an assignment). -/
partial def hasDupKeys (c : Codec) : Json → Bool
  | .arr l => l.any (hasDupKeys c)
  | .obj ms =>
    let ks := (ms.map fun kv => fieldKey c kv.1).filter fun k => k == "geometries" || k == "geometry" || k == "properties"
    let rec dup : List String → Bool
      | [] => false
      | k :: rest => rest.contains k || dup rest
    dup ks || ms.any fun kv => hasDupKeys c kv.2
  | _ => false

def classOf {α : Type} (isNil : α → Bool) : R α → String
  | .ok a => if isNil a then "nil" else "ok"
  | .err e => "err:" ++ errClass e
  | .panic _ => "panic"

def isNilV : V → Bool
  | .nilIface => true
  | _ => false

/-- allocation allowed for the six (three) decode calls on `len` input bytes (slack recorded in
    props.json: a one-member object costs a Go map, ~300 bytes, in each accepting decoder) -/
def allocBound (len : Nat) : Nat := 1024 * len + 1048576

/-- nesting depth of objects: every nested geometry / feature is a nested Unmarshaler call that
    re-validates (and re-scans) its whole sub-document -/
partial def odepth : Json → Nat
  | .arr l => l.foldl (fun m j => max m (odepth j)) 0
  | .obj ms => 1 + ms.foldl (fun m kv => max m (odepth kv.2)) 0
  | _ => 0

/-- `hostile json|bson <hex> => tree|nojson|exotic ; rawnull b ; ug C ; ugp C ; uf C ; ufp C ; ufc C ; ufcp C ; alloc n len`.
    Model outcome class vs implementation for the documents that parse at all; `propfail` on a
    panic (named after the model's reason when the model predicts it) or on over-allocation. -/
def handleHostile (inp out : List String) : String :=
  match inp, splitSemi out with
  | kind :: _, [tree, ["rawnull", rn], ["ug", ug], ["ugp", ugp], ["uf", uf], ["ufp", ufp], ["ufc", ufc], ["ufcp", ufcp],
      ["alloc", al, ln]] =>
    let impl := [ug, ugp, uf, ufp, ufc, ufcp]
    let c : Codec := if kind == "bson" then .bson else .json
    let rawNull := rn == "1"
    let allocFail : Option String :=
      match al.toNat?, ln.toNat? with
      | some a, some l =>
        if a ≤ allocBound l then none
        else
          -- quadratic in the nesting depth of geometry collections: named apart
          let d := (match wholeJson tree with | some j => odepth j | none => 0)
          if d ≥ 16 ∧ a ≤ allocBound (l * (d + 1)) then some s!"propfail alloc-superlinear-nesting {a} bytes for {l} input bytes at depth {d}"
          else some s!"propfail alloc {a} > bound({l})"
      | _, _ => some "bad alloc"
    let implPanic := impl.any (· == "panic")
    match tree with
    | ["nojson"] | ["exotic"] =>
      -- not a document the model can read: every decoder must return (an error, for text that
      -- encoding/json rejects)
      if implPanic then
        (if c == .bson then "propfail panic-bson-corrupt-document" else "propfail panic-unparsable-input")
      else if let some a := allocFail then a
      else if tree == ["nojson"] && c == .json && impl.any (fun s => !(s.startsWith "err")) then "propfail accepted-invalid-json"
      else (if tree == ["nojson"] then "ok unparsable" else "ok exotic")
    | _ =>
      match wholeJson tree with
      | none => "bad tree"
      | some j =>
        let mg := geomOfDoc c j
        let mf := featureOfDoc c rawNull j
        let mfc := fcOfDoc c rawNull j
        let model : List String :=
          match c with
          | .json =>
            [classOf isNilV mg, classOf isNilV (geomPtrOfDoc j),
             classOf (fun _ => false) mf, classOf (fun o : Option Feature => o.isNone) (featurePtrOfDoc j),
             classOf (fun _ => false) mfc, classOf (fun o : Option FC => o.isNone) (fcPtrOfDoc j)]
          | .bson =>
            [classOf (fun _ => false) mg, "-", classOf (fun _ => false) mf, "-", classOf (fun _ => false) mfc, "-"]
        if implPanic then
          -- name the clause after what the model says panics
          let why :=
            (match mg, mf, mfc with
             | .panic s, _, _ => s
             | _, .panic s, _ => s
             | _, _, .panic s => s
             | _, _, _ =>
               -- Go's random map order reached a panicking member the model's order did not
               (match j with
                | .obj ms => if fcMayPanic c (normKeys ms) then "nil pointer dereference: (*Geometry)" else ""
                | _ => ""))
          if why.startsWith "nil pointer dereference: (*Geometry)" then "propfail panic-null-geometry-member"
          else if why.startsWith "nil pointer dereference: doc.Type" then "propfail panic-feature-null-document"
          else "propfail panic-unmodelled"
        else if let some a := allocFail then a
        else if hasDupKeys c j then "skip duplicate-keys"
        else
          -- FeatureCollection members are visited in Go's random map order: when one member errs
          -- and another panics, either may be reported
          let fcTol (m i : String) : Bool :=
            m == i || (m == "panic" && i.startsWith "err" &&
              (match j with | .obj ms => fcMayErr c (normKeys ms) | _ => false)) ||
              (m.startsWith "err" && i.startsWith "err")
          let okAll :=
            match model, impl with
            | [a, b, c', d, e, f], [a', b', c'', d', e', f'] =>
              a == a' && b == b' && c' == c'' && d == d' && fcTol e e' && fcTol f f'
            | _, _ => false
          if !okAll then "diff " ++ " ".intercalate model
          else
            let tag :=
              if model.any (· == "ok") then "accepted"
              else if model.any (· == "nil") then "null"
              else "rejected"
            s!"ok hostile-{kind} {tag}"
  | _, _ => "bad hostile"

def handle (ts : List String) : String :=
  match ts with
  | op :: rest =>
    let (inp, out) := splitArrow rest
    match op with
    | "geom" => handleGeom inp out
    | "typed" => handleTyped inp out
    | "feat" => handleFeat inp out
    | "fc" => handleFC inp out
    | "hostile" => handleHostile inp out
    | _ => "bad op"
  | [] => "bad empty"

end Driver.C02
