import Orb.Proto
import Driver.C11

/-! Driver for C19: the sequential oracle for concurrent quadtree queries.
    `conc <bound> <nb> build-ops… <M> query-ops… <G> <R> <buf> =>
       res_1 ; … ; res_M ; F <same> <treeSame> <buildSame> <oracleTreeSame> <lateSame> <boundSame>
                             <keptStable> <keptOracle> <listSame> <argsSame>`
    buf          0: every query gets a nil buffer; 1: every goroutine follows `buf = q.Query(buf, …)`
                 (its previous result slice is the buffer of its next query); ≥ 2: mixed, drawn per
                 call from a per-goroutine generator seeded with this number: nil / the goroutine's
                 PREVIOUS result slice resliced to [:0] / a fresh dirty buffer; in round 0 every
                 goroutine issues the whole-bound InBound queries with a nil buffer
    res_i        answer of query i run ALONE on a second tree built by the same history (the tree the
                 goroutines use is not queried before they start)
    same         every concurrent answer (through the *Matching methods and through the Find /
                 KNearest / InBound wrappers) equals res_i
    treeSame     node structure, Bound() and the coordinates of the stored pointers of the shared tree
                 are the same before the goroutines start, after they finish, and after a further
                 sequential pass
    buildSame    the two trees built by the same history are identical (the oracle is an oracle)
    oracleTreeSame  the sequential pass left the oracle tree unchanged
    lateSame     every query run alone on the shared tree AFTER the concurrent phase still answers res_i
    boundSame    Bound() read concurrently always returned the construction bound
    keptStable   per-goroutine result buffers: every goroutine keeps ALL result slices it received
                 (except those it handed back itself as the buffer of a later query); read again
                 after all goroutines have finished, each still reads what it read when returned
    keptOracle   … and equals res_i (implied by same ∧ keptStable; checked on its own)
    listSame     after the concurrent phase the whole-tree listings of the shared tree (InBound over
                 the tree bound and beyond, KNearest with k ≥ number of stored pointers, nil buffers)
                 equal those of the identically built oracle tree
    argsSame     the distance limits of the k-nearest queries live in ONE limits array per case; every
                 goroutine passes the same sub-slice of it with `lim...` (the library receives the
                 caller's own slice); the array — limits and the sentinels around them — and the
                 oracle pass's private copy read after the sequential pass, after the concurrent
                 phase and after the late pass bit for bit what the harness stored.  The limit is
                 a value (Orb.Quadtree.kNearestCall_limits_unchanged); only result buffers are
                 per goroutine, every other argument may be shared read-only
    A data race reported by the race detector kills the harness process; `check` turns that into
    `propfail data-race` (no flag here). -/
namespace Driver.C19
open Orb Orb.Proto Orb.Core Orb.Quadtree Driver.C11

def handleConc (inp out : Toks) : String :=
  match (do
    let (a, i) ← ptF inp
    let (b, i) ← ptF i
    let (nb, i) ← nat i
    let (build, i) ← many opP nb i
    let (m, i) ← nat i
    let (qs, i) ← many opP m i
    let (g, i) ← nat i
    let (r, i) ← nat i
    let (bm, _) ← nat i
    pure ((⟨a, b⟩ : Bound F), build, qs, g, r, bm)) with
  | none => "bad input"
  | some (qb, build, qs, g, _r, bm) =>
    if out == ["panic"] then "propfail panic" else
    let parts := splitSemi out
    if parts.length != qs.length + 1 then "bad output-arity" else
    let results := (parts.take qs.length).map (" ".intercalate ·)
    let flags := parts.getLast!
    -- model: build the tree, then answer every query sequentially (queries do not change the tree)
    let q0 : QT F := build.foldl (fun q op => (stepModel q op).1) ⟨qb, .nil⟩
    let mres := qs.map fun op => (stepModel q0 op).2
    let agree := results == mres
    let fin (s : String) : String :=
      if s.startsWith "propfail" || agree then s
      else s!"diff sequential answers differ from the model: {" ; ".intercalate mres}"
    fin <|
    match flags with
    | ["F", same, treeSame, buildSame, oracleTreeSame, lateSame, boundSame, keptStable, keptOracle, listSame, argsSame] =>
      if buildSame != "1" then "propfail same-history-different-tree" else
      if argsSame != "1" then "propfail argument-mutated limit" else
      if keptStable != "1" then "propfail result-changed-after-return" else
      if same != "1" then "propfail concurrent-answer-differs" else
      if keptOracle != "1" then "propfail kept-result-differs-from-oracle" else
      if treeSame != "1" then "propfail tree-changed" else
      if oracleTreeSame != "1" then "propfail tree-changed-by-sequential-query" else
      if boundSame != "1" then "propfail bound-changed" else
      if listSame != "1" then "propfail listing-differs-after" else
      if lateSame != "1" then "propfail answer-differs-after-concurrent-phase" else
      let limited := qs.any fun | .knear _ _ _ _ (some _) => true | _ => false
      let bufTag := (if bm == 0 then "buf-nil" else if bm == 1 then "buf-reused" else "buf-mixed") ++
        (if limited then " shared-limits" else "")
      if g ≥ 2 then (if build.any (fun | .remId _ _ | .remPt _ => true | _ => false) then s!"ok conc-after-removals {bufTag}" else s!"ok conc {bufTag}") else "ok triv-single"
    | _ => "bad flags"

def handle (ts : Toks) : String :=
  match ts with
  | op :: rest =>
    let (inp, out) := splitArrow rest
    match op with
    | "conc" => handleConc inp out
    | _ => "bad op " ++ op
  | [] => "bad empty"

end Driver.C19
