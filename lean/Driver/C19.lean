import Orb.Proto
import Driver.C11

/-! Driver for C19: the sequential oracle for concurrent quadtree queries.
    `conc <bound> <nb> build-ops… <M> query-ops… <G> <R> <buf> => res_1 ; … ; res_M ; F <same> <treeSame> <races>` -/
namespace Driver.C19
open Orb Orb.Proto Orb.Core Orb.Quadtree Driver.C11

def handleConc (inp out : Toks) : String :=
  match (do
    let (a, i) ← ptF inp
    let (b, i) ← ptF i
    let (nb, i) ← nat i
    let (build, i) ← many opP nb i
    let (m, i) ← nat i
    let (qs, i) ← many opP m i
    let (g, i) ← nat i
    let (r, _) ← nat i
    pure ((⟨a, b⟩ : Bound F), build, qs, g, r)) with
  | none => "bad input"
  | some (qb, build, qs, g, _r) =>
    if out == ["panic"] then "propfail panic" else
    let parts := splitSemi out
    if parts.length != qs.length + 1 then "bad output-arity" else
    let results := (parts.take qs.length).map (" ".intercalate ·)
    let flags := parts.getLast!
    -- model: build the tree, then answer every query sequentially (queries do not change the tree)
    let q0 : QT F := build.foldl (fun q op => (stepModel q op).1) ⟨qb, .nil⟩
    let mres := qs.map fun op => (stepModel q0 op).2
    let agree := results == mres
    let fin (s : String) : String :=
      if s.startsWith "propfail" || agree then s
      else s!"diff sequential answers differ from the model: {" ; ".intercalate mres}"
    fin <|
    match flags with
    | ["F", same, treeSame, races] =>
      if races != "0" then "propfail data-race" else
      if same != "1" then "propfail concurrent-answer-differs" else
      if treeSame != "1" then "propfail tree-changed" else
      if g ≥ 2 then (if build.any (fun | .remId _ _ | .remPt _ => true | _ => false) then "ok conc-after-removals" else "ok conc") else "ok triv-single"
    | _ => "bad flags"

def handle (ts : Toks) : String :=
  match ts with
  | op :: rest =>
    let (inp, out) := splitArrow rest
    match op with
    | "conc" => handleConc inp out
    | _ => "bad op " ++ op
  | [] => "bad empty"

end Driver.C19
