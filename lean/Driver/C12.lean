import Orb.Proto
import Orb.Simplify
import Orb.SimplifyExt
import Orb.SimplifyFast

/-! Driver for C12 (simplifiers: Douglas-Peucker, Radial, Visvalingam, helpers.go wrappers).

    `line <kind> <t1> <k1> <t2> <k2> <L|R> <n pts> => A | B | C`
    `long …` / `deep …` same format (12 … a few thousand vertices): Float twin + structural clauses +
        the quantitative clause in float64 (the very comparisons the algorithm makes) and, within a work
        budget, in exact rationals; vertex lists above `bigN` vertices are judged this way under every op
    `seq <kind> <t> <k> <m> (<L|R> <n pts>)*m => r1 | … | rm`   (ONE simplifier value, m calls)
    `geom <kind> <t> <k> <gval> => <Simplify(g)> | <typed method(g) or none> | <Simplify(result) again>`
    `alias …` same format as geom (vertex lists laid out in one backing array; `clobber` = guard written)
    `mvt <kind> <t> <k> <nl> (<nf> <gval>*nf)*nl => <nl> (<kept> (<index> <geometry>)*kept)*nl`

    For each line: (1) the Float twin of the model is compared bit-for-bit with the implementation's
    three results; (2) the executable statement of the property is evaluated on the implementation's
    results, in exact `Rat` arithmetic for the quantitative clauses (every finite float64 is a rational);
    a quantitative clause that fails exactly but holds in float64 arithmetic is `skip rounding-sensitive`. -/
namespace Driver.C12
open Orb Orb.Proto Orb.Simplify

abbrev BPt := Pt UInt64

def ptF (p : BPt) : Pt Float := ⟨Float.ofBits p.x, Float.ofBits p.y⟩
def ptB (p : Pt Float) : BPt := ⟨p.x.toBits, p.y.toBits⟩
def ptQ? (p : BPt) : Option (Pt Rat) := do
  let x ← bitsToRat? p.x
  let y ← bitsToRat? p.y
  pure ⟨x, y⟩
def ptsQ? (ps : List BPt) : Option (List (Pt Rat)) := ps.mapM ptQ?

/-- bitwise equality of points (results are copies of input vertices) -/
def bEq (p q : BPt) : Bool := p.x == q.x && p.y == q.y
def bsEq (a b : List BPt) : Bool := a.length == b.length && (a.zip b).all fun (p, q) => bEq p q
/-- Go's `==` on `orb.Point` -/
def fEq (p q : BPt) : Bool := Float.ofBits p.x == Float.ofBits q.x && Float.ofBits p.y == Float.ofBits q.y

/-- `out` is a subsequence of `inp` (greedy leftmost matching is complete for subsequences) -/
def isSub : List BPt → List BPt → Bool
  | [], _ => true
  | _ :: _, [] => false
  | o :: os, i :: is => if bEq o i then isSub os is else isSub (o :: os) is

structure Spec where
  kind : String
  t : UInt64
  k : Nat
deriving Inhabited

def specP : P Spec := fun ts => do
  let (kind, ts) ← tok ts
  let (t, ts) ← bits ts
  let (k, ts) ← nat ts
  pure (⟨kind, t, k⟩, ts)

def maxFloatBits : UInt64 := 0x7fefffffffffffff

def distF (p q : Pt Float) : Float := Float.sqrt (distSq p q)

def infF : Float := 1.0 / 0.0
def nanF : Float := 0.0 / 0.0

/-- `math.Max` on float64 (the sign of a zero result aside: areas are only compared) -/
def goMaxF : Option Float → Option Float → Option Float
  | some x, some y =>
    -- math.Max: `+Inf` if either is `+Inf` (even against NaN), else NaN if either is NaN
    some (if x == infF || y == infF then infF else if x.isNaN || y.isNaN then nanF else if x < y then y else x)
  | _, _ => none

/-- the float64 twin.  Visvalingam: `visSP (some +Inf) goMaxF` (Orb/SimplifyExt.lean) — float64 arithmetic
    throughout: the end items carry `+Inf` as in Go, so an area that overflows ties with them exactly as
    it does in Go; identical to `visS` whenever every area is finite. -/
def simpF (s : Spec) : Simplifier Float :=
  let t := Float.ofBits s.t
  match s.kind with
  | "dp" => dpS t
  | "rs" => radialS distSq t
  | "rd" => radialS distF t
  | _ => visSP (some infF) goMaxF (some t) s.k

/-- the exact instance; `rd` (distance with a square root) is run on squared distances -/
def simpQ (s : Spec) : Option (Simplifier Rat) :=
  if s.kind == "vs" && s.t == maxFloatBits then some (visS none s.k) else
  match bitsToRat? s.t with
  | none => none
  | some t =>
    match s.kind with
    | "dp" => some (dpS t)
    | "rs" => some (radialS distSq t)
    | "rd" => some (if t < 0 then radialS distSq (-1) else radialS distSq (t * t))
    | _ => some (visS (some t) s.k)

def showR (r : R (List (Pt Float))) : String :=
  match r with
  | .ok l => showPts (l.map ptB)
  | .err _ => "diverges"
  | .panic _ => "panic"

/-- split the outcome tokens at `|` -/
def splitBar (ts : Toks) : List Toks :=
  let rec go : Toks → Toks → List Toks → List Toks
    | [], cur, acc => (cur.reverse :: acc).reverse
    | t :: ts, cur, acc => if t == "|" then go ts [] (cur.reverse :: acc) else go ts (t :: cur) acc
  go ts [] []

def partPts (ts : Toks) : Option (Option (List BPt)) :=
  if ts == ["panic"] then some none
  else match pts ts with
    | some (l, []) => some (some l)
    | _ => none

/-! ### quantitative clauses, generic in the arithmetic -/
section quant
variable {α : Type} [LT α] [DecidableLT α]

/-- Douglas-Peucker error bound: there is an increasing embedding of `out` into `inp` (first ↦ first,
    last ↦ last) such that every input vertex strictly between two consecutive kept ones is within
    `tsq` (squared) of the segment joining them. -/
def dpBoundOK (dist : Pt α → Pt α → Pt α → α) (tsq : α) (inB outB : Array BPt) (inV : Array (Pt α)) : Bool :=
  let n := inB.size
  let m := outB.size
  if m == 0 then n == 0 else
  if n == 0 then false else
  let z : BPt := ⟨0, 0⟩
  let spanOK (i i' : Nat) : Bool :=
    match inV[i]?, inV[i']? with
    | some a, some b => (List.range' (i + 1) (i' - (i + 1))).all fun k =>
        match inV[k]? with
        | some p => !(decide (tsq < dist a b p))
        | none => false
    | _, _ => false
  let reach0 : List Bool := (List.range n).map fun i => i == 0 && bEq (inB.getD 0 z) (outB.getD 0 z)
  let reach := (List.range' 1 (m - 1)).foldl (fun (reach : List Bool) j =>
    (List.range n).map fun i' =>
      bEq (inB.getD i' z) (outB.getD j z) &&
        (List.range i').any fun i => reach.getD i false && spanOK i i') reach0
  reach.getD (n - 1) false

/-- vertex lists longer than this are judged with `dpBoundFast` and without running the exact model -/
def bigN : Nat := 24

/-- The same clause as `dpBoundOK`, evaluated sparsely (only the reachable input indices are kept, an
    output vertex j can only sit at an input index that leaves room for the m-1-j outputs after it, and
    the last output vertex must sit at n-1).  `budget` bounds the number of distance evaluations:
    `none` = budget exceeded (no verdict). -/
def dpBoundFast (dist : Pt α → Pt α → Pt α → α) (tsq : α) (budget : Nat)
    (inB outB : Array BPt) (inV : Array (Pt α)) : Option Bool := Id.run do
  let n := inB.size
  let m := outB.size
  if m == 0 then return some (n == 0)
  if n == 0 then return some false
  if m > n then return some false
  let z : BPt := ⟨0, 0⟩
  let mut work := 0
  let mut reach : Array Nat := if bEq (inB.getD 0 z) (outB.getD 0 z) then #[0] else #[]
  for j in [1:m] do
    if reach.isEmpty then return some false
    let lo := reach[0]! + 1
    let hi := n - m + j
    let lo := if j + 1 == m then max lo (n - 1) else lo
    let mut next : Array Nat := #[]
    for i' in [lo:hi + 1] do
      if bEq (inB.getD i' z) (outB.getD j z) then
        let mut ok := false
        for i in reach do
          if ok || i ≥ i' then break
          match inV[i]?, inV[i']? with
          | some a, some b =>
            let mut good := true
            for k in [i + 1:i'] do
              work := work + 1
              match inV[k]? with
              | some p => if tsq < dist a b p then
                            good := false
                            break
              | none =>
                good := false
                break
            if good then ok := true
          | _, _ => pure ()
          if work > budget then return none
        if ok then next := next.push i'
    reach := next
  return some (reach.contains (n - 1))

/-- Radial spacing: consecutive kept vertices, the last one excepted, are farther apart than the threshold. -/
def spacingOK (far : Pt α → Pt α → Bool) (out : List (Pt α)) : Bool :=
  let l := out.dropLast
  (l.zip (l.drop 1)).all fun (a, b) => far a b

end quant

def closedB (ps : List BPt) : Bool :=
  match ps.head?, ps.getLast? with
  | some a, some b => fEq a b
  | _, _ => false

/-- The effective minimum count of Visvalingam.  The defaults 2 (line) / 3 (open ring) / 4 (closed ring)
    are written out here — the documented contract of visvalingam.go:17-19 — and NOT taken from the
    model's constants, so that a model with other constants is caught by the executable property. -/
def keff (k : Nat) (isRing : Bool) (inp : List BPt) : Nat :=
  if k != 0 then k else if isRing then (if closedB inp then 4 else 3) else 2

def isKeepN (s : Spec) : Bool :=
  let t := Float.ofBits s.t
  s.kind == "vs" && (t * 2).isInf && t > 0

/-- how the triangle areas of a vertex list behave in float64 -/
inductive AreaClass where
  | finite | inf | nan
deriving BEq, Inhabited

def AreaClass.worse : AreaClass → AreaClass → AreaClass
  | .nan, _ | _, .nan => .nan
  | .inf, _ | _, .inf => .inf
  | _, _ => .finite

/-- `finite`: no triangle of three vertices (in index order, the only order Visvalingam uses) has an
    area that overflows; `inf`: some area is `+Inf`, none is NaN; `nan`: some area is NaN (`Inf - Inf`).
    The twin (`simpF`) is float64 arithmetic in all three cases. -/
def areaClass (ps : List (Pt Float)) : AreaClass :=
  if ps.all (fun p => p.x.abs < 1.0e150 && p.y.abs < 1.0e150) then .finite else
  let n := ps.length
  (List.range n).foldl (fun acc i =>
    (List.range' (i + 1) (n - (i + 1))).foldl (fun acc j =>
      (List.range' (j + 1) (n - (j + 1))).foldl (fun acc k =>
        let a := doubleTriangleArea ps i j k
        if a.isNaN then .nan else if a.isInf then acc.worse .inf else acc) acc) acc) .finite

def run {α} (s : Simplifier α) (lr : String) (ps : List (Pt α)) : R (List (Pt α)) :=
  if lr == "R" then ring s ps else lineString s ps

def endsOK (inp out : List BPt) : Bool :=
  match inp.head?, inp.getLast?, out.head?, out.getLast? with
  | none, _, none, _ => true
  | some a, some b, some c, some d => bEq a c && bEq b d
  | _, _, _, _ => false

/-- structural and count clauses for ONE vertex list (the implementation's result `out` of `inp`) -/
def structLine (s : Spec) (isRing : Bool) (inp out : List BPt) : Option String :=
  let n := inp.length
  if !(isSub out inp) then some "subseq-in-order" else
  if n == 0 && !(out.isEmpty) then some "subseq-in-order empty" else
  if !(endsOK inp out) then some "endpoints-kept" else
  -- "the first and last vertex kept" is about positions: both ends of a line with two or more
  -- vertices survive, so at least two vertices come back (a closed ring never collapses to one)
  if n ≥ 2 && out.length < 2 then some "endpoints-kept both-ends" else
  if closedB inp && !(closedB out) then some "closed-stays-closed" else
  if s.kind == "vs" then
    let k := keff s.k isRing inp
    if out.length < min n k then some "vis-min-count" else
    if isKeepN s && k ≥ 2 && n > k && out.length != k then some "vis-keep-exact" else none
  else none

/-- the quantitative clause of the kind in float64 (the rounding witness) -/
def quantF (s : Spec) (inp out : List BPt) : Bool :=
  let t := Float.ofBits s.t
  match s.kind with
  | "dp" =>
    if inp.length ≤ bigN then dpBoundOK distSegSq (t * t) inp.toArray out.toArray (inp.map ptF).toArray
    else (dpBoundFast distSegSq (t * t) (200000000) inp.toArray out.toArray (inp.map ptF).toArray).getD false
  | "rs" => spacingOK (fun p q => t < distSq p q) (out.map ptF)
  | "rd" => spacingOK (fun p q => t < distF p q) (out.map ptF)
  | _ => true

/-- the quantitative clause of the kind, exactly (every finite float64 is a rational); `none` if some
    number involved is not finite, or (vertex lists above `bigN` vertices) if the Douglas-Peucker bound
    needs more than 4n + 2000 exact distance evaluations -/
def quantQ (s : Spec) (inp out : List BPt) : Option Bool :=
  match ptsQ? inp, ptsQ? out, bitsToRat? s.t with
  | some psQ, some aQ, some t =>
    (match s.kind with
     | "dp" =>
       if inp.length ≤ bigN then some (dpBoundOK distSegSq (t * t) inp.toArray out.toArray psQ.toArray)
       else dpBoundFast distSegSq (t * t) (4 * inp.length + 2000) inp.toArray out.toArray psQ.toArray
     | "rs" => some (spacingOK (fun p q => t < distSq p q) aQ)
     | "rd" => some (spacingOK (fun p q => t < 0 || t * t < distSq p q) aQ)
     | _ => some true)
  | _, _, _ => if s.kind == "vs" then some true else none

/-- does the EXACT model (rationals) return what the implementation returned? -/
def exactAgrees (s : Spec) (lr : String) (inp out : List BPt) : Bool :=
  if inp.length > bigN then false else
  match ptsQ? inp, simpQ s, ptsQ? out with
  | some psQ, some sq, some aQ =>
    (match run sq lr psQ with
     | .ok l => l.length == aQ.length && (l.zip aQ).all fun (p, q) => p.x == q.x && p.y == q.y
     | _ => false)
  | _, _, _ => false

inductive JV where
  | ok (exact : Bool)
  | fail (clause : String)
  | rounding (clause : String)
  | nonfinite

/-- the quantitative clause for one vertex list: exact, with the float64 evaluation as the rounding witness -/
def quantLine (s : Spec) (lr : String) (inp out : List BPt) : JV :=
  let clause := match s.kind with | "dp" => "dp-error-bound" | _ => "radial-spacing"
  if inp.length > bigN then
    -- long vertex lists: the float64 evaluation repeats the very comparisons the algorithm made (same
    -- operands, same formula), so it holds for a correct implementation whatever the rounding; the exact
    -- clause is evaluated on top where it is cheap, the exact MODEL is not run
    if !(quantF s inp out) then .fail (clause ++ " float") else
    match quantQ s inp out with
    | some false => .rounding clause
    | some true => .ok true
    | none => .ok false
  else
  let exact := exactAgrees s lr inp out
  match quantQ s inp out with
  | some true => .ok exact
  | some false => if quantF s inp out && !exact then .rounding clause else .fail clause
  | none => if quantF s inp out then .nonfinite else .fail (clause ++ " float")

def showI (x : Option (List BPt)) : String := match x with | some l => showPts l | none => "panic"

def shapeTag (n m : Nat) : String :=
  if n ≤ 2 then "triv-short" else if m == n then "all" else if m ≤ 2 then "ends" else "some"

/-- Final verdict.  A `propfail` outranks a `diff`.  `overflow`: a Visvalingam run on FINITE coordinates
    some of whose triangle areas are not finite in float64.  There the implementation's failures (the
    nil-pointer panic when an end item is popped, lost nesting under NaN) are one documented defect
    (known finding C12-vis-area-overflow): the specific label is given ONLY when the float64 twin
    reproduces the implementation's outcome exactly; any disagreement stays a plain `propfail` / `diff`. -/
def finish (overflow agree : Bool) (model v : String) : String :=
  if v.startsWith "propfail" then
    (if overflow && agree then "propfail vis-area-overflow " ++ (v.drop 9).toString else v)
  else if agree then v
  else "diff " ++ model

def sizeTag (n : Nat) : String :=
  if n < 32 then "n<32" else if n ≤ 128 then "n<=128" else if n ≤ 256 then "n<=256" else if n ≤ 512 then "n<=512"
  else if n ≤ 1024 then "n<=1024" else if n ≤ 2048 then "n<=2048" else "n>2048"

/-- `line` (op = "line"), `long` and `deep` (same runs and clauses; long vertex lists are judged by
    `quantLine`'s float64 evaluation plus the budgeted exact clause) -/
def handleLine (op : String) (inp out : Toks) : String :=
  match (do
    let (s1, i) ← specP inp
    let (t2, i) ← bits i
    let (k2, i) ← nat i
    let (lr, i) ← tok i
    let (ps, _) ← pts i
    pure (s1, ({ kind := s1.kind, t := t2, k := k2 } : Spec), lr, ps)) with
  | none => "bad input"
  | some (s1, s2, lr, ps) =>
    if ps.any fun p => !(Float.ofBits p.x).isFinite || !(Float.ofBits p.y).isFinite then "skip nonfinite-coordinate" else
    match splitBar out with
    | [pa, pb, pc] =>
      match partPts pa, partPts pb, partPts pc with
      | some a?, some b?, some c? =>
        let psF := ps.map ptF
        let isRing := lr == "R"
        -- (1) Float twin
        let mA := run (simpF s1) lr psF
        let mB := match mA with | .ok l => run (simpF s1) lr l | r => r
        let mC := run (simpF s2) lr psF
        let model := showR mA ++ " | " ++ showR mB ++ " | " ++ showR mC
        let agree := showR mA == showI a? && showR mB == showI b? && showR mC == showI c?
        let cls := if s1.kind == "vs" then areaClass psF else .finite
        finish (cls != .finite) agree model <|
        match a?, b?, c? with
        | some a, some b, some c =>
          let n := ps.length
          -- (2) structural and count clauses on the implementation's results
          match structLine s1 isRing ps a with
          | some cl => "propfail " ++ cl
          | none =>
          match structLine s2 isRing ps c with
          | some cl => "propfail " ++ cl ++ " C"
          | none =>
          if !(isSub b a) then "propfail subseq-in-order B" else
          let t1F := Float.ofBits s1.t
          let t2F := Float.ofBits s2.t
          let ordered := t1F ≤ t2F && (0 : Float) ≤ t1F
          let k1 := keff s1.k isRing ps
          let k2 := keff s2.k isRing ps
          let structural : Option String :=
            match s1.kind with
            | "dp" =>
              if !(bsEq a b) then some "propfail dp-idempotent" else
              if ordered && !(isSub c a) then some "propfail dp-nested" else none
            | "vs" =>
              if ordered && k2 ≤ k1 && !(isSub c a) then some "propfail vis-nested" else none
            | _ => none
          match structural with
          | some v => v
          | none =>
          let shape := shapeTag n a.length
          let shape := if op == "line" then shape else s!"{op} {sizeTag n} {shape}"
          -- (3) quantitative clauses
          match quantLine s1 lr ps a with
          | .fail cl => "propfail " ++ cl
          | .rounding cl => "skip rounding-sensitive " ++ cl
          | .nonfinite => s!"ok {shape} {s1.kind} {lr} nonfinite"
          | .ok exact =>
            match (if s1.kind == "vs" then JV.ok true else quantLine s2 lr ps c) with
            | .fail cl => "propfail " ++ cl ++ " C"
            | .rounding cl => "skip rounding-sensitive " ++ cl ++ " C"
            | _ => s!"ok {shape} {s1.kind} {lr} " ++
                (if n > bigN then (if exact then "exact-clause" else "float-clause")
                 else if exact then "exact" else "rounded")
        | _, _, _ => "propfail panic line"
      | _, _, _ => "bad output"
    | _ => "bad output"

/-- `seq`: ONE simplifier value, m calls.  The model has no state: every call is judged on its own. -/
def handleSeq (inp out : Toks) : String :=
  match (do
    let (s, i) ← specP inp
    let (m, i) ← nat i
    let (items, _) ← many (fun ts => do
      let (lr, ts) ← tok ts
      let (ps, ts) ← pts ts
      pure ((lr, ps), ts)) m i
    pure (s, items)) with
  | none => "bad input"
  | some (s, items) =>
    if items.any fun (_, ps) => ps.any fun p => !(Float.ofBits p.x).isFinite || !(Float.ofBits p.y).isFinite then
      "skip nonfinite-coordinate" else
    let parts := if items.isEmpty then [] else splitBar out
    if parts.length != items.length then "bad output" else
    match parts.mapM partPts with
    | none => "bad output"
    | some outs =>
      let models := items.map fun (lr, ps) => showR (run (simpF s) lr (ps.map ptF))
      let agree := models == outs.map showI
      let cls := if s.kind == "vs" then
          items.foldl (fun acc (_, ps) => acc.worse (areaClass (ps.map ptF))) AreaClass.finite
        else .finite
      finish (cls != .finite) agree (" | ".intercalate models) <|
      if outs.any (·.isNone) then "propfail panic seq" else
      let rec go (idx : Nat) (rounding : Option String) : List ((String × List BPt) × Option (List BPt)) → String
        | [] => (match rounding with
                 | some cl => "skip rounding-sensitive " ++ cl
                 | none => s!"ok seq {s.kind} m{items.length}")
        | ((lr, ps), some o) :: rest =>
          (match structLine s (lr == "R") ps o with
           | some cl => s!"propfail {cl} seq {idx} {lr}"
           | none =>
             match quantLine s lr ps o with
             | .fail cl => s!"propfail {cl} seq {idx} {lr}"
             | .rounding cl => go (idx + 1) (some cl) rest
             | _ => go (idx + 1) rounding rest)
        | (_, none) :: _ => "propfail panic seq"
      go 0 none (items.zip outs)

/-! ### generic entry point -/

/-- an INPUT value: collections may hold nil members; a nil interface and a nil `orb.MultiPoint`
    (helpers.go:11, :18) are both `.nil`; the other typed nil slices are the empty value of their kind
    (`geom` of Orb/Proto.lean); `n` as a count is a nil ring / line / polygon (read as empty) -/
partial def igeomP : P (OGeom UInt64) := fun ts =>
  match ts with
  | "nil" :: ts => some (.nil, ts)
  | "nMP" :: ts => some (.nil, ts)
  | "nC" :: ts => some (.coll [], ts)
  | "C" :: ts => do
    let (n, ts) ← nat ts
    let rec go : Nat → Toks → Option (List (OGeom UInt64) × Toks)
      | 0, ts => some ([], ts)
      | n+1, ts => do
        let (g, ts) ← igeomP ts
        let (gs, ts) ← go n ts
        pure (g :: gs, ts)
    let (gs, ts) ← go n ts
    pure (.coll gs, ts)
  | ts => (geom ts).map fun (g, ts) => (.geom g, ts)

/-- an OUTPUT value (`gs` of the harness: typed nil slices never occur in a result) -/
partial def ogeomP : P (OGeom UInt64) := fun ts =>
  match ts with
  | "nil" :: ts => some (.nil, ts)
  | "C" :: ts => do
    let (n, ts) ← nat ts
    let rec go : Nat → Toks → Option (List (OGeom UInt64) × Toks)
      | 0, ts => some ([], ts)
      | n+1, ts => do
        let (g, ts) ← ogeomP ts
        let (gs, ts) ← go n ts
        pure (g :: gs, ts)
    let (gs, ts) ← go n ts
    pure (.coll gs, ts)
  | ts => (geom ts).map fun (g, ts) => (.geom g, ts)

partial def showOGeom : OGeom UInt64 → String
  | .nil => "nil"
  | .geom g => showGeom g
  | .coll gs => gs.foldl (fun s g => s ++ " " ++ showOGeom g) ("C " ++ toString gs.length)

partial def mapOGeom {α β} (f : α → β) : OGeom α → OGeom β
  | .nil => .nil
  | .geom g => .geom (mapGeom f g)
  | .coll gs => .coll (gs.map (mapOGeom f))

partial def coordsO {α} : OGeom α → List α
  | .nil => []
  | .geom g => coords g
  | .coll gs => gs.flatMap coordsO

/-- all vertex lists that a simplifier is run on -/
partial def linesOf {α} : Geom α → List (List (Pt α))
  | .lineString l | .ring l => [l]
  | .multiLineString l | .polygon l => l
  | .multiPolygon l => l.flatMap id
  | .collection gs => gs.flatMap linesOf
  | _ => []

partial def linesOfO {α} : OGeom α → List (List (Pt α))
  | .nil => []
  | .geom g => linesOf g
  | .coll gs => gs.flatMap linesOfO

def showRO (r : R (OGeom Float)) : String :=
  match r with
  | .ok g => showOGeom (mapOGeom Float.toBits g)
  | .err _ => "diverges"
  | .panic _ => "panic"

def liftR {β γ} (f : β → γ) (r : R β) : R γ :=
  match r with
  | .ok b => .ok (f b)
  | .err e => .err e
  | .panic w => .panic w

/-- the typed method for the value's kind (`none` for points, multipoints, bounds) -/
def typedModel (s : Simplifier Float) (g : OGeom Float) : Option (R (OGeom Float)) :=
  match g with
  | .geom (.lineString l) => some (liftR (fun l => .geom (.lineString l)) (lineString s l))
  | .geom (.multiLineString l) => some (liftR (fun l => .geom (.multiLineString l)) (multiLineString s l))
  | .geom (.ring l) => some (liftR (fun l => .geom (.ring l)) (ring s l))
  | .geom (.polygon l) => some (liftR (fun l => .geom (.polygon l)) (polygon s l))
  | .geom (.multiPolygon l) => some (liftR (fun l => .geom (.multiPolygon l)) (multiPolygon s l))
  | .geom (.collection l) => some (liftR (fun l => .coll l) (collection s l))
  | .coll l => some (liftR (fun l => .coll l) (collectionO s l))
  | _ => none

/-- the type switch's rule: a typed result of length 0 becomes a nil interface -/
def wrapTyped : OGeom UInt64 → OGeom UInt64
  | .geom (.lineString []) | .geom (.multiLineString []) | .geom (.ring []) | .geom (.polygon [])
  | .geom (.multiPolygon []) | .coll [] => .nil
  | g => g

/-- what is demanded of one member vertex list, and when an inner ring / a polygon may vanish -/
structure Judge where
  /-- `ok isRing inner inp out` -/
  ok : Bool → Bool → List BPt → List BPt → Bool
  /-- may the ring `inp` legitimately come back with ≤ 2 points? -/
  drop : List BPt → Bool

def validLine (inp out : List BPt) : Bool := isSub out inp && endsOK inp out

/-- level 0: subsequence in order, end points kept -/
def judge0 : Judge := ⟨fun _ _ i o => validLine i o, fun _ => true⟩

/-- level 1: + counts.  Closed stays closed, both ends kept, Visvalingam's minimum count and keep-N per
    member, a surviving inner ring has more than 2 points, and a ring / polygon only vanishes if its
    simplification can have ≤ 2 points (Visvalingam: only when min(n, minimum count) ≤ 2). -/
def judge1 (s : Spec) : Judge :=
  ⟨fun isRing inner i o => validLine i o && (structLine s isRing i o).isNone && (!inner || o.length > 2),
   fun i => if s.kind == "vs" then min i.length (keff s.k true i) ≤ 2 else true⟩

section quantDrop
variable {α : Type}

/-- Douglas-Peucker returns 2 points iff every interior vertex is within the threshold of the segment
    first–last; radial returns ≤ 2 points iff no interior vertex is farther than the threshold from the first -/
def dropQuant (kind : String) (offSeg : Pt α → Pt α → Pt α → Bool) (far : Pt α → Pt α → Bool) (ps : List (Pt α)) : Bool :=
  match ps.head?, ps.getLast? with
  | some a, some b =>
    let inner := (ps.drop 1).dropLast
    (match kind with
     | "dp" => inner.all fun p => !(offSeg a b p)
     | "rs" | "rd" => inner.all fun p => !(far a p)
     | _ => true)
  | _, _ => true
end quantDrop

/-- level 2: + the quantitative clause per member (exact = rationals, else float64) -/
def judge2 (s : Spec) (exact : Bool) : Judge :=
  let j1 := judge1 s
  if s.kind == "vs" then j1 else
  if exact then
    match bitsToRat? s.t with
    | none => j1
    | some t =>
      ⟨fun isRing inner i o => j1.ok isRing inner i o && (quantQ s i o).getD true,
       fun i => j1.drop i && (i.length ≤ 2 ||
         match ptsQ? i with
         | some q => dropQuant s.kind (fun a b p => t * t < distSegSq a b p)
             (fun p q => if s.kind == "rd" then t < 0 || t * t < distSq p q else t < distSq p q) q
         | none => true)⟩
  else
    let t := Float.ofBits s.t
    ⟨fun isRing inner i o => j1.ok isRing inner i o && quantF s i o,
     fun i => j1.drop i && (i.length ≤ 2 ||
       dropQuant s.kind (fun a b p => t * t < distSegSq a b p)
         (fun p q => if s.kind == "rd" then t < distF p q else t < distSq p q) (i.map ptF))⟩

/-- rings after the first: each is either kept (a valid simplification with more than 2 points) or
    dropped (allowed to vanish), in order — every alignment is tried -/
def matchRings (J : Judge) : List (List BPt) → List (List BPt) → Bool
  | is, [] => is.all J.drop
  | [], _ :: _ => false
  | i :: is, o :: os => (J.ok true true i o && matchRings J is os) || (J.drop i && matchRings J is (o :: os))

def validPolygon (J : Judge) (inp out : List (List BPt)) : Bool :=
  match inp, out with
  | [], [] => true
  | i :: is, o :: os => J.ok true false i o && matchRings J is os
  | _, _ => false

/-- a polygon vanishes from a multi polygon iff it has no ring or its outer ring comes back with ≤ 2 points -/
def dropPoly (J : Judge) (p : List (List BPt)) : Bool :=
  match p with
  | [] => true
  | r0 :: _ => J.drop r0

def matchPolys (J : Judge) : List (List (List BPt)) → List (List (List BPt)) → Bool
  | is, [] => is.all (dropPoly J)
  | [], _ :: _ => false
  | i :: is, o :: os =>
    ((match o with | r0 :: _ => r0.length > 2 | [] => false) && validPolygon J i o && matchPolys J is os) ||
    (dropPoly J i && matchPolys J is (o :: os))

/-- members of a collection: each is either kept (judged against the next result, which is never a nil
    interface: `collection` drops those) or dropped (its own result may legitimately be nil), in
    order — every alignment is tried -/
def matchColl {A : Type} (ok : A → OGeom UInt64 → Bool) : List A → List (OGeom UInt64) → Bool
  | is, [] => is.all (ok · .nil)
  | [], _ :: _ => false
  | i :: is, o :: os => (!o.isNil && ok i o && matchColl ok is os) || (ok i .nil && matchColl ok is (o :: os))

/-- every vertex list of the result is judged against the input member it comes from; only inner
    rings, whole polygons and whole collection members may disappear, and only when their own result
    can be empty (`J.drop` for rings and polygons) -/
partial def validOut (J : Judge) : Geom UInt64 → OGeom UInt64 → Bool
  | .point p, .geom (.point q) => bEq p q
  | .multiPoint p, .geom (.multiPoint q) => bsEq p q
  | .bound a b, .geom (.bound c d) => bEq a c && bEq b d
  | .lineString i, .geom (.lineString o) => !o.isEmpty && J.ok false false i o
  | .lineString i, .nil => i.isEmpty
  | .ring i, .geom (.ring o) => !o.isEmpty && J.ok true false i o
  | .ring i, .nil => i.isEmpty
  | .multiLineString i, .geom (.multiLineString o) =>
    !o.isEmpty && i.length == o.length && (i.zip o).all fun (a, b) => J.ok false false a b
  | .multiLineString i, .nil => i.isEmpty
  | .polygon i, .geom (.polygon o) => !o.isEmpty && validPolygon J i o
  | .polygon i, .nil => i.isEmpty
  | .multiPolygon i, .geom (.multiPolygon o) => !o.isEmpty && matchPolys J i o
  | .multiPolygon i, .nil => i.all (dropPoly J)
  | .collection i, .coll o => !o.isEmpty && matchColl (validOut J) i o
  | .collection i, .nil => i.all fun a => validOut J a .nil
  | _, _ => false

partial def validOutO (J : Judge) : OGeom UInt64 → OGeom UInt64 → Bool
  | .nil, .nil => true
  | .geom g, o => validOut J g o
  | .coll i, .coll o => !o.isEmpty && matchColl (validOutO J) i o
  | .coll i, .nil => i.all fun a => validOutO J a .nil
  | _, _ => false

def kindTag : OGeom UInt64 → String
  | .nil => "triv-nil"
  | .coll _ => "collection"
  | .geom g => match g with
    | .point _ => "triv-point" | .multiPoint _ => "triv-multipoint" | .bound _ _ => "triv-bound"
    | .lineString _ => "linestring" | .ring _ => "ring" | .multiLineString _ => "multilinestring"
    | .polygon _ => "polygon" | .multiPolygon _ => "multipolygon" | .collection _ => "collection"

/-- the member clauses, level by level; `none` = all hold -/
def judgeMembers (s : Spec) (pairs : List (OGeom UInt64 × OGeom UInt64)) (what : String) : Option String :=
  let all (J : Judge) : Bool := pairs.all fun (i, o) => validOutO J i o
  if !(all judge0) then some ("propfail members-subseq " ++ what) else
  if !(all (judge1 s)) then some ("propfail member-count " ++ what) else
  if !(all (judge2 s true)) then
    (if all (judge2 s false) then some "skip rounding-sensitive member-quant" else some ("propfail member-quant " ++ what))
  else none

def areaClassO (s : Spec) (v : OGeom UInt64) : AreaClass :=
  if s.kind != "vs" then .finite else
  (linesOfO v).foldl (fun acc l => acc.worse (areaClass (l.map ptF))) .finite

def isNilTok (t : String) : Bool :=
  t == "nil" || t == "nMP" || t == "nLS" || t == "nMLS" || t == "nR" || t == "nPG" || t == "nMPG" || t == "nC"

/-- `geom` and `alias` -/
def handleGeom (inp out : Toks) : String :=
  match (do
    let (s, i) ← specP inp
    match i with
    | [t] => if isNilTok t then pure (s, none, t) else
             let (v, rest) ← igeomP i
             if rest.isEmpty then pure (s, some v, "") else none
    | _ =>
      let (v, rest) ← igeomP i
      if rest.isEmpty then pure (s, some v, "") else none) with
  | none => "bad input"
  | some (s, v?, nilTok) =>
    if (match v? with
        | some v => (coordsO v).any fun c => !(Float.ofBits c).isFinite
        | none => false) then "skip nonfinite-coordinate" else
    match splitBar out with
    | [p1, p2, p3] =>
      let sF := simpF s
      let vF? := v?.map (mapOGeom Float.ofBits)
      let r1 : R (OGeom Float) := match vF? with | some vF => simplifyO sF vF | none => .ok .nil
      let m1 := showRO r1
      let m2 := match vF? with
        | some vF => (match typedModel sF vF with | some r => showRO r | none => "none")
        | none => "none"
      let m3 := match r1 with | .ok g => showRO (simplifyO sF g) | _ => "panic"
      let s1 := " ".intercalate p1
      let s2 := " ".intercalate p2
      let s3 := " ".intercalate p3
      let agree := s1 == m1 && s2 == m2 && s3 == m3
      let cls := match v? with | some v => areaClassO s v | none => .finite
      finish (cls != .finite) agree (m1 ++ " | " ++ m2 ++ " | " ++ m3) <|
      if s1 == "clobber" || s2 == "clobber" then "propfail alias-write-outside-window" else
      if s1 == "panic" then "propfail panic Simplify" else
      if s2 == "panic" then "propfail panic typed" else
      if s3 == "panic" then "propfail panic again" else
      match ogeomP p1, ogeomP p3 with
      | some (o1, []), some (o3, []) =>
        let o2? : Option (Option (OGeom UInt64)) :=
          if s2 == "none" then some none else
          match ogeomP p2 with
          | some (o2, []) => some (some o2)
          | _ => none
        (match o2? with
         | none => "bad output typed"
         | some o2? =>
           -- generic Simplify agrees with the typed method
           if (match o2? with | some o2 => showOGeom (wrapTyped o2) != showOGeom o1 | none => false) then
             "propfail generic-vs-typed" else
           match v? with
           | none =>
             if showOGeom o1 == "nil" && showOGeom o3 == "nil" then
               (if nilTok == "nil" then "ok triv-nil" else "ok triv-nilslice")
             else "propfail nil"
           | some v =>
             -- the second run works on the first result: judged as a simplification of it
             match judgeMembers s [(v, o1), (o1, o3)] (kindTag v) with
             | some verdict => verdict
             | none =>
               if s.kind == "dp" && showOGeom o3 != showOGeom o1 then "propfail dp-idempotent geom" else
               "ok " ++ kindTag v ++ " " ++ s.kind ++ (if showOGeom o1 == "nil" then " to-nil" else ""))
      | _, _ => "bad output"
    | _ => "bad output"

/-! ### mvt.Layers.Simplify -/

def layerInP : P (List (OGeom UInt64)) := fun ts => do
  let (n, ts) ← nat ts
  many igeomP n ts

def featOutP : P (Int × OGeom UInt64) := fun ts => do
  let (i, ts) ← int ts
  let (g, ts) ← ogeomP ts
  pure ((i, g), ts)

def layerOutP : P (List (Int × OGeom UInt64)) := fun ts => do
  let (n, ts) ← nat ts
  many featOutP n ts

def showLayers (ls : List (List (Nat × OGeom Float))) : String :=
  ls.foldl (fun s l =>
    l.foldl (fun s (i, g) => s ++ " " ++ toString i ++ " " ++ showOGeom (mapOGeom Float.toBits g))
      (s ++ " " ++ toString l.length)) (toString ls.length)

def handleMvt (inp out : Toks) : String :=
  match (do
    let (s, i) ← specP inp
    let (nl, i) ← nat i
    let (layers, rest) ← many layerInP nl i
    if rest.isEmpty then pure (s, layers) else none) with
  | none => "bad input"
  | some (s, layers) =>
    if layers.any fun l => l.any fun g => (coordsO g).any fun c => !(Float.ofBits c).isFinite then
      "skip nonfinite-coordinate" else
    let sF := simpF s
    let inF : List (List (Nat × OGeom Float)) :=
      layers.map fun l => (List.range l.length).zip (l.map (mapOGeom Float.ofBits))
    let model := match layersSimplify sF inF with
      | .ok r => showLayers r
      | .err _ => "diverges"
      | .panic _ => "panic"
    let so := " ".intercalate out
    let agree := so == model
    let cls := layers.foldl (fun acc l => l.foldl (fun acc g => acc.worse (areaClassO s g)) acc) AreaClass.finite
    finish (cls != .finite) agree model <|
    if so == "panic" then "propfail panic mvt" else
    match (do
      let (nl, o) ← nat out
      let (ls, rest) ← many layerOutP nl o
      if rest.isEmpty then pure ls else none) with
    | none => "bad output"
    | some outs =>
      if outs.length != layers.length then "propfail mvt-layer-count" else
      -- per layer: the kept features in their original order, each with its own (simplified) geometry
      let bad := (layers.zip outs).findSome? fun (l, o) =>
        let idxs := o.map (·.1)
        if idxs.any (· < 0) then some "propfail mvt-feature-identity" else
        let ns := idxs.map Int.toNat
        if !(ns.zip (ns.drop 1)).all (fun (a, b) => a < b) || ns.any (· ≥ l.length) then
          some "propfail mvt-feature-order" else
        if o.any (fun (_, g) => showOGeom g == "nil") then some "propfail mvt-nil-feature-kept" else
        none
      match bad with
      | some v => v
      | none =>
        let pairs : List (OGeom UInt64 × OGeom UInt64) := (layers.zip outs).flatMap fun (l, o) =>
          (List.range l.length).zip l |>.map fun (i, g) =>
            match o.find? (fun (j, _) => j.toNat == i) with
            | some (_, g') => (g, g')
            | none => (g, OGeom.nil)
        match judgeMembers s pairs "mvt" with
        | some verdict => verdict
        | none =>
          if layers.all (·.isEmpty) then "ok triv-mvt-empty" else s!"ok mvt {s.kind}"

def handle (ts : Toks) : String :=
  match ts with
  | op :: rest =>
    let (inp, out) := splitArrow rest
    match op with
    | "line" => handleLine "line" inp out
    | "long" => handleLine "long" inp out
    | "deep" => handleLine "deep" inp out
    | "seq" => handleSeq inp out
    | "geom" => handleGeom inp out
    | "alias" => handleGeom inp out
    | "mvt" => handleMvt inp out
    | _ => "bad op " ++ op
  | [] => "bad empty"

end Driver.C12
