import Orb.Proto
import Orb.Simplify

/-! Driver for C12 (simplifiers: Douglas-Peucker, Radial, Visvalingam, helpers.go wrappers).

    `line <kind> <t1> <k1> <t2> <k2> <L|R> <n pts> => A | B | C`
    `geom <kind> <t> <k> <gval> => <Simplify(g)> | <typed method(g) or none>`

    For each line: (1) the Float twin of the model is compared bit-for-bit with the implementation's
    three results; (2) the executable statement of the property is evaluated on the implementation's
    results, in exact `Rat` arithmetic for the quantitative clauses (every finite float64 is a rational);
    a quantitative clause that fails exactly but holds in float64 arithmetic is `skip rounding-sensitive`. -/
namespace Driver.C12
open Orb Orb.Proto Orb.Simplify

abbrev BPt := Pt UInt64

def ptF (p : BPt) : Pt Float := ⟨Float.ofBits p.x, Float.ofBits p.y⟩
def ptB (p : Pt Float) : BPt := ⟨p.x.toBits, p.y.toBits⟩
def ptQ? (p : BPt) : Option (Pt Rat) := do
  let x ← bitsToRat? p.x
  let y ← bitsToRat? p.y
  pure ⟨x, y⟩
def ptsQ? (ps : List BPt) : Option (List (Pt Rat)) := ps.mapM ptQ?

/-- bitwise equality of points (results are copies of input vertices) -/
def bEq (p q : BPt) : Bool := p.x == q.x && p.y == q.y
def bsEq (a b : List BPt) : Bool := a.length == b.length && (a.zip b).all fun (p, q) => bEq p q
/-- Go's `==` on `orb.Point` -/
def fEq (p q : BPt) : Bool := Float.ofBits p.x == Float.ofBits q.x && Float.ofBits p.y == Float.ofBits q.y

/-- `out` is a subsequence of `inp` (greedy leftmost matching is complete for subsequences) -/
def isSub : List BPt → List BPt → Bool
  | [], _ => true
  | _ :: _, [] => false
  | o :: os, i :: is => if bEq o i then isSub os is else isSub (o :: os) is

structure Spec where
  kind : String
  t : UInt64
  k : Nat
deriving Inhabited

def specP : P Spec := fun ts => do
  let (kind, ts) ← tok ts
  let (t, ts) ← bits ts
  let (k, ts) ← nat ts
  pure (⟨kind, t, k⟩, ts)

def maxFloatBits : UInt64 := 0x7fefffffffffffff

def distF (p q : Pt Float) : Float := Float.sqrt (distSq p q)

def simpF (s : Spec) : Simplifier Float :=
  let t := Float.ofBits s.t
  match s.kind with
  | "dp" => dpS t
  | "rs" => radialS distSq t
  | "rd" => radialS distF t
  | _ => visS (if (t * 2).isInf && t > 0 then none else some t) s.k

/-- the exact instance; `rd` (distance with a square root) is run on squared distances -/
def simpQ (s : Spec) : Option (Simplifier Rat) :=
  if s.kind == "vs" && s.t == maxFloatBits then some (visS none s.k) else
  match bitsToRat? s.t with
  | none => none
  | some t =>
    match s.kind with
    | "dp" => some (dpS t)
    | "rs" => some (radialS distSq t)
    | "rd" => some (if t < 0 then radialS distSq (-1) else radialS distSq (t * t))
    | _ => some (visS (some t) s.k)

def showR (r : R (List (Pt Float))) : String :=
  match r with
  | .ok l => showPts (l.map ptB)
  | .err _ => "diverges"
  | .panic _ => "panic"

/-- split the outcome tokens at `|` -/
def splitBar (ts : Toks) : List Toks :=
  let rec go : Toks → Toks → List Toks → List Toks
    | [], cur, acc => (cur.reverse :: acc).reverse
    | t :: ts, cur, acc => if t == "|" then go ts [] (cur.reverse :: acc) else go ts (t :: cur) acc
  go ts [] []

def partPts (ts : Toks) : Option (Option (List BPt)) :=
  if ts == ["panic"] then some none
  else match pts ts with
    | some (l, []) => some (some l)
    | _ => none

/-! ### quantitative clauses, generic in the arithmetic -/
section quant
variable {α : Type} [LT α] [DecidableLT α]

/-- Douglas-Peucker error bound: there is an increasing embedding of `out` into `inp` (first ↦ first,
    last ↦ last) such that every input vertex strictly between two consecutive kept ones is within
    `tsq` (squared) of the segment joining them. -/
def dpBoundOK (dist : Pt α → Pt α → Pt α → α) (tsq : α) (inB outB : Array BPt) (inV : Array (Pt α)) : Bool :=
  let n := inB.size
  let m := outB.size
  if m == 0 then n == 0 else
  if n == 0 then false else
  let z : BPt := ⟨0, 0⟩
  let spanOK (i i' : Nat) : Bool :=
    match inV[i]?, inV[i']? with
    | some a, some b => (List.range' (i + 1) (i' - (i + 1))).all fun k =>
        match inV[k]? with
        | some p => !(decide (tsq < dist a b p))
        | none => false
    | _, _ => false
  let reach0 : List Bool := (List.range n).map fun i => i == 0 && bEq (inB.getD 0 z) (outB.getD 0 z)
  let reach := (List.range' 1 (m - 1)).foldl (fun (reach : List Bool) j =>
    (List.range n).map fun i' =>
      bEq (inB.getD i' z) (outB.getD j z) &&
        (List.range i').any fun i => reach.getD i false && spanOK i i') reach0
  reach.getD (n - 1) false

/-- Radial spacing: consecutive kept vertices, the last one excepted, are farther apart than the threshold. -/
def spacingOK (far : Pt α → Pt α → Bool) (out : List (Pt α)) : Bool :=
  let l := out.dropLast
  (l.zip (l.drop 1)).all fun (a, b) => far a b

end quant

def closedB (ps : List BPt) : Bool :=
  match ps.head?, ps.getLast? with
  | some a, some b => fEq a b
  | _, _ => false

def keff (s : Spec) (lr : String) (inp : List BPt) : Nat :=
  if s.k != 0 then s.k else if lr == "R" then (if closedB inp then visDefaultClosedRing else visDefaultOpenRing) else visDefaultLine

def allFiniteAreas (ps : List (Pt Float)) : Bool :=
  let a := ps.toArray
  (List.range a.size).all fun i => (List.range a.size).all fun j => (List.range a.size).all fun k =>
    (doubleTriangleArea ps i j k).isFinite

def run {α} (s : Simplifier α) (lr : String) (ps : List (Pt α)) : R (List (Pt α)) :=
  if lr == "R" then ring s ps else lineString s ps

def handleLine (inp out : Toks) : String :=
  match (do
    let (s1, i) ← specP inp
    let (t2, i) ← bits i
    let (k2, i) ← nat i
    let (lr, i) ← tok i
    let (ps, _) ← pts i
    pure (s1, ({ kind := s1.kind, t := t2, k := k2 } : Spec), lr, ps)) with
  | none => "bad input"
  | some (s1, s2, lr, ps) =>
    if ps.any fun p => !(Float.ofBits p.x).isFinite || !(Float.ofBits p.y).isFinite then "skip nonfinite-coordinate" else
    match splitBar out with
    | [pa, pb, pc] =>
      match partPts pa, partPts pb, partPts pc with
      | some a?, some b?, some c? =>
        let psF := ps.map ptF
        -- (1) Float twin
        let mA := run (simpF s1) lr psF
        let mB := match mA with | .ok l => run (simpF s1) lr l | r => r
        let mC := run (simpF s2) lr psF
        let model := showR mA ++ " | " ++ showR mB ++ " | " ++ showR mC
        let showI (x : Option (List BPt)) : String := match x with | some l => showPts l | none => "panic"
        let agree := showR mA == showI a? && showR mB == showI b? && showR mC == showI c?
        -- Visvalingam areas that overflow to ±Inf/NaN (|coordinates| beyond ~1e154) or a NaN/Inf threshold
        -- are outside the exact model (`none` is the only +Inf there)
        let nonfinite := s1.kind == "vs" &&
          (!(allFiniteAreas psF) || !(Float.ofBits s1.t).isFinite || !(Float.ofBits s2.t).isFinite)
        let fin (v : String) : String :=
          if nonfinite && (!agree || v.startsWith "propfail panic") then "skip nonfinite-area" else
          if v.startsWith "propfail" || agree then v
          else "diff " ++ model
        fin <|
        match a?, b?, c? with
        | some a, some b, some c =>
          let n := ps.length
          -- (2) structural clauses on the implementation's results
          if !(isSub a ps) then "propfail subseq-in-order A" else
          if !(isSub c ps) then "propfail subseq-in-order C" else
          if !(isSub b a) then "propfail subseq-in-order B" else
          if n == 0 && !(a.isEmpty) then "propfail subseq-in-order empty" else
          if n > 0 && !(match a.head?, a.getLast?, ps.head?, ps.getLast? with
              | some ah, some al, some ph, some pl => bEq ah ph && bEq al pl
              | _, _, _, _ => false) then "propfail endpoints-kept" else
          if n > 0 && !(match c.head?, c.getLast?, ps.head?, ps.getLast? with
              | some ah, some al, some ph, some pl => bEq ah ph && bEq al pl
              | _, _, _, _ => false) then "propfail endpoints-kept C" else
          -- "the first and last vertex kept" is about positions: both ends of a line with two or more
          -- vertices survive, so at least two vertices come back (a closed ring never collapses to one)
          if n ≥ 2 && (a.length < 2 || c.length < 2) then "propfail endpoints-kept both-ends" else
          if closedB ps && !(closedB a) then "propfail closed-stays-closed" else
          let t1F := Float.ofBits s1.t
          let t2F := Float.ofBits s2.t
          let ordered := t1F ≤ t2F && (0 : Float) ≤ t1F
          let k1 := keff s1 lr ps
          let k2 := keff s2 lr ps
          let isKeepN := s1.kind == "vs" && (t1F * 2).isInf && t1F > 0
          let structural : Option String :=
            match s1.kind with
            | "dp" =>
              if !(bsEq a b) then some "propfail dp-idempotent" else
              if ordered && !(isSub c a) then some "propfail dp-nested" else none
            | "vs" =>
              if n ≥ k1 && a.length < k1 then some "propfail vis-min-count" else
              if n < k1 && a.length != n then some "propfail vis-min-count short" else
              if n ≥ k2 && c.length < k2 then some "propfail vis-min-count C" else
              if isKeepN && k1 ≥ 2 && n > k1 && a.length != k1 then some "propfail vis-keep-exact" else
              if ordered && k2 ≤ k1 && !(isSub c a) then some "propfail vis-nested" else none
            | _ => none
          match structural with
          | some v => v
          | none =>
          -- (3) quantitative clauses: exact, with the float64 evaluation as the rounding witness
          let aF := a.map ptF
          let quantF : Bool :=
            match s1.kind with
            | "dp" => dpBoundOK distSegSq (t1F * t1F) ps.toArray a.toArray psF.toArray
            | "rs" => spacingOK (fun p q => t1F < distSq p q) aF
            | "rd" => spacingOK (fun p q => t1F < distF p q) aF
            | _ => true
          let quantQ : Option Bool :=
            match ptsQ? ps, ptsQ? a, bitsToRat? s1.t with
            | some psQ, some aQ, some t =>
              (match s1.kind with
               | "dp" => some (dpBoundOK distSegSq (t * t) ps.toArray a.toArray psQ.toArray)
               | "rs" => some (spacingOK (fun p q => t < distSq p q) aQ)
               | "rd" => some (spacingOK (fun p q => t < 0 || t * t < distSq p q) aQ)
               | _ => some true)
            | _, _, _ => if s1.kind == "vs" then some true else none
          -- exact model, for the tag
          let exact : Bool :=
            match ptsQ? ps, simpQ s1, ptsQ? a with
            | some psQ, some sq, some aQ =>
              (match run sq lr psQ with
               | .ok l => l.length == aQ.length && (l.zip aQ).all fun (p, q) => p.x == q.x && p.y == q.y
               | _ => false)
            | _, _, _ => false
          let clause := match s1.kind with | "dp" => "dp-error-bound" | _ => "radial-spacing"
          let shape :=
            if n ≤ 2 then "triv-short"
            else if a.length == n then "all"
            else if a.length ≤ 2 then "ends"
            else "some"
          let tag := s!"ok {shape} {s1.kind} {lr} " ++ (if exact then "exact" else "rounded")
          match quantQ with
          | some true => tag   -- the exact statement holds
          | some false =>
            if quantF && !exact then "skip rounding-sensitive " ++ clause
            else "propfail " ++ clause
          | none => if quantF then s!"ok {shape} {s1.kind} {lr} nonfinite" else "propfail " ++ clause ++ " float"
        | _, _, _ => "propfail panic line"
      | _, _, _ => "bad output"
    | _ => "bad output"

/-! ### generic entry point -/

partial def ogeomP : P (OGeom UInt64) := fun ts =>
  match ts with
  | "nil" :: ts => some (.nil, ts)
  | "C" :: ts => do
    let (n, ts) ← nat ts
    let rec go : Nat → Toks → Option (List (OGeom UInt64) × Toks)
      | 0, ts => some ([], ts)
      | n+1, ts => do
        let (g, ts) ← ogeomP ts
        let (gs, ts) ← go n ts
        pure (g :: gs, ts)
    let (gs, ts) ← go n ts
    pure (.coll gs, ts)
  | ts => (geom ts).map fun (g, ts) => (.geom g, ts)

partial def showOGeom : OGeom UInt64 → String
  | .nil => "nil"
  | .geom g => showGeom g
  | .coll gs => gs.foldl (fun s g => s ++ " " ++ showOGeom g) ("C " ++ toString gs.length)

partial def mapOGeom {α β} (f : α → β) : OGeom α → OGeom β
  | .nil => .nil
  | .geom g => .geom (mapGeom f g)
  | .coll gs => .coll (gs.map (mapOGeom f))

def showRO (r : R (OGeom Float)) : String :=
  match r with
  | .ok g => showOGeom (mapOGeom Float.toBits g)
  | .err _ => "diverges"
  | .panic _ => "panic"

def liftR {β γ} (f : β → γ) (r : R β) : R γ :=
  match r with
  | .ok b => .ok (f b)
  | .err e => .err e
  | .panic w => .panic w

/-- the typed method for the value's kind (`none` for points, multipoints, bounds) -/
def typedModel (s : Simplifier Float) (g : Geom Float) : Option (R (OGeom Float)) :=
  match g with
  | .lineString l => some (liftR (fun l => .geom (.lineString l)) (lineString s l))
  | .multiLineString l => some (liftR (fun l => .geom (.multiLineString l)) (multiLineString s l))
  | .ring l => some (liftR (fun l => .geom (.ring l)) (ring s l))
  | .polygon l => some (liftR (fun l => .geom (.polygon l)) (polygon s l))
  | .multiPolygon l => some (liftR (fun l => .geom (.multiPolygon l)) (multiPolygon s l))
  | .collection l => some (liftR (fun l => .coll l) (collection s l))
  | _ => none

/-- the type switch's rule: a typed result of length 0 becomes a nil interface -/
def wrapTyped : OGeom UInt64 → OGeom UInt64
  | .geom (.lineString []) | .geom (.multiLineString []) | .geom (.ring []) | .geom (.polygon [])
  | .geom (.multiPolygon []) | .coll [] => .nil
  | g => g

def validLine (inp out : List BPt) : Bool :=
  isSub out inp &&
  (match inp.head?, inp.getLast?, out.head?, out.getLast? with
   | none, _, none, _ => true
   | some a, some b, some c, some d => bEq a c && bEq b d
   | _, _, _, _ => false)

/-- rings after the first may vanish; the others are simplifications, in order -/
def matchRings : List (List BPt) → List (List BPt) → Bool
  | _, [] => true
  | [], _ :: _ => false
  | i :: is, o :: os => if validLine i o then matchRings is os else matchRings is (o :: os)

def validPolygon (inp out : List (List BPt)) : Bool :=
  match inp, out with
  | [], [] => true
  | i :: is, o :: os => validLine i o && matchRings is os
  | _, _ => false

def matchPolys : List (List (List BPt)) → List (List (List BPt)) → Bool
  | _, [] => true
  | [], _ :: _ => false
  | i :: is, o :: os => if validPolygon i o then matchPolys is os else matchPolys is (o :: os)

/-- every vertex list of the result is an in-order subsequence with the same end points of the
    input member it comes from; only inner rings and whole polygons may disappear -/
partial def validOut : Geom UInt64 → OGeom UInt64 → Bool
  | .point p, .geom (.point q) => bEq p q
  | .multiPoint p, .geom (.multiPoint q) => bsEq p q
  | .bound a b, .geom (.bound c d) => bEq a c && bEq b d
  | .lineString i, .geom (.lineString o) => !o.isEmpty && validLine i o
  | .lineString i, .nil => i.isEmpty
  | .ring i, .geom (.ring o) => !o.isEmpty && validLine i o
  | .ring i, .nil => i.isEmpty
  | .multiLineString i, .geom (.multiLineString o) =>
    !o.isEmpty && i.length == o.length && (i.zip o).all fun (a, b) => validLine a b
  | .multiLineString i, .nil => i.isEmpty
  | .polygon i, .geom (.polygon o) => !o.isEmpty && validPolygon i o
  | .polygon i, .nil => i.isEmpty
  | .multiPolygon i, .geom (.multiPolygon o) => !o.isEmpty && matchPolys i o
  | .multiPolygon _, .nil => true
  | .collection i, .coll o => !o.isEmpty && i.length == o.length && (i.zip o).all fun (a, b) => validOut a b
  | .collection i, .nil => i.isEmpty
  | _, _ => false

def kindTag : Geom UInt64 → String
  | .point _ => "triv-point" | .multiPoint _ => "triv-multipoint" | .bound _ _ => "triv-bound"
  | .lineString _ => "linestring" | .ring _ => "ring" | .multiLineString _ => "multilinestring"
  | .polygon _ => "polygon" | .multiPolygon _ => "multipolygon" | .collection _ => "collection"

def handleGeom (inp out : Toks) : String :=
  match (do
    let (s, i) ← specP inp
    let (v, _) ← gval i
    pure (s, v)) with
  | none => "bad input"
  | some (s, v) =>
    if (match v with
        | .val g => (coords g).any fun c => !(Float.ofBits c).isFinite
        | _ => false) then "skip nonfinite-coordinate" else
    match splitBar out with
    | [p1, p2] =>
      let sF := simpF s
      let vF := mapGVal Float.ofBits v
      let m1 := showRO (simplifyV sF vF)
      let m2 := match vF with
        | .val g => (match typedModel sF g with | some r => showRO r | none => "none")
        | _ => "none"
      let s1 := " ".intercalate p1
      let s2 := " ".intercalate p2
      let agree := s1 == m1 && s2 == m2
      let nonfinite := s.kind == "vs" && (!(Float.ofBits s.t).isFinite ||
        (match v with
         | .val g => (coords g).any fun c => !((Float.ofBits c).abs < 1.0e150)
         | _ => false))
      let fin (x : String) : String :=
        if nonfinite && (!agree || x.startsWith "propfail panic") then "skip nonfinite-area" else
        if x.startsWith "propfail" || agree then x else "diff " ++ m1 ++ " | " ++ m2
      fin <|
      if s1 == "panic" then "propfail panic Simplify" else
      if s2 == "panic" then "propfail panic typed" else
      match ogeomP p1 with
      | some (o1, []) =>
        let o2? : Option (Option (OGeom UInt64)) :=
          if s2 == "none" then some none else
          match ogeomP p2 with
          | some (o2, []) => some (some o2)
          | _ => none
        (match o2? with
         | none => "bad output typed"
         | some o2? =>
           -- generic Simplify agrees with the typed method
           if (match o2? with | some o2 => showOGeom (wrapTyped o2) != showOGeom o1 | none => false) then
             "propfail generic-vs-typed" else
           match v with
           | .nilIface => if showOGeom o1 == "nil" then "ok triv-nil" else "propfail nil"
           | .nilSlice _ => if showOGeom o1 == "nil" then "ok triv-nilslice" else "propfail nilslice"
           | .val g =>
             if !(validOut g o1) then "propfail members-subseq " ++ kindTag g else
             "ok " ++ kindTag g ++ " " ++ s.kind ++ (if showOGeom o1 == "nil" then " to-nil" else ""))
      | _ => "bad output"
    | _ => "bad output"

def handle (ts : Toks) : String :=
  match ts with
  | op :: rest =>
    let (inp, out) := splitArrow rest
    match op with
    | "line" => handleLine inp out
    | "geom" => handleGeom inp out
    | _ => "bad op " ++ op
  | [] => "bad empty"

end Driver.C12
