import Orb.Proto
import Orb.Tile

/-! Driver for C13 (map tile arithmetic). -/
namespace Driver.C13
open Orb Orb.Proto Orb.Tile

def showTile (t : Tile) : String := s!"{t.x} {t.y} {t.z}"
def showTiles (ts : List Tile) : String := " ".intercalate (ts.map showTile)

def tileP : P Tile := fun ts => do
  let (x, ts) ← nat ts
  let (y, ts) ← nat ts
  let (z, ts) ← nat ts
  pure (⟨x, y, z⟩, ts)

def b2s (b : Bool) : String := if b then "1" else "0"

/-- decidable version of the abstract ancestor relation -/
def isAncestorB (a u : Tile) : Bool :=
  a.z ≤ u.z && a == ancestorAt u (u.z - a.z)

/-- Executable statement of the integer clauses of C13, evaluated on the implementation's outputs. -/
def specTile (t u : Tile) (z2 : Nat)
    (valid : Bool) (qk : Nat) (fq par : Tile) (ch chPar : List Tile)
    (cTU cUT : Bool) (sp : Tile) (rmin rmax : Tile) : Option String :=
  let tv := t.x < 2^t.z && t.y < 2^t.z && t.z ≤ 30
  let uv := u.x < 2^u.z && u.y < 2^u.z && u.z ≤ 30
  if valid != (t.x < 2^t.z % 2^32 && t.y < 2^t.z % 2^32) then some "valid" else
  if !tv then none else
  if fq != t then some "quadkey-roundtrip" else
  if qk ≥ 4^t.z then some "quadkey-range" else
  if par != (if t.z = 0 then t else ancestorAt t 1) then some "parent" else
  if ch.length != 4 then some "children-count" else
  if !(ch.all fun c => c.z = t.z + 1 && c.x < 2^c.z && c.y < 2^c.z) then some "children-valid" else
  if !(ch.eraseDups.length == 4) then some "children-distinct" else
  if !(chPar.all (· == t)) then some "children-parent" else
  if !uv then none else
  if cTU != isAncestorB t u then some "contains-ancestor" else
  if cUT != isAncestorB u t then some "contains-ancestor-rev" else
  -- shared parent = deepest common ancestor
  if !(isAncestorB sp t && isAncestorB sp u) then some "sharedparent-common" else
  let m := min t.z u.z
  if sp.z < m && ancestorAt t (t.z - (sp.z+1)) == ancestorAt u (u.z - (sp.z+1)) then some "sharedparent-deepest" else
  -- range = descendants at zoom z2
  if z2 ≥ t.z && z2 ≤ 30 then
    let k := z2 - t.z
    if rmin != ⟨t.x * 2^k, t.y * 2^k, z2⟩ || rmax != ⟨(t.x+1) * 2^k - 1, (t.y+1) * 2^k - 1, z2⟩ then some "range-descendants" else none
  else if z2 < t.z then
    if rmin != ancestorAt t (t.z - z2) || rmax != rmin then some "range-up" else none
  else none

def handleTile (inp out : Toks) : String :=
  match (do
    let (t, i) ← tileP inp
    let (u, i) ← tileP i
    let (z2, _) ← nat i
    pure (t, u, z2)) with
  | none => "bad input"
  | some (t, u, z2) =>
    let mparent := parent t
    let mch := children t
    let msp := sharedParent t u
    let (mrmin, mrmax) := range t z2
    let model := " ".intercalate
      [ b2s (valid t), toString (quadkey t), showTile (fromQuadkey (quadkey t) t.z), showTile mparent,
        showTiles mch, showTiles (mch.map parent), b2s (contains t u), b2s (contains u t),
        showTile msp, showTile mrmin, showTile mrmax ]
    let got := " ".intercalate out
    let fin (s : String) : String := if s.startsWith "propfail" || model == got then s else "diff " ++ model
    fin <|
    match (do
      let (v, o) ← nat out
      let (qk, o) ← nat o
      let (fq, o) ← tileP o
      let (par, o) ← tileP o
      let (ch, o) ← many tileP 4 o
      let (chp, o) ← many tileP 4 o
      let (ctu, o) ← nat o
      let (cut, o) ← nat o
      let (sp, o) ← tileP o
      let (rmin, o) ← tileP o
      let (rmax, _) ← tileP o
      pure (specTile t u z2 (v == 1) qk fq par ch chp (ctu == 1) (cut == 1) sp rmin rmax)) with
    | none => if out == ["panic"] then "propfail panic" else "bad output"
    | some (some why) => "propfail " ++ why
    | some none =>
      let tag := if t.z ≤ 30 && t.x < 2^t.z && t.y < 2^t.z then (if isAncestorB t u || isAncestorB u t then "ok anc" else "ok pair") else "ok invalid"
      tag

def handleCiz (inp out : Toks) : String :=
  match (do
    let (t, i) ← tileP inp
    let (zs, i) ← nat i
    let (ze, _) ← nat i
    pure (t, zs, ze)) with
  | none => "bad input"
  | some (t, zs, ze) =>
    let model := match childrenInZoomRange t zs ze with
      | none => "panic"
      | some l => (toString l.length) ++ (if l.isEmpty then "" else " " ++ showTiles l)
    let got := " ".intercalate out
    if model != got then "diff " ++ model else
    match childrenInZoomRange t zs ze with
    | none => "ok panic-documented"
    | some l =>
      -- spec: exactly the descendants of t at each zoom in [zs, ze], each once
      let want := (List.range (ze + 1 - zs)).foldl (fun acc k => acc + 4^(zs + k - t.z)) 0
      if l.length != want then "propfail ciz-count"
      else if !(l.all fun c => isAncestorB t c && zs ≤ c.z && c.z ≤ ze) then "propfail ciz-descendant"
      else if l.eraseDups.length != l.length then "propfail ciz-distinct"
      else "ok ciz"

def fbits (f : Float) : String := floatToHex f

/-- `at lon lat z => fx fy tx ty bminx bminy bmaxx bmaxy ctx cty` -/
def handleAt (inp out : Toks) : String :=
  match (do
    let (lon, i) ← bits inp
    let (lat, i) ← bits i
    let (z, _) ← nat i
    let (fx, o) ← bits out
    let (fy, o) ← bits o
    let (tx, o) ← nat o
    let (ty, o) ← nat o
    let (b, o) ← many bits 4 o
    let (ctx, o) ← nat o
    let (cty, _) ← nat o
    pure (lon, lat, z, fx, fy, tx, ty, b, ctx, cty)) with
  | none => "bad at"
  | some (lonb, latb, z, fxb, fyb, tx, ty, b, ctx, cty) =>
    let lon := Float.ofBits lonb
    let lat := Float.ofBits latb
    let maxtiles := (Float.ofNat (2^z % 2^32))
    -- Float twin of the x fraction (same operators, same order as maptile.Fraction)
    let mfx := (lon / 360.0 + 0.5) * maxtiles
    let fx := Float.ofBits fxb
    let fy := Float.ofBits fyb
    -- uint32(f) truncation (f is in range here), then At's clamp to the last column
    let n := 2^z
    let mtx := if fx.floor.toUInt64.toNat ≥ n then n - 1 else fx.floor.toUInt64.toNat
    let agree := mfx.toBits == fxb && mtx == tx && !(fy ≥ 0 && fy < Float.ofNat n && fy.floor.toUInt64.toNat != ty)
    let fin (s : String) : String :=
      if s.startsWith "propfail" || agree then s else s!"diff fx={fbits mfx} tx={mtx}"
    fin <|
    -- property: the tile is valid
    if !(tx < n && ty < n) then "propfail at-valid" else
    match b with
    | [bminx, bminy, bmaxx, bmaxy] =>
      let bminx := Float.ofBits bminx; let bminy := Float.ofBits bminy
      let bmaxx := Float.ofBits bmaxx; let bmaxy := Float.ofBits bmaxy
      if !(bminx ≤ lon && lon ≤ bmaxx) then "propfail at-bound-lon" else
      let clamped := lat < -85.0511 || lat > 85.0511
      -- centre of the found tile; beyond the documented clamp latitude `At` snaps to the edge row
      let clat := (bminy + bmaxy) / 2.0
      let cmb := if clat.abs > 85.0511 then "propfail center-maps-back polar-clamp" else "propfail center-maps-back"
      -- the y fraction goes through sin/log: only judged away from tile edges
      let nearEdge := (fy - fy.round).abs < 1e-9
      if clamped then
        (if lat > 85.0511 && ty != 0 then "propfail at-clamp-north"
         else if lat < -85.0511 && ty != n - 1 then "propfail at-clamp-south"
         else if ctx != tx || cty != ty then cmb
         else "ok clamped")
      else if nearEdge then "skip near-tile-edge"
      else if !(bminy ≤ lat && lat ≤ bmaxy) then "propfail at-bound-lat"
      else if ctx != tx || cty != ty then cmb
      else "ok at"
    | _ => "bad at-bound"

/-- `nbr x y z => tb(4) rb(4) db(4) c0(4) c1(4) c2(4) c3(4)`:
    bounds of the tile, its right and lower neighbours, and its four children. -/
def handleNbr (inp out : Toks) : String :=
  match (do
    let (t, _) ← tileP inp
    let (fs, _) ← many bits 28 out
    pure (t, fs)) with
  | none => "bad nbr"
  | some (_t, fs) =>
    let g (i : Nat) : UInt64 := fs.getD i 0
    -- layout of a bound: minx miny maxx maxy
    let tb := 0; let rb := 4; let db := 8; let c0 := 12; let c1 := 16; let c2 := 20; let c3 := 24
    if g (tb+2) != g (rb+0) then "propfail neighbour-x-edge" else
    if g (tb+1) != g (db+3) then "propfail neighbour-y-edge" else
    -- children: c0 = (2x,2y) top-left, c1 = (2x+1,2y), c2 = (2x+1,2y+1), c3 = (2x,2y+1)
    if g (c0+0) != g (tb+0) || g (c3+0) != g (tb+0) then "propfail children-left" else
    if g (c1+2) != g (tb+2) || g (c2+2) != g (tb+2) then "propfail children-right" else
    if g (c0+3) != g (tb+3) || g (c1+3) != g (tb+3) then "propfail children-top" else
    if g (c2+1) != g (tb+1) || g (c3+1) != g (tb+1) then "propfail children-bottom" else
    if g (c0+2) != g (c1+0) || g (c3+2) != g (c2+0) then "propfail children-mid-x" else
    if g (c0+1) != g (c3+3) || g (c1+1) != g (c2+3) then "propfail children-mid-y" else
    "ok nbr"

def handle (ts : Toks) : String :=
  match ts with
  | op :: rest =>
    let (inp, out) := splitArrow rest
    match op with
    | "tile" => handleTile inp out
    | "ciz" => handleCiz inp out
    | "at" => handleAt inp out
    | "nbr" => handleNbr inp out
    | _ => "bad op " ++ op
  | [] => "bad empty"

end Driver.C13
