import Orb.Proto
import Orb.Tile
import Orb.TileGeo

/-! Driver for C13 (map tile arithmetic). -/
namespace Driver.C13
open Orb Orb.Proto Orb.Tile Orb.TileGeo

def showTile (t : Tile) : String := s!"{t.x} {t.y} {t.z}"
def showTiles (ts : List Tile) : String := " ".intercalate (ts.map showTile)

def tileP : P Tile := fun ts => do
  let (x, ts) ← nat ts
  let (y, ts) ← nat ts
  let (z, ts) ← nat ts
  pure (⟨x, y, z⟩, ts)

def b2s (b : Bool) : String := if b then "1" else "0"

/-- decidable version of the abstract ancestor relation -/
def isAncestorB (a u : Tile) : Bool :=
  a.z ≤ u.z && a == ancestorAt u (u.z - a.z)

/-- Executable statement of the integer clauses of C13, evaluated on the implementation's outputs. -/
def specTile (t u : Tile) (z2 : Nat)
    (valid : Bool) (qk : Nat) (fq par : Tile) (ch chPar : List Tile)
    (cTU cUT : Bool) (sp : Tile) (rmin rmax : Tile) : Option String :=
  let tv := t.x < 2^t.z && t.y < 2^t.z && t.z ≤ 30
  let uv := u.x < 2^u.z && u.y < 2^u.z && u.z ≤ 30
  if valid != (t.x < 2^t.z % 2^32 && t.y < 2^t.z % 2^32) then some "valid" else
  if !tv then none else
  if fq != t then some "quadkey-roundtrip" else
  if qk ≥ 4^t.z then some "quadkey-range" else
  if par != (if t.z = 0 then t else ancestorAt t 1) then some "parent" else
  if ch.length != 4 then some "children-count" else
  if !(ch.all fun c => c.z = t.z + 1 && c.x < 2^c.z && c.y < 2^c.z) then some "children-valid" else
  if !(ch.eraseDups.length == 4) then some "children-distinct" else
  if !(chPar.all (· == t)) then some "children-parent" else
  if !uv then none else
  if cTU != isAncestorB t u then some "contains-ancestor" else
  if cUT != isAncestorB u t then some "contains-ancestor-rev" else
  -- shared parent = deepest common ancestor
  if !(isAncestorB sp t && isAncestorB sp u) then some "sharedparent-common" else
  let m := min t.z u.z
  if sp.z < m && ancestorAt t (t.z - (sp.z+1)) == ancestorAt u (u.z - (sp.z+1)) then some "sharedparent-deepest" else
  -- range = descendants at zoom z2
  if z2 ≥ t.z && z2 ≤ 30 then
    let k := z2 - t.z
    if rmin != ⟨t.x * 2^k, t.y * 2^k, z2⟩ || rmax != ⟨(t.x+1) * 2^k - 1, (t.y+1) * 2^k - 1, z2⟩ then some "range-descendants" else none
  else if z2 < t.z then
    if rmin != ancestorAt t (t.z - z2) || rmax != rmin then some "range-up" else none
  else none

def handleTile (inp out : Toks) : String :=
  match (do
    let (t, i) ← tileP inp
    let (u, i) ← tileP i
    let (z2, _) ← nat i
    pure (t, u, z2)) with
  | none => "bad input"
  | some (t, u, z2) =>
    let mparent := parent t
    let mch := children t
    let msp := sharedParent t u
    let (mrmin, mrmax) := range t z2
    let model := " ".intercalate
      [ b2s (valid t), toString (quadkey t), showTile (fromQuadkey (quadkey t) t.z), showTile mparent,
        showTiles mch, showTiles (mch.map parent), b2s (contains t u), b2s (contains u t),
        showTile msp, showTile mrmin, showTile mrmax ]
    let got := " ".intercalate out
    -- a `propfail` outranks a `diff` but does not hide it
    let fin (s : String) : String :=
      if model == got then s
      else if s.startsWith "propfail" then s ++ " | diff " ++ model
      else "diff " ++ model
    fin <|
    match (do
      let (v, o) ← nat out
      let (qk, o) ← nat o
      let (fq, o) ← tileP o
      let (par, o) ← tileP o
      let (ch, o) ← many tileP 4 o
      let (chp, o) ← many tileP 4 o
      let (ctu, o) ← nat o
      let (cut, o) ← nat o
      let (sp, o) ← tileP o
      let (rmin, o) ← tileP o
      let (rmax, _) ← tileP o
      pure (specTile t u z2 (v == 1) qk fq par ch chp (ctu == 1) (cut == 1) sp rmin rmax)) with
    | none => if out == ["panic"] then "propfail panic" else "bad output"
    | some (some why) => "propfail " ++ why
    | some none =>
      let tag := if t.z ≤ 30 && t.x < 2^t.z && t.y < 2^t.z then (if isAncestorB t u || isAncestorB u t then "ok anc" else "ok pair") else "ok invalid"
      tag

def handleCiz (inp out : Toks) : String :=
  match (do
    let (t, i) ← tileP inp
    let (zs, i) ← nat i
    let (ze, _) ← nat i
    pure (t, zs, ze)) with
  | none => "bad input"
  | some (t, zs, ze) =>
    let model := match childrenInZoomRange t zs ze with
      | none => "panic"
      | some l => (toString l.length) ++ (if l.isEmpty then "" else " " ++ showTiles l)
    let got := " ".intercalate out
    if model != got then "diff " ++ model else
    match childrenInZoomRange t zs ze with
    | none => "ok panic-documented"
    | some l =>
      -- spec: exactly the descendants of t at each zoom in [zs, ze], each once
      let want := (List.range (ze + 1 - zs)).foldl (fun acc k => acc + 4^(zs + k - t.z)) 0
      if l.length != want then "propfail ciz-count"
      else if !(l.all fun c => isAncestorB t c && zs ≤ c.z && c.z ≤ ze) then "propfail ciz-descendant"
      else if l.eraseDups.length != l.length then "propfail ciz-distinct"
      else "ok ciz"

def fbits (f : Float) : String := floatToHex f

/-! ### Float twin of `Orb.TileGeo` on top of Go's own libm values

  Go's `math.Sin/Log/Exp/Atan` are not bit-compatible with any libm Lean can call, so every
  geography case carries, after the implementation's outcome, the table `T n (fn arg value)*` of the
  libm calls the Go code makes on this input (recorded by a mirror in the harness, values from Go's
  `math`).  `Orb.TileGeo` is instantiated at `OF` (a `Float` plus an "oracle hit" flag) with
  `mercY := mercYGo L`, `latOf := latOfGo L` and `L.sin/log/exp/atan` reading that table: the model
  redoes ALL the arithmetic of `Fraction/At/Bound/Center/ToGeo` on top of Go's libm values and must
  reproduce the implementation's outputs bit for bit.  An argument the table does not contain
  (`oracle-miss`) means model and code no longer compute the same intermediate values: `diff`.
-/

/-- A `Float` together with "every libm value it depends on was found in the table". -/
structure OF where
  v : Float
  ok : Bool := true
deriving Inhabited

instance : Add OF := ⟨fun a b => ⟨a.v + b.v, a.ok && b.ok⟩⟩
instance : Sub OF := ⟨fun a b => ⟨a.v - b.v, a.ok && b.ok⟩⟩
instance : Mul OF := ⟨fun a b => ⟨a.v * b.v, a.ok && b.ok⟩⟩
instance : Div OF := ⟨fun a b => ⟨a.v / b.v, a.ok && b.ok⟩⟩
instance : Neg OF := ⟨fun a => ⟨-a.v, a.ok⟩⟩
instance : LT OF := ⟨fun a b => a.v < b.v⟩
instance : DecidableLT OF := fun a b => inferInstanceAs (Decidable (a.v < b.v))
instance {n : Nat} : OfNat OF n := ⟨⟨Float.ofNat n, true⟩⟩

def ofB (b : UInt64) : OF := ⟨Float.ofBits b, true⟩

/-- one recorded libm call -/
structure Ent where
  fn : String
  a : UInt64
  v : UInt64

def nanF : Float := Float.ofBits 0x7FF8000000000001

def look (t : Array Ent) (fn : String) (x : OF) : OF :=
  if x.v.isNaN then ⟨nanF, x.ok⟩ else
  match t.find? (fun e => e.fn == fn && e.a == x.v.toBits) with
  | some e => ⟨Float.ofBits e.v, x.ok⟩
  | none => ⟨nanF, false⟩

def entP : P Ent := fun ts =>
  match ts with
  | fn :: ts => do
    let (a, ts) ← bits ts
    let (v, ts) ← bits ts
    pure (⟨fn, a, v⟩, ts)
  | [] => none

def tableP : P (Array Ent) := fun ts =>
  match ts with
  | "T" :: ts => (counted entP ts).map fun (l, ts) => (l.toArray, ts)
  | _ => none

/-- `math.Pi`, `2*math.Pi`, `180.0/math.Pi`, the literal `85.0511` as float64
    (checked against the Go side by the `consts` case). -/
def piBits : UInt64 := 0x400921FB54442D18
def twoPiBits : UInt64 := 0x401921FB54442D18
def d180piBits : UInt64 := 0x404CA5DC1A63C1F8
def latMaxBits : UInt64 := 0x4055434538EF34D7

def mkLibm (t : Array Ent) : Libm OF where
  sin := look t "s"
  log := look t "l"
  atan := look t "a"
  exp := look t "e"
  pi := ofB piBits
  twoPi := ofB twoPiBits
  d180pi := ofB d180piBits

/-- `uint32(f)` on amd64: truncation toward zero to int64, low 32 bits (in range: the floor). -/
def floorU32F (x : OF) : Nat := (x.v.toInt64.toInt % (2 ^ 32 : Int)).toNat

def mkEnv (t : Array Ent) : Env OF where
  mercY := mercYGo (mkLibm t)
  latOf := latOfGo (mkLibm t)
  floorU32 := floorU32F
  ofNat := fun n => ⟨Float.ofNat n, true⟩
  latMax := ofB latMaxBits

/-- bit equality, all NaNs identified -/
def sameF (m : Float) (b : UInt64) : Bool := m.toBits == b || (m.isNaN && (Float.ofBits b).isNaN)

/-- Compare model values with implementation values.  `none` = agree. -/
def cmpAll (ms : List OF) (bs : List UInt64) : Option String :=
  if ms.any (fun m => !m.ok) then some "diff oracle-miss"
  else if ms.length != bs.length then some "diff arity"
  else if (ms.zip bs).all (fun (m, b) => sameF m.v b) then none
  else some ("diff" ++ ms.foldl (fun s m => s ++ " " ++ fbits m.v) "")

def bnd4 (b : Bnd OF) : List OF := [b.min.x, b.min.y, b.max.x, b.max.y]

/-- `consts => pi 2pi -2pi 180/pi 85.0511 -85.0511 0.5` -/
def handleConsts (out : Toks) : String :=
  match many bits 7 out with
  | some (l, _) =>
    let E := mkEnv #[]
    let L := mkLibm #[]
    let want : List Float := [L.pi.v, L.twoPi.v, (-L.twoPi).v, L.d180pi.v, E.latMax.v, (-E.latMax).v, ((1 : OF) / 2).v]
    if want.map Float.toBits == l then "ok consts" else "diff " ++ " ".intercalate (want.map fbits)
  | none => "bad consts"

/-! ### Rounding windows of the `at` clauses — error analysis

  `u = 2^-53` (unit round-off of float64), `n = 2^z`, `fx*`/`fy*` the EXACT tile fractions of the
  float point `(lon, lat)`, `fx`/`fy` the ones `Fraction` computes.  All windows are in tile units and
  therefore carry the factor `2^z`: a fixed window (the former `1e-9`) is ~100× too small at zoom 30.

  LONGITUDE (no libm; everything below is decided exactly, in `Rat`).
  `fx = fl(fl(lon/360) + 0.5) · n`, the product by a power of two being exact.  `|lon/360| ≤ 1/2`, so
  the quotient is off by at most half an ulp of `[1/4,1/2)`, `u/4`; the sum lies in `[0,1]` and is off
  by at most `u/2`.  Hence `|fx − fx*| ≤ (3/4)·u·n < 2^(z−53) =: Wx`.
  `At` takes `tx = ⌊fx⌋` (clamped to the last column), so `tx − Wx < fx*`.  `Bound` computes the west
  edge as `fl(360·(tx/n − 1/2))` with an EXACT inner quotient and difference (`tx < 2^31`), i.e. the
  correctly rounded true edge; for a float `lon`, `lon < bminx` therefore means `fx* < tx`.  (The east
  side cannot fail: `lon > bmaxx` gives `lon/360 > (tx+1)/n − 1/2`, both roundings are monotone and
  `(tx+1)/n − 1/2`, `(tx+1)/n` are floats, so `fx ≥ tx + 1`.)
  So a CORRECT `At`/`Bound` pair violates "the bound contains the longitude" exactly when
  `0 < tx − fx* ≤ Wx` and `lon < bminx`: the sum `lon/360 + 0.5` rounded UP onto the column edge.
  That is a violation of the property as it is written (no libm involved, `At(p,z).Bound().Contains(p)`
  is false for an in-range point next to a tile edge — e.g. every longitude in `(−2·10⁻¹⁴, 0)` at every
  zoom ≥ 1): it is reported, as `propfail at-bound-lon column-edge-rounding` (finding
  C13-at-lon-edge-rounding), and ONLY in that exact situation, decided with exact rationals, and only
  when the Float twin agrees with the implementation.  A column that is off by more than the rounding of
  `At` allows (`tx − fx* > Wx`, or `lon > bmaxx`) is the plain `propfail at-bound-lon`.

  LATITUDE (through Go's `Sin`/`Log` in `Fraction` and `Exp`/`Atan` in `ToGeo`; assumed error of each
  libm call ≤ 2 ulp).  `c = cos φ`, `s = sin φ`, `Y(φ) = 1/2 − ln((1+s)/(1−s))/(4π)`, `dY/ds = −1/(2π c²)`,
  `dY/dφ° = −1/(360 c)`; unclamped latitudes have `c ≥ 0.0872`.
   * `Fraction`: the argument `φ·π/180` carries ≤ 3u relative (π, ·, /), i.e. ≤ 4.5u absolute, which
     moves `s` by ≤ 4.5u·c; `Sin` adds ≤ 2u: `δs ≤ 6.5u`, i.e. `δY ≤ 6.5u/(2π c²) ≤ 1.1u/c²`.
     `1 − s` is exact for `s ≥ 1/2` (else ≤ u relative), `1 + s`, the quotient: ≤ u relative each, `Log`
     ≤ 2u relative of a value ≤ 2π: `δ ln ≤ 3u + 4πu`, divided by 4π: ≤ 1.3u.  The quotient by `−2π`
     (constant ≤ u/2, division ≤ u, of a value ≤ 1/2) ≤ 0.8u, the final sum ≤ u/2.
     Together `δY_fraction ≤ (1.1/c² + 2.6)·u`.
   * `ToGeo` (the edge latitudes of `Bound`): the argument of `Exp` is off by ≤ 13u, `Exp` adds 2u
     relative, `Atan` turns a relative 15u of its argument into ≤ 7.5u and adds ≤ 2u·π/2; times 2, times
     `180/π`, three more roundings and `− 90` (half-ulp 64u): ≤ 1650u degrees, i.e. `δY_bound ≤ 4.6u/c`.
  Sum `≤ (1.1 + 2.6 + 4.6)·u/c² = 8.3u/c²`; with a safety factor ≈ 2 the window is
      `Wy(z, φ) = 16·u·2^z / c² = 2^(z−49) / cos²φ`   tiles
  (2.4·10⁻⁷ tile at zoom 20, 2.5·10⁻⁴ tile at zoom 30, both at |φ| = 85°; the largest deviation a
  2·10⁷-sample search found at zoom 30 is 2.5·10⁻⁶ tile).  A point whose computed `fy` is within `Wy` of a
  row edge may legitimately be given either adjacent row, and the float bound of that row may miss the
  latitude by at most `2·Wy` tiles, i.e. `tolLat = 2·Wy/2^z·360·c = 2^(−48)·360/cos φ` degrees
  (≤ 1.5·10⁻¹¹°; one tile row at zoom 30 is ≥ 2.9·10⁻⁸° high).  Such a case is `skip near-tile-edge`
  when the exact float containment fails within `tolLat`, judged normally when it holds; beyond
  `tolLat`, or farther than `Wy` from an edge, a latitude outside the bound is `propfail at-bound-lat` —
  so a genuinely wrong row (off by a whole tile) is always a failure.
-/

/-- `Wx = 2^(z−53)` tiles, as an exact rational. -/
def lonWindow (z : Nat) : Rat := (2 : Rat) ^ z / (2 : Rat) ^ 53

/-- `cos` of a latitude in degrees (tolerance computation only; its own rounding is irrelevant). -/
def cosDeg (lat : Float) : Float := Float.cos (lat * 3.141592653589793 / 180.0)

/-- `Wy(z, φ) = 2^(z−49) / cos²φ` tiles. -/
def latWindow (z : Nat) (lat : Float) : Float :=
  let c := cosDeg lat
  Float.ofNat (2 ^ z) / 562949953421312.0 / (c * c)

/-- `tolLat(φ) = 2^(−48)·360 / cos φ` degrees. -/
def latTol (lat : Float) : Float := 360.0 / 281474976710656.0 / cosDeg lat

/-- Is the failed longitude containment EXACTLY the documented rounding of `lon/360 + 0.5` onto the
    west edge of the found column (see the analysis above)?  Exact rational arithmetic. -/
def lonEdgeRounding (lonb : UInt64) (z tx : Nat) : Bool :=
  match bitsToRat? lonb with
  | none => false
  | some q =>
    let fxq : Rat := (q / 360 + 1 / 2) * (2 : Rat) ^ z
    let d : Rat := (tx : Rat) - fxq
    decide (0 < d) && decide (d ≤ lonWindow z)

/-- `at lon lat z => fx fy tx ty bminx bminy bmaxx bmaxy ctx cty cx cy cfx cfy T…` -/
def handleAt (inp out : Toks) : String :=
  match (do
    let (lon, i) ← bits inp
    let (lat, i) ← bits i
    let (z, _) ← nat i
    let (fx, o) ← bits out
    let (fy, o) ← bits o
    let (tx, o) ← nat o
    let (ty, o) ← nat o
    let (b, o) ← many bits 4 o
    let (ctx, o) ← nat o
    let (cty, o) ← nat o
    let (c, o) ← many bits 4 o
    let (t, _) ← tableP o
    pure (lon, lat, z, fx, fy, tx, ty, b, ctx, cty, c, t)) with
  | none => if out == ["panic"] then "propfail panic" else "bad at"
  | some (lonb, latb, z, fxb, fyb, tx, ty, b, ctx, cty, c, tbl) =>
    let lon := Float.ofBits lonb
    let lat := Float.ofBits latb
    let fy := Float.ofBits fyb
    -- the Float twin: Fraction, At, Bound of the found tile, its Center, Fraction and At of the centre
    let E := mkEnv tbl
    let ll : Pt OF := ⟨ofB lonb, ofB latb⟩
    let mf := fraction E ll z
    let mt := at_ E ll z
    let mb := bound E mt 0
    let mc := center E mt
    let mcf := fraction E mc z
    let mct := at_ E mc z
    let agree :=
      match cmpAll ([mf.x, mf.y] ++ bnd4 mb ++ [mc.x, mc.y, mcf.x, mcf.y]) ([fxb, fyb] ++ b ++ c) with
      | some d => some d
      | none =>
        if mt.x == tx && mt.y == ty && mct.x == ctx && mct.y == cty then none
        else some s!"diff tile={mt.x},{mt.y} centre-tile={mct.x},{mct.y}"
    -- a `propfail` outranks a `diff` but never hides it: the diff is appended.  The labels of the two
    -- known findings are chosen below only when `agree = none`.
    let fin (s : String) : String :=
      match agree with
      | none => s
      | some d => if s.startsWith "propfail" then s ++ " | " ++ d else d
    let same := agree.isNone
    fin <|
    -- zooms beyond the property's quantifier (0..30): correspondence only.  From zoom 32 on
    -- `uint32(1) << z` is 0 (the `max != 0` guard of `At`) and `Fraction`'s `maxtiles` is 0.
    if z > 30 then (if z ≥ 32 then "ok at-zoom-beyond shift-wrapped" else "ok at-zoom-beyond") else
    -- a NaN latitude is not a latitude: correspondence only (`Fraction` returns NaN, `uint32(NaN)` is
    -- whatever the platform makes of it)
    if lat.isNaN then "ok at-lat-nan correspondence-only" else
    -- longitudes outside [-180, 180] are outside the quantifier: the longitude clause is not judged
    -- (validity, the latitude / clamp clauses, the centre clause and the bit-exact twin all are)
    let lonIn := -180 ≤ lon && lon ≤ 180
    let n := 2^z
    -- property: the tile is valid
    if !(tx < n && ty < n) then "propfail at-valid" else
    match b, c with
    | [bminx, bminy, bmaxx, bmaxy], [_, cyb, _, _] =>
      let bminx := Float.ofBits bminx; let bminy := Float.ofBits bminy
      let bmaxx := Float.ofBits bmaxx; let bmaxy := Float.ofBits bmaxy
      -- longitude clause: `none` = holds; the label of finding C13-at-lon-edge-rounding only in the exact
      -- documented situation (see the analysis above), model and implementation in agreement
      let lonKnown := "propfail at-bound-lon column-edge-rounding"
      let lonV : Option String :=
        if !lonIn then none
        else if bminx ≤ lon && lon ≤ bmaxx then none
        else if same && lon < bminx && lon ≤ bmaxx && lonEdgeRounding lonb z tx then some lonKnown
        else some "propfail at-bound-lon"
      let clamped := lat < -85.0511 || lat > 85.0511
      -- centre of the found tile, as the implementation computed it.  Beyond the documented clamp
      -- latitude `At` snaps to the edge row: known finding C13-polar-clamp-center, whose label is given
      -- ONLY in the documented situation — centre latitude beyond the clamp, tile not in the edge row,
      -- centre sent to the edge row OF THE SAME COLUMN, model and implementation in agreement.
      let clat := Float.ofBits cyb
      let polar :=
        same && ctx == tx &&
          ((clat > 85.0511 && ty != 0 && cty == 0) || (clat < -85.0511 && ty != n - 1 && cty == n - 1))
      let polarKnown := "propfail center-maps-back polar-clamp"
      let cmb := if polar then polarKnown else "propfail center-maps-back"
      let centreOk := ctx == tx && cty == ty
      -- latitude and centre clauses
      let rest : String :=
        if clamped then
          (if lat > 85.0511 && ty != 0 then "propfail at-clamp-north"
           else if lat < -85.0511 && ty != n - 1 then "propfail at-clamp-south"
           else if !centreOk then cmb
           -- `beyond-pole`: |lat| > 90, where a clamp decided on sin(lat) instead of lat folds back
           else if lat.abs > 90 then (if lat.isInf then "ok clamped beyond-pole inf" else "ok clamped beyond-pole")
           else "ok clamped")
        else
          -- the y fraction goes through sin/log: judged exactly away from row edges, within `tolLat` next to one
          let nearEdge := (fy - fy.round).abs < latWindow z lat
          let inLat := bminy ≤ lat && lat ≤ bmaxy
          let tol := latTol lat
          let inLatTol := bminy - tol ≤ lat && lat ≤ bmaxy + tol
          if !inLat && !(nearEdge && inLatTol) then "propfail at-bound-lat"
          else if !centreOk then cmb
          else if !inLat then "skip near-tile-edge"
          else if nearEdge then "ok at row-edge"
          else "ok at"
      -- a failure that is NOT a known finding is never absorbed by the label of one
      (match lonV with
       | none => if !lonIn && rest.startsWith "ok" then rest ++ " lon-beyond" else rest
       | some l =>
         if l != lonKnown then l
         else if rest.startsWith "propfail" && rest != polarKnown then rest
         else l)
    | _, _ => "bad at-bound"

/-- The hypotheses of `Orb.TileGeo.neighbours_share_edges_any` at carrier `Float` (all of them
    pointwise in the tile), checked bit for bit; `some name` = the first one that fails.  The clamp
    hypotheses are only meaningful (and only checked) for rows inside the pyramid, `y + 1 ≤ 2^z ≤ 2^31`. -/
def floatHypFails (t : Tile) : Option String :=
  let E := mkEnv #[]
  let eq (a b : Float) : Bool := a.toBits == b.toBits
  let x := (E.ofNat t.x).v
  let y := (E.ofNat t.y).v
  if !eq (E.ofNat (t.x + 1)).v (x + 1) then some "succ-x"
  else if !eq (E.ofNat (t.y + 1)).v (y + 1) then some "succ-y"
  else if !eq (x + 1 + 0) (x + 1) then some "add0-x"
  else if !eq (y + 1 + 0) (y + 1) then some "add0-y"
  else if !eq (x + 1 - 0) (x + 1) then some "sub0-x"
  else if !eq (y + 1 - 0) (y + 1) then some "sub0-y"
  else if t.z ≤ 31 && t.y + 1 ≤ 2 ^ t.z && (maxTiles32 E t.z).v < y + 1 then some "noclampN"
  else if y + 1 < 0 then some "noclamp0"
  else none

/-- Executable statement of "neighbours share their edge coordinates exactly, the children's bounds
    tile the parent's" on the 7 bounds the implementation returned (layout: minx miny maxx maxy). -/
def nbrSpec (fs : List UInt64) : String :=
  let g (i : Nat) : UInt64 := fs.getD i 0
  let tb := 0; let rb := 4; let db := 8; let c0 := 12; let c1 := 16; let c2 := 20; let c3 := 24
  if g (tb+2) != g (rb+0) then "propfail neighbour-x-edge" else
  if g (tb+1) != g (db+3) then "propfail neighbour-y-edge" else
  -- children: c0 = (2x,2y) top-left, c1 = (2x+1,2y), c2 = (2x+1,2y+1), c3 = (2x,2y+1)
  if g (c0+0) != g (tb+0) || g (c3+0) != g (tb+0) then "propfail children-left" else
  if g (c1+2) != g (tb+2) || g (c2+2) != g (tb+2) then "propfail children-right" else
  if g (c0+3) != g (tb+3) || g (c1+3) != g (tb+3) then "propfail children-top" else
  if g (c2+1) != g (tb+1) || g (c3+1) != g (tb+1) then "propfail children-bottom" else
  if g (c0+2) != g (c1+0) || g (c3+2) != g (c2+0) then "propfail children-mid-x" else
  if g (c0+1) != g (c3+3) || g (c1+1) != g (c2+3) then "propfail children-mid-y" else
  "ok nbr"

/-- `nbr x y z => tb(4) rb(4) db(4) c0(4) c1(4) c2(4) c3(4) T…`:
    bounds of the tile, its right and lower neighbours, and its four children. -/
def handleNbr (inp out : Toks) : String :=
  match (do
    let (t, _) ← tileP inp
    let (fs, o) ← many bits 28 out
    let (tbl, _) ← tableP o
    pure (t, fs, tbl)) with
  | none => if out == ["panic"] then "propfail panic" else "bad nbr"
  | some (t, fs, tbl) =>
    -- the Float twin: the seven bounds
    let E := mkEnv tbl
    let tiles : List Tile := [t, ⟨add32 t.x 1, t.y, t.z⟩, ⟨t.x, add32 t.y 1, t.z⟩] ++ children t
    let agree := cmpAll (tiles.flatMap fun u => bnd4 (bound E u 0)) fs
    -- a `propfail` outranks a `diff` but does not hide it
    let fin (s : String) : String :=
      match agree with
      | none => s
      | some d => if s.startsWith "propfail" then s ++ " | " ++ d else d
    let spec := nbrSpec fs
    fin <|
    if spec.startsWith "propfail" then spec else
    -- the POINTWISE hypotheses of `neighbours_share_edges_any`, evaluated in float64 (bitwise) for this
    -- tile: they are what makes that theorem speak about the Float twin compared above
    match floatHypFails t with
    | some h => "diff float-hyp " ++ h
    | none => spec

/-- `bnd x y z buffer => buffered(4) plain(4) T…`: `Tile.Bound(buffer)` with its two clamps. -/
def handleBnd (inp out : Toks) : String :=
  match (do
    let (t, i) ← tileP inp
    let (buf, _) ← bits i
    let (fs, o) ← many bits 8 out
    let (tbl, _) ← tableP o
    pure (t, buf, fs, tbl)) with
  | none => if out == ["panic"] then "propfail panic" else "bad bnd"
  | some (t, bufb, fs, tbl) =>
    let E := mkEnv tbl
    let buf := ofB bufb
    match cmpAll (bnd4 (bound E t buf) ++ bnd4 (bound E t 0)) fs with
    | some d => d
    | none =>
      let y := Float.ofNat t.y
      let n := Float.ofNat (2 ^ t.z)
      let lo := y - buf.v < 0
      let hi := y + 1 + buf.v > n
      if buf.v == 0 then "ok bnd-nobuffer"
      else if lo && hi then "ok bnd-clamp-both"
      else if lo then "ok bnd-clamp-top"
      else if hi then "ok bnd-clamp-bottom"
      else "ok bnd-buffer"

def handle (ts : Toks) : String :=
  match ts with
  | op :: rest =>
    let (inp, out) := splitArrow rest
    match op with
    | "tile" => handleTile inp out
    | "ciz" => handleCiz inp out
    | "at" => handleAt inp out
    | "nbr" => handleNbr inp out
    | "bnd" => handleBnd inp out
    | "consts" => handleConsts out
    | _ => "bad op " ++ op
  | [] => "bad empty"

end Driver.C13
