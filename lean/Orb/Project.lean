/-
  Orb.Project — model of package project (projections.go, helpers.go), of
  internal/mercator (ToPlanar / ToGeo) and of the tile projection of encoding/mvt
  (projection.go; layer.go: Layer.ProjectToTile / ProjectToWGS84 and Layers.ProjectTo* as
  `layerProjectTo*` / `layersProjectTo*`).  Core Lean only.

  * `geometryM` is `project.Geometry` with a *stateful* point function (`orb.Projection` is an
    arbitrary Go closure): the state is threaded in the order in which the Go code calls `proj`, so
    "every vertex is transformed exactly once, in order" is a statement about this model.
  * libm functions (`sin log atan exp tan`), `floor`, `math.Max/Min` and the constants that Go folds
    at compile time (`2*math.Pi`, `180.0/math.Pi`, `orb.EarthRadius*math.Pi`, `0.9999`, …) are the
    fields of `MFn α`: opaque over a field (theorems with named hypotheses), table-backed over
    `Float` (the driver redoes the arithmetic bit for bit on Go's own libm values).
-/
import Orb.Basic
import Orb.Core

namespace Orb.Project
open Orb Orb.Core

/-! ### project/helpers.go -/

/-- `orb.Projection` as a function that may carry state (a Go closure). -/
abbrev Proj (σ α : Type) := Pt α → σ → Pt α × σ

section helpers
variable {σ α : Type}

/-- `project.MultiPoint` / `LineString` / `Ring`: `for i := range mp { mp[i] = proj(mp[i]) }`. -/
def ptsM (proj : Proj σ α) : List (Pt α) → σ → List (Pt α) × σ
  | [], s => ([], s)
  | p :: ps, s =>
    let r := proj p s
    let rs := ptsM proj ps r.2
    (r.1 :: rs.1, rs.2)

/-- `project.MultiLineString` / `Polygon`. -/
def ptssM (proj : Proj σ α) : List (List (Pt α)) → σ → List (List (Pt α)) × σ
  | [], s => ([], s)
  | l :: ls, s =>
    let r := ptsM proj l s
    let rs := ptssM proj ls r.2
    (r.1 :: rs.1, rs.2)

/-- `project.MultiPolygon`. -/
def ptsssM (proj : Proj σ α) : List (List (List (Pt α))) → σ → List (List (List (Pt α))) × σ
  | [], s => ([], s)
  | l :: ls, s =>
    let r := ptssM proj l s
    let rs := ptsssM proj ls r.2
    (r.1 :: rs.1, rs.2)

variable [LT α] [LE α] [DecidableLT α] [DecidableLE α] [Min α] [Max α]

/-- `project.Bound`: `min := proj(b.Min); Bound{min, min}.Extend(proj(b.Max))`. -/
def boundOf (a b : Pt α) : Bound α := (Bound.mk a a).extend b

/-- `project.Geometry` on a non-nil geometry. -/
def geometryM (proj : Proj σ α) : Geom α → σ → Geom α × σ
  | .point p, s => let r := proj p s; (.point r.1, r.2)
  | .multiPoint ps, s => let r := ptsM proj ps s; (.multiPoint r.1, r.2)
  | .lineString ps, s => let r := ptsM proj ps s; (.lineString r.1, r.2)
  | .ring ps, s => let r := ptsM proj ps s; (.ring r.1, r.2)
  | .multiLineString ls, s => let r := ptssM proj ls s; (.multiLineString r.1, r.2)
  | .polygon rs, s => let r := ptssM proj rs s; (.polygon r.1, r.2)
  | .multiPolygon ps, s => let r := ptsssM proj ps s; (.multiPolygon r.1, r.2)
  | .bound lo hi, s =>
    let a := proj lo s
    let b := proj hi a.2
    let bb := boundOf a.1 b.1
    (.bound bb.lo bb.hi, b.2)
  | .collection gs, s => let r := go gs s; (.collection r.1, r.2)
where
  go : List (Geom α) → σ → List (Geom α) × σ
    | [], s => ([], s)
    | g :: gs, s =>
      let r := geometryM proj g s
      let rs := go gs r.2
      (r.1 :: rs.1, rs.2)

/-- `project.Geometry` including the nil interface and typed nil slices (returned as they are). -/
def geometryVM (proj : Proj σ α) : GVal α → σ → GVal α × σ
  | .nilIface, s => (.nilIface, s)
  | .nilSlice k, s => (.nilSlice k, s)
  | .val g, s => let r := geometryM proj g s; (.val r.1, r.2)

/-- `project.Geometry` with a pure point function. -/
def geometry (f : Pt α → Pt α) (g : Geom α) : Geom α :=
  (geometryM (σ := Unit) (fun p s => (f p, s)) g ()).1

end helpers

/-! ### specification side of `project.Geometry` -/

/-- every vertex of a geometry, in storage order (a bound contributes Min then Max) -/
def verts {α : Type} : Geom α → List (Pt α)
  | .point p => [p]
  | .multiPoint ps | .lineString ps | .ring ps => ps
  | .multiLineString ls | .polygon ls => ls.flatten
  | .multiPolygon ps => ps.flatten.flatten
  | .bound a b => [a, b]
  | .collection gs => go gs
where
  go : List (Geom α) → List (Pt α)
    | [] => []
    | g :: gs => verts g ++ go gs

/-- kind, nesting and member counts of a geometry: the geometry with its coordinates erased -/
def shape {α : Type} : Geom α → Geom Unit
  | .point _ => .point ⟨(), ()⟩
  | .multiPoint ps => .multiPoint (ps.map fun _ => ⟨(), ()⟩)
  | .lineString ps => .lineString (ps.map fun _ => ⟨(), ()⟩)
  | .ring ps => .ring (ps.map fun _ => ⟨(), ()⟩)
  | .multiLineString ls => .multiLineString (ls.map fun l => l.map fun _ => ⟨(), ()⟩)
  | .polygon ls => .polygon (ls.map fun l => l.map fun _ => ⟨(), ()⟩)
  | .multiPolygon ps => .multiPolygon (ps.map fun p => p.map fun l => l.map fun _ => ⟨(), ()⟩)
  | .bound _ _ => .bound ⟨(), ()⟩ ⟨(), ()⟩
  | .collection gs => .collection (go gs)
where
  go : List (Geom α) → List (Geom Unit)
    | [] => []
    | g :: gs => shape g :: go gs

/-- cut a flat list into rows of the given lengths -/
def unflatten {β γ : Type} : List (List γ) → List β → List (List β)
  | [], _ => []
  | l :: ls, qs => qs.take l.length :: unflatten ls (qs.drop l.length)

section fill
variable {α : Type} [LT α] [LE α] [DecidableLT α] [DecidableLE α] [Min α] [Max α]

/-- The geometry of the same kind, nesting and member counts as `g` whose vertices are the
    consecutive elements of `qs`; a bound becomes the box of its two new corners. -/
def fill : Geom α → List (Pt α) → Geom α
  | .point p, qs => .point (qs.headD p)
  | .multiPoint ps, qs => .multiPoint (qs.take ps.length)
  | .lineString ps, qs => .lineString (qs.take ps.length)
  | .ring ps, qs => .ring (qs.take ps.length)
  | .multiLineString ls, qs => .multiLineString (unflatten ls qs)
  | .polygon ls, qs => .polygon (unflatten ls qs)
  | .multiPolygon ps, qs => .multiPolygon (fillPolys ps qs)
  | .bound a b, qs =>
    let bb := boundOf (qs.headD a) ((qs.drop 1).headD b)
    .bound bb.lo bb.hi
  | .collection gs, qs => .collection (go gs qs)
where
  fillPolys : List (List (List (Pt α))) → List (Pt α) → List (List (List (Pt α)))
    | [], _ => []
    | p :: ps, qs => unflatten p qs :: fillPolys ps (qs.drop p.flatten.length)
  go : List (Geom α) → List (Pt α) → List (Geom α)
    | [], _ => []
    | g :: gs, qs => fill g qs :: go gs (qs.drop (verts g).length)

end fill

/-! ### internal/mercator and project/projections.go -/

/-- External functions and compile-time constants. -/
structure MFn (α : Type) where
  sin : α → α
  log : α → α
  atan : α → α
  exp : α → α
  tan : α → α
  floor : α → α
  max : α → α → α
  min : α → α → α
  /-- `float64(uint64(n))` -/
  ofNat : Nat → α
  pi : α
  /-- the constant `2*math.Pi` -/
  twoPi : α
  /-- the constant `math.Pi/2.0` -/
  piHalf : α
  /-- the constant `180.0/math.Pi` -/
  d180pi : α
  /-- `orb.EarthRadius` -/
  R : α
  /-- the constant `earthRadiusPi = orb.EarthRadius * math.Pi` -/
  rPi : α
  /-- the constant `earthRadiusPi / 180.0` -/
  rPi180 : α
  /-- the literal `0.9999` -/
  c9999 : α

section merc
variable {α : Type} [Add α] [Sub α] [Mul α] [Div α] [Neg α] [LT α] [DecidableLT α]
  [OfNat α 0] [OfNat α 1] [OfNat α 2] [OfNat α 90] [OfNat α 180] [OfNat α 360]

/-- `maxtiles := float64(uint64(1 << level))` (the shift wraps to 0 from level 64 on). -/
def maxTiles (F : MFn α) (level : Nat) : α := F.ofNat ((2 ^ level) % 2 ^ 64)

/-- `mercator.ToPlanar(lng, lat, level)` with the top-of-the-world clamp. -/
def toPlanar (F : MFn α) (level : Nat) (g : Pt α) : Pt α :=
  let maxtiles := maxTiles F level
  let x := (g.x / 360 + 1 / 2) * maxtiles
  let siny := F.sin (g.y * F.pi / 180)
  let y :=
    if siny < -F.c9999 then 0
    else if F.c9999 < siny then maxtiles - 1
    else (1 / 2 + 1 / 2 * F.log ((1 + siny) / (1 - siny)) / (-F.twoPi)) * maxtiles
  ⟨x, y⟩

/-- `mercator.ToGeo(x, y, level)`. -/
def toGeo (F : MFn α) (level : Nat) (p : Pt α) : Pt α :=
  let maxtiles := maxTiles F level
  let lng := 360 * (p.x / maxtiles - 1 / 2)
  let lat := 2 * F.atan (F.exp (F.pi - F.twoPi * (p.y / maxtiles))) * F.d180pi - 90
  ⟨lng, lat⟩

/-- `project.WGS84.ToMercator` (with the clamp of y to ±earthRadiusPi). -/
def wgs84ToMercator (F : MFn α) (g : Pt α) : Pt α :=
  let y := F.log (F.tan ((90 + g.y) * F.pi / 360)) * F.R
  ⟨F.rPi180 * g.x, F.max (-F.rPi) (F.min y F.rPi)⟩

/-- `project.Mercator.ToWGS84`. -/
def mercatorToWGS84 (F : MFn α) (p : Pt α) : Pt α :=
  ⟨180 * p.x / F.rPi, F.d180pi * (2 * F.atan (F.exp (p.y / F.R)) - F.piHalf)⟩

/-! ### encoding/mvt/projection.go -/

/-- `mvt.projection`. -/
structure TileProj (α : Type) where
  toTile : Pt α → Pt α
  toWGS84 : Pt α → Pt α

/-- The power-of-two path with abstract planar/geo maps: floor on the way in,
    `+0.5` (pixel centre) on the way out. -/
def pow2Proj (floor : α → α) (P G : Pt α → Pt α) (minx miny : α) : TileProj α where
  toTile := fun p => let q := P p; ⟨floor (q.x - minx), floor (q.y - miny)⟩
  toWGS84 := fun p => G ⟨p.x + minx + 1 / 2, p.y + miny + 1 / 2⟩

/-- `nonPowerOfTwoProjection` with abstract planar/geo maps: floor on the way in, and (since fix
    7b86dd1) the pixel centre `((p+0.5)/e)+min` on the way out, like the power-of-two path. -/
def nonPow2Proj (floor : α → α) (P G : Pt α → Pt α) (minx miny e : α) : TileProj α where
  toTile := fun p => let q := P p; ⟨floor ((q.x - minx) * e), floor ((q.y - miny) * e)⟩
  toWGS84 := fun p => G ⟨(p.x + 1 / 2) / e + minx, (p.y + 1 / 2) / e + miny⟩

/-- `isPowerOfTwo(n uint32)`: `(n & (n-1)) == 0` (true for 0: `n-1` wraps). -/
def isPowerOfTwo (n : Nat) : Bool := n == 0 || (n &&& (n - 1)) == 0

/-- `bits.TrailingZeros32` (32 for 0). -/
def trailingZeros32 (n : Nat) : Nat :=
  if n % 2 ^ 32 == 0 then 32 else go 32 n
where
  go : Nat → Nat → Nat
    | 0, _ => 0
    | fuel + 1, n => if n % 2 == 1 then 0 else 1 + go fuel (n / 2)

/-- `newProjection(tile, extent)`. -/
def newProjection (F : MFn α) (X Y Z extent : Nat) : TileProj α :=
  if isPowerOfTwo extent then
    let n := trailingZeros32 extent
    let z := Z + n
    pow2Proj F.floor (toPlanar F z) (toGeo F z) (F.ofNat ((X * 2 ^ n) % 2 ^ 64)) (F.ofNat ((Y * 2 ^ n) % 2 ^ 64))
  else
    nonPow2Proj F.floor (toPlanar F Z) (toGeo F Z) (F.ofNat X) (F.ofNat Y) (F.ofNat extent)

/-! ### encoding/mvt/layer.go -/

/-- `orb.Projection` values of `mvt.projection` are pure closures. -/
def pureP {α : Type} (f : Pt α → Pt α) : Proj Unit α := fun p s => (f p, s)

variable [LE α] [DecidableLE α] [Min α] [Max α]

/-- `Layer.ProjectToTile(tile)`: `p := newProjection(tile, l.Extent)` once, then
    `for _, f := range l.Features { f.Geometry = project.Geometry(f.Geometry, p.ToTile) }`
    (a feature's geometry may be the nil interface or a typed nil slice). -/
def layerProjectToTile (F : MFn α) (X Y Z extent : Nat) (feats : List (GVal α)) : List (GVal α) :=
  let p := newProjection F X Y Z extent
  feats.map fun g => (geometryVM (pureP p.toTile) g ()).1

/-- `Layer.ProjectToWGS84(tile)`. -/
def layerProjectToWGS84 (F : MFn α) (X Y Z extent : Nat) (feats : List (GVal α)) : List (GVal α) :=
  let p := newProjection F X Y Z extent
  feats.map fun g => (geometryVM (pureP p.toWGS84) g ()).1

/-- `Layers.ProjectToTile(tile)`: every layer with its own extent (a layer = extent + features). -/
def layersProjectToTile (F : MFn α) (X Y Z : Nat) (ls : List (Nat × List (GVal α))) : List (Nat × List (GVal α)) :=
  ls.map fun l => (l.1, layerProjectToTile F X Y Z l.1 l.2)

/-- `Layers.ProjectToWGS84(tile)`. -/
def layersProjectToWGS84 (F : MFn α) (X Y Z : Nat) (ls : List (Nat × List (GVal α))) : List (Nat × List (GVal α)) :=
  ls.map fun l => (l.1, layerProjectToWGS84 F X Y Z l.1 l.2)

end merc

end Orb.Project
