/-
  Orb.ClipSpec — executable SPECIFICATION vocabulary for C08's clause "the generic clip returns nil exactly
  when nothing remains", and the model of `(*mvt.Layer).Clip` (encoding/mvt/clip.go).  Core Lean only,
  polymorphic in the coordinate type: the driver runs these definitions on `Rat` (exact), the proofs
  (OrbProofs/C08Nil.lean) are over an ordered field.

  * `segMeetsClosed box p q` — the closed segment `p q` and the closed box have a common point, decided by
    the three separating axes (x, y, the normal of the segment).  Division-free.  PROVED (soundness of the
    direction the checks use): `false` ⇒ no point of the segment is in the box.
  * `segWitnessOpen box p q ts` — some parameter `t ∈ ts ∩ [0,1]` gives a point of the segment strictly
    inside the box.  PROVED: `true` ⇒ the segment meets the open box.  (The candidate parameters come from
    the caller; the driver supplies the midpoint of the Liang–Barsky interval.)
  * `layerClip` — the in-place compaction loop of `Layer.Clip` over the cells of `l.Features`.
-/
import Orb.Core
import Orb.Clip
import Orb.EvenOdd

namespace Orb.ClipSpec
open Orb Orb.Core

section seg
variable {α : Type} [Add α] [Sub α] [Mul α] [OfNat α 0] [OfNat α 1] [LT α] [LE α] [DecidableLT α] [DecidableLE α]

/-- the point at parameter `t` of the segment `p q` -/
def lerpS (p q : Pt α) (t : α) : Pt α := ⟨p.x + t * (q.x - p.x), p.y + t * (q.y - p.y)⟩

/-- strictly inside the box -/
def inOpen (b : Bound α) (v : Pt α) : Bool :=
  decide (b.lo.x < v.x) && decide (v.x < b.hi.x) && decide (b.lo.y < v.y) && decide (v.y < b.hi.y)

/-- in the closed box -/
def inClosedB (b : Bound α) (v : Pt α) : Bool :=
  decide (b.lo.x ≤ v.x) && decide (v.x ≤ b.hi.x) && decide (b.lo.y ≤ v.y) && decide (v.y ≤ b.hi.y)

/-- the closed segment `p q` meets the closed box: no separating axis among x, y and the segment's normal
    (`EvenOdd.cross p q c` is the side of the corner `c` relative to the line `p q`) -/
def segMeetsClosed (b : Bound α) (p q : Pt α) : Bool :=
  let xsep := (decide (p.x < b.lo.x) && decide (q.x < b.lo.x)) || (decide (b.hi.x < p.x) && decide (b.hi.x < q.x))
  let ysep := (decide (p.y < b.lo.y) && decide (q.y < b.lo.y)) || (decide (b.hi.y < p.y) && decide (b.hi.y < q.y))
  let c1 := EvenOdd.cross p q b.lo
  let c2 := EvenOdd.cross p q ⟨b.hi.x, b.lo.y⟩
  let c3 := EvenOdd.cross p q b.hi
  let c4 := EvenOdd.cross p q ⟨b.lo.x, b.hi.y⟩
  let lsep := (decide (0 < c1) && decide (0 < c2) && decide (0 < c3) && decide (0 < c4)) ||
              (decide (c1 < 0) && decide (c2 < 0) && decide (c3 < 0) && decide (c4 < 0))
  !(xsep || ysep || lsep)

/-- one of the candidate parameters is in `[0,1]` and gives a point strictly inside the box -/
def segWitnessOpen (b : Bound α) (p q : Pt α) (ts : List α) : Bool :=
  ts.any fun t => decide (0 ≤ t) && decide (t ≤ 1) && inOpen b (lerpS p q t)

end seg

/-! ### `(*mvt.Layer).Clip` — encoding/mvt/clip.go

    for _, f := range l.Features { g := clip.Geometry(box, f.Geometry)
                                   if g != nil { f.Geometry = g; l.Features[at] = f; at++ } }
    l.Features = l.Features[:at]

  The cells of the backing array of `l.Features` are, at the start of iteration `i`,
  `kept ++ stale ++ rest`: `kept` = cells `[0, at)` (the survivors, with their new geometry), `stale` = cells
  `[at, i)` (pointers left behind), `rest` = cells `[i, n)` not yet visited.  A survivor is written to cell
  `at`: its own cell when nothing was dropped before it, otherwise the first stale cell — and its own cell
  `i` then still holds the same pointer and becomes stale.  `ι` = the identity of a feature (the pointer). -/
structure LayerSt (ι γ : Type) where
  kept : List (ι × γ)
  stale : List ι
deriving Repr

/-- one iteration: `r` is the result of `clip.Geometry` on the feature's geometry (`none` = Go `nil`) -/
def layerStep {ι γ : Type} (st : LayerSt ι γ) (id : ι) (r : Option γ) : LayerSt ι γ :=
  match r with
  | none => { st with stale := st.stale ++ [id] }
  | some g =>
    match st.stale with
    | [] => { kept := st.kept ++ [(id, g)], stale := [] }
    | _ :: gt => { kept := st.kept ++ [(id, g)], stale := gt ++ [id] }

/-- the loop; `clipG` is `clip.Geometry box` (outer `none` = the model got stuck: unreachable) -/
def layerLoop {ι γ δ : Type} (clipG : δ → Option (Option γ)) : LayerSt ι γ → List (ι × δ) → Option (LayerSt ι γ)
  | st, [] => some st
  | st, (id, g) :: rest =>
    match clipG g with
    | none => none
    | some r => layerLoop clipG (layerStep st id r) rest

/-- `(*Layer).Clip`: afterwards `l.Features = kept`, and the cells `[len, n)` of its array hold `stale` -/
def layerClip {ι γ δ : Type} (clipG : δ → Option (Option γ)) (fs : List (ι × δ)) : Option (LayerSt ι γ) :=
  layerLoop clipG ⟨[], []⟩ fs

/-- `clip.Geometry` on an interface value: the nil interface gives nil; a typed nil slice has the bound and
    the (empty) contents of the empty value of its kind -/
def clipV {α : Type} [Add α] [Sub α] [Mul α] [Div α] [LT α] [LE α] [DecidableLT α] [DecidableLE α] [BEq α]
    [Min α] [Max α] (eb box : Bound α) : GVal α → Option (Option (Geom α))
  | .nilIface => some none
  | .nilSlice k => Clip.geometry eb box (emptyOf k)
  | .val g => Clip.geometry eb box g

end Orb.ClipSpec
