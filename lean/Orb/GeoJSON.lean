/-
  Orb.GeoJSON — model of /repo/geojson (geometry.go, feature.go, feature_collection.go, bbox.go)
  at the level of the JSON / BSON *document tree*.

  The reflection-driven serialisers (encoding/json, go.mongodb.org/mongo-driver/bson) are TRUSTED:
  text ⇄ tree is not modelled.  What is modelled is
    * which document orb hands to the serialiser (`geomDoc`, `featureDoc`, `fcDoc`):
      NewGeometry + newGeometryMarshallDoc (ring / bound → Polygon, collection → "geometries",
      nil / empty → null), `omitempty`, the `null` short cuts of MarshalJSON / MarshalBSONValue,
      map members sorted by key;
    * what the decoders do with an arbitrary tree (`geomOfDoc`, `featureOfDoc`, `fcOfDoc`):
      struct-field matching (case folding), `json.Unmarshal` into `[2]float64` / nested slices
      (null handling, short / long arrays), "saved" type errors vs. hard errors of nested
      Unmarshalers, the type switch, `g.Geometry()` on the decoded members (a nil member is rejected), `featureUnmarshalFinish`;
    * the typed helper types `geojson.Point` … `geojson.MultiPolygon` (`typedOfDoc`), `bbox.go`
      (`newBBox`, `bboxValid`, `bboxBound`), values with NIL MEMBERS on the marshalling side
      (`geomMemberN` over `Orb.CoreNil.NGeom`: a nil ring / line / polygon is written as `null`).
  PANICS ARE EXPLICIT.  Every place where the Go code dereferences a pointer that a decode can leave
  nil, or indexes a slice, is a function with a `.panic` arm (`memberGeometry`, `featureFinishPtr`,
  `derefGeometry`, `derefCoords`, `bboxAt`); the CHECK that the Go code makes before it (the nil-member
  loop of fix 6b9e2e7, `if doc == nil` of fix 87467ba, `if doc.Geometry != nil`, `Valid()`) is a
  separate `if` in the caller.  The totality theorems of OrbProofs/C02.lean therefore say that each
  check covers its dereference: delete a check from the model (or from the Go code and hence from
  the model) and the theorem is false (`members_check_needed`, `feature_check_needed`,
  `typed_check_needed`, `bbox_check_needed` show the panic behind each check).
  Coordinates are float64 bit patterns.  Both codecs share the definitions; `Codec` selects the
  documented differences (bson `omitempty` drops empty slices, bson rejects over-long arrays and
  aborts on the first type error, json saves type errors and goes on).
-/
import Orb.Basic
import Orb.CoreNil

namespace Orb.GeoJSON
open Orb

/-- A JSON / BSON document tree.  Numbers are float64 bit patterns (BSON int32/int64 are shipped as
    the float64 the decoder converts them to).

    `bad` exists in BSON only: an element that is framed correctly (type byte, key, length — the
    struct decoder can `Skip()` it and a `bson.RawValue` field can copy it) but whose payload the
    value reader refuses when it is READ: a boolean whose byte is neither 0 nor 1
    (`bsonrw.valueReader.ReadBoolean`: "invalid byte for boolean").  Wherever a decoder looks at it,
    it is a boolean: a type error where booleans are not accepted, a read error where they are
    (`float64`, `interface{}`).  No Go value is ever written as `bad`. -/
inductive Json where
  | null
  | bool (b : Bool)
  | num (bits : UInt64)
  | str (s : String)
  | arr (l : List Json)
  | obj (members : List (String × Json))
  | bad
deriving Repr, Inhabited

abbrev G := Geom UInt64
abbrev V := GVal UInt64
abbrev Members := List (String × Json)

inductive Err where
  | json      -- any error of encoding/json or bson (type mismatch, missing raw value, …)
  | invalid   -- ErrInvalidGeometry
  | notType   -- "not a feature" / "not a feature collection"
deriving DecidableEq, Repr, Inhabited

abbrev R := Res Err

inductive Codec where
  | json | bson
deriving DecidableEq, Repr, Inhabited

/-! ### tree equality (Bool; the driver compares trees with it) -/

mutual
def Json.beq : Json → Json → Bool
  | .null, .null => true
  | .bool a, .bool b => a == b
  | .num a, .num b => a == b
  | .str a, .str b => a == b
  | .arr a, .arr b => Json.beqList a b
  | .obj a, .obj b => Json.beqMembers a b
  | .bad, .bad => true
  | _, _ => false
def Json.beqList : List Json → List Json → Bool
  | [], [] => true
  | a :: as, b :: bs => Json.beq a b && Json.beqList as bs
  | _, _ => false
def Json.beqMembers : Members → Members → Bool
  | [], [] => true
  | (k, a) :: as, (k', b) :: bs => k == k' && Json.beq a b && Json.beqMembers as bs
  | _, _ => false
end

instance : BEq Json := ⟨Json.beq⟩

/-! ### Go maps as documents: members sorted by key, a later assignment wins -/

/-- insert `(k, v)` into a key-sorted member list unless the key is already there
    (members are processed last-to-first, so the one already there is the later assignment). -/
def insertKeep (k : String) (v : Json) : Members → Members
  | [] => [(k, v)]
  | (k', v') :: rest =>
    if k < k' then (k, v) :: (k', v') :: rest
    else if k = k' then (k', v') :: rest
    else (k', v') :: insertKeep k v rest

/-- the key-sorted document of the Go map built by assigning the members in order -/
def normKeys : Members → Members
  | [] => []
  | (k, v) :: rest => insertKeep k v (normKeys rest)

mutual
/-- `json.Unmarshal` into `interface{}` followed by viewing the Go value as a document again:
    objects become maps (duplicate keys: the last wins; order forgotten → sorted). -/
def valOf : Json → Json
  | .arr l => .arr (valOfList l)
  | .obj ms => .obj (normKeys (valOfMembers ms))
  | j => j
def valOfList : List Json → List Json
  | [] => []
  | j :: js => valOf j :: valOfList js
def valOfMembers : Members → Members
  | [] => []
  | (k, v) :: ms => (k, valOf v) :: valOfMembers ms
end

/-- finite float64 bit pattern (exponent field not all ones) -/
def finite (b : UInt64) : Bool := ((b >>> 52) &&& 0x7ff) != 0x7ff

/-- ±Inf.  A JSON number token can only parse to an infinity by overflow (`1e999`), which
    encoding/json reports as an UnmarshalTypeError; the harness ships such a token as ±Inf. -/
def isInf (b : UInt64) : Bool := ((b >>> 52) &&& 0x7ff) == 0x7ff && (b &&& 0xfffffffffffff) == 0

mutual
/-- the tree contains an overflowing number token -/
def hasInf : Json → Bool
  | .num b => isInf b
  | .arr l => hasInfList l
  | .obj ms => hasInfMembers ms
  | _ => false
def hasInfList : List Json → Bool
  | [] => false
  | j :: js => hasInf j || hasInfList js
def hasInfMembers : Members → Bool
  | [] => false
  | (_, v) :: ms => hasInf v || hasInfMembers ms
end

mutual
/-- the tree contains an unreadable element (`Json.bad`): decoding it into `interface{}`
    (bson: `primitive.D` / `primitive.A` element by element) fails at that element -/
def hasBad : Json → Bool
  | .bad => true
  | .arr l => hasBadList l
  | .obj ms => hasBadMembers ms
  | _ => false
def hasBadList : List Json → Bool
  | [] => false
  | j :: js => hasBad j || hasBadList js
def hasBadMembers : Members → Bool
  | [] => false
  | (_, v) :: ms => hasBad v || hasBadMembers ms
end

/-! ### marshalling: the document handed to the serialiser -/

def ptJ (p : Pt UInt64) : Json := .arr [.num p.x, .num p.y]
def ptsJ (ps : List (Pt UInt64)) : Json := .arr (ps.map ptJ)
def ptssJ (l : List (List (Pt UInt64))) : Json := .arr (l.map ptsJ)
def ptsssJ (l : List (List (List (Pt UInt64)))) : Json := .arr (l.map ptssJ)

/-- `Bound.ToRing`. -/
def boundRing (a b : Pt UInt64) : List (Pt UInt64) := [a, ⟨b.x, a.y⟩, b, ⟨a.x, b.y⟩, a]

/-- `geometryMarshallDoc` with a `Coordinates` value: `type`, then `coordinates` — which the bson
    codec's `omitempty` drops when the slice inside the interface has length 0 (encoding/json only
    drops a nil interface). -/
def coordDoc (c : Codec) (ty : String) (coords : Json) (len : Nat) : Json :=
  if c = .bson ∧ len = 0 then .obj [("type", .str ty)]
  else .obj [("type", .str ty), ("coordinates", coords)]

mutual
/-- `NewGeometry(g)` marshalled as a member (`MarshalJSON` / `MarshalBSONValue`): rings and bounds
    are written as polygons; a collection writes its members under "geometries"; a collection
    WITHOUT members (`Coordinates == nil && len(Geometries) == 0`) is written as `null`. -/
def geomJ (c : Codec) : G → Json
  | .point p => .obj [("type", .str "Point"), ("coordinates", ptJ p)]
  | .multiPoint ps => coordDoc c "MultiPoint" (ptsJ ps) ps.length
  | .lineString ps => coordDoc c "LineString" (ptsJ ps) ps.length
  | .multiLineString ls => coordDoc c "MultiLineString" (ptssJ ls) ls.length
  | .ring ps => .obj [("type", .str "Polygon"), ("coordinates", .arr [ptsJ ps])]
  | .polygon rs => coordDoc c "Polygon" (ptssJ rs) rs.length
  | .multiPolygon ps => coordDoc c "MultiPolygon" (ptsssJ ps) ps.length
  | .bound a b => .obj [("type", .str "Polygon"), ("coordinates", .arr [ptsJ (boundRing a b)])]
  | .collection [] => .null
  | .collection (g :: gs) =>
    .obj [("type", .str "GeometryCollection"), ("geometries", .arr (geomJ c g :: geomsJ c gs))]
def geomsJ (c : Codec) : List G → List Json
  | [] => []
  | g :: gs => geomJ c g :: geomsJ c gs
end

def kindName : Kind → String
  | .point => "Point" | .multiPoint => "MultiPoint" | .lineString => "LineString"
  | .multiLineString => "MultiLineString" | .ring => "Polygon" | .polygon => "Polygon"
  | .multiPolygon => "MultiPolygon" | .bound => "Polygon" | .collection => "GeometryCollection"

/-- a geometry as a member of a feature / of "geometries", from the top-level Go value:
    a nil interface and an empty (or nil) collection give `null`; a typed nil slice is a non-nil
    interface and is written with `"coordinates":null` (json) / without coordinates (bson);
    a nil ring becomes `Polygon{nil}`. -/
def geomMember (c : Codec) : V → Json
  | .nilIface => .null
  | .nilSlice .collection => .null
  | .nilSlice .ring => .obj [("type", .str "Polygon"), ("coordinates", .arr [.null])]
  | .nilSlice k => coordDoc c (kindName k) .null 0
  | .val g => geomJ c g

/-- `NewGeometry(v).MarshalJSON()` resp. `bson.Marshal(NewGeometry(v))`.  `MarshalBSON` has no
    `null` short cut: the empty document type is written (`{"type": ""}`). -/
def geomDoc (c : Codec) (v : V) : Json :=
  match c, geomMember c v with
  | .bson, .null => .obj [("type", .str "")]
  | _, j => j

/-! #### values with nil members (`Orb.CoreNil.NGeom`)

`orb.Polygon{nil}`, `orb.MultiLineString{nil, {…}}`, `orb.MultiPolygon{nil, {nil}}`,
`orb.Collection{orb.MultiPoint(nil)}`: both serialisers write a nil slice as `null`, at every nesting
level, so the member shows up as a `null` INSIDE "coordinates" (or as `"coordinates":null` for a
typed-nil member of a collection).  The length `omitempty` (bson) looks at is that of the outermost
slice. -/

abbrev NG := CoreNil.NGeom UInt64

def nptsJ : CoreNil.NPts UInt64 → Json
  | none => .null
  | some ps => ptsJ ps
def nptssJ : CoreNil.NPtss UInt64 → Json
  | none => .null
  | some l => .arr (l.map nptsJ)
def nptsssJ : CoreNil.NPtsss UInt64 → Json
  | none => .null
  | some l => .arr (l.map nptssJ)

/-- `len` of a possibly nil slice -/
def lenN {α : Type} (o : Option (List α)) : Nat := (o.getD []).length

mutual
/-- `NewGeometry(v)` marshalled as a member, for a Go value with nil members (cf. `geomMember`,
    `geomJ`): `Ring(nil)` becomes `Polygon{nil}` = `[null]`; a nil interface, a nil collection and
    an empty collection are written as `null`. -/
def geomMemberN (c : Codec) : NG → Json
  | .nilIface => .null
  | .point p => .obj [("type", .str "Point"), ("coordinates", ptJ p)]
  | .multiPoint ps => coordDoc c "MultiPoint" (nptsJ ps) (lenN ps)
  | .lineString ps => coordDoc c "LineString" (nptsJ ps) (lenN ps)
  | .multiLineString ls => coordDoc c "MultiLineString" (nptssJ ls) (lenN ls)
  | .ring ps => .obj [("type", .str "Polygon"), ("coordinates", .arr [nptsJ ps])]
  | .polygon rs => coordDoc c "Polygon" (nptssJ rs) (lenN rs)
  | .multiPolygon ps => coordDoc c "MultiPolygon" (nptsssJ ps) (lenN ps)
  | .bound a b => .obj [("type", .str "Polygon"), ("coordinates", .arr [ptsJ (boundRing a b)])]
  | .nilCollection => .null
  | .collection [] => .null
  | .collection (g :: gs) =>
    .obj [("type", .str "GeometryCollection"), ("geometries", .arr (geomMemberN c g :: geomMembersN c gs))]
def geomMembersN (c : Codec) : List NG → List Json
  | [] => []
  | g :: gs => geomMemberN c g :: geomMembersN c gs
end

/-- `NewGeometry(v).MarshalJSON()` / `bson.Marshal(NewGeometry(v))` for a value with nil members -/
def geomDocN (c : Codec) (v : NG) : Json :=
  match c, geomMemberN c v with
  | .bson, .null => .obj [("type", .str "")]
  | _, j => j

mutual
/-- some slice BELOW the top level is nil (a nil ring / line / polygon, a typed-nil or nil collection
    as a member of a collection) -/
def hasNilSliceMember : NG → Bool
  | .multiLineString (some l) | .polygon (some l) => l.any (·.isNone)
  | .multiPolygon (some l) => l.any fun pg => match pg with | none => true | some rs => rs.any (·.isNone)
  | .collection gs => nilSliceMembers gs
  | _ => false
def nilSliceMembers : List NG → Bool
  | [] => false
  | g :: gs => topNilSlice g || hasNilSliceMember g || nilSliceMembers gs
/-- the value itself is a nil slice -/
def topNilSlice : NG → Bool
  | .multiPoint none | .lineString none | .multiLineString none | .ring none | .polygon none
  | .multiPolygon none | .nilCollection => true
  | _ => false
end

mutual
/-- some member of a collection (at any depth) is the nil INTERFACE: not a geometry at all -/
def hasNilIfaceMember : NG → Bool
  | .collection gs => nilIfaceMembers gs
  | _ => false
def nilIfaceMembers : List NG → Bool
  | [] => false
  | g :: gs => g.isNilIface || hasNilIfaceMember g || nilIfaceMembers gs
end

mutual
/-- the nil-free value the decoders and `orb.Equal` see: a nil slice is the empty slice of its type;
    a nil-interface member is written like an empty collection (`null`) -/
def forgetNil : NG → G
  | .nilIface => .collection []
  | .point p => .point p
  | .multiPoint ps => .multiPoint (CoreNil.ptsOf ps)
  | .lineString ps => .lineString (CoreNil.ptsOf ps)
  | .multiLineString ls => .multiLineString (CoreNil.ptssOf ls)
  | .ring ps => .ring (CoreNil.ptsOf ps)
  | .polygon rs => .polygon (CoreNil.ptssOf rs)
  | .multiPolygon ps => .multiPolygon (CoreNil.ptsssOf ps)
  | .bound a b => .bound a b
  | .nilCollection => .collection []
  | .collection gs => .collection (forgetNils gs)
def forgetNils : List NG → List G
  | [] => []
  | g :: gs => forgetNil g :: forgetNils gs
end

/-- the top-level value of `Orb.Basic` (nil-ness kept at the top only) -/
def toV : NG → V
  | .nilIface => .nilIface
  | .multiPoint none => .nilSlice .multiPoint
  | .lineString none => .nilSlice .lineString
  | .multiLineString none => .nilSlice .multiLineString
  | .ring none => .nilSlice .ring
  | .polygon none => .nilSlice .polygon
  | .multiPolygon none => .nilSlice .multiPolygon
  | .nilCollection => .nilSlice .collection
  | g => .val (forgetNil g)

/-- A `geojson.Feature` (also the decoded one). -/
structure Feature where
  id : Option Json := none                  -- nil interface / a JSON-representable value
  typ : String := "Feature"
  bbox : Option (List UInt64) := none       -- nil / slice
  geom : V := .nilIface
  props : Option Members := none            -- nil map / map (as its key-sorted document)
deriving Repr, Inhabited

/-- A `geojson.FeatureCollection`. -/
structure FC where
  typ : String := "FeatureCollection"
  bbox : Option (List UInt64) := none
  features : Option (List (Option Feature)) := none   -- nil slice / slice of (possibly nil) pointers
  extra : Option Members := none
deriving Repr, Inhabited

def bboxJ (bb : List UInt64) : Json := .arr (bb.map .num)

/-- `ID interface{}`: json `id,omitempty` drops a nil id, bson writes `id: null` -/
def idMember (c : Codec) : Option Json → Members
  | some j => [("id", valOf j)]
  | none =>
    match c with
    | .json => []
    | .bson => [("id", .null)]

/-- `bbox,omitempty`: a nil or empty bbox is dropped -/
def bboxMember : Option (List UInt64) → Members
  | some (b :: bs) => [("bbox", bboxJ (b :: bs))]
  | _ => []

/-- `doc.Properties = nil` when `len(doc.Properties) == 0`; a nil map is written as `null`,
    a map as its key-sorted document -/
def propsDoc : Option Members → Json
  | some (p :: ps) => .obj (normKeys (valOfMembers (p :: ps)))
  | _ => .null

/-- `newFeatureDoc` through the serialiser: struct order id, type, bbox, geometry, properties. -/
def featureDocG (c : Codec) (f : Feature) (geometry : Json) : Json :=
  .obj (idMember c f.id ++ [("type", .str "Feature")] ++ bboxMember f.bbox ++
    [("geometry", geometry), ("properties", propsDoc f.props)])

def featureDoc (c : Codec) (f : Feature) : Json := featureDocG c f (geomMember c f.geom)

/-- a feature whose `Geometry` has nil members: `n` is the Go value, `f.geom` what it denotes -/
def featureDocN (c : Codec) (f : Feature) (n : NG) : Json := featureDocG c f (geomMemberN c n)

def featureMember (c : Codec) : Option Feature → Json
  | none => .null
  | some f => featureDoc c f

def eraseKey (k : String) : Members → Members
  | [] => []
  | (k', v) :: ms => if k' = k then eraseKey k ms else (k', v) :: eraseKey k ms

/-- `newFeatureCollectionDoc`: a clone of ExtraMembers with "type" set, "bbox" deleted and set again
    when `fc.BBox != nil`, "features" set (`[]` for a nil slice); the map is written key-sorted. -/
def fcDocG (fc : FC) (features : List Json) : Json :=
  .obj (normKeys (
    valOfMembers (eraseKey "bbox" (fc.extra.getD [])) ++
    [("type", .str "FeatureCollection")] ++
    (match fc.bbox with
     | some bb => [("bbox", bboxJ bb)]
     | none => []) ++
    [("features", .arr features)]))

def fcDoc (c : Codec) (fc : FC) : Json := fcDocG fc ((fc.features.getD []).map (featureMember c))

/-- the feature members when the geometries have nil members (`ns`: the Go values, in order, one
    per non-nil feature pointer) -/
def featureMembersN (c : Codec) : List (Option Feature) → List NG → List Json
  | [], _ => []
  | none :: fs, ns => .null :: featureMembersN c fs ns
  | some f :: fs, n :: ns => featureDocN c f n :: featureMembersN c fs ns
  | some f :: fs, [] => featureDoc c f :: featureMembersN c fs []

def fcDocN (c : Codec) (fc : FC) (ns : List NG) : Json :=
  fcDocG fc (featureMembersN c (fc.features.getD []) ns)

/-! ### unmarshalling -/

/-- encoding/json `foldName` restricted to what can match an ASCII field name: ASCII letters
    case-insensitively, U+017F (long s) ↦ s, U+212A (Kelvin) ↦ k. -/
def foldCharJ (ch : Char) : Char :=
  if 'A' ≤ ch ∧ ch ≤ 'Z' then Char.ofNat (ch.toNat + 32)
  else if ch.toNat = 0x17f then 's'
  else if ch.toNat = 0x212a then 'k'
  else ch

/-- bson struct codec: exact name, else `strings.ToLower(name)`: ASCII, U+212A ↦ k, U+0130 ↦ i. -/
def foldCharB (ch : Char) : Char :=
  if 'A' ≤ ch ∧ ch ≤ 'Z' then Char.ofNat (ch.toNat + 32)
  else if ch.toNat = 0x212a then 'k'
  else if ch.toNat = 0x130 then 'i'
  else ch

/-- the struct field a document key selects -/
def fieldKey (c : Codec) (k : String) : String :=
  match c with
  | .json => String.ofList (k.toList.map foldCharJ)
  | .bson => String.ofList (k.toList.map foldCharB)

/-- into `float64`: a number; `null` leaves the zero; the bson float decoder also takes a boolean
    (`true` ↦ 1; `ReadBoolean` fails on a `bad` one); anything else is a type error (`none`). -/
def f64Of (c : Codec) : Json → Option UInt64
  | .num b => if c = .json ∧ isInf b then none else some b
  | .null => some 0
  | .bool b => if c = .bson then some (if b then 0x3ff0000000000000 else 0) else none
  | _ => none

/-- into `orb.Point` (`[2]float64`): `null` leaves the zero point; a short array leaves zeros;
    json skips elements beyond the second WITHOUT looking at them, bson rejects them. -/
def ptOf (c : Codec) : Json → Option (Pt UInt64)
  | .null => some ⟨0, 0⟩
  | .arr [] => some ⟨0, 0⟩
  | .arr [a] => (f64Of c a).map fun x => ⟨x, 0⟩
  | .arr (a :: b :: rest) =>
    if c = .bson ∧ !rest.isEmpty then none else
    match f64Of c a, f64Of c b with
    | some x, some y => some ⟨x, y⟩
    | _, _ => none
  | _ => none

def mapOpt {α β : Type} (f : α → Option β) : List α → Option (List β)
  | [] => some []
  | a :: as =>
    match f a, mapOpt f as with
    | some b, some bs => some (b :: bs)
    | _, _ => none

/-- into a slice: outer `none` = type error, inner `none` = `null` (the slice is set to nil). -/
def sliceOf {α : Type} (f : Json → Option α) : Json → Option (Option (List α))
  | .null => some none
  | .arr l => (mapOpt f l).map some
  | _ => none

/-- a nested slice: a nil member is observed as an empty one (the protocol has no nested nil). -/
def sliceOf' {α : Type} (f : Json → Option α) (j : Json) : Option (List α) :=
  (sliceOf f j).map (·.getD [])

def ptsOf (c : Codec) : Json → Option (List (Pt UInt64)) := sliceOf' (ptOf c)
def ptssOf (c : Codec) : Json → Option (List (List (Pt UInt64))) := sliceOf' (ptsOf c)

def bboxOf (c : Codec) : Json → Option (Option (List UInt64)) := sliceOf (f64Of c)

/-- the `switch jg.Type` arms with coordinates: decode the raw "coordinates" value into the
    kind's Go type (`none` = not a coordinate kind). -/
def coordsOf (c : Codec) (ty : String) (j : Json) : Option (R V) :=
  let fin {α : Type} (k : Kind) (mk : List α → G) (r : Option (Option (List α))) : R V :=
    match r with
    | none => .err .json
    | some none => .ok (.nilSlice k)
    | some (some l) => .ok (.val (mk l))
  match ty with
  | "Point" => some (match ptOf c j with | some p => .ok (.val (.point p)) | none => .err .json)
  | "MultiPoint" => some (fin .multiPoint .multiPoint (sliceOf (ptOf c) j))
  | "LineString" => some (fin .lineString .lineString (sliceOf (ptOf c) j))
  | "MultiLineString" => some (fin .multiLineString .multiLineString (sliceOf (ptsOf c) j))
  | "Polygon" => some (fin .polygon .polygon (sliceOf (ptsOf c) j))
  | "MultiPolygon" => some (fin .multiPolygon .multiPolygon (sliceOf (ptssOf c) j))
  | _ => none

def emptyOf : Kind → G
  | .point => .point ⟨0, 0⟩ | .multiPoint => .multiPoint [] | .lineString => .lineString []
  | .multiLineString => .multiLineString [] | .ring => .ring [] | .polygon => .polygon []
  | .multiPolygon => .multiPolygon [] | .bound => .bound ⟨0, 0⟩ ⟨0, 0⟩ | .collection => .collection []

/-- a member's `Geometry()` inside a collection value (typed nil observed as empty). -/
def V.toGeom : V → G
  | .val g => g
  | .nilSlice k => emptyOf k
  | .nilIface => .collection []

/-- A decoded `*geojson.Geometry`: the value of `g.Geometry()` and whether
    `g.Coordinates == nil && g.Geometries == nil` (looked at by `featureUnmarshalFinish`). -/
structure DG where
  v : V
  bare : Bool
deriving Repr, Inhabited

/-- the nil-member check of the `case "GeometryCollection"` arm (fix 6b9e2e7):
    `for _, m := range jg.Geometries { if m == nil { return ErrInvalidGeometry } }` -/
def nilMember {α : Type} : R α := .err .invalid

/-- fields of `jsonGeometry` / `bsonGeometry` while the document's members are being decoded -/
structure GSt where
  ty : String := ""
  coords : Option Json := none                 -- the raw "coordinates" value (none = absent)
  geoms : Option (List (Option DG)) := none    -- Geometries: nil / slice of (possibly nil) pointers
  saved : Bool := false                        -- encoding/json: a saved UnmarshalTypeError
deriving Inhabited

/-- `geom.Geometry()` on one element of `g.Geometries`: the method reads `g.Coordinates` through the
    receiver, so a nil pointer is DEREFERENCED.  (Nothing in this function checks for nil — the
    check is the caller's, see `finishGeometry`.) -/
def memberGeometry : Option DG → R G
  | none => .panic "nil pointer dereference: (*Geometry).Geometry"
  | some d => .ok d.v.toGeom

/-- `(*Geometry).Geometry()` for a collection: `for _, geom := range g.Geometries { c = append(c,
    geom.Geometry()) }`. -/
def membersGeometry : List (Option DG) → R (List G)
  | [] => .ok []
  | m :: rest =>
    match memberGeometry m with
    | .ok g =>
      (match membersGeometry rest with
       | .ok gs => .ok (g :: gs)
       | .err e => .err e
       | .panic s => .panic s)
    | .err e => .err e
    | .panic s => .panic s

/-- some member is a nil pointer -/
def hasNilMember : List (Option DG) → Bool
  | [] => false
  | none :: _ => true
  | some _ :: rest => hasNilMember rest

/-- the part of `UnmarshalJSON` / `UnmarshalBSON` after the struct decode: saved error, the type
    switch, and `g.Type = g.Geometry().GeoJSONType()` — which, for a collection, calls `Geometry()`
    on every member (`membersGeometry`); the nil-member loop in the switch arm is what keeps that
    from dereferencing a nil pointer. -/
def finishGeometry (c : Codec) (st : GSt) : R DG :=
  if st.saved then .err .json else
  if st.ty = "GeometryCollection" then
    match st.geoms with
    | none => .ok ⟨.val (.collection []), true⟩
    | some ms =>
      if hasNilMember ms then nilMember
      else
        match membersGeometry ms with
        | .ok gs => .ok ⟨.val (.collection gs), false⟩
        | .err e => .err e
        | .panic s => .panic s
  else
    match st.coords with
    | none =>
      -- the raw message is empty: "unexpected end of JSON input" / "cannot decode document into …";
      -- an unknown type is rejected before the raw value is looked at
      (match coordsOf c st.ty .null with
       | some _ => .err .json
       | none => .err .invalid)
    | some j =>
      match coordsOf c st.ty j with
      | some (.ok v) => .ok ⟨v, false⟩
      | some (.err e) => .err e
      | some (.panic s) => .panic s
      | none => .err .invalid

/-- a plain type error while decoding a struct field: encoding/json *saves* it
    (UnmarshalTypeError) and goes on, bson returns it at once -/
def gTypeErr (c : Codec) (st : GSt) : R GSt :=
  match c with
  | .json => .ok { st with saved := true }
  | .bson => .err .json

/-- `null` into the `Type string` field: json leaves the field alone, bson sets the zero value -/
def nullType (c : Codec) (old : String) : String :=
  match c with
  | .json => old
  | .bson => ""

/-- the "type" member into `Type string` -/
def gTypeField (c : Codec) (v : Json) (st : GSt) : R GSt :=
  match v with
  | .str s => .ok { st with ty := s }
  | .null => .ok { st with ty := nullType c st.ty }
  | _ => gTypeErr c st

/-- the "geometries" member into `[]*Geometry`: `null` → nil slice; an array → its decoded elements
    (`elems`; an element's error or panic aborts the whole decode); else a type error -/
def gGeomsField (c : Codec) (v : Json) (st : GSt) (elems : R (List (Option DG))) : R GSt :=
  match v with
  | .null => .ok { st with geoms := none }
  | .arr _ =>
    (match elems with
     | .ok ds => .ok { st with geoms := some ds }
     | .err e => .err e
     | .panic s => .panic s)
  | _ => gTypeErr c st

/-- one member of `jsonGeometry` / `bsonGeometry` (`elems`: the decoded elements when the value is
    an array) -/
def gStep (c : Codec) (k : String) (v : Json) (st : GSt) (elems : R (List (Option DG))) : R GSt :=
  if fieldKey c k = "type" then gTypeField c v st
  else if fieldKey c k = "coordinates" then .ok { st with coords := some v }
  else if fieldKey c k = "geometries" then gGeomsField c v st elems
  else .ok st

/-- an element of "geometries": `null` is a nil pointer (the Unmarshaler is not called), anything
    else is what `UnmarshalJSON` / `UnmarshalBSON` (`r`) makes of it -/
def gElemOf (j : Json) (r : R DG) : R (Option DG) :=
  match j with
  | .null => .ok none
  | _ => r.map some

mutual
/-- `(*Geometry).UnmarshalJSON` / `UnmarshalBSON` on a document tree. -/
def decodeGeometry (c : Codec) : Json → R DG
  | .obj ms =>
    match decodeGMembers c ms {} with
    | .ok st => finishGeometry c st
    | .err e => .err e
    | .panic s => .panic s
  | .null =>
    -- json: null into a struct is a no-op (Type "" → invalid geometry); bson: not a document
    match c with
    | .json => .err .invalid
    | .bson => .err .json
  | .arr _ =>
    -- a bson array IS a document (keys "0", "1", …): no field matches, Type stays ""
    match c with
    | .json => .err .json
    | .bson => .err .invalid
  | .bool _ => .err .json
  | .num _ => .err .json
  | .str _ => .err .json
  | .bad => .err .json
/-- the struct decode, member by member in document order -/
def decodeGMembers (c : Codec) : Members → GSt → R GSt
  | [], st => .ok st
  | (k, v) :: rest, st =>
    match gStep c k v st (geomsOf c v) with
    | .ok st' => decodeGMembers c rest st'
    | .err e => .err e
    | .panic s => .panic s
/-- the elements of an array value, each through the `*Geometry` Unmarshaler -/
def geomsOf (c : Codec) : Json → R (List (Option DG))
  | .arr l => decodeGElems c l
  | .null => .ok []
  | .bool _ => .ok []
  | .num _ => .ok []
  | .str _ => .ok []
  | .obj _ => .ok []
  | .bad => .ok []
/-- elements of "geometries", in order; the first error or panic aborts -/
def decodeGElems (c : Codec) : List Json → R (List (Option DG))
  | [] => .ok []
  | j :: rest =>
    match gElemOf j (decodeGeometry c j) with
    | .ok d =>
      match decodeGElems c rest with
      | .ok ds => .ok (d :: ds)
      | .err e => .err e
      | .panic s => .panic s
    | .err e => .err e
    | .panic s => .panic s
end

/-- `UnmarshalGeometry(data)` / `bson.Unmarshal(data, &Geometry{})`, observed through `Geometry()`. -/
def geomOfDoc (c : Codec) (j : Json) : R V := (decodeGeometry c j).map (·.v)

/-- `var g *Geometry; json.Unmarshal(data, &g)`: `null` sets the pointer to nil. -/
def geomPtrOfDoc (j : Json) : R V :=
  match j with
  | .null => .ok .nilIface
  | j => geomOfDoc .json j

/-- `g.Type` after a successful decode: `g.Geometry().GeoJSONType()` (geometry.go, last statement
    of `UnmarshalJSON` / `UnmarshalBSON`) — the name of the decoded VALUE's kind, not the string the
    document carried (they coincide, the switch having matched it). -/
def typeOfV : V → String
  | .val g => kindName g.kind
  | .nilSlice k => kindName k
  | .nilIface => ""

/-! #### the typed helper types `geojson.Point` … `geojson.MultiPolygon`

`func (p *Point) UnmarshalJSON(data)`: `g := &Geometry{}; unmarshalJSON(data, &g)` — the target is
the POINTER `g`, so a JSON `null` sets it to nil — then `g.Coordinates.(orb.Point)`.  The BSON twin
decodes a top-level document, which is never `null`. -/

/-- the pointer `g` after `unmarshalJSON(data, &g)` / `bson.Unmarshal(data, &g)` -/
def typedGeomPtr (c : Codec) (j : Json) : R (Option DG) :=
  match c, j with
  | .json, .null => .ok none
  | _, j => (decodeGeometry c j).map some

/-- `g.Coordinates`: dereferences `g` -/
def derefCoords : Option DG → R V
  | none => .panic "nil pointer dereference: g.Coordinates"
  | some d => .ok d.v

/-- `g.Coordinates.(orb.K)`: the interface holds a value of dynamic type K (a typed nil slice
    counts; a collection has a nil `Coordinates`, its members sit in `Geometries`) -/
def assertKind (k : Kind) : V → Bool
  | .val (.collection _) => false
  | .val g => g.kind == k
  | .nilSlice k' => k' == k
  | .nilIface => false

/-- `json.Unmarshal(data, &geojson.K{})` / `bson.Unmarshal(data, &geojson.K{})` for the helper type
    of kind `k` ∈ {point, multiPoint, lineString, multiLineString, polygon, multiPolygon}.
    `if g == nil { return ErrInvalidGeometry }` (the six `UnmarshalJSON`; the `UnmarshalBSON` twins
    have no such check and need none, see `typedGeomPtr_nil_iff`) stands between the decode and
    `g.Coordinates`. -/
def typedOfDoc (c : Codec) (k : Kind) (j : Json) : R V :=
  match typedGeomPtr c j with
  | .err e => .err e
  | .panic s => .panic s
  | .ok p =>
    if c = .json ∧ p.isNone then .err .invalid else
    match derefCoords p with
    | .ok v => if assertKind k v then .ok v else .err .notType   -- "geojson: not a K type"
    | .err e => .err e
    | .panic s => .panic s

/-- the six helper kinds -/
def typedKinds : List Kind := [.point, .multiPoint, .lineString, .multiLineString, .polygon, .multiPolygon]

/-- fields of `featureDoc` while being decoded -/
structure FSt where
  id : Option Json := none
  ty : String := ""
  bbox : Option (List UInt64) := none
  geom : Option DG := none
  props : Option Members := none
  saved : Bool := false
deriving Inhabited

def fTypeErr (c : Codec) (st : FSt) : R FSt :=
  match c with
  | .json => .ok { st with saved := true }
  | .bson => .err .json

/-- "id" into `interface{}` (an unreadable element anywhere inside is a read error) -/
def fIdField (c : Codec) (v : Json) (st : FSt) : R FSt :=
  match v with
  | .null => .ok { st with id := none }
  | v =>
    if hasBad v then fTypeErr c st
    else .ok { st with id := some (valOf v), saved := st.saved || (c == .json && hasInf v) }

/-- "type" into `Type string` -/
def fTypeField (c : Codec) (v : Json) (st : FSt) : R FSt :=
  match v with
  | .str s => .ok { st with ty := s }
  | .null => .ok { st with ty := nullType c st.ty }
  | _ => fTypeErr c st

/-- "bbox" into `BBox []float64` -/
def fBBoxField (c : Codec) (v : Json) (st : FSt) : R FSt :=
  match bboxOf c v with
  | some bb => .ok { st with bbox := bb }
  | none => fTypeErr c st

/-- "geometry" into `*Geometry`: `null` → nil; anything else goes to the Unmarshaler, whose error
    (or panic) aborts the decode -/
def fGeomField (c : Codec) (v : Json) (st : FSt) : R FSt :=
  match v with
  | .null => .ok { st with geom := none }
  | v =>
    match decodeGeometry c v with
    | .ok d => .ok { st with geom := some d }
    | .err e => .err e
    | .panic s => .panic s

/-- "properties" into `Properties map[string]interface{}` -/
def fPropsField (c : Codec) (v : Json) (st : FSt) : R FSt :=
  match v with
  | .null => .ok { st with props := none }
  | .obj ms =>
    if hasBadMembers ms then fTypeErr c st
    else
    .ok { st with props := some (normKeys (valOfMembers ms)),
                  saved := st.saved || (c == .json && hasInfMembers ms) }
  | _ => fTypeErr c st

/-- one member of `featureDoc` -/
def fStep (c : Codec) (k : String) (v : Json) (st : FSt) : R FSt :=
  if fieldKey c k = "id" then fIdField c v st
  else if fieldKey c k = "type" then fTypeField c v st
  else if fieldKey c k = "bbox" then fBBoxField c v st
  else if fieldKey c k = "geometry" then fGeomField c v st
  else if fieldKey c k = "properties" then fPropsField c v st
  else .ok st

/-- the struct decode of `featureDoc`, in document order. -/
def decodeFMembers (c : Codec) : Members → FSt → R FSt
  | [], st => .ok st
  | (k, v) :: rest, st =>
    match fStep c k v st with
    | .ok st' => decodeFMembers c rest st'
    | .err e => .err e
    | .panic s => .panic s

/-- `doc.Geometry.Coordinates`, `doc.Geometry.Geometry()`: dereference the pointer -/
def derefGeometry : Option DG → R DG
  | none => .panic "nil pointer dereference: doc.Geometry"
  | some d => .ok d

/-- `featureUnmarshalFinish` once `doc` has been dereferenced: `if doc.Geometry != nil { … }` is the
    check in front of the two uses of `doc.Geometry`. -/
def featureFinish (st : FSt) : R Feature :=
  if st.saved then .err .json else
  if st.ty ≠ "Feature" then .err .notType else
  if st.geom.isNone then
    .ok { id := st.id, typ := st.ty, bbox := st.bbox, geom := .nilIface, props := st.props }
  else
    match derefGeometry st.geom with
    | .ok d =>
      if d.bare then .err .invalid
      else .ok { id := st.id, typ := st.ty, bbox := st.bbox, geom := d.v, props := st.props }
    | .err e => .err e
    | .panic s => .panic s

/-- `unmarshalJSON(data, &doc)` / `bson.Unmarshal(data, &doc)` with `doc := &featureDoc{}`: the
    POINTER afterwards (`none`: a JSON `null` set it to nil), or the decode's error.  A bson array is
    a document none of whose keys ("0", "1", …) selects a field. -/
def featureDocPtr (c : Codec) (j : Json) : R (Option FSt) :=
  match j with
  | .null =>
    (match c with
     | .json => .ok none
     | .bson => .err .json)
  | .obj ms => (decodeFMembers c ms {}).map some
  | .arr _ =>
    (match c with
     | .json => .err .json
     | .bson => .ok (some {}))
  | _ => .err .json

/-- `featureUnmarshalFinish(doc, f)` as called: its first statement reads `doc.Type` -/
def featureFinishPtr : Option FSt → R Feature
  | none => .panic "nil pointer dereference: doc.Type"
  | some st => featureFinish st

/-- `(*Feature).UnmarshalJSON(data)` / `UnmarshalBSON`.  `rawNull` says that `data` is exactly the
    four bytes `null` (the `bytes.Equal` short cut).  Otherwise the document is decoded into a
    `**featureDoc`; `UnmarshalJSON` then checks `if doc == nil` (fix 87467ba: a `null` with
    surrounding white space) before `featureUnmarshalFinish` dereferences it.  `UnmarshalBSON` has
    no such check — and needs none, `featureDocPtr .bson` never leaving the pointer nil. -/
def featureOfDoc (c : Codec) (rawNull : Bool) (j : Json) : R Feature :=
  if rawNull then .ok { typ := "" } else
  match featureDocPtr c j with
  | .err e => .err e
  | .panic s => .panic s
  | .ok p =>
    if c = .json ∧ p.isNone then .ok { typ := "" }   -- `if doc == nil { *f = Feature{}; return nil }`
    else featureFinishPtr p

/-- `var f *Feature; json.Unmarshal(data, &f)`. -/
def featurePtrOfDoc (j : Json) : R (Option Feature) :=
  match j with
  | .null => .ok none
  | j => (featureOfDoc .json false j).map some

/-- an element of "features": `null` is a nil pointer; anything else goes to the Unmarshaler. -/
def featureElem (c : Codec) : Json → R (Option Feature)
  | .null => .ok none
  | j => (featureOfDoc c false j).map some

def decodeFeatures (c : Codec) : List Json → R (List (Option Feature))
  | [] => .ok []
  | j :: rest =>
    match featureElem c j with
    | .ok f =>
      (match decodeFeatures c rest with
       | .ok fs => .ok (f :: fs)
       | .err e => .err e
       | .panic s => .panic s)
    | .err e => .err e
    | .panic s => .panic s

def lookupKey (k : String) : Members → Option Json
  | [] => none
  | (k', v) :: ms => if k' = k then some v else lookupKey k ms

/-- "type" of a feature collection into `fc.Type` (initially "") -/
def fcTypeOf (c : Codec) : Option Json → R String
  | none => .ok ""
  | some (.str s) => .ok s
  | some .null => .ok ""
  | some _ =>
    match c with
    | .json => .err .json
    | .bson => .ok ""              -- StringValueOK: not a string → ""

def fcBBoxOf (c : Codec) : Option Json → R (Option (List UInt64))
  | none => .ok none
  | some v =>
    match bboxOf c v with
    | some bb => .ok bb
    | none => .err .json

def fcFeaturesOf (c : Codec) : Option Json → R (Option (List (Option Feature)))
  | none => .ok none
  | some .null => .ok none
  | some (.arr l) => (decodeFeatures c l).map some
  | some _ => .err .json

/-- the foreign members into `ExtraMembers map[string]interface{}` (nil when there are none) -/
def fcExtrasOf (c : Codec) (ms : Members) : R (Option Members) :=
  match ms with
  | [] => .ok none
  | _ =>
    if hasBadMembers ms = true then .err .json
    else if c = .json ∧ hasInfMembers ms = true then .err .json else .ok (some (valOfMembers ms))

def reservedKey (k : String) : Bool := k == "type" || k == "bbox" || k == "features"

/-- the `for key, value := range tmp` loop over the top-level members, which went through a
    `map[string]RawMessage` (exact keys; duplicates: the last wins — `normKeys`).  Go visits the map
    in random order and every key is handled independently of the others, so the loop is modelled
    key by key: "type", "bbox", "features", then the foreign members.  When more than one member
    fails, WHICH failure is reported (an error or a panic) is the model's choice — see `fcMayErr`,
    `fcMayPanic`. -/
def decodeFCMap (c : Codec) (m : Members) : R FC :=
  match fcTypeOf c (lookupKey "type" m) with
  | .err e => .err e
  | .panic s => .panic s
  | .ok typ =>
    match fcBBoxOf c (lookupKey "bbox" m) with
    | .err e => .err e
    | .panic s => .panic s
    | .ok bb =>
      match fcFeaturesOf c (lookupKey "features" m) with
      | .err e => .err e
      | .panic s => .panic s
      | .ok fs =>
        match fcExtrasOf c (m.filter fun kv => !reservedKey kv.1) with
        | .err e => .err e
        | .panic s => .panic s
        | .ok ex => .ok { typ := typ, bbox := bb, features := fs, extra := ex }

/-- some top-level member fails with an error (so that Go's random map order may report the error
    even though another member would panic) -/
def fcMayErr (c : Codec) (m : Members) : Bool :=
  (match fcTypeOf c (lookupKey "type" m) with | .err _ => true | _ => false) ||
  (match fcBBoxOf c (lookupKey "bbox" m) with | .err _ => true | _ => false) ||
  (match fcFeaturesOf c (lookupKey "features" m) with | .err _ => true | _ => false) ||
  (match fcExtrasOf c (m.filter fun kv => !reservedKey kv.1) with | .err _ => true | _ => false)

/-- some top-level member panics when it is decoded -/
def fcMayPanic (c : Codec) (m : Members) : Bool :=
  match fcFeaturesOf c (lookupKey "features" m) with
  | .panic _ => true
  | _ => false

/-- the error classes of the top-level members that fail, one per failing member ("type", "bbox",
    "features", the foreign members): Go's random map order reports ONE of them — and only one of
    them; with a single failing member the reported class is determined. -/
def fcErrClasses (c : Codec) (m : Members) : List Err :=
  (match fcTypeOf c (lookupKey "type" m) with | .err e => [e] | _ => []) ++
  (match fcBBoxOf c (lookupKey "bbox" m) with | .err e => [e] | _ => []) ++
  (match fcFeaturesOf c (lookupKey "features" m) with | .err e => [e] | _ => []) ++
  (match fcExtrasOf c (m.filter fun kv => !reservedKey kv.1) with | .err e => [e] | _ => [])

/-- `(*FeatureCollection).UnmarshalJSON(data)` / `UnmarshalBSON`. -/
def fcOfDoc (c : Codec) (rawNull : Bool) (j : Json) : R FC :=
  if rawNull then .ok { typ := "" } else
  match j with
  | .null =>
    (match c with
     | .json => .err .notType      -- nil map, Type ""
     | .bson => .err .json)
  | .obj ms =>
    (match decodeFCMap c (normKeys ms) with
     | .ok fc => if fc.typ ≠ "FeatureCollection" then .err .notType else .ok fc
     | .err e => .err e
     | .panic s => .panic s)
  | _ => .err .json

/-- `var fc *FeatureCollection; json.Unmarshal(data, &fc)`. -/
def fcPtrOfDoc (j : Json) : R (Option FC) :=
  match j with
  | .null => .ok none
  | j => (fcOfDoc .json false j).map some

/-! ### bbox.go -/

/-- `NewBBox(b)` -/
def newBBox (min max : Pt UInt64) : List UInt64 := [min.x, min.y, max.x, max.y]

/-- `BBox.Valid()`: present, at least 4 elements, an even number of them -/
def bboxValid : Option (List UInt64) → Bool
  | none => false
  | some l => decide (l.length ≥ 4) && l.length % 2 == 0

/-- `bb[i]`: an index expression panics beyond the length -/
def bboxAt (l : List UInt64) (i : Nat) : R UInt64 :=
  match l[i]? with
  | some x => .ok x
  | none => .panic "index out of range"

/-- `BBox.Bound()`: `if !bb.Valid() { return orb.Bound{} }`, then `bb[0], bb[1], bb[mid], bb[mid+1]`
    with `mid := len(bb) / 2`. -/
def bboxBound (bb : Option (List UInt64)) : R (Pt UInt64 × Pt UInt64) :=
  if !bboxValid bb then .ok (⟨0, 0⟩, ⟨0, 0⟩) else
  let l := bb.getD []
  let mid := l.length / 2
  (bboxAt l 0).bind fun x0 => (bboxAt l 1).bind fun y0 =>
  (bboxAt l mid).bind fun x1 => (bboxAt l (mid + 1)).bind fun y1 =>
  .ok (⟨x0, y0⟩, ⟨x1, y1⟩)

/-! ### what a value denotes after a round trip -/

/-- ring and bound come back as the one-ring polygon -/
def canonG : G → G
  | .ring r => .polygon [r]
  | .bound a b => .polygon [boundRing a b]
  | .collection gs => .collection (canonGs gs)
  | g => g
where
  canonGs : List G → List G
    | [] => []
    | g :: gs => canonG g :: canonGs gs

/-- top level: an empty (or nil) collection comes back as the null geometry; a typed nil slice
    comes back as the same typed nil; a nil ring as the polygon with one empty ring. -/
def canonV : V → V
  | .nilIface => .nilIface
  | .nilSlice .collection => .nilIface
  | .nilSlice .ring => .val (.polygon [[]])
  | .nilSlice k => .nilSlice k
  | .val (.collection []) => .nilIface
  | .val g => .val (canonG g)

def canonBBox : Option (List UInt64) → Option (List UInt64)
  | some (b :: bs) => some (b :: bs)
  | _ => none

def canonProps : Option Members → Option Members
  | some (p :: ps) => some (normKeys (valOfMembers (p :: ps)))
  | _ => none

/-- decoded feature: empty properties come back as a nil map, an empty bbox as nil -/
def canonF (f : Feature) : Feature :=
  { id := f.id.map valOf, typ := "Feature", bbox := canonBBox f.bbox, geom := canonV f.geom,
    props := canonProps f.props }

def canonFC (fc : FC) : FC :=
  { typ := "FeatureCollection", bbox := fc.bbox,
    features := some ((fc.features.getD []).map fun f => f.map canonF),
    extra := canonProps fc.extra }

/-! ### predicates of the quantifier -/

def finitePt (p : Pt UInt64) : Bool := finite p.x && finite p.y

def isEmptyColl : G → Bool
  | .collection [] => true
  | _ => false

mutual
/-- every coordinate is finite, and no collection has an EMPTY collection as a member (such a
    member is written as `null`, see `geom_roundtrip_nested_empty_false`). -/
def okG : G → Bool
  | .point p => finitePt p
  | .multiPoint ps | .lineString ps | .ring ps => ps.all finitePt
  | .multiLineString ls | .polygon ls => ls.all (·.all finitePt)
  | .multiPolygon ps => ps.all (·.all (·.all finitePt))
  | .bound a b => finitePt a && finitePt b
  | .collection gs => okGs gs
def okGs : List G → Bool
  | [] => true
  | g :: gs => !isEmptyColl g && okG g && okGs gs
end

mutual
/-- every coordinate is finite (the property's quantifier on geometries) -/
def finiteG : G → Bool
  | .point p => finitePt p
  | .multiPoint ps | .lineString ps | .ring ps => ps.all finitePt
  | .multiLineString ls | .polygon ls => ls.all (·.all finitePt)
  | .multiPolygon ps => ps.all (·.all (·.all finitePt))
  | .bound a b => finitePt a && finitePt b
  | .collection gs => finiteGs gs
def finiteGs : List G → Bool
  | [] => true
  | g :: gs => finiteG g && finiteGs gs
end

def okV : V → Bool
  | .val g => okG g
  | .nilSlice .point | .nilSlice .bound => false      -- no such Go value
  | _ => true

mutual
/-- no multi-geometry of length 0: the bson codec's `omitempty` drops the coordinates of those
    (see `bson_empty_coordinates_false`) -/
def nonEmptyMulti : G → Bool
  | .multiPoint ps | .lineString ps => !ps.isEmpty
  | .multiLineString ls | .polygon ls => !ls.isEmpty
  | .multiPolygon ps => !ps.isEmpty
  | .collection gs => nonEmptyMultis gs
  | _ => true
def nonEmptyMultis : List G → Bool
  | [] => true
  | g :: gs => nonEmptyMulti g && nonEmptyMultis gs
end

/-- what the bson round trip needs on top of `okV` -/
def okVB : V → Bool
  | .val g => nonEmptyMulti g
  | .nilSlice _ => false
  | .nilIface => true

mutual
/-- a property / id / foreign-member value as Go holds it: finite numbers, object keys strictly
    increasing (a Go map, written key-sorted). -/
def okVal : Json → Bool
  | .num b => finite b
  | .arr l => okVals l
  | .obj ms => okMembers ms
  | .bad => false
  | _ => true
def okVals : List Json → Bool
  | [] => true
  | j :: js => okVal j && okVals js
def okMembers : Members → Bool
  | [] => true
  | (k, v) :: ms => okVal v && (match ms with | [] => true | (k', _) :: _ => decide (k < k')) && okMembers ms
end

/-- id ∈ {absent, string, number} -/
def okId : Option Json → Bool
  | none => true
  | some (.str _) => true
  | some (.num b) => finite b
  | _ => false

def okFeature (f : Feature) : Bool :=
  okId f.id && okV f.geom && (f.bbox.getD []).all finite && okMembers (f.props.getD [])

def okFC (fc : FC) : Bool :=
  (fc.bbox.getD []).all finite &&
  (fc.features.getD []).all (fun f => match f with | some f => okFeature f | none => false) &&
  okMembers (fc.extra.getD []) && (fc.extra.getD []).all (fun kv => !reservedKey kv.1)

/-- what the bson round trip needs on top of `okFeature` / `okFC` (no empty multi-geometry) -/
def okFeatureB (f : Feature) : Bool := okVB f.geom

def okFCB (fc : FC) : Bool :=
  (fc.features.getD []).all fun f => match f with | some f => okFeatureB f | none => true

/-- no geometry is a typed nil ring (`Polygon{nil}` is written `[null]`, observed as `[[]]`) -/
def noNilRing : V → Bool
  | .nilSlice .ring => false
  | _ => true

/-! ### RFC 7946 shape of a geometry document -/

/-- `coordinates` nested exactly `d` deep: depth 1 is a position `[x, y]` -/
def coordDepth : Nat → Json → Bool
  | 0, _ => false
  | 1, .arr [.num _, .num _] => true
  | d+1, .arr l => d ≥ 1 && allDepth d l
  | _, _ => false
where
  allDepth (d : Nat) : List Json → Bool
    | [] => true
    | j :: js => coordDepth d j && allDepth d js

def depthOfType (ty : String) : Option Nat :=
  match ty with
  | "Point" => some 1 | "MultiPoint" => some 2 | "LineString" => some 2
  | "MultiLineString" => some 3 | "Polygon" => some 3 | "MultiPolygon" => some 4
  | _ => none

mutual
/-- a well-formed geometry object: `{"type": T, "coordinates": c}` with `c` nested `depth T` deep,
    or `{"type":"GeometryCollection","geometries":[…well-formed…]}` -/
def wellformed : Json → Bool
  | .obj [("type", .str ty), ("coordinates", c)] =>
    (match depthOfType ty with
     | some d => coordDepth d c
     | none => false)
  | .obj [("type", .str "GeometryCollection"), ("geometries", .arr l)] => wellformedList l
  | _ => false
def wellformedList : List Json → Bool
  | [] => true
  | j :: js => wellformed j && wellformedList js
end

end Orb.GeoJSON
