/-
  Orb.ClipOptions — model of clip/options.go and of the option loop at the head of clip.LineString /
  clip.MultiLineString (clip/helpers.go).  Core Lean only.

      type options struct { openBound bool }
      type Option func(*options)
      func OpenBound(yes bool) Option { return func(o *options) { o.openBound = yes } }

      open := false
      if len(opts) > 0 {
          o := &options{}                      // a FRESH value per call: no state survives a call
          for _, opt := range opts { opt(o) }  // in list order: a later option overwrites an earlier one
          open = o.openBound
      }

  The package exports one constructor of `Option` values, `OpenBound`; a caller (outside the package the
  type `options` is not nameable) can build option lists from `OpenBound(true)` / `OpenBound(false)` only
  (and `nil`, which panics when called — not generated).  So an option list is a list of Booleans here.
  What the model says, and what the harness checks call by call (ops `line` / `mls`: with the option
  list spelled out in the case, or a spelling chosen per case): the clip depends on the option list only through
  `applyOptions` = the value of the LAST entry, `false` for the empty list — and on nothing else, in
  particular not on the options of any earlier call.
-/
import Orb.Clip

namespace Orb.Clip
open Orb Orb.Core

/-- `type options struct { openBound bool }` -/
structure Options where
  openBound : Bool
deriving Repr, DecidableEq

/-- an `Option` value: the closure returned by `OpenBound(yes)` -/
inductive Opt where
  | openBound (yes : Bool)
deriving Repr, DecidableEq

/-- the argument `yes` of `OpenBound(yes)` -/
def Opt.yes : Opt → Bool
  | .openBound y => y

/-- calling the closure: `o.openBound = yes` -/
def Opt.apply (o : Options) : Opt → Options
  | .openBound yes => { o with openBound := yes }

/-- the option loop: the flag `open` that `line` is called with -/
def applyOptions (opts : List Opt) : Bool :=
  if opts.length > 0 then (opts.foldl Opt.apply ⟨false⟩).openBound else false

/-- the option list `[OpenBound b₁, …, OpenBound bₙ]` -/
def optsOfBools (bs : List Bool) : List Opt := bs.map Opt.openBound

section entry
variable {α : Type} [Add α] [Sub α] [Mul α] [Div α] [LT α] [LE α] [DecidableLT α] [DecidableLE α] [BEq α]
  [Min α] [Max α]

/-- `clip.LineString(b, ls, opts...)` -/
def lineStringOpts (box : Bound α) (opts : List Opt) (ls : List (Pt α)) : Option (List (List (Pt α))) :=
  lineString box (applyOptions opts) ls

/-- `clip.MultiLineString(b, mls, opts...)` -/
def multiLineStringOpts (box : Bound α) (opts : List Opt) (mls : List (List (Pt α))) :
    Option (List (List (Pt α))) :=
  multiLineString box (applyOptions opts) mls

end entry

end Orb.Clip
