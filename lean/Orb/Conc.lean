/-
  Orb.Conc — the concurrency model for C19: a shared read-only structure `T` and any number of
  threads, each with its own private state, interleaved by an arbitrary schedule.  A thread's step
  may READ the shared structure but can only WRITE its own state — this frame condition is what the
  regenerated write-set facts (`Generated/Writes.lean`) tie to the Go code.
-/
namespace Orb.Conc

/-- the system: the shared tree and one private state per thread id -/
structure Sys (T S : Type) where
  tree : T
  st : Nat → S

/-- thread `i` takes one step: it reads the tree and rewrites only its own state -/
def step {T S : Type} (f : T → S → S) (s : Sys T S) (i : Nat) : Sys T S :=
  { s with st := fun j => if j = i then f s.tree (s.st i) else s.st j }

/-- run a schedule (the list of thread ids in the order in which they step) -/
def run {T S : Type} (f : T → S → S) (s : Sys T S) : List Nat → Sys T S
  | [] => s
  | i :: rest => run f (step f s i) rest

/-- `f` applied `n` times -/
def iter {S : Type} (g : S → S) : Nat → S → S
  | 0, x => x
  | n+1, x => iter g n (g x)

/-- A thread that answers queries: its state is the queries still to do and the answers so far. -/
structure QState (Q A : Type) where
  todo : List Q
  done : List A

/-- one step: answer the next query against the tree -/
def answerStep {T Q A : Type} (answer : T → Q → A) (t : T) (s : QState Q A) : QState Q A :=
  match s.todo with
  | [] => s
  | q :: rest => ⟨rest, s.done ++ [answer t q]⟩

end Orb.Conc
