/-
  Orb.Conc — the concurrency model for C19: a shared structure `T` and any number of threads, each
  with its own private state, interleaved by an arbitrary schedule (sequentially consistent
  interleaving of atomic steps; the Go memory model is NOT formalised).

  Two kinds of step:
   * `step`  : a thread READS the shared structure and rewrites only its own state.  Here the frame
               condition is built into the type (`f : T → S → S`), so theorems about `step`/`run`
               say nothing about whether the Go code writes the tree.
   * `stepW` : a thread's step returns a NEW shared structure as well (`f : T → S → T × S`): a query
               that caches something in the tree, reuses a heap stored in the tree, … is expressible.
               The frame condition is then a real hypothesis (`FrameOn`), and it is false for such
               queries (see `OrbProofs/C19.lean`, `frame_condition_is_needed`).

  The abstract query machine (`Instr`, `Thread`, `instrStep`) refines a query into a sequence of
  write instructions; WHERE a write lands (private memory of the thread / the shared memory) is a
  tag on the instruction, WHAT it writes is an arbitrary function of everything the thread can read.
  `OrbProofs/C19.lean` ties the tags to the write table regenerated from the Go source.
-/
namespace Orb.Conc

/-- the system: the shared tree and one private state per thread id -/
structure Sys (T S : Type) where
  tree : T
  st : Nat → S

/-- thread `i` takes one step: it reads the tree and rewrites only its own state -/
def step {T S : Type} (f : T → S → S) (s : Sys T S) (i : Nat) : Sys T S :=
  { s with st := fun j => if j = i then f s.tree (s.st i) else s.st j }

/-- run a schedule (the list of thread ids in the order in which they step) -/
def run {T S : Type} (f : T → S → S) (s : Sys T S) : List Nat → Sys T S
  | [] => s
  | i :: rest => run f (step f s i) rest

/-- `f` applied `n` times -/
def iter {S : Type} (g : S → S) : Nat → S → S
  | 0, x => x
  | n+1, x => iter g n (g x)

/-- A thread that answers queries: its state is the queries still to do and the answers so far. -/
structure QState (Q A : Type) where
  todo : List Q
  done : List A

/-- one step: answer the next query against the tree -/
def answerStep {T Q A : Type} (answer : T → Q → A) (t : T) (s : QState Q A) : QState Q A :=
  match s.todo with
  | [] => s
  | q :: rest => ⟨rest, s.done ++ [answer t q]⟩

/-! ### steps that may write the shared structure -/

/-- thread `i` takes one step that may also WRITE the shared structure -/
def stepW {T S : Type} (f : T → S → T × S) (s : Sys T S) (i : Nat) : Sys T S :=
  { tree := (f s.tree (s.st i)).1
    st := fun j => if j = i then (f s.tree (s.st i)).2 else s.st j }

/-- run a schedule of writing steps -/
def runW {T S : Type} (f : T → S → T × S) (s : Sys T S) : List Nat → Sys T S
  | [] => s
  | i :: rest => runW f (stepW f s i) rest

/-- The frame condition, relative to an invariant `P` of thread states: a step taken from a state
    satisfying `P` leaves the shared structure as it is and re-establishes `P`. -/
def FrameOn {T S : Type} (P : S → Prop) (f : T → S → T × S) : Prop :=
  ∀ t s, P s → (f t s).1 = t ∧ P (f t s).2

/-! ### the abstract query machine -/

/-- where a write lands -/
inductive Target where
  | priv      -- memory only this thread can reach (locals, per-call allocations, the caller's buffer)
  | shared    -- memory other threads can reach (the tree, package-level state, unknown)
deriving DecidableEq, Repr

/-- One write instruction.  The written value is an arbitrary function of the shared memory and of
    the thread's private memory (reads are unrestricted). -/
structure Instr (Sh Pr : Type) where
  target : Target
  updPriv : Sh → Pr → Pr
  updShared : Sh → Pr → Sh

def Instr.exec {Sh Pr : Type} (ins : Instr Sh Pr) (sh : Sh) (pr : Pr) : Sh × Pr :=
  match ins.target with
  | .priv => (sh, ins.updPriv sh pr)
  | .shared => (ins.updShared sh pr, pr)

/-- a thread: the write instructions it still has to execute and its private memory -/
structure Thread (Sh Pr : Type) where
  prog : List (Instr Sh Pr)
  mem : Pr

/-- one step of a thread: execute its next write instruction (interleaving is per instruction, not
    per query) -/
def instrStep {Sh Pr : Type} (sh : Sh) (th : Thread Sh Pr) : Sh × Thread Sh Pr :=
  match th.prog with
  | [] => (sh, th)
  | ins :: rest => ((ins.exec sh th.mem).1, ⟨rest, (ins.exec sh th.mem).2⟩)

end Orb.Conc
