/-
  Orb.Geo — model of package geo: distance.go, area.go, length.go (+ internal/length),
  bound.go.  Core Lean only.

  The code mixes float arithmetic with libm calls.  The model is polymorphic in the
  number type `α` and takes the external functions (`math.Sin/Cos/Asin/Atan2/Sqrt/Abs/
  Max/Min`) and the constants `math.Pi`, `orb.EarthRadius` as the fields of `Fn α`:

  * over a field, with named hypotheses on those symbols, the algebraic theorems of
    `OrbProofs/C18.lean` are proved;
  * over `Float`, with the symbols instantiated by the *values Go's libm returned*
    (a lookup table shipped with every case), the very same definitions redo the
    arithmetic of the Go code bit for bit (`Driver/C18.lean`).

  Operator order follows the Go source exactly (Go evaluates `a*b/c` as `(a*b)/c`, constant
  sub-expressions such as `2*math.Pi` are folded exactly).
-/
import Orb.Basic

namespace Orb.Geo
open Orb

/-- External functions and constants of package geo. -/
structure Fn (α : Type) where
  sin : α → α
  cos : α → α
  asin : α → α
  atan2 : α → α → α
  sqrt : α → α
  abs : α → α
  max : α → α → α
  min : α → α → α
  pi : α
  /-- `orb.EarthRadius` -/
  R : α

section model
variable {α : Type} [Add α] [Sub α] [Mul α] [Div α] [Neg α] [LT α] [DecidableLT α] [BEq α]
  [OfNat α 0] [OfNat α 1] [OfNat α 2] [OfNat α 90] [OfNat α 180]

/-- `deg2rad(d) = d * math.Pi / 180.0` -/
def deg2rad (F : Fn α) (d : α) : α := d * F.pi / 180

/-- `rad2deg(r) = 180.0 * r / math.Pi` -/
def rad2deg (F : Fn α) (r : α) : α := 180 * r / F.pi

/-! ### distance.go -/

/-- `geo.Distance`: equirectangular approximation with the antimeridian fold. -/
def distance (F : Fn α) (p1 p2 : Pt α) : α :=
  let dLat := deg2rad F (p1.y - p2.y)
  let dLon := deg2rad F (p1.x - p2.x)
  let dLon := F.abs dLon
  let dLon := if F.pi < dLon then 2 * F.pi - dLon else dLon
  let x := dLon * F.cos (deg2rad F ((p1.y + p2.y) / 2))
  F.sqrt (dLat * dLat + x * x) * F.R

/-- the haversine `a` term -/
def havA (F : Fn α) (p1 p2 : Pt α) : α :=
  let dLat := deg2rad F (p1.y - p2.y)
  let dLon := deg2rad F (p1.x - p2.x)
  let dLat2Sin := F.sin (dLat / 2)
  let dLon2Sin := F.sin (dLon / 2)
  dLat2Sin * dLat2Sin + F.cos (deg2rad F p2.y) * F.cos (deg2rad F p1.y) * dLon2Sin * dLon2Sin

/-- `geo.DistanceHaversine`; `a = math.Min(a, 1)` guards against `a` rounding to `1 + ulp`
    for (nearly) antipodal points (fix eb6ce31). -/
def distanceHaversine (F : Fn α) (p1 p2 : Pt α) : α :=
  let a := havA F p1 p2
  let a := F.min a 1
  2 * F.R * F.atan2 (F.sqrt a) (F.sqrt (1 - a))

/-- `geo.Bearing`. -/
def bearing (F : Fn α) (src dst : Pt α) : α :=
  let dLon := deg2rad F (dst.x - src.x)
  let fromLatRad := deg2rad F src.y
  let toLatRad := deg2rad F dst.y
  let y := F.sin dLon * F.cos toLatRad
  let x := F.cos fromLatRad * F.sin toLatRad - F.sin fromLatRad * F.cos toLatRad * F.cos dLon
  rad2deg F (F.atan2 y x)

/-- `geo.Midpoint`. -/
def midpoint (F : Fn α) (p p2 : Pt α) : Pt α :=
  let dLon := deg2rad F (p2.x - p.x)
  let aLatRad := deg2rad F p.y
  let bLatRad := deg2rad F p2.y
  let x := F.cos bLatRad * F.cos dLon
  let y := F.cos bLatRad * F.sin dLon
  let r0 := deg2rad F p.x + F.atan2 y (F.cos aLatRad + x)
  let r1 := F.atan2 (F.sin aLatRad + F.sin bLatRad)
              (F.sqrt ((F.cos aLatRad + x) * (F.cos aLatRad + x) + y * y))
  ⟨rad2deg F r0, rad2deg F r1⟩

/-- `geo.PointAtBearingAndDistance`. -/
def pointAtBearingAndDistance (F : Fn α) (p : Pt α) (brg dist : α) : Pt α :=
  let aLat := deg2rad F p.y
  let aLon := deg2rad F p.x
  let bearingRadians := deg2rad F brg
  let distanceRatio := dist / F.R
  let sinLat := F.sin aLat * F.cos distanceRatio +
                F.cos aLat * F.sin distanceRatio * F.cos bearingRadians
  -- `sinLat = math.Max(math.Min(sinLat, 1), -1)`: rounding can push it marginally beyond ±1
  let sinLat := F.max (F.min sinLat 1) (-1)
  let bLat := F.asin sinLat
  let bLon := aLon + F.atan2 (F.sin bearingRadians * F.sin distanceRatio * F.cos aLat)
                              (F.cos distanceRatio - F.sin aLat * F.sin bLat)
  ⟨rad2deg F bLon, rad2deg F bLat⟩

/-- The loop of `geo.PointAtDistanceAlongLine` over the segments `(prev, p)`;
    `last` is the `(from, to)` pair of the last iteration. -/
def alongLoop (F : Fn α) (dist : α) : Pt α → List (Pt α) → α → (Pt α × Pt α) → Pt α × α
  | _, [], _, (a, b) => (b, bearing F a b)
  | prev, p :: rest, travelled, _ =>
    let actual := distanceHaversine F prev p
    let expected := dist - travelled
    if expected < actual then
      let brg := bearing F prev p
      (pointAtBearingAndDistance F prev brg expected, brg)
    else alongLoop F dist p rest (travelled + actual) (prev, p)

/-- `geo.PointAtDistanceAlongLine` (panics on the empty line string). -/
def pointAtDistanceAlongLine (F : Fn α) (ls : List (Pt α)) (dist : α) : Res Unit (Pt α × α) :=
  match ls with
  | [] => .panic "empty LineString"
  | p0 :: rest =>
    if dist < 0 ∨ rest.isEmpty then .ok (p0, 0)
    -- `from, to` start as zero points; the loop runs at least once here
    else .ok (alongLoop F dist p0 rest 0 (⟨0, 0⟩, ⟨0, 0⟩))

/-! ### area.go -/

/-- Go's `!=` on `[2]float64`. -/
def ptNe (a b : Pt α) : Bool := !(a.x == b.x && a.y == b.y)

/-- The index triple `(lo, mi, hi)` chosen by the `if` chain of `ringArea` at iteration `i` of `l`. -/
def ringIdx (l i : Nat) : Nat × Nat × Nat :=
  if i == l - 3 then (l - 3, l - 2, 0)
  else if i == l - 2 then (l - 2, 0, 0)
  else if i == l - 1 then (0, 0, 1)
  else (i, i + 1, i + 2)

/-- One summand of the loop: `(deg2rad(r[hi][0]) - deg2rad(r[lo][0])) * math.Sin(deg2rad(r[mi][1]))`. -/
def ringTerm (F : Fn α) (lo mi hi : Pt α) : α :=
  (deg2rad F hi.x - deg2rad F lo.x) * F.sin (deg2rad F mi.y)

/-- The loop bound `l` of `ringArea`: one more than the length when the ring is not closed. -/
def ringL (r : List (Pt α)) : Nat :=
  if ptNe (r.getD 0 ⟨0, 0⟩) (r.getD (r.length - 1) ⟨0, 0⟩) then r.length + 1 else r.length

/-- The accumulator `area` of `ringArea` after the loop. -/
def ringLoop (F : Fn α) (r : List (Pt α)) : α :=
  let l := ringL r
  (List.range l).foldl (fun area i =>
    let t := ringIdx l i
    area + ringTerm F (r.getD t.1 ⟨0, 0⟩) (r.getD t.2.1 ⟨0, 0⟩) (r.getD t.2.2 ⟨0, 0⟩)) 0

/-- `geo.ringArea` (= `geo.SignedArea`): the lo/mi/hi rewiring closes the ring implicitly. -/
def ringArea (F : Fn α) (r : List (Pt α)) : α :=
  if r.length < 3 then 0
  else -(ringLoop F r) * F.R * F.R / 2

/-- `geo.polygonArea`: `|outer| − |hole₁| − |hole₂| − …`, in this order. -/
def polygonArea (F : Fn α) (p : List (List (Pt α))) : α :=
  match p with
  | [] => 0
  | o :: hs => hs.foldl (fun sum h => sum - F.abs (ringArea F h)) (F.abs (ringArea F o))

/-- `geo.multiPolygonArea`. -/
def multiPolygonArea (F : Fn α) (mp : List (List (List (Pt α)))) : α :=
  mp.foldl (fun sum p => sum + polygonArea F p) 0

/-- `Bound.ToRing`. -/
def toRing (lo hi : Pt α) : List (Pt α) := [lo, ⟨hi.x, lo.y⟩, hi, ⟨lo.x, hi.y⟩, lo]

/-- `geo.Area` on a non-nil geometry (`collectionArea` is the `.collection` case). -/
def area (F : Fn α) : Geom α → α
  | .point _ | .multiPoint _ | .lineString _ | .multiLineString _ => 0
  | .ring r => F.abs (ringArea F r)
  | .polygon p => polygonArea F p
  | .multiPolygon mp => multiPolygonArea F mp
  | .bound lo hi => F.abs (ringArea F (toRing lo hi))
  | .collection gs => go gs 0
where
  go : List (Geom α) → α → α
    | [], acc => acc
    | g :: gs, acc => go gs (acc + area F g)

/-- `geo.Area` including the nil interface and typed nil slices (all have area 0;
    a typed nil ring goes through `math.Abs(ringArea(nil)) = math.Abs(0)`). -/
def areaV (F : Fn α) : GVal α → α
  | .nilIface => 0
  | .nilSlice .ring => F.abs 0
  | .nilSlice _ => 0
  | .val g => area F g

/-! ### length.go / internal/length -/

/-- `lineStringLength`: `Σ_{i ≥ 1} df(ls[i], ls[i-1])`. -/
def lineLength (df : Pt α → Pt α → α) (ls : List (Pt α)) : α :=
  match ls with
  | [] => 0
  | p :: rest => go p rest 0
where
  go : Pt α → List (Pt α) → α → α
    | _, [], sum => sum
    | prev, q :: rest, sum => go q rest (sum + df q prev)

/-- `polygonLength`. -/
def polygonLength (df : Pt α → Pt α → α) (p : List (List (Pt α))) : α :=
  p.foldl (fun sum r => sum + lineLength df r) 0

/-- `length.Length` on a non-nil geometry. -/
def length (df : Pt α → Pt α → α) : Geom α → α
  | .point _ | .multiPoint _ => 0
  | .lineString ls => lineLength df ls
  | .multiLineString ls => ls.foldl (fun sum l => sum + lineLength df l) 0
  | .ring r => lineLength df r
  | .polygon p => polygonLength df p
  | .multiPolygon mp => mp.foldl (fun sum p => sum + polygonLength df p) 0
  | .bound lo hi => lineLength df (toRing lo hi)
  | .collection gs => go gs 0
where
  go : List (Geom α) → α → α
    | [], acc => acc
    | g :: gs, acc => go gs (acc + length df g)

/-- `geo.Length` / `geo.LengthHaversine`. -/
def geoLength (F : Fn α) (g : Geom α) : α := length (distance F) g
def geoLengthHaversine (F : Fn α) (g : Geom α) : α := length (distanceHaversine F) g

/-! ### bound.go -/

/-- `geo.NewBoundAroundPoint`. -/
def newBoundAroundPoint (F : Fn α) (center : Pt α) (dist : α) : Pt α × Pt α :=
  let minLatitude := deg2rad F (-90)
  let maxLatitude := deg2rad F 90
  let minLongitude := deg2rad F (-180)
  let maxLongitude := deg2rad F 180
  let radDist := dist / F.R
  let radLat := deg2rad F center.y
  let radLon := deg2rad F center.x
  let minLat := radLat - radDist
  let maxLat := radLat + radDist
  if minLatitude < minLat ∧ maxLat < maxLatitude then
    let deltaLon := F.asin (F.sin radDist / F.cos radLat)
    let minLon := radLon - deltaLon
    let minLon := if minLon < minLongitude then minLon + 2 * F.pi else minLon
    let maxLon := radLon + deltaLon
    let maxLon := if maxLongitude < maxLon then maxLon - 2 * F.pi else maxLon
    (⟨rad2deg F minLon, rad2deg F minLat⟩, ⟨rad2deg F maxLon, rad2deg F maxLat⟩)
  else
    let minLat := F.max minLat minLatitude
    let maxLat := F.min maxLat maxLatitude
    (⟨rad2deg F minLongitude, rad2deg F minLat⟩, ⟨rad2deg F maxLongitude, rad2deg F maxLat⟩)

/-- `geo.BoundPad`; `mPerDeg` is the literal `111131.75`. -/
def boundPad (F : Fn α) (mPerDeg : α) (lo hi : Pt α) (meters : α) : Pt α × Pt α :=
  let dy := meters / mPerDeg
  let dx := dy / F.cos (deg2rad F hi.y)
  let dx := F.max dx (dy / F.cos (deg2rad F lo.y))
  let lox := lo.x - dx
  let loy := lo.y - dy
  let hix := hi.x + dx
  let hiy := hi.y + dy
  (⟨F.max lox (-180), F.max loy (-90)⟩, ⟨F.min hix 180, F.min hiy 90⟩)

/-- `geo.BoundHeight`. -/
def boundHeight (mPerDeg : α) (lo hi : Pt α) : α := mPerDeg * (hi.y - lo.y)

/-- `geo.BoundWidth`. -/
def boundWidth (F : Fn α) (lo hi : Pt α) : α :=
  let c := (lo.y + hi.y) / 2
  distance F ⟨lo.x, c⟩ ⟨hi.x, c⟩

/-! ### specification side (shared by the theorems and by the driver's executable property) -/

/-- `Σ_k (λ_{k+1} − λ_{k−1}) · sin φ_k` over the vertex list read cyclically
    (λ, φ in radians via `deg2rad`). -/
def cyclicSum (F : Fn α) (v : List (Pt α)) : α :=
  let m := v.length
  (List.range m).foldl (fun acc k =>
    acc + ringTerm F (v.getD ((k + m - 1) % m) ⟨0, 0⟩) (v.getD k ⟨0, 0⟩) (v.getD ((k + 1) % m) ⟨0, 0⟩)) 0

/-- The distinct vertices of a ring as `ringArea` sees them: the repeated closing vertex dropped. -/
def openVerts (r : List (Pt α)) : List (Pt α) :=
  if ptNe (r.getD 0 ⟨0, 0⟩) (r.getD (r.length - 1) ⟨0, 0⟩) then r else r.dropLast

/-- A vertex list closed by repeating its first vertex. -/
def closeRing (v : List (Pt α)) : List (Pt α) :=
  match v with
  | [] => []
  | p :: _ => v ++ [p]

end model

end Orb.Geo
