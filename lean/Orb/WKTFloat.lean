/-
  Orb.WKTFloat — the LAYOUT half of fmt's `%g` on a finite float64, as written in
  strconv/ftoa.go (go1.23: `FormatFloat(x, 'g', -1, 64)`, which is what `fmt.Fprintf("%g", x)` prints
  when no flag, width or precision is given: fmt/print.go `fmtFloat` → fmt/format.go `fmtFloat` →
  `strconv.AppendFloat(buf, v, 'g', -1, 64)`; the post-processing in format.go only acts under the
  `#`, `+`, ` ` flags or a width).

  `%g` = (1) shortest-digit generation (Ryū / Grisu with a big-decimal fallback): a sign, a list of
  decimal digits `d` (no leading zero; empty for ±0) and a decimal-point position `dp` with
  `|x| = 0.d₀d₁… × 10^dp`; then (2) a layout of `(neg, d, dp)` as text: `%e` form when the exponent
  `dp-1` is `< -4` or `≥ 6` ("if precision was the shortest possible, use precision 6 for this
  decision"), `%f` form otherwise.  Step (2) is modelled here literally (`gLayout`); step (1) is NOT
  modelled: the theorems of OrbProofs.C04Float hold for EVERY digit list and every `dp`, so what
  remains assumed of Go is only that the text of a finite coordinate is `gLayout` of SOME
  `(neg, d, dp)` — checked on every correspondence case by `gShaped` below, which decodes Go's own
  text into `(neg, d, dp)` and lays it out again — and that `strconv.ParseFloat` maps that text back
  to the same bits.
-/
import Orb.WKT

namespace Orb.WKT

/-- `byte(k) + '0'` for a decimal digit (reduced mod 10 so that the model is total) -/
def digitByte (k : Nat) : UInt8 := UInt8.ofNat (48 + k % 10)

/-- the exponent digits of `%e`: at least two (`fmtE`: `case exp < 10`, `case exp < 100`, `default`) -/
def expDigits (e : Nat) : Str :=
  if e < 10 then [48, digitByte e]
  else if e < 100 then [digitByte (e / 10), digitByte e]
  else [digitByte (e / 100), digitByte (e / 10), digitByte e]

def signStr (neg : Bool) : Str := if neg then [45] else []

/-- `fmtE(dst, neg, digs, prec-1, 'e')` with `prec = digs.nd` (shortest): first digit (`0` if there is
    none), then `.` and the remaining digits if there are any, `e`, the sign of the exponent, its digits -/
def gFirst (d : List Nat) : UInt8 := match d with | [] => 48 | k :: _ => digitByte k
def gFrac (d : List Nat) : Str := match d with | _ :: k :: rest => 46 :: (k :: rest).map digitByte | _ => []
def gExp (d : List Nat) (dp : Int) : Int := if d.isEmpty then 0 else dp - 1

def gFmtE (neg : Bool) (d : List Nat) (dp : Int) : Str :=
  signStr neg ++ gFirst d :: (gFrac d ++ 101 :: (if gExp d dp < 0 then 45 else 43) :: expDigits (gExp d dp).natAbs)

/-- `fmtF(dst, neg, digs, max(digs.nd-digs.dp, 0))`: integer part (the first `dp` digits, padded with
    zeros; `0` when `dp ≤ 0`), then `.` and `prec` fraction digits (`d[dp+i]`, `0` outside the digits) -/
def gFmtF (neg : Bool) (d : List Nat) (dp : Int) : Str :=
  let intPart : Str :=
    if 0 < dp then (d.take dp.toNat).map digitByte ++ List.replicate (dp.toNat - d.length) 48 else [48]
  let prec : Nat := ((d.length : Int) - dp).toNat
  let fracPart : Str :=
    if 0 < prec then
      46 :: (List.range prec).map fun (i : Nat) =>
        let j : Int := dp + Int.ofNat i
        if 0 ≤ j ∧ j < (d.length : Int) then digitByte (d.getD j.toNat 0) else 48
    else []
  signStr neg ++ intPart ++ fracPart

/-- the `case 'g'` arm of `formatDigits` with `shortest = true`: `eprec = 6`, `exp := digs.dp - 1`,
    `if exp < -4 || exp >= eprec { %e } else { %f }` -/
def gLayout (neg : Bool) (d : List Nat) (dp : Int) : Str :=
  let exp := dp - 1
  if exp < -4 ∨ exp ≥ 6 then gFmtE neg d dp else gFmtF neg d dp

/-! ### decoding a text back into `(neg, d, dp)` (driver side: is Go's text in the image of `gLayout`?) -/

def digitVal? (b : UInt8) : Option Nat := if 48 ≤ b ∧ b ≤ 57 then some (b.toNat - 48) else none

def digitsVal? : Str → Option (List Nat)
  | [] => some []
  | b :: rest => do
    let k ← digitVal? b
    let ks ← digitsVal? rest
    pure (k :: ks)

def natOfDigits (ds : List Nat) : Nat := ds.foldl (fun acc k => acc * 10 + k) 0

/-- split at the first occurrence of `c` -/
def splitAt1 (c : UInt8) : Str → Option (Str × Str)
  | [] => none
  | b :: rest =>
    if b == c then some ([], rest) else
    match splitAt1 c rest with
    | some (a, z) => some (b :: a, z)
    | none => none

/-- a candidate `(neg, d, dp)` for a text; the caller re-lays it out and compares -/
def gDecode (s : Str) : Option (Bool × List Nat × Int) :=
  let (neg, body) := match s with | 45 :: r => (true, r) | _ => (false, s)
  match splitAt1 101 body with
  | some (mant, ex) =>
    -- exponent form `d[.ddd]e±dd`
    let (ip, fp) := match splitAt1 46 mant with | some (a, b) => (a, b) | none => (mant, [])
    match ex with
    | sg :: exd => do
      let a ← digitsVal? ip
      let b ← digitsVal? fp
      let e ← digitsVal? exd
      let ev : Int := if sg == 45 then - (natOfDigits e : Int) else (natOfDigits e : Int)
      pure (neg, a ++ b, ev + 1)
    | [] => none
  | none =>
    let (ip, fp) := match splitAt1 46 body with | some (a, b) => (a, b) | none => (body, [])
    do
      let a ← digitsVal? ip
      let b ← digitsVal? fp
      if a == [0] then
        let z := (b.takeWhile (· == 0)).length
        let d := b.dropWhile (· == 0)
        if d.isEmpty then pure (neg, [], 0) else pure (neg, d, - (z : Int))
      else
        -- `100000` is `d = [1], dp = 6`; keeping the zeros as digits lays out the same
        pure (neg, a ++ b, (a.length : Int))

/-- Go's text `s` of the float with bit pattern `bits` is `gLayout` of some `(neg, d, dp)` whose sign is
    the sign bit and whose digit list is in the normal form of a shortest-digit generator (no leading
    zero, no trailing zero; empty for ±0) -/
def gShaped (bits : UInt64) (s : Str) : Bool :=
  match gDecode s with
  | some (neg, d, dp) =>
    let d := (d.reverse.dropWhile (· == 0)).reverse
    d.head? != some 0 && gLayout neg d dp == s && neg == (bits.toNat / 2^63 == 1)
  | none => false

end Orb.WKT
