/-
  Orb.GeoJSONExt — two extensions of the GeoJSON model (`Orb.GeoJSON`), added in the second seeding
  round of C02:

  1. HAND-BUILT geometries.  `NewGeometry` is not the only way to get a `*geojson.Geometry`: its
     fields are exported, and `&geojson.Geometry{Coordinates: x}` is what the typed helper types
     themselves write.  `newGeometryMarshallDoc` therefore has its OWN conversion of rings, bounds
     and collections (geometry.go, the `switch g := g.Coordinates.(type)`), reached only by such
     values.  `HG` is a `geojson.Geometry` with arbitrary fields: any `Type` string, `Coordinates`
     holding any of the nine kinds (typed nils and the nil interface included), `Geometries` with
     hand-built members and nil pointers.  `hgMember` / `hgTopBson` give the document.

  2. RECEIVERS.  The decoders of `Orb.GeoJSON` are functions of the document only.  The Go methods
     decode INTO a receiver that may hold an earlier value (`var f Feature; for … { Decode(&f) }`,
     `json.Unmarshal` into a slice / struct whose elements exist).  `(*Feature)`, `(*FeatureCollection)`
     and the six typed helpers end every success path in a whole-value assignment
     (`*f = Feature{…}`, `*fc = FeatureCollection{}` + fields, `*p = Point(point)`): `featureInto`,
     `fcInto`, `typedInto`.  `(*Geometry).UnmarshalJSON` / `UnmarshalBSON` assign FIELD BY FIELD and
     only the field of the arm taken: `g.Coordinates` in the six coordinate arms, `g.Geometries` in
     the collection arm — the other field keeps what the receiver held (`GRecv.assign`).
-/
import Orb.GeoJSON

namespace Orb.GeoJSON
open Orb

/-! ### hand-built `geojson.Geometry` values -/

/-- A `*geojson.Geometry` as a caller can build it: a nil pointer (only meaningful as a member of
    `Geometries` or as a struct field), or the three fields. -/
inductive HG where
  | nilPtr
  | mk (ty : String) (coords : NG) (geoms : List HG)
deriving Repr, Inhabited

/-- what the `switch g := g.Coordinates.(type)` of `newGeometryMarshallDoc` leaves behind:
    `ng.Type`, the "coordinates" member as the serialiser writes it (none when `ng.Coordinates` is
    nil, or dropped by the bson `omitempty`), and the documents of `ng.Geometries` when
    `Coordinates` holds a collection (`NewGeometry(member)` each).
    Ring → `orb.Polygon{ring}`, Bound → `bound.ToPolygon()`: the same documents `NewGeometry` gives
    (`geomMemberN`), the conversion being written out a second time in the Go source. -/
def hgCoordsPart (c : Codec) : NG → String × Members × List Json
  | .nilIface => ("", [], [])
  | .nilCollection => ("GeometryCollection", [], [])
  | .collection gs => ("GeometryCollection", [], geomMembersN c gs)
  | .point p => ("Point", [("coordinates", ptJ p)], [])
  | .multiPoint ps => ("MultiPoint", if c = .bson ∧ lenN ps = 0 then [] else [("coordinates", nptsJ ps)], [])
  | .lineString ps => ("LineString", if c = .bson ∧ lenN ps = 0 then [] else [("coordinates", nptsJ ps)], [])
  | .multiLineString ls =>
    ("MultiLineString", if c = .bson ∧ lenN ls = 0 then [] else [("coordinates", nptssJ ls)], [])
  | .ring ps => ("Polygon", [("coordinates", .arr [nptsJ ps])], [])
  | .polygon rs => ("Polygon", if c = .bson ∧ lenN rs = 0 then [] else [("coordinates", nptssJ rs)], [])
  | .multiPolygon ps =>
    ("MultiPolygon", if c = .bson ∧ lenN ps = 0 then [] else [("coordinates", nptsssJ ps)], [])
  | .bound a b => ("Polygon", [("coordinates", .arr [ptsJ (boundRing a b)])], [])

/-- `newGeometryMarshallDoc(g)` through the serialiser, given the documents `gdocs` of the members
    of `g.Geometries`: `if len(g.Geometries) > 0 { ng.Geometries = g.Geometries; ng.Type =
    "GeometryCollection" }` — `Coordinates` stays; "geometries" is `omitempty`. -/
def hgBody (c : Codec) (coords : NG) (gdocs : List Json) : Json :=
  let part := hgCoordsPart c coords
  let ty := if gdocs.isEmpty then part.1 else "GeometryCollection"
  let gs := if gdocs.isEmpty then part.2.2 else gdocs
  .obj ([("type", .str ty)] ++ part.2.1 ++ (if gs.isEmpty then [] else [("geometries", .arr gs)]))

mutual
/-- a hand-built geometry as a MEMBER (`MarshalJSON`; `MarshalBSONValue`): a nil pointer is written
    `null` by encoding/json (the bson encoder calls the method on it: `hgHasNil`); the `null` short
    cut `g.Coordinates == nil && len(g.Geometries) == 0`; else `newGeometryMarshallDoc`. -/
def hgMember (c : Codec) : HG → Json
  | .nilPtr => .null
  | .mk _ coords geoms =>
    if coords.isNilIface && geoms.isEmpty then .null else hgBody c coords (hgMembers c geoms)
def hgMembers (c : Codec) : List HG → List Json
  | [] => []
  | h :: hs => hgMember c h :: hgMembers c hs
end

/-- `json.Marshal(g)` -/
def hgTopJson (h : HG) : Json := hgMember .json h

/-- `bson.Marshal(g)` = `MarshalBSON`: no `null` short cut -/
def hgTopBson : HG → Json
  | .nilPtr => .obj [("type", .str "")]      -- fix C02-4: the empty geometry document, as for `&Geometry{}`
  | .mk _ coords geoms => hgBody .bson coords (hgMembers .bson geoms)

/-- `bson.Marshal(struct{ G *geojson.Geometry `bson:"g"` }{g})`: the member through `MarshalBSONValue` -/
def hgWrapBson (h : HG) : Json := .obj [("g", hgMember .bson h)]

mutual
/-- some pointer (the value itself or a member at any depth) is nil: `MarshalBSON` /
    `MarshalBSONValue` have pointer receivers and read `g.Coordinates` first — the bson encoder
    calls them on the nil pointer (encoding/json does not: it writes `null`) -/
def hgHasNil : HG → Bool
  | .nilPtr => true
  | .mk _ _ gs => hgAnyNil gs
def hgAnyNil : List HG → Bool
  | [] => false
  | h :: hs => hgHasNil h || hgAnyNil hs
end

/-- `bson.Marshal` of the value (top level or as a struct field) panics: the bson encoder calls
    `MarshalBSON` / `MarshalBSONValue` on a nil `*Geometry`, and both read `g.Coordinates` first -/
def hgBsonPanics (_h : HG) : Bool := false   -- fix C02-4: a nil receiver is written as BSON null

mutual
/-- the geometry a CONSISTENT hand-built value stands for (`g.Geometry()`): only `Coordinates` set,
    or only `Geometries` with consistent members.  `none`: both set, or a nil pointer somewhere. -/
def hgValue : HG → Option NG
  | .nilPtr => none
  | .mk _ coords gs =>
    if coords.isNilIface then (hgValues gs).map .collection
    else if gs.isEmpty then some coords else none
def hgValues : List HG → Option (List NG)
  | [] => some []
  | h :: hs =>
    match hgValue h, hgValues hs with
    | some n, some ns => some (n :: ns)
    | _, _ => none
end

/-- `Coordinates` holds a collection WITHOUT members (`orb.Collection{}` / `orb.Collection(nil)`): the
    interface is not nil, so the `null` short cut is not taken, and `omitempty` drops the empty
    "geometries": the document is `{"type":"GeometryCollection"}` (where `NewGeometry` of the same
    value writes `null`) -/
def emptyCollCoords : NG → Bool
  | .nilCollection => true
  | .collection [] => true
  | _ => false

/-! ### receivers -/

/-- the fields of a `geojson.Geometry` used as a decode receiver -/
structure GRecv where
  ty : String := ""
  coords : Option V := none          -- `Coordinates` (none: the nil interface)
  geoms : Option (List G) := none    -- `Geometries` (none: nil), each member through `Geometry()`
deriving Repr, Inhabited

/-- `(*Geometry).Geometry()` -/
def GRecv.geometry (r : GRecv) : V :=
  match r.coords with
  | some v => v
  | none => .val (.collection (r.geoms.getD []))

/-- the decode took the "GeometryCollection" arm -/
def DG.isColl (d : DG) : Bool :=
  match d.v with
  | .val (.collection _) => true
  | _ => false

/-- the assignments of `UnmarshalJSON` / `UnmarshalBSON` after the switch: a coordinate arm sets
    `g.Coordinates` and clears `g.Geometries`, the collection arm sets `g.Geometries` and clears
    `g.Coordinates` (fix C02-3); then `g.Type = g.Geometry().GeoJSONType()`. -/
def GRecv.assign (r : GRecv) (d : DG) : GRecv :=
  let r' : GRecv :=
    match d.v with
    | .val (.collection gs) => { r with coords := none, geoms := if d.bare then none else some gs }
    | v => { r with coords := some v, geoms := none }
  { r' with ty := typeOfV r'.geometry }

/-- `g.UnmarshalJSON(data)` / `g.UnmarshalBSON(data)` with `g` holding `old`: the receiver
    afterwards (an error returns before any assignment). -/
def geomInto (c : Codec) (old : GRecv) (j : Json) : R GRecv := (decodeGeometry c j).map old.assign

/-- `f.UnmarshalJSON(data)` / `f.UnmarshalBSON(data)` with `*f` holding `old`: every success path
    (`null`, padded `null`, `featureUnmarshalFinish`) ends in `*f = Feature{…}`, a whole-value
    assignment; an error returns before it. -/
def featureInto (c : Codec) (rawNull : Bool) (old : Feature) (j : Json) : Feature :=
  match featureOfDoc c rawNull j with
  | .ok f => f
  | _ => old

/-- `fc.UnmarshalJSON(data)` / `UnmarshalBSON`: `*fc = FeatureCollection{}` precedes the member
    loop (what an ERROR leaves in `*fc` is not specified: `none`). -/
def fcInto (c : Codec) (rawNull : Bool) (_old : FC) (j : Json) : Option FC :=
  match fcOfDoc c rawNull j with
  | .ok x => some x
  | _ => none

/-- the six typed helpers: `*p = Point(point)` after a decode into a NEW `Geometry` -/
def typedInto (c : Codec) (k : Kind) (old : V) (j : Json) : V :=
  match typedOfDoc c k j with
  | .ok v => v
  | _ => old

/-! ### the documented JSON hooks (`geojson.CustomJSONMarshaler` / `CustomJSONUnmarshaler`)

`geojson/json.go`: every JSON (un)marshal inside the package goes through `marshalJSON` /
`unmarshalJSON`, which call the hook when it is set and encoding/json otherwise.  With a hook that
itself hands over to encoding/json the NESTED values come back to the package's methods, so the hook
is called once per method invocation that reaches a `marshalJSON` / `unmarshalJSON` site.  The
functions below count those sites for a value; the documents are the ones of `geomMemberN`. -/

mutual
/-- `NewGeometry(v).MarshalJSON()` (also as a member of a feature / of "geometries"): the `null`
    short cut returns before `marshalJSON`; otherwise one call for this geometry and, through
    encoding/json, the `MarshalJSON` of every member of `Geometries` -/
def hookMG : NG → Nat
  | .nilIface => 0
  | .nilCollection => 0
  | .collection [] => 0
  | .collection (g :: gs) => 1 + (hookMG g + hookMGs gs)
  | .point _ => 1
  | .multiPoint _ => 1
  | .lineString _ => 1
  | .multiLineString _ => 1
  | .ring _ => 1
  | .polygon _ => 1
  | .multiPolygon _ => 1
  | .bound _ _ => 1
def hookMGs : List NG → Nat
  | [] => 0
  | g :: gs => hookMG g + hookMGs gs
end

mutual
/-- `(*Geometry).UnmarshalJSON` on the document `NewGeometry(v)` wrote, when it succeeds: one
    `unmarshalJSON` for `jsonGeometry`, one for the coordinates — or, for a collection, the
    `UnmarshalJSON` of every member (encoding/json calls it for each non-null element).  A `null`
    document never reaches the method (0). -/
def hookUG : NG → Nat
  | .nilIface => 0
  | .nilCollection => 0
  | .collection [] => 0
  | .collection (g :: gs) => 1 + (hookUG g + hookUGs gs)
  | .point _ => 2
  | .multiPoint _ => 2
  | .lineString _ => 2
  | .multiLineString _ => 2
  | .ring _ => 2
  | .polygon _ => 2
  | .multiPolygon _ => 2
  | .bound _ _ => 2
def hookUGs : List NG → Nat
  | [] => 0
  | g :: gs => hookUG g + hookUGs gs
end

end Orb.GeoJSON
