/-
  Orb.WKB — model of encoding/internal/wkbcommon (+ the wkb / ewkb wrappers).

  Coordinates are float64 *bit patterns* (`UInt64`): `math.Float64bits` /
  `Float64frombits` are the identity on bits, which is exactly the property's
  "bit-identical".  Bytes are `List UInt8`.  Every Go slice expression that is not
  covered by a preceding length guard is modelled with an explicit `panic` outcome.
  Constants (type codes, EWKB flag, header masks, allocation caps) come from
  `Generated.Params`, regenerated from the Go source on every run.
-/
import Orb.Basic
import Generated.Params

namespace Orb.WKB
open Orb Generated.Params

inductive Order where
  | big | little
deriving DecidableEq, Repr, Inhabited

inductive Err where
  | notWKB | notWKBHeader | incorrectGeometry | unsupportedGeometry
  | eof | unexpectedEOF
  | badMember      -- "expect multipoint to contains points …" and friends
  | badHex         -- hex.Decode errors wrapped by Scan
  | unsupportedDataType
  | nestingTooDeep -- collections nested more than MaxCollectionDepth deep
deriving DecidableEq, Repr, Inhabited

abbrev Bytes := List UInt8
abbrev G := Geom UInt64
abbrev R := Res Err

/-! ### length guards without walking the whole slice

  Go's `len(data) < n` is O(1); `List.length` is O(len).  The decoders test the remaining length
  once per member / per read, which makes the *compiled* model quadratic on the 10001-element cases of
  the correspondence run.  Each guarded function below gets a twin that uses `lenLt` and a kernel-checked
  `@[csimp]` equation, so the executable driver runs the twin while every theorem is about the original. -/

/-- `decide (l.length < n)`, looking at no more than `n` cells. -/
def lenLt {α : Type} : List α → Nat → Bool
  | _, 0 => false
  | [], _+1 => true
  | _ :: t, n+1 => lenLt t n

theorem lenLt_eq {α : Type} (l : List α) (n : Nat) : lenLt l n = decide (l.length < n) := by
  induction l generalizing n with
  | nil => cases n <;> simp [lenLt]
  | cons a t ih =>
    cases n with
    | zero => simp [lenLt]
    | succ n => simp [lenLt, ih]

/-! ### integers ⇄ bytes -/

/-- `k` little-endian bytes of `n`. -/
def leBytes (n : Nat) : Nat → Bytes
  | 0 => []
  | k+1 => UInt8.ofNat (n % 256) :: leBytes (n / 256) k

/-- little-endian value of a byte list. -/
def leNat : Bytes → Nat
  | [] => 0
  | b :: bs => b.toNat + 256 * leNat bs

/-- `order.PutUint32(buf, uint32(n))`. -/
def u32 (o : Order) (n : Nat) : Bytes :=
  match o with
  | .little => leBytes (n % 2^32) 4
  | .big => (leBytes (n % 2^32) 4).reverse

/-- `order.PutUint64(buf, bits)`. -/
def u64 (o : Order) (b : UInt64) : Bytes :=
  match o with
  | .little => leBytes b.toNat 8
  | .big => (leBytes b.toNat 8).reverse

/-- `order.Uint32(buf)` on the first four bytes. -/
def rd32 (o : Order) (bs : Bytes) : Nat :=
  match o with
  | .little => leNat (bs.take 4)
  | .big => leNat (bs.take 4).reverse

/-- `order.Uint64(buf)` on the first eight bytes. -/
def rd64 (o : Order) (bs : Bytes) : UInt64 :=
  match o with
  | .little => UInt64.ofNat (leNat (bs.take 8))
  | .big => UInt64.ofNat (leNat (bs.take 8).reverse)

def orderByte : Order → UInt8
  | .little => 1
  | .big => 0

/-! ### encoder (wkb.go Encode + write* functions) -/

def encPt (o : Order) (p : Pt UInt64) : Bytes := u64 o p.x ++ u64 o p.y

/-- `writeTypePrefix`: type, optional SRID, element count. -/
def typePrefix (o : Order) (t l srid : Nat) : Bytes :=
  if srid = 0 then u32 o t ++ u32 o l
  else u32 o (t ||| wkb_ewkbType) ++ u32 o srid ++ u32 o l

def encPoint (o : Order) (srid : Nat) (p : Pt UInt64) : Bytes :=
  orderByte o ::
    ((if srid = 0 then u32 o wkb_pointType else u32 o (wkb_pointType ||| wkb_ewkbType) ++ u32 o srid) ++ encPt o p)

def encLineString (o : Order) (srid : Nat) (ps : List (Pt UInt64)) : Bytes :=
  orderByte o :: (typePrefix o wkb_lineStringType ps.length srid ++ ps.flatMap (encPt o))

def encRingBody (o : Order) (r : List (Pt UInt64)) : Bytes := u32 o r.length ++ r.flatMap (encPt o)

def encPolygon (o : Order) (srid : Nat) (rs : List (List (Pt UInt64))) : Bytes :=
  orderByte o :: (typePrefix o wkb_polygonType rs.length srid ++ rs.flatMap (encRingBody o))

def encMultiPoint (o : Order) (srid : Nat) (ps : List (Pt UInt64)) : Bytes :=
  orderByte o :: (typePrefix o wkb_multiPointType ps.length srid ++ ps.flatMap (encPoint o 0))

def encMultiLineString (o : Order) (srid : Nat) (ls : List (List (Pt UInt64))) : Bytes :=
  orderByte o :: (typePrefix o wkb_multiLineStringType ls.length srid ++ ls.flatMap (encLineString o 0))

def encMultiPolygon (o : Order) (srid : Nat) (ps : List (List (List (Pt UInt64)))) : Bytes :=
  orderByte o :: (typePrefix o wkb_multiPolygonType ps.length srid ++ ps.flatMap (encPolygon o 0))

/-- `Bound.ToRing`. -/
def boundRing (a b : Pt UInt64) : List (Pt UInt64) := [a, ⟨b.x, a.y⟩, b, ⟨a.x, b.y⟩, a]

/-- `Encoder.Encode` on a non-nil value: rings and bounds are written as polygons; the
    SRID / EWKB flag go on the outermost header only (members are encoded with srid 0). -/
def encGeom (o : Order) (srid : Nat) : G → Bytes
  | .point p => encPoint o srid p
  | .multiPoint ps => encMultiPoint o srid ps
  | .lineString ps => encLineString o srid ps
  | .multiLineString ls => encMultiLineString o srid ls
  | .ring r => encPolygon o srid [r]
  | .polygon rs => encPolygon o srid rs
  | .multiPolygon ps => encMultiPolygon o srid ps
  | .bound a b => encPolygon o srid [boundRing a b]
  | .collection gs =>
    orderByte o :: (typePrefix o wkb_geometryCollectionType gs.length srid ++ encList o gs)
where
  encList (o : Order) : List G → Bytes
    | [] => []
    | g :: gs => encGeom o 0 g ++ encList o gs

/-! `encGeom` appends the encoding of every member to the rest of its collection with `++`, which copies
    the member: quadratic in the nesting depth (minutes for the collections nested 10000 deep and more that
    the round-trip cases of C01 use).  The compiled driver runs an accumulator twin; kernel-checked
    `@[csimp]` equation, every theorem is about `encGeom`. -/

def encGeomAcc (o : Order) (srid : Nat) (g : G) (acc : Bytes) : Bytes :=
  match g with
  | .collection gs =>
    orderByte o :: (typePrefix o wkb_geometryCollectionType gs.length srid ++ encListAcc o gs acc)
  | g => encGeom o srid g ++ acc
where
  encListAcc (o : Order) : List G → Bytes → Bytes
    | [], acc => acc
    | g :: gs, acc => encGeomAcc o 0 g (encListAcc o gs acc)

theorem encGeomAcc_eq (o : Order) : ∀ (srid : Nat) (g : G) (acc : Bytes),
    encGeomAcc o srid g acc = encGeom o srid g ++ acc
  | srid, .collection gs, acc => by
    simp only [encGeomAcc, encGeom, encListAcc_eq o gs acc, List.cons_append, List.append_assoc]
  | _, .point _, _ => by simp only [encGeomAcc]
  | _, .multiPoint _, _ => by simp only [encGeomAcc]
  | _, .lineString _, _ => by simp only [encGeomAcc]
  | _, .multiLineString _, _ => by simp only [encGeomAcc]
  | _, .ring _, _ => by simp only [encGeomAcc]
  | _, .polygon _, _ => by simp only [encGeomAcc]
  | _, .multiPolygon _, _ => by simp only [encGeomAcc]
  | _, .bound _ _, _ => by simp only [encGeomAcc]
where
  encListAcc_eq (o : Order) : ∀ (gs : List G) (acc : Bytes),
      encGeomAcc.encListAcc o gs acc = encGeom.encList o gs ++ acc
    | [], acc => by simp only [encGeomAcc.encListAcc, encGeom.encList, List.nil_append]
    | g :: gs, acc => by
      simp only [encGeomAcc.encListAcc, encGeom.encList, encGeomAcc_eq o 0 g, encListAcc_eq o gs acc,
        List.append_assoc]

def encGeomFast (o : Order) (srid : Nat) (g : G) : Bytes := encGeomAcc o srid g []

@[csimp] theorem encGeom_eq_fast : @encGeom = @encGeomFast := by
  funext o srid g
  simp only [encGeomFast, encGeomAcc_eq, List.append_nil]

/-- `Marshal`: a nil interface and typed nil slices write no bytes. -/
def encode (o : Order) (srid : Nat) : GVal UInt64 → Bytes
  | .nilIface => []
  | .nilSlice _ => []
  | .val g => encGeom o srid g

/-- What a decoded encoding denotes: ring and bound come back as the one-ring polygon. -/
def canon : G → G
  | .ring r => .polygon [r]
  | .bound a b => .polygon [boundRing a b]
  | .collection gs => .collection (canonList gs)
  | g => g
where
  canonList : List G → List G
    | [] => []
    | g :: gs => canon g :: canonList gs

/-- How deep geometry collections are nested in a value: 0 for the eight other kinds, 1 for a
    collection without collection members, … (what `MaxCollectionDepth` limits). -/
def collDepth : G → Nat
  | .collection gs => 1 + collDepthList gs
  | _ => 0
where
  collDepthList : List G → Nat
    | [] => 0
    | g :: gs => max (collDepth g) (collDepthList gs)

/-! ### byte-slice decoder (Unmarshal and the Scan* functions) -/

/-- Go `data[n:]`: panics when `n > len(data)`. -/
def sliceFrom (data : Bytes) (n : Nat) : R Bytes :=
  if n ≤ data.length then .ok (data.drop n) else .panic "slice bounds out of range"

def sliceFromFast (data : Bytes) (n : Nat) : R Bytes :=
  if lenLt data n then .panic "slice bounds out of range" else .ok (data.drop n)

@[csimp] theorem sliceFrom_eq_fast : @sliceFrom = @sliceFromFast := by
  funext data n
  simp only [sliceFrom, sliceFromFast, lenLt_eq, decide_eq_true_eq]
  by_cases h : n ≤ data.length
  · simp [h, Nat.not_lt.mpr h]
  · simp [h, Nat.lt_of_not_le h]

/-- `byteOrderType`. -/
def byteOrderType (buf : Bytes) : R (Order × Nat) :=
  if buf.length < 6 then .err .notWKB else
  match buf with
  | b :: rest =>
    if b = 0 then .ok (.big, rd32 .big rest)
    else if b = 1 then .ok (.little, rd32 .little rest)
    else .err .notWKBHeader
  | [] => .err .notWKB

def byteOrderTypeFast (buf : Bytes) : R (Order × Nat) :=
  if lenLt buf 6 then .err .notWKB else
  match buf with
  | b :: rest =>
    if b = 0 then .ok (.big, rd32 .big rest)
    else if b = 1 then .ok (.little, rd32 .little rest)
    else .err .notWKBHeader
  | [] => .err .notWKB

@[csimp] theorem byteOrderType_eq_fast : @byteOrderType = @byteOrderTypeFast := by
  funext buf
  simp only [byteOrderType, byteOrderTypeFast, lenLt_eq, decide_eq_true_eq]

/-- `unmarshalByteOrderType`: (order, type, srid, geometry data). -/
def unmarshalBOT (buf : Bytes) : R (Order × Nat × Nat × Bytes) :=
  match byteOrderType buf with
  | .ok (o, typ) =>
    if typ &&& wkb_ewkbType = 0 then .ok (o, typ &&& wkb_hdrMaskBytes, 0, buf.drop 5)
    else if buf.length < 10 then .err .notWKB
    else .ok (o, typ &&& wkb_hdrMaskBytes, rd32 o (buf.drop 5), buf.drop 9)
  | .err e => .err e
  | .panic s => .panic s

/-- points `data[16*i:]`, `data[16*i+8:]` for `i < n` -/
def readPts (o : Order) (data : Bytes) : Nat → List (Pt UInt64)
  | 0 => []
  | n+1 => ⟨rd64 o data, rd64 o (data.drop 8)⟩ :: readPts o (data.drop 16) n

/-- `unmarshalPoints`. -/
def unmarshalPoints (o : Order) (data : Bytes) : R (List (Pt UInt64)) :=
  if data.length < 4 then .err .notWKB else
  let num := rd32 o data
  let data := data.drop 4
  if data.length < num * 16 then .err .notWKB else
  .ok (readPts o data num)

/-- `unmarshalPoint`. -/
def unmarshalPoint (o : Order) (buf : Bytes) : R (Pt UInt64) :=
  if buf.length < 16 then .err .notWKB else .ok ⟨rd64 o buf, rd64 o (buf.drop 8)⟩

def unmarshalPointFast (o : Order) (buf : Bytes) : R (Pt UInt64) :=
  if lenLt buf 16 then .err .notWKB else .ok ⟨rd64 o buf, rd64 o (buf.drop 8)⟩

@[csimp] theorem unmarshalPoint_eq_fast : @unmarshalPoint = @unmarshalPointFast := by
  funext o buf
  simp only [unmarshalPoint, unmarshalPointFast, lenLt_eq, decide_eq_true_eq]

/-- `unmarshalPolygon`: ring loop with the re-derived offset `16*len(ps)+4`. -/
def unmarshalPolygon (o : Order) (data : Bytes) : R (List (List (Pt UInt64))) :=
  if data.length < 4 then .err .notWKB else
  let num := rd32 o data
  loop num (data.drop 4)
where
  loop : Nat → Bytes → R (List (List (Pt UInt64)))
    | 0, _ => .ok []
    | n+1, data =>
      match unmarshalPoints o data with
      | .ok ps =>
        match sliceFrom data (16 * ps.length + 4) with
        | .ok rest =>
          match loop n rest with
          | .ok rs => .ok (ps :: rs)
          | .err e => .err e
          | .panic s => .panic s
        | .err e => .err e
        | .panic s => .panic s
      | .err e => .err e
      | .panic s => .panic s

/-- total ring bytes of a polygon as `unmarshalMultiPolygon` recomputes them: `9 + Σ (4 + 16 len r)`. -/
def polyStride (p : List (List (Pt UInt64))) : Nat := 9 + (p.map fun r => 4 + 16 * r.length).sum

/-- Member loop shared by `unmarshalMultiPoint`, `unmarshalMultiLineString`, `unmarshalMultiPolygon`:
    the member is scanned, then `data = data[stride(x):]` with the *re-derived* stride
    (21, `16*len(ls)+9`, `9+Σ(4+16 len r)`), which panics if the slice is shorter than that. -/
def memberLoop {β : Type} (scan : Bytes → R (β × Nat)) (stride : β → Nat) : Nat → Bytes → R (List β)
  | 0, _ => .ok []
  | n+1, data =>
    match scan data with
    | .ok (x, _) =>
      match sliceFrom data (stride x) with
      | .ok rest =>
        match memberLoop scan stride n rest with
        | .ok xs => .ok (x :: xs)
        | .err e => .err e
        | .panic s => .panic s
      | .err e => .err e
      | .panic s => .panic s
    | .err e => .err e
    | .panic s => .panic s

/-- A member of a multi in the byte-slice decoders: `unmarshalByteOrderType`, then the type must be
    the plain member type (`ErrIncorrectGeometry` otherwise — in particular for a nested multi), then
    the plain decoder.  The member's SRID is returned but ignored by the loop. -/
def scanMember {β : Type} (tSingle : Nat) (single : Order → Bytes → R β) (data : Bytes) : R (β × Nat) :=
  match unmarshalBOT data with
  | .ok (o, typ, srid, geomData) =>
    if typ ≠ tSingle then .err .incorrectGeometry else
    match single o geomData with
    | .ok p => .ok (p, srid)
    | .err e => .err e
    | .panic s => .panic s
  | .err e => .err e
  | .panic s => .panic s

/-- Shape shared by `ScanPoint`, `ScanLineString`, `ScanPolygon`: accept the single type, or a
    multi with exactly one member. -/
def scanSingle {β : Type} (tSingle tMulti : Nat) (single : Order → Bytes → R β)
    (multi : Order → Bytes → R (List β)) (data : Bytes) : R (β × Nat) :=
  match unmarshalBOT data with
  | .ok (o, typ, srid, geomData) =>
    if typ = tSingle then
      match single o geomData with
      | .ok p => .ok (p, srid)
      | .err e => .err e
      | .panic s => .panic s
    else if typ = tMulti then
      match multi o geomData with
      | .ok [p] => .ok (p, srid)
      | .ok _ => .err .incorrectGeometry
      | .err e => .err e
      | .panic s => .panic s
    else .err .incorrectGeometry
  | .err e => .err e
  | .panic s => .panic s

/-- Shape shared by the three `unmarshalMulti*`: count, then the member loop.  Nothing here is
    recursive: a member is decoded by the plain decoder of its type (`scanMember`), so the Go call
    depth of the byte-slice path is a constant (`Unmarshal`/`Scan*` → `unmarshalMulti*` → `unmarshal*`). -/
def unmarshalMultiF {β : Type} (tSingle : Nat) (single : Order → Bytes → R β) (stride : β → Nat)
    (o : Order) (data : Bytes) : R (List β) :=
  if data.length < 4 then .err .notWKB else
  memberLoop (scanMember tSingle single) stride (rd32 o data) (data.drop 4)

def unmarshalMultiPoint : Order → Bytes → R (List (Pt UInt64)) :=
  unmarshalMultiF wkb_pointType unmarshalPoint (fun _ => 21)
def scanPoint : Bytes → R (Pt UInt64 × Nat) :=
  scanSingle wkb_pointType wkb_multiPointType unmarshalPoint unmarshalMultiPoint

def unmarshalMultiLineString : Order → Bytes → R (List (List (Pt UInt64))) :=
  unmarshalMultiF wkb_lineStringType unmarshalPoints (fun ls => 16 * ls.length + 9)
def scanLineString : Bytes → R (List (Pt UInt64) × Nat) :=
  scanSingle wkb_lineStringType wkb_multiLineStringType unmarshalPoints unmarshalMultiLineString

def unmarshalMultiPolygon : Order → Bytes → R (List (List (List (Pt UInt64)))) :=
  unmarshalMultiF wkb_polygonType unmarshalPolygon polyStride
def scanPolygon : Bytes → R (List (List (Pt UInt64)) × Nat) :=
  scanSingle wkb_polygonType wkb_multiPolygonType unmarshalPolygon unmarshalMultiPolygon

/-! ### stream decoder (Decoder.Decode and the read* functions) -/

/-- `io.ReadFull(r, buf[:n])`: EOF when nothing is left, ErrUnexpectedEOF when short. -/
def readFull (n : Nat) (s : Bytes) : R (Bytes × Bytes) :=
  if s.length = 0 ∧ n > 0 then .err .eof
  else if s.length < n then .err .unexpectedEOF
  else .ok (s.take n, s.drop n)

def readFullFast (n : Nat) (s : Bytes) : R (Bytes × Bytes) :=
  if s.isEmpty ∧ n > 0 then .err .eof
  else if lenLt s n then .err .unexpectedEOF
  else .ok (s.take n, s.drop n)

@[csimp] theorem readFull_eq_fast : @readFull = @readFullFast := by
  funext n s
  simp only [readFull, readFullFast, lenLt_eq, decide_eq_true_eq, List.isEmpty_iff, List.length_eq_zero_iff]

def readU32 (o : Order) (s : Bytes) : R (Nat × Bytes) :=
  match readFull 4 s with
  | .ok (b, rest) => .ok (rd32 o b, rest)
  | .err e => .err e
  | .panic m => .panic m

/-- `readByteOrderType`: note the stream path masks the type with `wkb_hdrMaskStream`
    and only when the EWKB flag is set. -/
def readBOT (s : Bytes) : R (Order × Nat × Nat × Bytes) :=
  match s with
  | [] => .err .eof
  | b :: s =>
    let oo : Option Order := if b = 0 then some .big else if b = 1 then some .little else none
    match oo with
    | none => .err .notWKBHeader
    | some o =>
      match readU32 o s with
      | .ok (typ, s) =>
        if typ &&& wkb_ewkbType = 0 then .ok (o, typ, 0, s)
        else
          match readU32 o s with
          | .ok (srid, s) => .ok (o, typ &&& wkb_hdrMaskStream, srid, s)
          | .err e => .err e
          | .panic m => .panic m
      | .err e => .err e
      | .panic m => .panic m

/-- `readPoint`: two 8-byte reads. -/
def readPoint (o : Order) (s : Bytes) : R (Pt UInt64 × Bytes) :=
  match readFull 8 s with
  | .ok (bx, s) =>
    match readFull 8 s with
    | .ok (by_, s) => .ok (⟨rd64 o bx, rd64 o by_⟩, s)
    | .err e => .err e
    | .panic m => .panic m
  | .err e => .err e
  | .panic m => .panic m

def readPtsLoop (o : Order) : Nat → Bytes → R (List (Pt UInt64) × Bytes)
  | 0, s => .ok ([], s)
  | n+1, s =>
    match readPoint o s with
    | .ok (p, s) =>
      match readPtsLoop o n s with
      | .ok (ps, s) => .ok (p :: ps, s)
      | .err e => .err e
      | .panic m => .panic m
    | .err e => .err e
    | .panic m => .panic m

/-- `readLineString`. -/
def readLineString (o : Order) (s : Bytes) : R (List (Pt UInt64) × Bytes) :=
  match readU32 o s with
  | .ok (num, s) => readPtsLoop o num s
  | .err e => .err e
  | .panic m => .panic m

def readRingsLoop (o : Order) : Nat → Bytes → R (List (List (Pt UInt64)) × Bytes)
  | 0, s => .ok ([], s)
  | n+1, s =>
    match readLineString o s with
    | .ok (r, s) =>
      match readRingsLoop o n s with
      | .ok (rs, s) => .ok (r :: rs, s)
      | .err e => .err e
      | .panic m => .panic m
    | .err e => .err e
    | .panic m => .panic m

/-- `readPolygon`. -/
def readPolygon (o : Order) (s : Bytes) : R (List (List (Pt UInt64)) × Bytes) :=
  match readU32 o s with
  | .ok (num, s) => readRingsLoop o num s
  | .err e => .err e
  | .panic m => .panic m

/-- member loop of readMultiPoint / readMultiLineString / readMultiPolygon:
    each member has its own header (whose SRID is ignored) and must have type `want`. -/
def readMembers {β : Type} (want : Nat) (rd : Order → Bytes → R (β × Bytes)) : Nat → Bytes → R (List β × Bytes)
  | 0, s => .ok ([], s)
  | n+1, s =>
    match readBOT s with
    | .ok (o, typ, _, s) =>
      if typ ≠ want then .err .badMember else
      match rd o s with
      | .ok (x, s) =>
        match readMembers want rd n s with
        | .ok (xs, s) => .ok (x :: xs, s)
        | .err e => .err e
        | .panic m => .panic m
      | .err e => .err e
      | .panic m => .panic m
    | .err e => .err e
    | .panic m => .panic m

/-- Body of `Decoder.Decode`, parametrised by the collection reader. Returns the geometry,
    its SRID and the unread rest of the stream. -/
def decodeWith (coll : Order → Bytes → R (List G × Bytes)) (s : Bytes) : R (G × Nat × Bytes) :=
  match readBOT s with
  | .ok (o, typ, srid, s) =>
    if typ = wkb_pointType then
      match readPoint o s with
      | .ok (p, s) => .ok (.point p, srid, s)
      | .err e => .err e
      | .panic m => .panic m
    else if typ = wkb_multiPointType then
      match readU32 o s with
      | .ok (num, s) =>
        match readMembers wkb_pointType readPoint num s with
        | .ok (ps, s) => .ok (.multiPoint ps, srid, s)
        | .err e => .err e
        | .panic m => .panic m
      | .err e => .err e
      | .panic m => .panic m
    else if typ = wkb_lineStringType then
      match readLineString o s with
      | .ok (ps, s) => .ok (.lineString ps, srid, s)
      | .err e => .err e
      | .panic m => .panic m
    else if typ = wkb_multiLineStringType then
      match readU32 o s with
      | .ok (num, s) =>
        match readMembers wkb_lineStringType readLineString num s with
        | .ok (ls, s) => .ok (.multiLineString ls, srid, s)
        | .err e => .err e
        | .panic m => .panic m
      | .err e => .err e
      | .panic m => .panic m
    else if typ = wkb_polygonType then
      match readPolygon o s with
      | .ok (rs, s) => .ok (.polygon rs, srid, s)
      | .err e => .err e
      | .panic m => .panic m
    else if typ = wkb_multiPolygonType then
      match readU32 o s with
      | .ok (num, s) =>
        match readMembers wkb_polygonType readPolygon num s with
        | .ok (ps, s) => .ok (.multiPolygon ps, srid, s)
        | .err e => .err e
        | .panic m => .panic m
      | .err e => .err e
      | .panic m => .panic m
    else if typ = wkb_geometryCollectionType then
      match coll o s with
      | .ok (gs, s) => .ok (.collection gs, srid, s)
      | .err e => .err e
      | .panic m => .panic m
    else .err .unsupportedGeometry
  | .err e => .err e
  | .panic m => .panic m

/-- loop of `readCollection`: `d.Decode()` per member (member SRIDs ignored). -/
def collLoop (dec : Bytes → R (G × Nat × Bytes)) : Nat → Bytes → R (List G × Bytes)
  | 0, s => .ok ([], s)
  | n+1, s =>
    match dec s with
    | .ok (g, _, s) =>
      match collLoop dec n s with
      | .ok (gs, s) => .ok (g :: gs, s)
      | .err e => .err e
      | .panic m => .panic m
    | .err e => .err e
    | .panic m => .panic m

/-- `readCollection(r, order, buf, depth)`.  The first argument is `MaxCollectionDepth - depth`, the
    number of collection levels still allowed: `depth >= MaxCollectionDepth` (no level left) is
    `ErrNestingTooDeep`, before anything is read; the members are decoded by a `Decoder` with
    `depth + 1`, i.e. one level less. -/
def readCollectionF : Nat → Order → Bytes → R (List G × Bytes)
  | 0, _, _ => .err .nestingTooDeep
  | left+1, o, s =>
    match readU32 o s with
    | .ok (num, s) => collLoop (decodeWith (readCollectionF left)) num s
    | .err e => .err e
    | .panic m => .panic m

/-- `Decoder.Decode` of a decoder with `depth = MaxCollectionDepth - left`. -/
def decodeStream (left : Nat) (s : Bytes) : R (G × Nat × Bytes) := decodeWith (readCollectionF left) s

/-- `Decode()` on a fresh reader over `data` (`NewDecoder`: depth 0). -/
def decode (data : Bytes) : R (G × Nat) :=
  match decodeStream wkb_MaxCollectionDepth data with
  | .ok (g, srid, _) => .ok (g, srid)
  | .err e => .err e
  | .panic m => .panic m

/-- `Unmarshal` (byte-slice path; collections are delegated to the stream decoder,
    EOF errors mapped to ErrNotWKB). -/
def unmarshal (data : Bytes) : R (G × Nat) :=
  match unmarshalBOT data with
  | .ok (o, typ, srid, geomData) =>
    let wrap {β : Type} (r : R β) (f : β → G) : R (G × Nat) :=
      match r with
      | .ok x => .ok (f x, srid)
      | .err e => .err e
      | .panic m => .panic m
    if typ = wkb_pointType then wrap (unmarshalPoint o geomData) .point
    else if typ = wkb_multiPointType then wrap (unmarshalMultiPoint o geomData) .multiPoint
    else if typ = wkb_lineStringType then wrap (unmarshalPoints o geomData) .lineString
    else if typ = wkb_multiLineStringType then wrap (unmarshalMultiLineString o geomData) .multiLineString
    else if typ = wkb_polygonType then wrap (unmarshalPolygon o geomData) .polygon
    else if typ = wkb_multiPolygonType then wrap (unmarshalMultiPolygon o geomData) .multiPolygon
    else if typ = wkb_geometryCollectionType then
      match decode data with
      | .ok (g, _) => .ok (g, srid)
      | .err .eof => .err .notWKB
      | .err .unexpectedEOF => .err .notWKB
      | .err e => .err e
      | .panic m => .panic m
    else .err .unsupportedGeometry
  | .err e => .err e
  | .panic m => .panic m

/-! ### Scan (scan.go): framing detection, typed destinations, coercions -/

inductive Dest where
  | any | point | multiPoint | lineString | multiLineString | ring | polygon | multiPolygon | collection | bound
deriving DecidableEq, Repr, Inhabited

def hexVal (c : UInt8) : Option Nat :=
  if 48 ≤ c.toNat ∧ c.toNat ≤ 57 then some (c.toNat - 48)
  else if 97 ≤ c.toNat ∧ c.toNat ≤ 102 then some (c.toNat - 87)
  else if 65 ≤ c.toNat ∧ c.toNat ≤ 70 then some (c.toNat - 55)
  else none

/-- `hex.Decode`: pairs of hex digits; an odd length or a non-hex byte is an error. -/
def hexDecode : Bytes → Option Bytes
  | [] => some []
  | [_] => none
  | a :: b :: rest =>
    match hexVal a, hexVal b, hexDecode rest with
    | some x, some y, some bs => some (UInt8.ofNat (x * 16 + y) :: bs)
    | _, _, _ => none

def hexDigit (n : Nat) (upper : Bool) : UInt8 :=
  if n < 10 then UInt8.ofNat (48 + n) else UInt8.ofNat ((if upper then 55 else 87) + n)

/-- `hex.EncodeToString` (lower case) or its upper-case spelling. -/
def hexEncode (upper : Bool) : Bytes → Bytes
  | [] => []
  | b :: bs => hexDigit (b.toNat / 16) upper :: hexDigit (b.toNat % 16) upper :: hexEncode upper bs

/-- bounding box of a decoded geometry as `Geometry.Bound()` computes it is needed by the
    `*orb.Bound` destination; it is supplied by the caller (`Orb.Core.bound`), since it
    compares coordinates as floats and not as bit patterns. -/
abbrev BoundFn := G → (Pt UInt64 × Pt UInt64)

/-- The value `Scan` produces for a destination. -/
def scanDest (bnd : BoundFn) (dest : Dest) (data : Bytes) : R (G × Nat) :=
  match dest with
  | .any => unmarshal data
  | .point =>
    match scanPoint data with
    | .ok (p, srid) => .ok (.point p, srid)
    | .err e => .err e
    | .panic m => .panic m
  | .multiPoint =>
    match unmarshal data with
    | .ok (.point p, srid) => .ok (.multiPoint [p], srid)
    | .ok (.multiPoint ps, srid) => .ok (.multiPoint ps, srid)
    | .ok _ => .err .incorrectGeometry
    | .err e => .err e
    | .panic m => .panic m
  | .lineString =>
    match scanLineString data with
    | .ok (l, srid) => .ok (.lineString l, srid)
    | .err e => .err e
    | .panic m => .panic m
  | .multiLineString =>
    match unmarshalBOT data with
    | .ok (o, typ, srid, gd) =>
      if typ = wkb_lineStringType then
        match unmarshalPoints o gd with
        | .ok l => .ok (.multiLineString [l], srid)
        | .err e => .err e
        | .panic m => .panic m
      else if typ = wkb_multiLineStringType then
        match unmarshalMultiLineString o gd with
        | .ok ls => .ok (.multiLineString ls, srid)
        | .err e => .err e
        | .panic m => .panic m
      else .err .incorrectGeometry
    | .err e => .err e
    | .panic m => .panic m
  | .ring =>
    match unmarshal data with
    | .ok (.polygon [r], srid) => .ok (.ring r, srid)
    | .ok _ => .err .incorrectGeometry
    | .err e => .err e
    | .panic m => .panic m
  | .polygon =>
    match scanPolygon data with
    | .ok (p, srid) => .ok (.polygon p, srid)
    | .err e => .err e
    | .panic m => .panic m
  | .multiPolygon =>
    match unmarshalBOT data with
    | .ok (o, typ, srid, gd) =>
      if typ = wkb_polygonType then
        match unmarshalPolygon o gd with
        | .ok p => .ok (.multiPolygon [p], srid)
        | .err e => .err e
        | .panic m => .panic m
      else if typ = wkb_multiPolygonType then
        match unmarshalMultiPolygon o gd with
        | .ok ps => .ok (.multiPolygon ps, srid)
        | .err e => .err e
        | .panic m => .panic m
      else .err .incorrectGeometry
    | .err e => .err e
    | .panic m => .panic m
  | .collection =>
    match decode data with
    | .ok (.collection gs, srid) => .ok (.collection gs, srid)
    | .ok _ => .err .incorrectGeometry
    | .err .eof => .err .notWKB
    | .err .unexpectedEOF => .err .notWKB
    | .err e => .err e
    | .panic m => .panic m
  | .bound =>
    match unmarshal data with
    | .ok (g, srid) => let (a, b) := bnd g; .ok (.bound a b, srid)
    | .err e => .err e
    | .panic m => .panic m

/-- `wkbcommon.Scan` on a non-nil `[]byte`: length guard, `\x` and bare-hex detection, dispatch. -/
def scan (bnd : BoundFn) (dest : Dest) (data : Bytes) : R (G × Nat) :=
  if data.length < 5 then .err .notWKB else
  -- `\x…` : hex with prefix
  let step1 : R Bytes :=
    match data with
    | 92 :: 120 :: rest => (match hexDecode rest with | some d => .ok d | none => .err .badHex)
    | _ => .ok data
  match step1 with
  | .ok data =>
    -- `data[0]`, `data[1]` are read unguarded after the first decode
    (match data with
     | a :: b :: _ =>
       let step2 : R Bytes :=
         if a = 48 ∧ (b = 48 ∨ b = 49) then
           (match hexDecode data with | some d => .ok d | none => .err .badHex)
         else .ok data
       (match step2 with
        | .ok data => scanDest bnd dest data
        | .err e => .err e
        | .panic m => .panic m)
     | _ => .panic "index out of range")
  | .err e => .err e
  | .panic m => .panic m

/-- `ewkb.GeometryScanner.Scan` without / with the 4-byte little-endian SRID prefix. -/
def ewkbScan (bnd : BoundFn) (prefixSRID : Bool) (dest : Dest) (raw : Bytes) : R (G × Nat) :=
  if prefixSRID then
    if raw.length < 5 then .err .notWKB else
    match scan bnd dest (raw.drop 4) with
    | .ok (g, embedded) => .ok (g, if embedded ≠ 0 then embedded else rd32 .little raw)
    | .err e => .err e
    | .panic m => .panic m
  else scan bnd dest raw

/-- The caller's buffer after `wkbcommon.Scan` has returned: `hex.Decode(data, data[2:])` and
    `hex.Decode(data, data)` decode IN PLACE, so the first bytes of the caller's slice now hold the
    decoded binary (only the successful decodes matter: a hex error is never retried). -/
def scanBuf (data : Bytes) : Bytes :=
  if data.length < 5 then data else
  let step1 : Bytes × Bytes :=   -- (the current `data` slice, the caller's buffer)
    if data.head? = some 92 ∧ (data.drop 1).head? = some 120 then
      (match hexDecode (data.drop 2) with
       | some d => (d, d ++ data.drop d.length)
       | none => (data, data))
    else (data, data)
  if step1.1.head? = some 48 ∧ ((step1.1.drop 1).head? = some 48 ∨ (step1.1.drop 1).head? = some 49) then
    (match hexDecode step1.1 with
     | some d2 => d2 ++ step1.2.drop d2.length
     | none => step1.2)
  else step1.2

/-- `wkb.GeometryScanner.Scan`: on ErrNotWKBHeader retry with `data[4:]` (MySQL SRID prefix) —
    `data` being the caller's slice, which the first attempt may have hex-decoded in place. -/
def wkbScan (bnd : BoundFn) (dest : Dest) (raw : Bytes) : R G :=
  match scan bnd dest raw with
  | .ok (g, _) => .ok g
  | .err .notWKBHeader =>
    (match sliceFrom (scanBuf raw) 4 with
     | .ok rest =>
       (match scan bnd dest rest with
        | .ok (g, _) => .ok g
        | .err e => .err e
        | .panic m => .panic m)
     | .err e => .err e
     | .panic m => .panic m)
  | .err e => .err e
  | .panic m => .panic m

/-! ### one scanner value reused across rows (state carried between `Scan` calls) -/

/-- What a `Scan` call is handed: SQL NULL (a nil interface), a nil `[]byte`, or bytes. -/
inductive ScanIn where
  | null | nilBytes | bytes (b : Bytes)

/-- The exported fields of a `GeometryScanner` (`Geometry`, `SRID`, `Valid`); `wkb.GeometryScanner`
    has no SRID field, it is carried as 0. -/
structure ScanState where
  geom : Option G
  srid : Nat
  valid : Bool

/-- A scanner as its constructor returns it. -/
def ScanState.fresh : ScanState := ⟨none, 0, false⟩

/-- `ewkb.GeometryScanner.Scan` as a state transition: `Geometry` and `Valid` are reset first, `SRID`
    is assigned only on the success path (so it survives an error or a NULL in prefix mode). -/
def ewkbScanStep (bnd : BoundFn) (prefixSRID : Bool) (dest : Dest) (σ : ScanState) :
    ScanIn → R (ScanState × Option Err)
  | .null =>
    if prefixSRID then .ok (⟨none, σ.srid, false⟩, none)
    else .ok (⟨none, 0, false⟩, none)
  | .nilBytes =>
    if prefixSRID then .ok (⟨none, σ.srid, false⟩, none)
    else .ok (⟨none, 0, false⟩, none)
  | .bytes b =>
    match ewkbScan bnd prefixSRID dest b with
    | .ok (g, srid) => .ok (⟨some g, srid, true⟩, none)
    | .err e => .ok (⟨none, σ.srid, false⟩, some e)
    | .panic m => .panic m

/-- `wkb.GeometryScanner.Scan` as a state transition: the fields are reset first. -/
def wkbScanStep (bnd : BoundFn) (dest : Dest) (σ : ScanState) : ScanIn → R (ScanState × Option Err)
  | .null => .ok (⟨none, 0, false⟩, none)
  | .nilBytes => .ok (⟨none, 0, false⟩, none)
  | .bytes b =>
    match wkbScan bnd dest b with
    | .ok g => .ok (⟨some g, 0, true⟩, none)
    | .err e => .ok (⟨none, 0, false⟩, some e)
    | .panic m => .panic m

/-- What a caller can rely on after a `Scan`: the error, `Valid`, `Geometry`, and the SRID of a valid row. -/
def ScanState.observe (r : ScanState × Option Err) : Option Err × Bool × Option G × Nat :=
  (r.2, r.1.valid, r.1.geom, if r.1.valid then r.1.srid else 0)

/-! ### documented coercions of typed destinations, as data -/

/-- What scanning a decoded value `g` into destination `d` must yield (`none` = wrong geometry). -/
def coerce (bnd : BoundFn) (d : Dest) (g : G) : Option G :=
  match d, g with
  | .any, g => some g
  | .point, .point p => some (.point p)
  | .point, .multiPoint [p] => some (.point p)
  | .multiPoint, .point p => some (.multiPoint [p])
  | .multiPoint, .multiPoint ps => some (.multiPoint ps)
  | .lineString, .lineString l => some (.lineString l)
  | .lineString, .multiLineString [l] => some (.lineString l)
  | .multiLineString, .lineString l => some (.multiLineString [l])
  | .multiLineString, .multiLineString ls => some (.multiLineString ls)
  | .ring, .polygon [r] => some (.ring r)
  | .polygon, .polygon p => some (.polygon p)
  | .polygon, .multiPolygon [p] => some (.polygon p)
  | .multiPolygon, .polygon p => some (.multiPolygon [p])
  | .multiPolygon, .multiPolygon ps => some (.multiPolygon ps)
  | .collection, .collection gs => some (.collection gs)
  | .bound, g => let (a, b) := bnd g; some (.bound a b)
  | _, _ => none

/-! ### allocation accounting (capacities requested by the decoders' own `make` calls) -/

/-- capacity of `make([]T, 0, min(num, cap))` -/
def allocCap (num cap : Nat) : Nat := if num > cap then cap else num


/-! #### the capacities requested by the decoders' own `make` calls, summed over one decode call

  (Length guards are written with `lenLt`, i.e. `decide (len < n)` by `lenLt_eq`, so that the compiled
  functions do not walk the whole slice at every guard.)

  Each function below mirrors the control flow of the decoder of the same name (it calls that decoder
  to learn how far a loop gets) and adds up the byte size of every `make(T, 0, alloc)` that the Go
  code executes on that path — `alloc` being the claimed element count capped exactly where and how
  the Go code caps it (`MaxPointsAlloc` / `MaxMultiAlloc`, regenerated into `Generated.Params`).  A
  failing decode is accounted up to and including the call that fails.  Not accounted: what `append`
  adds beyond a capped capacity (amortised, bounded by a constant times the final length, which
  `elemCount_le` bounds), `bytes.NewReader`, `NewDecoder`, error values. -/

/-- `orb.Point` = `[2]float64` -/
def szPoint : Nat := 16
/-- a slice header: `orb.LineString` / `orb.Ring` / `orb.Polygon` as the element of a multi -/
def szSlice : Nat := 24
/-- an `orb.Geometry` interface value (element of `orb.Collection`) -/
def szIface : Nat := 16
/-- `Decoder.Decode`: `buf := make([]byte, 8)` -/
def szBuf : Nat := 8

/-! ##### byte-slice path -/

/-- `unmarshalPoints`: `make([]orb.Point, 0, min(num, MaxPointsAlloc))`, reached only after both
    length guards. -/
def unmarshalPointsAlloc (o : Order) (data : Bytes) : Nat :=
  if lenLt data 4 then 0 else
  if lenLt (data.drop 4) (rd32 o data * 16) then 0 else
  szPoint * allocCap (rd32 o data) wkb_MaxPointsAlloc

/-- `unmarshalPolygon`: `make(orb.Polygon, 0, min(num, MaxMultiAlloc))` BEFORE any ring is looked at,
    then `unmarshalPoints` per ring. -/
def unmarshalPolygonAlloc (o : Order) (data : Bytes) : Nat :=
  if lenLt data 4 then 0 else
  szSlice * allocCap (rd32 o data) wkb_MaxMultiAlloc + loop (rd32 o data) (data.drop 4)
where
  loop : Nat → Bytes → Nat
    | 0, _ => 0
    | n+1, data =>
      unmarshalPointsAlloc o data +
      match unmarshalPoints o data with
      | .ok ps =>
        (match sliceFrom data (16 * ps.length + 4) with
         | .ok rest => loop n rest
         | _ => 0)
      | _ => 0

/-- member loop of the three `unmarshalMulti*`: the member scan's own allocations, then on. -/
def memberLoopAlloc {β : Type} (scan : Bytes → R (β × Nat)) (scanAlloc : Bytes → Nat) (stride : β → Nat) :
    Nat → Bytes → Nat
  | 0, _ => 0
  | n+1, data =>
    scanAlloc data +
    match scan data with
    | .ok (x, _) =>
      (match sliceFrom data (stride x) with
       | .ok rest => memberLoopAlloc scan scanAlloc stride n rest
       | _ => 0)
    | _ => 0

/-- a member of a multi (`scanMember`): the plain decoder's allocations when the type is right -/
def scanMemberAlloc (tSingle : Nat) (singleAlloc : Order → Bytes → Nat) (data : Bytes) : Nat :=
  match unmarshalBOT data with
  | .ok (o, typ, _, geomData) => if typ ≠ tSingle then 0 else singleAlloc o geomData
  | _ => 0

/-- `ScanPoint` / `ScanLineString` / `ScanPolygon`: whichever decoder the header selects. -/
def scanSingleAlloc (tSingle tMulti : Nat) (singleAlloc multiAlloc : Order → Bytes → Nat) (data : Bytes) : Nat :=
  match unmarshalBOT data with
  | .ok (o, typ, _, geomData) =>
    if typ = tSingle then singleAlloc o geomData
    else if typ = tMulti then multiAlloc o geomData
    else 0
  | _ => 0

/-- `unmarshalMulti*`: `make(…, 0, min(num, MaxMultiAlloc))` of `sz`-byte elements BEFORE any member
    is looked at, then the member loop. -/
def unmarshalMultiFAlloc {β : Type} (sz tSingle : Nat) (single : Order → Bytes → R β)
    (singleAlloc : Order → Bytes → Nat) (stride : β → Nat) (o : Order) (data : Bytes) : Nat :=
  if lenLt data 4 then 0 else
  sz * allocCap (rd32 o data) wkb_MaxMultiAlloc +
  memberLoopAlloc (scanMember tSingle single) (scanMemberAlloc tSingle singleAlloc) stride
    (rd32 o data) (data.drop 4)

def unmarshalMultiPointAlloc : Order → Bytes → Nat :=
  unmarshalMultiFAlloc szPoint wkb_pointType unmarshalPoint (fun _ _ => 0) (fun _ => 21)

def unmarshalMultiLineStringAlloc : Order → Bytes → Nat :=
  unmarshalMultiFAlloc szSlice wkb_lineStringType unmarshalPoints unmarshalPointsAlloc
    (fun ls => 16 * ls.length + 9)

def unmarshalMultiPolygonAlloc : Order → Bytes → Nat :=
  unmarshalMultiFAlloc szSlice wkb_polygonType unmarshalPolygon unmarshalPolygonAlloc polyStride

/-! ##### stream path -/

/-- `readLineString`: `make(orb.LineString, 0, min(num, MaxPointsAlloc))` as soon as the count is read,
    BEFORE any point is. -/
def readLineStringAlloc (o : Order) (s : Bytes) : Nat :=
  match readU32 o s with
  | .ok (num, _) => szPoint * allocCap num wkb_MaxPointsAlloc
  | _ => 0

def readRingsLoopAlloc (o : Order) : Nat → Bytes → Nat
  | 0, _ => 0
  | n+1, s =>
    readLineStringAlloc o s +
    match readLineString o s with
    | .ok (_, s) => readRingsLoopAlloc o n s
    | _ => 0

/-- `readPolygon`: `make(orb.Polygon, 0, min(num, MaxMultiAlloc))`, then `readLineString` per ring. -/
def readPolygonAlloc (o : Order) (s : Bytes) : Nat :=
  match readU32 o s with
  | .ok (num, s) => szSlice * allocCap num wkb_MaxMultiAlloc + readRingsLoopAlloc o num s
  | _ => 0

/-- member loop of `readMultiPoint` / `readMultiLineString` / `readMultiPolygon`. -/
def readMembersAlloc {β : Type} (want : Nat) (rd : Order → Bytes → R (β × Bytes)) (rdAlloc : Order → Bytes → Nat) :
    Nat → Bytes → Nat
  | 0, _ => 0
  | n+1, s =>
    match readBOT s with
    | .ok (o, typ, _, s) =>
      if typ ≠ want then 0 else
      rdAlloc o s +
      match rd o s with
      | .ok (_, s) => readMembersAlloc want rd rdAlloc n s
      | _ => 0
    | _ => 0

/-- `Decoder.Decode`: the 8-byte buffer, then the `make` of the reader the header selects
    (`readMultiPoint` caps with `MaxPointsAlloc`, the other multis with `MaxMultiAlloc`). -/
def decodeWithAlloc (collAlloc : Order → Bytes → Nat) (s : Bytes) : Nat :=
  szBuf +
  match readBOT s with
  | .ok (o, typ, _, s) =>
    if typ = wkb_pointType then 0
    else if typ = wkb_multiPointType then
      match readU32 o s with
      | .ok (num, s) =>
        szPoint * allocCap num wkb_MaxPointsAlloc + readMembersAlloc wkb_pointType readPoint (fun _ _ => 0) num s
      | _ => 0
    else if typ = wkb_lineStringType then readLineStringAlloc o s
    else if typ = wkb_multiLineStringType then
      match readU32 o s with
      | .ok (num, s) =>
        szSlice * allocCap num wkb_MaxMultiAlloc +
          readMembersAlloc wkb_lineStringType readLineString readLineStringAlloc num s
      | _ => 0
    else if typ = wkb_polygonType then readPolygonAlloc o s
    else if typ = wkb_multiPolygonType then
      match readU32 o s with
      | .ok (num, s) =>
        szSlice * allocCap num wkb_MaxMultiAlloc +
          readMembersAlloc wkb_polygonType readPolygon readPolygonAlloc num s
      | _ => 0
    else if typ = wkb_geometryCollectionType then collAlloc o s
    else 0
  | _ => 0

/-- loop of `readCollection`: one `Decode` per member. -/
def collLoopAlloc (dec : Bytes → R (G × Nat × Bytes)) (decAlloc : Bytes → Nat) : Nat → Bytes → Nat
  | 0, _ => 0
  | n+1, s =>
    decAlloc s +
    match dec s with
    | .ok (_, _, s) => collLoopAlloc dec decAlloc n s
    | _ => 0

/-- `readCollection`: nothing when no level is left (`ErrNestingTooDeep` comes first); else
    `make(orb.Collection, 0, min(num, MaxMultiAlloc))`, then the loop.  (The `&Decoder{…}` for the members
    is 24 bytes per collection, within what `measuredBound` allows per input byte.) -/
def readCollectionAllocF : Nat → Order → Bytes → Nat
  | 0, _, _ => 0
  | left+1, o, s =>
    match readU32 o s with
    | .ok (num, s) =>
      szIface * allocCap num wkb_MaxMultiAlloc +
        collLoopAlloc (decodeWith (readCollectionF left)) (decodeWithAlloc (readCollectionAllocF left)) num s
    | _ => 0

/-! #### recursion depth: how many `Decoder.Decode` activations are on the Go stack at the same time

  The only recursion left in the two decoders is `Decoder.Decode` → `readCollection` → `Decode` of a
  member.  The functions below follow the decoder exactly as the allocation accounting does and return
  the largest number of simultaneously active `Decode` calls, for succeeding and failing decodes. -/

def collLoopDepth (dec : Bytes → R (G × Nat × Bytes)) (decDepth : Bytes → Nat) : Nat → Bytes → Nat
  | 0, _ => 0
  | n+1, s =>
    max (decDepth s)
      (match dec s with
       | .ok (_, _, s) => collLoopDepth dec decDepth n s
       | _ => 0)

/-- one `Decode` activation, plus what `readCollection` stacks on top of it -/
def decodeWithDepth (cd : Order → Bytes → Nat) (s : Bytes) : Nat :=
  1 +
  match readBOT s with
  | .ok (o, typ, _, s) => if typ = wkb_geometryCollectionType then cd o s else 0
  | _ => 0

def readCollectionDepthF : Nat → Order → Bytes → Nat
  | 0, _, _ => 0
  | left+1, o, s =>
    match readU32 o s with
    | .ok (num, s) =>
      collLoopDepth (decodeWith (readCollectionF left)) (decodeWithDepth (readCollectionDepthF left)) num s
    | _ => 0

/-! #### one-pass twins for the compiled driver

  `readCollectionAllocF` and `readCollectionDepthF` decode every member once for their own figure and once
  more at every enclosing level to learn where the next member starts: quadratic in the nesting depth,
  minutes for the 10000 levels the decoders accept.  `readCollectionFP` computes result, accounting and
  depth together; kernel-checked `@[csimp]` equations make the compiled driver run it, while every
  theorem is about the definitions above. -/

def collLoopP (decP : Bytes → R (G × Nat × Bytes) × Nat × Nat) : Nat → Bytes → R (List G × Bytes) × Nat × Nat
  | 0, s => (.ok ([], s), 0, 0)
  | n+1, s =>
    match decP s with
    | (.ok (g, _, s'), a, d) =>
      (match collLoopP decP n s' with
       | (.ok (gs, s''), a2, d2) => (.ok (g :: gs, s''), a + a2, max d d2)
       | (.err e, a2, d2) => (.err e, a + a2, max d d2)
       | (.panic m, a2, d2) => (.panic m, a + a2, max d d2))
    | (.err e, a, d) => (.err e, a + 0, max d 0)
    | (.panic m, a, d) => (.panic m, a + 0, max d 0)

/-- for every type but a collection the collection reader is never consulted -/
def decodeWithP (collP : Order → Bytes → R (List G × Bytes) × Nat × Nat) (s : Bytes) :
    R (G × Nat × Bytes) × Nat × Nat :=
  match readBOT s with
  | .ok (o, typ, srid, s') =>
    if typ = wkb_geometryCollectionType then
      match collP o s' with
      | (.ok (gs, s''), a, d) => (.ok (.collection gs, srid, s''), szBuf + a, 1 + d)
      | (.err e, a, d) => (.err e, szBuf + a, 1 + d)
      | (.panic m, a, d) => (.panic m, szBuf + a, 1 + d)
    else (decodeWith (fun _ _ => .err .eof) s, decodeWithAlloc (fun _ _ => 0) s, 1)
  | _ => (decodeWith (fun _ _ => .err .eof) s, decodeWithAlloc (fun _ _ => 0) s, 1)

def readCollectionFP : Nat → Order → Bytes → R (List G × Bytes) × Nat × Nat
  | 0, _, _ => (.err .nestingTooDeep, 0, 0)
  | left+1, o, s =>
    match readU32 o s with
    | .ok (num, s') =>
      let r := collLoopP (decodeWithP (readCollectionFP left)) num s'
      (r.1, szIface * allocCap num wkb_MaxMultiAlloc + r.2.1, r.2.2)
    | .err e => (.err e, 0, 0)
    | .panic m => (.panic m, 0, 0)

theorem collLoopP_eq (dec : Bytes → R (G × Nat × Bytes)) (decAlloc decDepth : Bytes → Nat)
    (decP : Bytes → R (G × Nat × Bytes) × Nat × Nat)
    (h : ∀ t, decP t = (dec t, decAlloc t, decDepth t)) (n : Nat) :
    ∀ s, collLoopP decP n s = (collLoop dec n s, collLoopAlloc dec decAlloc n s, collLoopDepth dec decDepth n s) := by
  induction n with
  | zero => intro s; rfl
  | succ n ih =>
    intro s
    simp only [collLoopP, collLoop, collLoopAlloc, collLoopDepth, h s]
    cases dec s with
    | ok v =>
      obtain ⟨g, sr, s'⟩ := v
      simp only [ih s']
      cases collLoop dec n s' with
      | ok w => obtain ⟨gs, s''⟩ := w; rfl
      | err e => rfl
      | panic m => rfl
    | err e => rfl
    | panic m => rfl

theorem decodeWithP_eq (coll : Order → Bytes → R (List G × Bytes)) (collAlloc cd : Order → Bytes → Nat)
    (collP : Order → Bytes → R (List G × Bytes) × Nat × Nat)
    (h : ∀ o t, collP o t = (coll o t, collAlloc o t, cd o t)) (s : Bytes) :
    decodeWithP collP s = (decodeWith coll s, decodeWithAlloc collAlloc s, decodeWithDepth cd s) := by
  unfold decodeWithP decodeWith decodeWithAlloc decodeWithDepth
  cases readBOT s with
  | ok v =>
    obtain ⟨o, typ, srid, s'⟩ := v
    by_cases ht : typ = wkb_geometryCollectionType
    · subst ht
      simp only [h, if_true]
      have n1 : ¬ wkb_geometryCollectionType = wkb_pointType := by decide
      have n2 : ¬ wkb_geometryCollectionType = wkb_multiPointType := by decide
      have n3 : ¬ wkb_geometryCollectionType = wkb_lineStringType := by decide
      have n4 : ¬ wkb_geometryCollectionType = wkb_multiLineStringType := by decide
      have n5 : ¬ wkb_geometryCollectionType = wkb_polygonType := by decide
      have n6 : ¬ wkb_geometryCollectionType = wkb_multiPolygonType := by decide
      simp only [if_neg n1, if_neg n2, if_neg n3, if_neg n4, if_neg n5, if_neg n6, if_true]
      cases coll o s' with
      | ok w => obtain ⟨gs, s''⟩ := w; rfl
      | err e => rfl
      | panic m => rfl
    · simp only [if_neg ht]
  | err e => rfl
  | panic m => rfl

theorem readCollectionFP_eq (left : Nat) : ∀ o s,
    readCollectionFP left o s =
      (readCollectionF left o s, readCollectionAllocF left o s, readCollectionDepthF left o s) := by
  induction left with
  | zero => intro o s; rfl
  | succ left ih =>
    intro o s
    simp only [readCollectionFP, readCollectionF, readCollectionAllocF, readCollectionDepthF]
    cases readU32 o s with
    | ok v =>
      obtain ⟨num, s'⟩ := v
      simp only [collLoopP_eq _ _ _ _ (decodeWithP_eq _ _ _ _ ih)]
    | err e => rfl
    | panic m => rfl

def readCollectionAllocFFast (left : Nat) (o : Order) (s : Bytes) : Nat := (readCollectionFP left o s).2.1
def readCollectionDepthFFast (left : Nat) (o : Order) (s : Bytes) : Nat := (readCollectionFP left o s).2.2

@[csimp] theorem readCollectionAllocF_eq_fast : @readCollectionAllocF = @readCollectionAllocFFast := by
  funext left o s
  simp only [readCollectionAllocFFast, readCollectionFP_eq]

@[csimp] theorem readCollectionDepthF_eq_fast : @readCollectionDepthF = @readCollectionDepthFFast := by
  funext left o s
  simp only [readCollectionDepthFFast, readCollectionFP_eq]

/-- `Decode()` on a fresh reader over `data`. -/
def decodeAlloc (data : Bytes) : Nat := decodeWithAlloc (readCollectionAllocF wkb_MaxCollectionDepth) data

/-- `Unmarshal`. -/
def unmarshalAlloc (data : Bytes) : Nat :=
  match unmarshalBOT data with
  | .ok (o, typ, _, geomData) =>
    if typ = wkb_pointType then 0
    else if typ = wkb_multiPointType then unmarshalMultiPointAlloc o geomData
    else if typ = wkb_lineStringType then unmarshalPointsAlloc o geomData
    else if typ = wkb_multiLineStringType then unmarshalMultiLineStringAlloc o geomData
    else if typ = wkb_polygonType then unmarshalPolygonAlloc o geomData
    else if typ = wkb_multiPolygonType then unmarshalMultiPolygonAlloc o geomData
    else if typ = wkb_geometryCollectionType then decodeAlloc data
    else 0
  | _ => 0

/-- `wkbcommon.Scan` after the framing has been removed: the decoder the destination selects. -/
def scanDestAlloc (dest : Dest) (data : Bytes) : Nat :=
  match dest with
  | .any | .multiPoint | .ring | .bound => unmarshalAlloc data
  | .point =>
    scanSingleAlloc wkb_pointType wkb_multiPointType (fun _ _ => 0) unmarshalMultiPointAlloc data
  | .lineString =>
    scanSingleAlloc wkb_lineStringType wkb_multiLineStringType unmarshalPointsAlloc
      unmarshalMultiLineStringAlloc data
  | .multiLineString =>
    scanSingleAlloc wkb_lineStringType wkb_multiLineStringType unmarshalPointsAlloc
      unmarshalMultiLineStringAlloc data
  | .polygon =>
    scanSingleAlloc wkb_polygonType wkb_multiPolygonType unmarshalPolygonAlloc
      unmarshalMultiPolygonAlloc data
  | .multiPolygon =>
    scanSingleAlloc wkb_polygonType wkb_multiPolygonType unmarshalPolygonAlloc
      unmarshalMultiPolygonAlloc data
  | .collection => decodeAlloc data

/-! ##### what the property promises: at most proportional to the input, plus a fixed cap -/

/-- bytes per input byte (the worst ratio is a nested collection header: 9 bytes buy an 8-byte buffer
    and `MaxMultiAlloc` interface slots) -/
def allocPerByte : Nat := 200
/-- the fixed part: one open `MultiPolygon` + `Polygon` + ring, each at its cap, plus the buffer -/
def allocFixed : Nat := szBuf + 2 * (szSlice * wkb_MaxMultiAlloc) + szPoint * wkb_MaxPointsAlloc

/-! #### recursion depth, entry points (`decodeWithDepth`, `readCollectionDepthF`: defined above, next to the accounting) -/

/-- `Decode()` on a fresh reader over `data`. -/
def decodeDepth (data : Bytes) : Nat := decodeWithDepth (readCollectionDepthF wkb_MaxCollectionDepth) data

/-- `Unmarshal`: only a collection reaches the recursive decoder. -/
def unmarshalDepth (data : Bytes) : Nat :=
  match unmarshalBOT data with
  | .ok (_, typ, _, _) => if typ = wkb_geometryCollectionType then decodeDepth data else 0
  | _ => 0

/-! ##### the family of inputs on which the byte-slice multi decoders WERE quadratic (before members
    were restricted to the plain type): now rejected at the first nested header -/

/-- `k` nested one-member multi headers of type `t` (little endian). -/
def nestHeaders (t : Nat) : Nat → Bytes
  | 0 => []
  | k+1 => (1 :: u32 .little t ++ u32 .little 1) ++ nestHeaders t k

/-- A multi of type `t` claiming `k+1` members, followed by `k` nested one-member multi headers and an
    empty member of type `leaf` (`LINESTRING EMPTY` / a polygon without rings). -/
def nestedMultiInput (t leaf k : Nat) : Bytes :=
  (1 :: u32 .little t ++ u32 .little (k + 1)) ++ nestHeaders t k ++ (1 :: u32 .little leaf ++ u32 .little 0)

end Orb.WKB
