/-
  Orb.Contains — model of planar/contains.go: `RingContains`, `PolygonContains`,
  `MultiPolygonContains` and `rayIntersect`, control flow and operator order as written.

  The only non-field operation of the Go code is `p[0] = math.Nextafter(p[0], +Inf)`.  After
  that assignment `p[0]` is used in exactly three places (`p[0] < s[0]`, `p[0] > e[0]` and the
  quotient `(p[1]-s[1]) / (p[0]-s[0])`); the model routes those three uses through a `Nudge`
  record so that the SAME definition of `rayIntersect` runs

  * as the Float twin with the real `Nextafter` on bit patterns (`Nudge.real nextUp`), and
  * exactly, with the nudge an infinitesimal ε > 0 (`Nudge.inf`): `x+ε < s ⇔ x < s`,
    `x+ε > e ⇔ x ≥ e`, and `dy / (x+ε-sx)` is `±∞` by the sign of `dy` when `x = sx`.

  Core Lean only.
-/
import Orb.Core

namespace Orb.Contains
open Orb Orb.Core

/-- The three uses of the (possibly nudged) abscissa `p[0]`.  The `Bool` says whether
    `math.Nextafter(·, +Inf)` was applied to `x`. -/
structure Nudge (α : Type) where
  /-- `p[0] < s[0]` -/
  lt : (x : α) → Bool → (sx : α) → Bool
  /-- `p[0] > e[0]` -/
  gt : (x : α) → Bool → (ex : α) → Bool
  /-- `(rs == ds, rs <= ds)` for `rs := dy / (p[0] - sx)` -/
  slope : (dy x : α) → Bool → (sx ds : α) → Bool × Bool

section
variable {α : Type} [Sub α] [Div α] [OfNat α 0] [BEq α] [LT α] [LE α] [DecidableLT α] [DecidableLE α]

/-- The nudge performed for real by a next-representable-value function (Float twin). -/
def Nudge.real (next : α → α) : Nudge α where
  lt x k sx := decide ((if k then next x else x) < sx)
  gt x k ex := decide (ex < (if k then next x else x))
  slope dy x k sx ds :=
    let rs := dy / ((if k then next x else x) - sx)
    (rs == ds, decide (rs ≤ ds))

/-- The nudge as an infinitesimal ε > 0 (exact instance; the instance the theorems are about). -/
def Nudge.inf : Nudge α where
  lt x _ sx := decide (x < sx)
  gt x k ex := if k then decide (ex ≤ x) else decide (ex < x)
  slope dy x k sx ds :=
    if k && x == sx then
      -- dy / ε
      if dy == 0 then ((0 : α) == ds, decide ((0 : α) ≤ ds))
      else if dy < 0 then (false, true)      -- −∞
      else (false, false)                    -- +∞
    else
      -- `k` unset: no nudge.  `k` set with `x ≠ sx` (the query is level with the RIGHT endpoint,
      -- `x = ex`): `x + ε − sx` differs from `x − sx ≠ 0` by an infinitesimal, so the plain quotient
      -- is the right value; `rayIntersect` never gets here in that situation, but only because
      -- `gt x true ex` (`ex ≤ x`) has already answered `(false, false)` — not because of this record.
      let rs := dy / (x - sx)
      (rs == ds, decide (rs ≤ ds))

/-- `rayIntersect(p, s, e) (intersects, on bool)`. -/
def rayIntersect (N : Nudge α) (p s e : Pt α) : Bool × Bool :=
  -- if s[0] > e[0] { s, e = e, s }
  let se : Pt α × Pt α := if e.x < s.x then (e, s) else (s, e)
  let s := se.1
  let e := se.2
  -- the if / else-if on p[0]: either an early `return false, true`, or "p[0] was nudged" / "was not"
  let pre : Option (Bool × Bool) × Bool :=
    if p.x == s.x then
      if p.y == s.y then (some (false, true), false)
      else if s.x == e.x && ((decide (e.y < s.y) && decide (p.y ≤ s.y) && decide (e.y ≤ p.y)) ||
                              (decide (s.y < e.y) && decide (p.y ≤ e.y) && decide (s.y ≤ p.y))) then
        (some (false, true), false)
      else (none, true)
    else if p.x == e.x then
      if p.y == e.y then (some (false, true), false) else (none, true)
    else (none, false)
  match pre with
  | (some v, _) => v
  | (none, k) =>
    if N.lt p.x k s.x || N.gt p.x k e.x then (false, false) else
    let tail : Bool × Bool :=
      let ds := (e.y - s.y) / (e.x - s.x)
      let c := N.slope (p.y - s.y) p.x k s.x ds
      if c.1 then (false, true) else (c.2, false)
    if e.y < s.y then
      if s.y < p.y then (false, false) else if p.y < e.y then (true, false) else tail
    else
      if e.y < p.y then (false, false) else if p.y < s.y then (true, false) else tail

/-- the loop `for i := 0; i < len(r)-1; i++` of `RingContains`, `c` being the running parity -/
def ringLoop (N : Nudge α) (p : Pt α) : List (Pt α) → Bool → Bool
  | a :: b :: t, c =>
    let io := rayIntersect N p a b
    if io.2 then true else ringLoop N p (b :: t) (if io.1 then !c else c)
  | _, c => c

variable [Min α] [Max α]

/-- `RingContains`.  `eb` is the package's `emptyBound` sentinel (what `Ring.Bound()` answers for
    an empty ring); were it to contain the point, `r[0]` would panic. -/
def ringContains (N : Nudge α) (eb : Bound α) (r : List (Pt α)) (p : Pt α) : Res Unit Bool :=
  if !(multiPointBound eb r).contains p then .ok false else
  match r with
  | [] => .panic "index out of range [0] with length 0"
  | v :: t =>
    let io := rayIntersect N p v ((v :: t).getLast?.getD v)
    if io.2 then .ok true else .ok (ringLoop N p (v :: t) io.1)

/-- the loop over the holes `p[1:]` of `PolygonContains` -/
def holesLoop (N : Nudge α) (eb : Bound α) (p : Pt α) : List (List (Pt α)) → Res Unit Bool
  | [] => .ok true
  | h :: t =>
    match ringContains N eb h p with
    | .ok true => .ok false
    | .ok false => holesLoop N eb p t
    | .err e => .err e
    | .panic s => .panic s

/-- `PolygonContains`; a polygon without rings indexes `p[0]`. -/
def polygonContains (N : Nudge α) (eb : Bound α) (pg : List (List (Pt α))) (p : Pt α) : Res Unit Bool :=
  match pg with
  | [] => .panic "index out of range [0] with length 0"
  | outer :: holes =>
    match ringContains N eb outer p with
    | .ok false => .ok false
    | .ok true => holesLoop N eb p holes
    | .err e => .err e
    | .panic s => .panic s

/-- `MultiPolygonContains`. -/
def multiPolygonContains (N : Nudge α) (eb : Bound α) : List (List (List (Pt α))) → Pt α → Res Unit Bool
  | [], _ => .ok false
  | pg :: t, p =>
    match polygonContains N eb pg p with
    | .ok true => .ok true
    | .ok false => multiPolygonContains N eb t p
    | .err e => .err e
    | .panic s => .panic s

end

section finite
variable {α : Type} [Sub α] [Mul α] [BEq α] [LT α] [LE α] [DecidableLT α] [DecidableLE α]

/-- THE EXACT CONDITION, per edge, under which a FINITE nudge `next p.x > p.x` makes `rayIntersect`
    answer what the infinitesimal nudge answers (`rayIntersect_finite_nudge_iff`).  Only one alignment
    is sensitive to the size of the nudge: the query is level with the LEFT endpoint `l` of a
    non-vertical edge `l r` without being that vertex (`p.x = l.x < r.x`, `p.y ≠ l.y`).  Then

    * `p` below `l` (the ray from just right of `p` crosses the edge): the nudged abscissa must not
      overshoot the edge (`next p.x ≤ r.x`), and, if `p` is not below `r` as well, the nudged point must
      still be strictly under the edge's line (slopes from `l`: `(p.y-l.y)/(next p.x-l.x) < (r.y-l.y)/(r.x-l.x)`,
      written without division);
    * `p` above `l` (no crossing): if the nudged point is still inside the edge's box
      (`p.y ≤ r.y`, `next p.x ≤ r.x`) it must still be strictly over the edge's line.

    Everything else (query level with a right endpoint, with a vertical edge, with no endpoint) does not
    depend on the size of the nudge at all. -/
def edgeNudgeOK (next : α → α) (p s e : Pt α) : Bool :=
  let l := if e.x < s.x then e else s
  let r := if e.x < s.x then s else e
  if p.x == l.x && decide (l.x < r.x) && !(p.y == l.y) then
    if p.y < l.y then
      decide (next p.x ≤ r.x) &&
        (decide (p.y < r.y) || decide ((p.y - l.y) * (r.x - l.x) < (r.y - l.y) * (next p.x - l.x)))
    else
      !(decide (p.y ≤ r.y) && decide (next p.x ≤ r.x)) ||
        decide ((r.y - l.y) * (next p.x - l.x) < (p.y - l.y) * (r.x - l.x))
  else true

end finite

/-- `math.Nextafter(x, math.Inf(1))` on float64 bit patterns. -/
def nextUp (x : Float) : Float :=
  if x.isNaN then x                                   -- IsNaN(x) → NaN
  else if x == Float.ofBits 0x7ff0000000000000 then x -- x == y
  else if x == 0 then Float.ofBits 1                  -- Copysign(smallest subnormal, +Inf)
  else if 0 < x then Float.ofBits (x.toBits + 1)      -- (y > x) == (x > 0)
  else Float.ofBits (x.toBits - 1)

end Orb.Contains
