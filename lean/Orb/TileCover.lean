/-
  Orb.TileCover — model of maptile/tilecover (helpers.go, line_string.go, polygon.go, merge.go).
  Core Lean only.

  * `maptile.Fraction(p, zoom)` goes through math.Sin/Log: it is an opaque parameter `frac` of `cover`
    (the driver instantiates it with the values the Go side computed); `line`, `polygon`, … work on the
    TILE-SPACE FRACTIONS and model everything below it (floor, the DDA, uint32 conversion, trace,
    fill), polymorphically in the number type (`Float` twin / ordered field for the theorems).
  * A `maptile.Set` whose values are all `true` (every cover) is a `List Tile` read as a set
    (membership is the meaning; duplicates and order are not observable).
  * `MergeUp` / `MergeUpPartial` mutate the map they iterate over: there the map is an association
    list `TMap` and every `range` statement takes its enumeration order from an `Orders` argument;
    the theorems quantify over all orders that enumerate every key.
-/
import Orb.Basic
import Orb.Tile

namespace Orb.TileCover
open Orb Orb.Tile

/-- The non-ring float operations used by the package. -/
structure Ops (α : Type) where
  /-- `math.Floor` -/
  floor : α → α
  /-- `math.Abs` -/
  abs : α → α
  /-- Go's conversion `uint32(f)` -/
  toU32 : α → Nat
  /-- `360.0*(float64(x)/float64(max)-0.5)`: the longitude of the west edge of column `x` out of `max`
      (the expression of `mercator.ToGeo`, which `maptile.At` repeats for its step-back); every
      instance is `westEdgeOf` at its own `float64(·)` conversion. -/
  westEdge : Nat → Nat → α

/-- `360.0*(float64(x)/float64(max)-0.5)` over any number type (`ofNat` is the conversion `float64(uint32)`). -/
def westEdgeOf {α : Type} [Sub α] [Mul α] [Div α] [OfNat α 360] [OfNat α 1] [OfNat α 2]
    (ofNat : Nat → α) (x mx : Nat) : α :=
  360 * (ofNat x / ofNat mx - 1 / 2)

/-- `ErrUnevenIntersections`; `outOfFuel` is a model artefact (the DDA `for` loop is run with fuel)
    and never an outcome of the Go code. -/
inductive CoverErr where
  | unevenIntersections
  | outOfFuel
deriving Repr, BEq, DecidableEq, Inhabited

abbrev CRes (β : Type) := Res CoverErr β

/-! ### helpers.go: `maptile.At` below `Fraction`, `Point`, `MultiPoint`, `Bound` -/

/-- `maptile.At` given the longitude `lon = ll[0]` and the fraction `f = Fraction(ll, z)`: truncate, then
    (both under `max != 0`) clamp the column to the last one (`if t.X >= max { t.X = max - 1 }`) and step
    back one column when the longitude lies west of the column's west edge
    (`if t.X > 0 && ll[0] < 360.0*(float64(t.X)/float64(max)-0.5) { t.X-- }`, fix 190fad1:
    `ll[0]/360 + 0.5` is rounded, a longitude just west of a column edge can round onto the edge). -/
def tileAt {α : Type} [LT α] [DecidableLT α] (ops : Ops α) (lon : α) (f : Pt α) (z : Nat) : Tile :=
  let x := ops.toU32 f.x
  let y := ops.toU32 f.y
  let mx := shl32 1 z
  let x := if mx ≠ 0 ∧ x ≥ mx then mx - 1 else x
  let x := if mx ≠ 0 ∧ x > 0 ∧ lon < ops.westEdge x mx then x - 1 else x
  ⟨x, y, z⟩

/-- `tilecover.Bound` between the corner tiles `lo = At(b.Min)`, `hi = At(b.Max)`:
    `for x := lo.X; x <= hi.X; x++ { for y := hi.Y; y <= lo.Y; y++ {…} }`. -/
def coverRect (lo hi : Tile) (z : Nat) : List Tile :=
  (List.range (hi.x + 1 - lo.x)).flatMap fun i =>
    (List.range (lo.y + 1 - hi.y)).map fun j => ⟨lo.x + i, hi.y + j, z⟩

/-! ### line_string.go: the DDA -/

section dda
variable {α : Type} [Add α] [Sub α] [Div α] [Neg α] [OfNat α 0] [OfNat α 1] [LT α] [DecidableLT α] [BEq α]

/-- Local state of `line()`: the set being filled, the ring trace (`none` = Go `nil`), and the
    variables `prevX prevY x y` that live across segments. -/
structure LState (α : Type) where
  set : List Tile
  ring : Option (List (Nat × Nat))
  prevX : α
  prevY : α
  x : α
  y : α

/-- `set[New(uint32(x), uint32(y), zoom)] = true; if ring != nil && y != prevY { ring = append(…) };
    prevX = x; prevY = y`. -/
def LState.emit (ops : Ops α) (zoom : Nat) (s : LState α) : LState α :=
  let tx := ops.toU32 s.x
  let ty := ops.toU32 s.y
  { s with
    set := ⟨tx, ty, zoom⟩ :: s.set
    ring := match s.ring with
      | some r => if !(s.y == s.prevY) then some (r ++ [(tx, ty)]) else some r
      | none => none
    prevX := s.x
    prevY := s.y }

/-- `t < 1` where `none` stands for `+Inf` (the value of `tMax` on an axis with `d = 0`). -/
def ltOne : Option α → Bool
  | some t => decide (t < 1)
  | none => false

/-- `a < b` with `none = +Inf`. -/
def ltInf : Option α → Option α → Bool
  | some a, some b => decide (a < b)
  | some _, none => true
  | none, _ => false

/-- `for tMaxX < 1 || tMaxY < 1 { … }`, with fuel; `none` = fuel exhausted. -/
def walk (ops : Ops α) (zoom : Nat) (sx sy tdx tdy : α) :
    Nat → Option α → Option α → LState α → Option (LState α)
  | 0, tMaxX, tMaxY, s => if ltOne tMaxX || ltOne tMaxY then none else some s
  | fuel+1, tMaxX, tMaxY, s =>
    if ltOne tMaxX || ltOne tMaxY then
      if ltInf tMaxX tMaxY then
        walk ops zoom sx sy tdx tdy fuel (tMaxX.map (· + tdx)) tMaxY
          (LState.emit ops zoom { s with x := s.x + sx })
      else
        walk ops zoom sx sy tdx tdy fuel tMaxX (tMaxY.map (· + tdy))
          (LState.emit ops zoom { s with y := s.y + sy })
    else some s

/-- One iteration of the segment loop of `line()`; `start`, `stop` are the fractions. -/
def segment (ops : Ops α) (zoom fuel : Nat) (s : LState α) (start stop : Pt α) : Option (LState α) :=
  let dx := stop.x - start.x
  let dy := stop.y - start.y
  if dy == 0 && dx == 0 then some s else
  let sx : α := if 0 < dx then 1 else -1
  let sy : α := if 0 < dy then 1 else -1
  let x := ops.floor start.x
  let y := ops.floor start.y
  -- `tMaxX := inf; if dx != 0 { … }`: `none` is `+Inf`
  let tMaxX : Option α :=
    if !(dx == 0) then some (ops.abs ((((if 0 < dx then 1 else 0) + x) - start.x) / dx)) else none
  let tMaxY : Option α :=
    if !(dy == 0) then some (ops.abs ((((if 0 < dy then 1 else 0) + y) - start.y) / dy)) else none
  let tdx := ops.abs (sx / dx)
  let tdy := ops.abs (sy / dy)
  let s := { s with x := x, y := y }
  let s := if !(x == s.prevX) || !(y == s.prevY) then LState.emit ops zoom s else s
  walk ops zoom sx sy tdx tdy fuel tMaxX tMaxY s

/-- `for i := 0; i < len(line)-1; i++ { … }` over the fractions of the vertices. -/
def lineSegs (ops : Ops α) (zoom fuel : Nat) : LState α → List (Pt α) → Option (LState α)
  | s, a :: l@(b :: _) => (segment ops zoom fuel s a b).bind fun s' => lineSegs ops zoom fuel s' l
  | s, _ => some s

/-- `line(set, line, zoom, ring)`; returns the set and the ring trace.
    Last statement: `if len(ring) != 0 && uint32(y) == ring[0][1] { ring = ring[:len(ring)-1] }`
    (a nil or empty trace is left alone — the fixed code; it used to index `ring[0]` on every
    non-nil ring). -/
def line (ops : Ops α) (zoom fuel : Nat) (set : List Tile) (pts : List (Pt α))
    (ring : Option (List (Nat × Nat))) : CRes (List Tile × Option (List (Nat × Nat))) :=
  match lineSegs ops zoom fuel ⟨set, ring, -1, -1, 0, 0⟩ pts with
  | none => .err .outOfFuel
  | some s =>
    match s.ring with
    | none => .ok (s.set, none)
    | some r =>
      match r.head? with
      | none => .ok (s.set, some r)
      | some first =>
        if ops.toU32 s.y == first.2 then .ok (s.set, some r.dropLast) else .ok (s.set, some r)

/-! ### polygon.go -/

/-- The extremum filter over one ring trace: entry `i` becomes an intersection unless its row is a
    local minimum, a local maximum, or repeated by the next entry. -/
def ringIntersections (ring : List (Nat × Nat)) : List (Nat × Nat) :=
  let n := ring.length
  (List.range n).filterMap fun i =>
    let p := (ring.getD ((n - 1 + i) % n) (0, 0)).2
    let nx := (ring.getD ((i + 1) % n) (0, 0)).2
    let e := ring.getD i (0, 0)
    let y := e.2
    if (p < y || nx < y) && (y < p || y < nx) && y != nx then some e else none

/-- `sort.Slice` by `(y, x)` (equal keys are equal values, so every correct sort gives this list). -/
def sortYX (l : List (Nat × Nat)) : List (Nat × Nat) :=
  l.mergeSort fun a b => if a.2 != b.2 then decide (a.2 < b.2) else decide (a.1 ≤ b.1)

/-- `for i := 0; i < len; i += 2 { for x := I[i].x + 1; x < I[i+1].x; x++ {…} }`. -/
def fillPairs (zoom : Nat) : List (Nat × Nat) → List Tile
  | a :: b :: rest =>
    ((List.range (b.1 - add32 a.1 1)).map fun k => (⟨add32 a.1 1 + k, a.2, zoom⟩ : Tile)) ++ fillPairs zoom rest
  | _ => []

/-- The ring loop of `polygon()`: traces every ring into `set`, collects the intersections. -/
def traceRings (ops : Ops α) (zoom fuel : Nat) :
    List Tile → List (Nat × Nat) → List (List (Pt α)) → CRes (List Tile × List (Nat × Nat))
  | set, inter, [] => .ok (set, inter)
  | set, inter, r :: rs =>
    match line ops zoom fuel set r (some []) with
    | .ok (set', ring) => traceRings ops zoom fuel set' (inter ++ ringIntersections (ring.getD [])) rs
    | .err e => .err e
    | .panic w => .panic w

/-- `polygon(set, p, zoom)`. -/
def polygon (ops : Ops α) (zoom fuel : Nat) (set : List Tile) (rings : List (List (Pt α))) : CRes (List Tile) :=
  match traceRings ops zoom fuel set [] rings with
  | .ok (set', inter) =>
    if inter.length % 2 != 0 then .err .unevenIntersections
    else .ok (fillPairs zoom (sortYX inter) ++ set')
  | .err e => .err e
  | .panic w => .panic w

/-- `for _, ls := range mls { line(set, ls, z, nil) }`. -/
def multiLine (ops : Ops α) (zoom fuel : Nat) : List Tile → List (List (Pt α)) → CRes (List Tile)
  | set, [] => .ok set
  | set, l :: ls =>
    match line ops zoom fuel set l none with
    | .ok (set', _) => multiLine ops zoom fuel set' ls
    | .err e => .err e
    | .panic w => .panic w

/-- `for _, p := range mp { err := polygon(set, p, z); if err != nil { return nil, err } }`. -/
def multiPolygon (ops : Ops α) (zoom fuel : Nat) : List Tile → List (List (List (Pt α))) → CRes (List Tile)
  | set, [] => .ok set
  | set, p :: ps =>
    match polygon ops zoom fuel set p with
    | .ok set' => multiPolygon ops zoom fuel set' ps
    | .err e => .err e
    | .panic w => .panic w

/-- `tilecover.Geometry`.  `frac` is `maptile.Fraction(·, zoom)` (math.Sin / math.Log inside: an opaque
    parameter); everything else — including `Bound.IsEmpty` on the lon/lat corners and the longitude
    test of `maptile.At`'s step-back — is modelled. -/
def cover (ops : Ops α) (frac : Pt α → Pt α) (zoom fuel : Nat) : Geom α → CRes (List Tile)
  | .point p => .ok [tileAt ops p.x (frac p) zoom]
  | .multiPoint ps => .ok (ps.map fun p => tileAt ops p.x (frac p) zoom)
  | .lineString ps => (line ops zoom fuel [] (ps.map frac) none).map (·.1)
  | .multiLineString ls => multiLine ops zoom fuel [] (ls.map (·.map frac))
  | .ring ps => if ps.isEmpty then .ok [] else polygon ops zoom fuel [] [ps.map frac]
  | .polygon rs => polygon ops zoom fuel [] (rs.map (·.map frac))
  | .multiPolygon ps => multiPolygon ops zoom fuel [] (ps.map (·.map (·.map frac)))
  | .bound a b =>
    -- `if b.IsEmpty() { return make(maptile.Set) }`: `Min[0] > Max[0] || Min[1] > Max[1]`
    if b.x < a.x ∨ b.y < a.y then .ok []
    else .ok (coverRect (tileAt ops a.x (frac a) zoom) (tileAt ops b.x (frac b) zoom) zoom)
  | .collection gs =>
    -- `s, err := Geometry(g, z); if err != nil { return nil, err }; set.Merge(s)`
    gs.foldl (fun acc g =>
      match acc with
      | .ok set =>
        (match cover ops frac zoom fuel g with
         | .ok s => .ok (s ++ set)
         | .err e => .err e
         | .panic w => .panic w)
      | r => r) (.ok [])

end dda

/-! ### merge.go -/

/-- A `maptile.Set` as an association list (first match wins; `set` updates in place or appends,
    so keys stay distinct and `len` is the length). -/
abbrev TMap := List (Tile × Bool)

namespace TMap
/-- `set[t]` (absent keys read `false`). -/
def get : TMap → Tile → Bool
  | [], _ => false
  | (k, v) :: r, t => if k = t then v else get r t

/-- `set[t] = b`. -/
def set : TMap → Tile → Bool → TMap
  | [], t, b => [(t, b)]
  | (k, v) :: r, t, b => if k = t then (k, b) :: r else (k, v) :: set r t b

def keys (m : TMap) : List Tile := m.map (·.1)
/-- `len(set)`. -/
def len (m : TMap) : Nat := m.length
/-- The keys whose value is `true`. -/
def trues (m : TMap) : List Tile := m.keys.filter m.get
def ofTiles (ts : List Tile) : TMap := ts.foldl (fun m t => m.set t true) []
end TMap

/-- The enumeration orders of the `range` statements: `first` for the loop that finds `max`,
    `level z` for the loop over `set` at zoom `z`.  Each receives the keys of the map. -/
structure Orders where
  first : List Tile → List Tile
  level : Nat → List Tile → List Tile

/-- An order that visits every key (every permutation does). -/
structure Orders.Fair (o : Orders) : Prop where
  first : ∀ l t, t ∈ l → t ∈ o.first l
  level : ∀ z l t, t ∈ l → t ∈ o.level z l

/-- `max := 1; for t, v := range set { if v { max = t.Z; break } }`. -/
def firstTrueZoom (m : TMap) : List Tile → Nat
  | [] => 1
  | t :: ts => if m.get t then t.z else firstTrueZoom m ts

structure MState where
  set : TMap
  merged : List Tile
  parents : TMap

/-- Body of the level loop for one visited key.  `count = none` is `MergeUp`
    (`s0 && s1 && s2 && s3`), `some c` is `MergeUpPartial` (`#true siblings >= c`). -/
def stepTile (count : Option Int) (toMerged : Bool) (st : MState) (t : Tile) : MState :=
  if !st.set.get t then st else
  let sibs := siblings t
  let vs := sibs.map st.set.get
  let full := match count with
    | none => vs.all id
    | some c => decide (((vs.filter id).length : Int) ≥ c)
  if full then
    let set' := sibs.foldl (fun m s => m.set s false) st.set
    let parent := parent t
    if toMerged then { st with set := set', merged := parent :: st.merged }
    else { st with set := set', parents := st.parents.set parent true }
  else
    (sibs.zip vs).foldl (fun st (sv : Tile × Bool) =>
      if sv.2 then { st with merged := sv.1 :: st.merged, set := st.set.set sv.1 false } else st) st

/-- `for z := max; z > min; z-- { … }` with `z = min + k` (`k` iterations left). -/
def mergeLoop (o : Orders) (count : Option Int) (min : Nat) : Nat → TMap → List Tile → List Tile
  | 0, _, merged => merged
  | k+1, set, merged =>
    let z := min + (k + 1)
    let st := (o.level z set.keys).foldl (stepTile count (z - 1 == min)) ⟨set, merged, []⟩
    let set' := st.parents
    let lim : Int := match count with | none => 4 | some c => c
    if (set'.len : Int) < lim then set'.keys ++ st.merged
    else mergeLoop o count min k set' st.merged

/-- `MergeUp` (`count = none`) / `MergeUpPartial` (`count = some c`).
    `if min == max { return set }` hands back the input map itself (false entries included). -/
def mergeUpGen (o : Orders) (count : Option Int) (set : TMap) (min : Nat) : TMap :=
  let max := firstTrueZoom set (o.first set.keys)
  if min == max then set
  else (mergeLoop o count min (max - min) set []).map fun t => (t, true)

def mergeUp (o : Orders) (set : TMap) (min : Nat) : TMap := mergeUpGen o none set min
def mergeUpPartial (o : Orders) (set : TMap) (min : Nat) (count : Int) : TMap := mergeUpGen o (some count) set min

/-! ### specification vocabulary for `MergeUp` -/

/-- Every descendant of `t` at zoom `zoom` is in the input set. -/
def Full (m : TMap) (zoom : Nat) (t : Tile) : Prop :=
  ∀ s, s.z = zoom → IsAncestor t s → m.get s = true

/-- The whole sibling quad of `t` is in the set. -/
def QuadIn (m : TMap) (t : Tile) : Prop := ∀ s ∈ siblings t, m.get s = true

/-- Two tiles at the four-neighbour distance (same zoom). -/
def Adj4 (a b : Tile) : Prop :=
  a.z = b.z ∧ ((a.x = b.x ∧ (a.y + 1 = b.y ∨ b.y + 1 = a.y)) ∨ (a.y = b.y ∧ (a.x + 1 = b.x ∨ b.x + 1 = a.x)))

end Orb.TileCover
