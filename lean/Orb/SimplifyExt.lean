/-
  Orb.SimplifyExt — additions to the model of package simplify (Orb/Simplify.lean is unchanged):

  * `visSimplifyP sent amax …`: Visvalingam with the area of the two end items (`math.Inf(1)`) and
    `math.Max` as parameters.  `visSimplifyP none aMax` is `visSimplify` wherever that does not panic (theorem
    `visSimplifyP_eq` in OrbProofs/C12Entry; never over an ordered field, `vis_twin_is_model`): there
    `none` is an infinity strictly above every area.  The float64 twin of
    the driver uses `sent = some (+Inf)` and an `amax` that propagates NaN like `math.Max`: in Go an
    interior triangle whose area OVERFLOWS float64 carries the very same `+Inf` as the end items (or a
    NaN from `Inf - Inf`), the heap cannot tell them apart (`+Inf <= +Inf`, not `+Inf < +Inf`), and an
    end item can be popped before the keep count is reached: its nil neighbour is dereferenced.  With
    these parameters the twin is float64 arithmetic throughout and reproduces that behaviour bit for bit
    (known finding C12-vis-area-overflow).
  * `simplifyO`: the generic `simplify(s, geom)` on values whose collections may hold NIL members
    (a nil interface, or a nil `orb.MultiPoint`, both of which come back as a nil interface:
    helpers.go:11 and :18 reached through `collection`, which drops every member whose result is nil).  On `.geom g` it is `simplifyG`.
  * `layerSimplify` / `layersSimplify`: `mvt.Layer.Simplify` / `mvt.Layers.Simplify`
    (encoding/mvt/simplify.go): every feature's geometry through the ONE simplifier value, features
    whose result is a nil interface dropped, the others compacted in order.
-/
import Orb.Simplify

namespace Orb.Simplify
open Orb

section visP
variable {α : Type} [Add α] [Sub α] [Mul α] [Neg α] [LT α] [LE α] [DecidableLT α] [DecidableLE α]
  [BEq α] [OfNat α 0] [OfNat α 2]

/-- `visInit` with the area of the two end items (`math.Inf(1)`) as a parameter -/
def visInitP (sent : Option α) (ls : List (Pt α)) : VS α :=
  let n := ls.length
  let st : VS α := ⟨Array.replicate n ⟨some 0, 0, none, none, 0⟩, #[]⟩
  let st := st.modify 0 fun it => { it with area := sent, pointIndex := 0 }
  let st := push st 0
  let st := (List.range' 1 (n - 2)).foldl (fun (st : VS α) i =>
    let st := st.modify i fun it =>
      { it with area := some (doubleTriangleArea ls (i - 1) i (i + 1)), pointIndex := i, prev := some (i - 1) }
    let st := push st i
    st.modify (i - 1) fun it => { it with next := some i }) st
  let st := st.modify (n - 1) fun it => { it with area := sent, pointIndex := n - 1, prev := some (n - 2) }
  let st := st.modify (n - 2) fun it => { it with next := some (n - 1) }
  push st (n - 1)

/-- `visLoop` with `math.Max` as a parameter, and with the guard of the repaired code: an end item that
    is popped (its `+Inf` tied with an overflowed area) is skipped instead of being unlinked.  Where
    `visLoop` does not panic the two coincide (`visLoopP_eq`), and over ordered fields `visLoop` never
    panics (`vis_total`). -/
def visLoopP (amax : Option α → Option α → Option α) (ls : List (Pt α)) (thr2 : Option α) (toKeep : Nat) :
    Nat → VS α → Nat → R (VS α)
  | 0, _, _ => .err ()
  | fuel + 1, st, removed =>
    if st.heap.size = 0 then .ok st else
    let (cur, st) := pop st
    let c := st.get cur
    if aLt thr2 c.area || decide (ls.length ≤ toKeep + removed) then .ok st else
    match c.prev, c.next with
    -- `if current.previous == nil || current.next == nil { continue }`: an end item is never removed
    | none, _ => visLoopP amax ls thr2 toKeep fuel st removed
    | some _, none => visLoopP amax ls thr2 toKeep fuel st removed
    | some prev, some next =>
      let st := st.modify prev fun it => { it with next := c.next }
      let st := st.modify next fun it => { it with prev := c.prev }
      let st :=
        match (st.get prev).prev with
        | some pp =>
          let a := doubleTriangleArea ls (st.get pp).pointIndex (st.get prev).pointIndex (st.get next).pointIndex
          update st prev (amax (some a) c.area)
        | none => st
      let st :=
        match (st.get next).next with
        | some nn =>
          let a := doubleTriangleArea ls (st.get prev).pointIndex (st.get next).pointIndex (st.get nn).pointIndex
          update st next (amax (some a) c.area)
        | none => st
      visLoopP amax ls thr2 toKeep fuel st (removed + 1)

def visKeptP (sent : Option α) (amax : Option α → Option α → Option α) (thr : Option α) (toKeep : Nat)
    (ls : List (Pt α)) : R (List Nat) :=
  let thr2 := thr.map (· * 2)
  match visLoopP amax ls thr2 toKeep (ls.length + 1) (visInitP sent ls) 0 with
  | .ok st => .ok (visWalk st (ls.length + 1) (some 0))
  | .err e => .err e
  | .panic s => .panic s

/-- `VisvalingamSimplifier.simplify(ls, area, false)` with the `+Inf` of the end items and `math.Max`
    as parameters; `visSimplifyP none aMax = visSimplify` -/
def visSimplifyP (sent : Option α) (amax : Option α → Option α → Option α) (thr : Option α) (toKeep : Nat)
    (ls : List (Pt α)) (area : Bool) : R (List (Pt α)) :=
  if ls.length ≤ 1 then .ok ls else
  let k := visToKeep toKeep ls area
  if ls.length ≤ k then .ok ls else
  match visKeptP sent amax thr k ls with
  | .ok idxs => .ok (compact ls idxs)
  | .err e => .err e
  | .panic s => .panic s

/-- the Visvalingam simplifier value, parametrised -/
def visSP (sent : Option α) (amax : Option α → Option α → Option α) (thr : Option α) (toKeep : Nat) : Simplifier α :=
  fun ls area => visSimplifyP sent amax thr toKeep ls area

end visP

section nilMembers
variable {α : Type}

/-- The generic `simplify(s, geom)` on a value whose collections may hold nil members (`.nil`: a nil
    interface or a nil `orb.MultiPoint`; both come back as a nil interface).  A collection is
    `.coll`; every other value is `.geom g` and goes through `simplifyG`. -/
def simplifyO (s : Simplifier α) : OGeom α → R (OGeom α)
  | .nil => .ok .nil
  | .geom g => simplifyG s g
  | .coll gs =>
    match go gs with
    | .ok l => if l.length = 0 then .ok .nil else .ok (.coll l)
    | .err e => .err e
    | .panic w => .panic w
where
  go : List (OGeom α) → R (List (OGeom α))
    | [] => .ok []
    | g :: rest =>
      match simplifyO s g with
      | .ok g' =>
        (match go rest with
         | .ok rest' => if g'.isNil then .ok rest' else .ok (g' :: rest')
         | .err e => .err e
         | .panic w => .panic w)
      | .err e => .err e
      | .panic w => .panic w

/-- the typed method `Collection` on such a value -/
def collectionO (s : Simplifier α) (gs : List (OGeom α)) : R (List (OGeom α)) := simplifyO.go s gs

/-- `mvt.Layer.Simplify(s)`: `g := s.Simplify(f.Geometry); if g == nil { continue }; f.Geometry = g;
    l.Features[count] = f; count++`.  `β` is everything else a feature carries. -/
def layerSimplify {β : Type} (s : Simplifier α) : List (β × OGeom α) → R (List (β × OGeom α))
  | [] => .ok []
  | (b, g) :: rest =>
    match simplifyO s g with
    | .ok g' =>
      (match layerSimplify s rest with
       | .ok rest' =>
         (match g' with
          | .nil => .ok rest'
          | g' => .ok ((b, g') :: rest'))
       | .err e => .err e
       | .panic w => .panic w)
    | .err e => .err e
    | .panic w => .panic w

/-- `mvt.Layers.Simplify(s)` -/
def layersSimplify {β : Type} (s : Simplifier α) : List (List (β × OGeom α)) → R (List (List (β × OGeom α)))
  | [] => .ok []
  | l :: rest =>
    match layerSimplify s l with
    | .ok l' =>
      (match layersSimplify s rest with
       | .ok rest' => .ok (l' :: rest')
       | .err e => .err e
       | .panic w => .panic w)
    | .err e => .err e
    | .panic w => .panic w

end nilMembers

end Orb.Simplify
