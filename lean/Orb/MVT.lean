/-
  Orb.MVT — model of encoding/mvt: geometry.go (command-stream encoder, key/value
  tables), marshal.go (Marshal, addFeature, encodeProperties, convertID),
  unmarshal.go (decoder.Layer / Feature / Geometry, geomDecoder, dataIsGZipped).

  Coordinates are `Int` (the value of `int32(float64)` before wrapping is taken to be
  the integer itself; the wrap to 32 bits is `i32`).  Command words are `BitVec 32`.
  The protobuf wire encoding is NOT modelled: `VTTile` mirrors vector_tile.proto and
  `proto.Marshal` / `protoscan` are taken to be mutually inverse on it (trusted,
  checked by correspondence: the harness decodes Go's bytes with the generated
  `vectortile` package and ships that structure).

  Every Go index is an explicit `panic` outcome; the decoder carries a
  counter `alloc` = sum of the capacities requested by the decoder's own `make` calls
  (in elements).  Core Lean only.
-/
import Orb.Basic
import Orb.Core

namespace Orb.MVT
open Orb

abbrev W := BitVec 32

/-! ### constants (geometry.go:12-16, vector_tile.proto) -/
def cMoveTo : Nat := 1
def cLineTo : Nat := 2
def cClosePath : Nat := 7
def tPoint : Int := 1
def tLineString : Int := 2
def tPolygon : Int := 3
def defaultVersion : Nat := 1
def defaultExtent : Nat := 4096

inductive Err where
  | collection      -- "geometry collections are not supported"
  | noMoreData      -- "no more data"
  | cutShort        -- "data cut short: needed %d, have %d"
  | notMoveTo       -- "first command not one moveTo"
  | notLineTo       -- "second command not a lineTo"
  | short           -- "geom is not long enough: %v"
  | unknownType     -- "unknown geometry type: %v"
  | ueof            -- io.ErrUnexpectedEOF from the packed-field iterator
  | valEnc          -- "unable to encode value of type %T"
  | uncomparable    -- "uncomparable: %T" (json.Marshal of an uncomparable value failed)
  | gzipped         -- ErrDataIsGZipped
  | wire            -- any error of the (unmodelled) wire scanner
deriving DecidableEq, Repr, Inhabited

abbrev R := Res Err

/-! ### zigzag (geometry.go:121-138, 298-300) -/

/-- `uint32((x << 1) ^ (x >> 31))` on an `int32` x (arithmetic right shift). -/
def zigzag (x : BitVec 32) : BitVec 32 := (x <<< 1) ^^^ (x.sshiftRight 31)

/-- `int32(((v >> 1) & ((1 << 32) - 1)) ^ -(v & 1))` on a `uint32` v. -/
def unzigzag (v : BitVec 32) : BitVec 32 := ((v >>> 1) &&& 0xFFFFFFFF#32) ^^^ (-(v &&& 1#32))

/-- `unzigzag` as the `float64(int32(…))` it returns (an integer value). -/
def unzigzagI (v : BitVec 32) : Int := (unzigzag v).toInt

/-- `int32(f)` of an integer-valued float (wraps to 32 bits; out-of-range floats are outside the model). -/
def i32 (v : Int) : BitVec 32 := BitVec.ofInt 32 v

/-! ### geomEncoder (geometry.go:99-141) -/

structure Cur where
  x : BitVec 32
  y : BitVec 32
deriving DecidableEq, Repr, Inhabited

/-- `(l<<3)|id` with `l := uint32(len(points))`. -/
def cmdWord (id n : Nat) : W := (BitVec.ofNat 32 n <<< 3) ||| BitVec.ofNat 32 id

/-- `addPoints`: zigzag deltas against the cursor, which moves to each point. -/
def addPoints (c : Cur) : List (Pt Int) → Cur × List W
  | [] => (c, [])
  | p :: ps =>
    let x := i32 p.x - c.x
    let y := i32 p.y - c.y
    let r := addPoints ⟨i32 p.x, i32 p.y⟩ ps
    (r.1, zigzag x :: zigzag y :: r.2)

def moveTo (c : Cur) (ps : List (Pt Int)) : Cur × List W :=
  let r := addPoints c ps
  (r.1, cmdWord cMoveTo ps.length :: r.2)

def lineTo (c : Cur) (ps : List (Pt Int)) : Cur × List W :=
  let r := addPoints c ps
  (r.1, cmdWord cLineTo ps.length :: r.2)

/-- `ClosePath`: `(1<<3)|closePath`. -/
def closePathW : W := cmdWord cClosePath 1

/-- `Ring.Closed()`: `len(r) >= 4 && r[0] == r[len(r)-1]`. -/
def closed (r : List (Pt Int)) : Bool :=
  decide (r.length ≥ 4) && (r.head? == r.getLast?)

/-- One ring when `Ring.Closed()` answers `cl`.  Go decides `Closed()` on the float64 points and
    builds the command stream from their `int32` truncations `r`; on integer-valued coordinates
    `cl = closed r` and this is `encRing` (`encRing_eq_encRingG`). -/
def encRingG (cl : Bool) (c : Cur) (r : List (Pt Int)) : R (Cur × List W) :=
  match r with
  | [] => .ok (c, [])
  | p :: rest =>
    let m := moveTo c [p]
    let body := if cl then rest.dropLast else rest
    let n := lineTo m.1 body
    .ok (n.1, m.2 ++ n.2 ++ [closePathW])

/-- A ring with fractional coordinates that is open as float64 points but whose truncations close
    (e.g. (0.5,0),(4,0),(4,4),(0,0)) is written with ALL its vertices after the first in the LineTo:
    exactly like the truncated ring with its first vertex appended once more
    (`encRingG_false_eq_reopen`).  The driver feeds such rings to the integer model in this form. -/
def reopen (r : List (Pt Int)) : List (Pt Int) :=
  match r with
  | [] => []
  | p :: _ => r ++ [p]

/-- One line of a (multi)linestring: `MoveTo(ls[0]); LineTo(ls[1:])`; a line without vertices is
    skipped (since fix 8e178c2; `ls[0]` used to panic). -/
def encLine (c : Cur) (l : List (Pt Int)) : R (Cur × List W) :=
  match l with
  | [] => .ok (c, [])
  | p :: rest =>
    let m := moveTo c [p]
    let n := lineTo m.1 rest
    .ok (n.1, m.2 ++ n.2)

def encLines (c : Cur) : List (List (Pt Int)) → R (Cur × List W)
  | [] => .ok (c, [])
  | l :: ls =>
    match encLine c l with
    | .ok (c1, w1) =>
      match encLines c1 ls with
      | .ok (c2, w2) => .ok (c2, w1 ++ w2)
      | .err e => .err e
      | .panic s => .panic s
    | .err e => .err e
    | .panic s => .panic s

/-- One ring: `MoveTo(r[0])`, `LineTo` of the rest (without the repeated last vertex if
    `Closed()`), `ClosePath`. -/
def encRing (c : Cur) (r : List (Pt Int)) : R (Cur × List W) :=
  match r with
  | [] => .ok (c, [])   -- a ring without vertices is skipped (since fix 8e178c2; `r[0]` used to panic)
  | p :: rest =>
    let m := moveTo c [p]
    let body := if closed r then rest.dropLast else rest
    let n := lineTo m.1 body
    .ok (n.1, m.2 ++ n.2 ++ [closePathW])

def encRings (c : Cur) : List (List (Pt Int)) → R (Cur × List W)
  | [] => .ok (c, [])
  | r :: rs =>
    match encRing c r with
    | .ok (c1, w1) =>
      match encRings c1 rs with
      | .ok (c2, w2) => .ok (c2, w1 ++ w2)
      | .err e => .err e
      | .panic s => .panic s
    | .err e => .err e
    | .panic s => .panic s

def encPolys (c : Cur) : List (List (List (Pt Int))) → R (Cur × List W)
  | [] => .ok (c, [])
  | p :: ps =>
    match encRings c p with
    | .ok (c1, w1) =>
      match encPolys c1 ps with
      | .ok (c2, w2) => .ok (c2, w1 ++ w2)
      | .err e => .err e
      | .panic s => .panic s
    | .err e => .err e
    | .panic s => .panic s

/-- `Bound.ToRing`. -/
def boundRing (a b : Pt Int) : List (Pt Int) := [a, ⟨b.x, a.y⟩, b, ⟨a.x, b.y⟩, a]

def cur0 : Cur := ⟨0, 0⟩

/-- `encodeGeometry` (geometry.go:19-97): geometry type and command words. -/
def encodeGeometry : Geom Int → R (Int × List W)
  | .point p => .ok (tPoint, (moveTo cur0 [p]).2)
  | .multiPoint ps => .ok (tPoint, (moveTo cur0 ps).2)
  | .lineString l => (encLine cur0 l).map fun r => (tLineString, r.2)
  | .multiLineString ls => (encLines cur0 ls).map fun r => (tLineString, r.2)
  | .ring r => (encRing cur0 r).map fun r => (tPolygon, r.2)
  | .polygon rs => (encRings cur0 rs).map fun r => (tPolygon, r.2)
  | .multiPolygon ps => (encPolys cur0 ps).map fun r => (tPolygon, r.2)
  | .collection _ => .err .collection
  | .bound a b => (encRings cur0 [boundRing a b]).map fun r => (tPolygon, r.2)

/-! ### geomDecoder (unmarshal.go:253-407) -/

/-- `geomDecoder` plus the allocation counter.  `ws` is what the packed-field iterator has
    not read yet; `count` is `iter.Count()` (all words of the field, read or not). -/
structure GD where
  ws : List W
  count : Nat
  used : Nat
  prev : Pt Int
  alloc : Nat
deriving Repr, Inhabited

abbrev DM (α : Type) := R α × GD

@[inline] def bindD {α β : Type} (m : DM α) (f : α → GD → DM β) : DM β :=
  match m with
  | (.ok a, s) => f a s
  | (.err e, s) => (.err e, s)
  | (.panic w, s) => (.panic w, s)

/-- `done()`: `!iter.HasNext()`. -/
def GD.done (s : GD) : Bool := s.ws.isEmpty

/-- `cmdAndCount`: the "data cut short" guard is skipped for ClosePath (id 7). -/
def cmdAndCount (s : GD) : DM (Nat × Nat) :=
  match s.ws with
  | [] => (.err .noMoreData, s)
  | v :: rest =>
    let s1 : GD := { s with ws := rest, used := s.used + 1 }
    let cmd := (v &&& 7#32).toNat
    let count := v >>> 3
    if cmd ≠ cClosePath ∧ s1.count < s1.used + (2#32 * count).toNat then (.err .cutShort, s1)
    else (.ok (cmd, count.toNat), s1)

/-- `NextPoint`: two zigzag deltas added to the running position (`iter.Uint32()` fails with
    `io.ErrUnexpectedEOF` when the field is exhausted). -/
def nextPoint (s : GD) : DM (Pt Int) :=
  let s : GD := { s with used := s.used + 2 }
  match s.ws with
  | [] => (.err .ueof, s)
  | vx :: r1 =>
    let s : GD := { s with ws := r1, prev := ⟨s.prev.x + unzigzagI vx, s.prev.y⟩ }
    match r1 with
    | [] => (.err .ueof, s)
    | vy :: r2 =>
      let s : GD := { s with ws := r2, prev := ⟨s.prev.x, s.prev.y + unzigzagI vy⟩ }
      (.ok s.prev, s)

/-- `for i := uint32(0); i < count; i++ { p, err := gd.NextPoint(); … append }`. -/
def nextPoints : Nat → GD → DM (List (Pt Int))
  | 0, s => (.ok [], s)
  | n+1, s =>
    bindD (nextPoint s) fun p s1 =>
    bindD (nextPoints n s1) fun ps s2 => (.ok (p :: ps), s2)

/-- `decodePoint`: the first command must be a MoveTo (so its count has passed the "data cut
    short" guard); `make(orb.MultiPoint, 0, count)`. -/
def decodePoint (s : GD) : DM (Geom Int) :=
  bindD (cmdAndCount s) fun cc s =>
  if cc.1 ≠ cMoveTo then (.err .notMoveTo, s) else
  if cc.2 = 1 then bindD (nextPoint s) fun p s => (.ok (.point p), s)
  else
    let s : GD := { s with alloc := s.alloc + cc.2 }
    bindD (nextPoints cc.2 s) fun ps s => (.ok (.multiPoint ps), s)

/-- `decodeLine`: MoveTo(1), LineTo(count); `make(orb.LineString, 0, count+1)`
    (`count < 2^29`, so `count+1` does not wrap in uint32). -/
def decodeLine (s : GD) : DM (List (Pt Int)) :=
  bindD (cmdAndCount s) fun cc s =>
  if cc.1 ≠ cMoveTo ∨ cc.2 ≠ 1 then (.err .notMoveTo, s) else
  bindD (nextPoint s) fun first s =>
  bindD (cmdAndCount s) fun cc s =>
  if cc.1 ≠ cLineTo then (.err .notLineTo, s) else
  let s : GD := { s with alloc := s.alloc + (cc.2 + 1) }
  bindD (nextPoints cc.2 s) fun ps s => (.ok (first :: ps), s)

/-- `decodeLineString`: `for !gd.done()`; fuel = number of unread words (every iteration reads
    at least one); running out of fuel with data left is modelled as a panic, so that totality
    includes termination. -/
def lsLoop : Nat → List (List (Pt Int)) → GD → DM (Geom Int)
  | 0, mls, s => if s.done then (.ok (.multiLineString mls), s) else (.panic "fuel", s)
  | f+1, mls, s =>
    if s.done then (.ok (.multiLineString mls), s) else
    bindD (decodeLine s) fun ls s =>
    if s.done && mls.isEmpty then (.ok (.lineString ls), s)
    else lsLoop f (mls ++ [ls]) s

def decodeLineString (s : GD) : DM (Geom Int) := lsLoop s.ws.length [] s

/-- `decodePolygon`: re-closes a ring after ClosePath unless `Closed()` already, then groups:
    the first ring starts the first polygon, a later ring starts a new polygon iff its
    `Orientation()` is CCW.  `ori` is `Ring.Orientation` (exact on `Int` in the theorems,
    the Float twin in the driver). -/
def pgLoop (ori : List (Pt Int) → Int) :
    Nat → List (List (List (Pt Int))) → List (List (Pt Int)) → GD → DM (Geom Int)
  | 0, mp, p, s =>
    if s.done then (if mp.isEmpty then (.ok (.polygon p), s) else (.ok (.multiPolygon (mp ++ [p])), s))
    else (.panic "fuel", s)
  | f+1, mp, p, s =>
    if s.done then (if mp.isEmpty then (.ok (.polygon p), s) else (.ok (.multiPolygon (mp ++ [p])), s))
    else
    bindD (decodeLine s) fun ls s =>
    bindD (cmdAndCount s) fun cc s =>
    match ls with
    | [] => (.panic "index out of range [0] with length 0", s)   -- r[0]; unreachable, see `decodeLine_ne_nil`
    | h :: _ =>
      let r := if cc.1 = cClosePath ∧ closed ls = false then ls ++ [h] else ls
      if mp.isEmpty && p.isEmpty then pgLoop ori f mp (p ++ [r]) s
      else if ori r = 1 then pgLoop ori f (mp ++ [p]) [r] s
      else pgLoop ori f mp (p ++ [r]) s

def decodePolygon (ori : List (Pt Int) → Int) (s : GD) : DM (Geom Int) :=
  pgLoop ori s.ws.length [] [] s

/-- `decoder.Geometry` on the geometry field `ws` of a feature of type `gt`, the allocation
    counter starting at `alloc` (`gd.count` is `iter.Count()`, the number of words). -/
def decodeGeometryIter (ori : List (Pt Int) → Int) (gt : Int) (ws : List W) (alloc : Nat) : DM (Geom Int) :=
  let s : GD := { ws := ws, count := ws.length, used := 0, prev := ⟨0, 0⟩, alloc := alloc }
  if ws.length < 2 then (.err .short, s)
  else if gt = tPoint then decodePoint s
  else if gt = tLineString then decodeLineString s
  else if gt = tPolygon then decodePolygon ori s
  else (.err .unknownType, s)

/-- `Ring.Orientation` on exact integers. -/
def oriInt (r : List (Pt Int)) : Int := Core.orientation r

/-- Decoding the geometry field `ws` of a feature of type `gt`. -/
def decodeGeometry (gt : Int) (ws : List W) : R (Geom Int) :=
  (decodeGeometryIter oriInt gt ws 0).1

/-- Capacity requested by the geometry decoder's `make` calls on the field `ws`. -/
def geometryAlloc (gt : Int) (ws : List W) : Nat :=
  (decodeGeometryIter oriInt gt ws 0).2.alloc

/-! ### property values, key/value tables (geometry.go:143-262) -/

inductive SKind where
  | int | int8 | int16 | int32 | int64
deriving DecidableEq, Repr, Inhabited

inductive UKind where
  | uint | uint8 | uint16 | uint32 | uint64
deriving DecidableEq, Repr, Inhabited

/-- A property value by Go dynamic type.  `json t` is an uncomparable value (slice, map)
    whose `json.Marshal` text is `t` (`encoding/json` is trusted: the harness supplies the text);
    `jsonFail` an uncomparable value that `json.Marshal` rejects; `unsupported` a comparable
    value of a type `encodeValue` has no case for; `stringer tag s` a comparable value of the
    `fmt.Stringer` type number `tag` whose `String()` is `s` (the types used have an injective
    `String()`, so two such values are `==` iff tag and text agree). -/
inductive PVal where
  | str (s : String)
  | bool (b : Bool)
  | sint (k : SKind) (v : Int)
  | uint (k : UKind) (v : Nat)
  | f32 (bits : UInt32)
  | f64 (bits : UInt64)
  | nil
  | json (text : String)
  | jsonFail
  | unsupported (tag : Nat)
  | stringer (tag : Nat) (s : String)
deriving DecidableEq, Repr, Inhabited

/-- `vectortile.Tile_Value` (first field present, in field-number order; `empty` = none). -/
inductive TVal where
  | str (s : String)
  | float (bits : UInt32)
  | double (bits : UInt64)
  | int (v : Int)
  | uint (v : Nat)
  | sint (v : Int)
  | bool (b : Bool)
  | empty
deriving DecidableEq, Repr, Inhabited

/-- A decoded property value: string, float64 (bit pattern), bool or nil. -/
inductive DVal where
  | str (s : String)
  | num (bits : UInt64)
  | bool (b : Bool)
  | nil
deriving DecidableEq, Repr, Inhabited

/-! IEEE `==` on bit patterns (map-key equality of float values). -/
def f64IsNaN (b : UInt64) : Bool := (b &&& 0x7ff0000000000000 == 0x7ff0000000000000) && (b &&& 0x000fffffffffffff != 0)
def f64IsZero (b : UInt64) : Bool := b &&& 0x7fffffffffffffff == 0
def f64Eq (a b : UInt64) : Bool := !f64IsNaN a && !f64IsNaN b && (a == b || (f64IsZero a && f64IsZero b))
def f32IsNaN (b : UInt32) : Bool := (b &&& 0x7f800000 == 0x7f800000) && (b &&& 0x007fffff != 0)
def f32IsZero (b : UInt32) : Bool := b &&& 0x7fffffff == 0
def f32Eq (a b : UInt32) : Bool := !f32IsNaN a && !f32IsNaN b && (a == b || (f32IsZero a && f32IsZero b))

/-- Go `==` on two `interface{}` map keys: same dynamic type and equal values. -/
def keyEq : PVal → PVal → Bool
  | .str a, .str b => a == b
  | .bool a, .bool b => a == b
  | .sint k a, .sint l b => k == l && a == b
  | .uint k a, .uint l b => k == l && a == b
  | .f32 a, .f32 b => f32Eq a b
  | .f64 a, .f64 b => f64Eq a b
  | .unsupported a, .unsupported b => a == b
  | .stringer a s, .stringer b t => a == b && s == t
  | _, _ => false

/-- `keyValueEncoder`: `keyMap` / `valueMap` are the inverse indexes of `Keys` / `Values`
    and are modelled as a search; `vals` keeps the map key next to its `Tile_Value`. -/
structure KVE where
  keys : List String
  vals : List (PVal × TVal)
deriving Repr, Inhabited

def KVE.empty : KVE := ⟨[], []⟩

/-- `kve.Key(s)`. -/
def KVE.key (e : KVE) (s : String) : Nat × KVE :=
  match e.keys.findIdx? (· == s) with
  | some i => (i, e)
  | none => (e.keys.length, { e with keys := e.keys ++ [s] })

/-- `encodeValue` (on a value that already went through the nil / uncomparable step). -/
def encodeValue : PVal → R TVal
  | .str s => .ok (.str s)
  | .sint _ v => .ok (.sint v)
  | .uint _ v => .ok (.uint v)
  | .f32 b => .ok (.float b)
  | .f64 b => .ok (.double b)
  | .bool b => .ok (.bool b)
  | .stringer _ s => .ok (.str s)   -- `case fmt.Stringer` (second case of the switch)
  | _ => .err .valEnc

/-- First step of `kve.Value`: nil and uncomparable values become their JSON text. -/
def jsonStep : PVal → R PVal
  | .nil => .ok (.str "null")
  | .json t => .ok (.str t)
  | .jsonFail => .err .uncomparable
  | v => .ok v

/-- `kve.Value(v)`. -/
def KVE.value (e : KVE) (v : PVal) : R (Nat × KVE) :=
  match jsonStep v with
  | .ok v' =>
    match e.vals.findIdx? (fun p => keyEq v' p.1) with
    | some i => .ok (i, e)
    | none =>
      match encodeValue v' with
      | .ok tv => .ok (e.vals.length, { e with vals := e.vals ++ [(v', tv)] })
      | .err x => .err x
      | .panic s => .panic s
  | .err x => .err x
  | .panic s => .panic s

/-- `sort.Strings` as insertion sort by `<` on strings (byte order = code point order). -/
def insertStr (s : String) : List String → List String
  | [] => [s]
  | t :: ts => if s < t then s :: t :: ts else t :: insertStr s ts

def sortStrings (l : List String) : List String := l.foldr insertStr []

/-- `properties[k]` on the association list standing for the Go map (`nil` if absent). -/
def lookupP (ps : List (String × PVal)) (k : String) : PVal :=
  match ps.find? (·.1 == k) with
  | some p => p.2
  | none => .nil

def encodeTags (ps : List (String × PVal)) : KVE → List String → R (List W × KVE)
  | e, [] => .ok ([], e)
  | e, k :: ks =>
    let kk := e.key k
    match kk.2.value (lookupP ps k) with
    | .ok (vi, e2) =>
      match encodeTags ps e2 ks with
      | .ok (ts, e3) => .ok (BitVec.ofNat 32 kk.1 :: BitVec.ofNat 32 vi :: ts, e3)
      | .err x => .err x
      | .panic s => .panic s
    | .err x => .err x
    | .panic s => .panic s

/-- `encodeProperties`: `ps` lists the map in SOME iteration order; the keys are sorted first. -/
def encodeProperties (e : KVE) (ps : List (String × PVal)) : R (List W × KVE) :=
  encodeTags ps e (sortStrings (ps.map (·.1)))

/-! ### feature ids (marshal.go:133-186) -/

/-- A feature id by Go dynamic type: nil, a signed kind (`int(id)` keeps the value), an
    unsigned kind, a float (float32 is first widened exactly; bit pattern), a string, anything else. -/
inductive IdVal where
  | none
  | int (v : Int)
  | uint (v : Nat)
  | flt (bits : UInt64)
  | str (s : String)
  | other
deriving DecidableEq, Repr, Inhabited

def convertIntID (i : Int) : Option Nat := if i < 0 then none else some i.toNat

/-- `int(f)`: truncation toward zero; NaN, ±Inf and values outside int64 give the amd64
    result `-2^63` (implementation-specific in the Go spec). -/
def truncF (b : UInt64) : Int :=
  match bitsToRat? b with
  | none => -(2^63 : Int)
  | some r =>
    let t := r.num.tdiv r.den
    if t < -(2^63 : Int) ∨ t ≥ (2^63 : Int) then -(2^63 : Int) else t

/-- `strconv.Atoi`: optional sign, one or more ASCII digits, value within int64. -/
def atoi? (s : String) : Option Int :=
  let cs := s.toList
  let (neg, ds) := match cs with
    | '-' :: r => (true, r)
    | '+' :: r => (false, r)
    | r => (false, r)
  if ds.isEmpty ∨ !(ds.all fun c => '0' ≤ c ∧ c ≤ '9') then none else
  let n : Nat := ds.foldl (fun a c => a * 10 + (c.toNat - '0'.toNat)) 0
  let v : Int := if neg then -(n : Int) else n
  if v < -(2^63 : Int) ∨ v ≥ (2^63 : Int) then none else some v

def convertID : IdVal → Option Nat
  | .none => none
  | .int v => convertIntID v
  | .uint v => some v
  | .flt b => convertIntID (truncF b)
  | .str s => match atoi? s with | some i => convertIntID i | none => none
  | .other => none

/-! ### layers, the tile structure, Marshal (marshal.go:44-107) -/

structure Feature where
  id : IdVal
  geom : GVal Int
  props : List (String × PVal)
deriving Repr, Inhabited

structure Layer where
  name : String
  version : Nat
  extent : Nat
  features : List Feature
deriving Repr, Inhabited

/-- `Tile_Feature`; `geometry = []` is the absent field (proto omits an empty packed field). -/
structure VTFeature where
  id : Option Nat
  tags : List W
  gtype : Int
  geometry : List W
deriving DecidableEq, Repr, Inhabited

structure VTLayer where
  name : String
  version : Nat
  extent : Nat
  keys : List String
  values : List TVal
  features : List VTFeature
deriving DecidableEq, Repr, Inhabited

abbrev VTTile := List VTLayer

/-- Value of a typed nil slice / of a value: what the type switch of `encodeGeometry` sees. -/
def gvalGeom : GVal Int → Option (Geom Int)
  | .nilIface => none
  | .nilSlice .multiPoint => some (.multiPoint [])
  | .nilSlice .lineString => some (.lineString [])
  | .nilSlice .multiLineString => some (.multiLineString [])
  | .nilSlice .ring => some (.ring [])
  | .nilSlice .polygon => some (.polygon [])
  | .nilSlice .multiPolygon => some (.multiPolygon [])
  | .nilSlice .collection => some (.collection [])
  | .nilSlice _ => none
  | .val g => some g

/-- `addSingleGeometryFeature`. -/
def addSingle (fs : List VTFeature) (e : KVE) (g : Geom Int) (props : List (String × PVal)) (id : IdVal) :
    R (List VTFeature × KVE) :=
  match encodeGeometry g with
  | .ok (gt, ws) =>
    match encodeProperties e props with
    | .ok (tags, e2) => .ok (fs ++ [{ id := convertID id, tags := tags, gtype := gt, geometry := ws }], e2)
    | .err x => .err x
    | .panic s => .panic s
  | .err x => .err x
  | .panic s => .panic s

/-- `addFeature`: nil geometry skipped; for a collection the loop body `return`s, so only the
    FIRST member is added (and an empty collection falls through to the unsupported-type error). -/
def addFeature (fs : List VTFeature) (e : KVE) (f : Feature) : R (List VTFeature × KVE) :=
  match gvalGeom f.geom with
  | none => .ok (fs, e)
  | some (.collection (g :: _)) => addSingle fs e g f.props f.id
  | some g => addSingle fs e g f.props f.id

def addFeatures : List VTFeature → KVE → List Feature → R (List VTFeature × KVE)
  | fs, e, [] => .ok (fs, e)
  | fs, e, f :: rest =>
    match addFeature fs e f with
    | .ok (fs2, e2) => addFeatures fs2 e2 rest
    | .err x => .err x
    | .panic s => .panic s

def marshalLayer (l : Layer) : R VTLayer :=
  match addFeatures [] KVE.empty l.features with
  | .ok (fs, e) =>
    .ok { name := l.name, version := l.version, extent := l.extent, keys := e.keys,
          values := e.vals.map (·.2), features := fs }
  | .err x => .err x
  | .panic s => .panic s

/-- `Marshal` up to `proto.Marshal`. -/
def marshalVT : List Layer → R VTTile
  | [] => .ok []
  | l :: ls =>
    match marshalLayer l with
    | .ok v =>
      match marshalVT ls with
      | .ok vs => .ok (v :: vs)
      | .err x => .err x
      | .panic s => .panic s
    | .err x => .err x
    | .panic s => .panic s

/-! ### Unmarshal (unmarshal.go:36-250, 409-446) -/

/-- `float64(float32)` on bit patterns.  A NaN keeps its sign and its payload (moved to the top
    of the wider fraction) and comes back quiet: that is what the conversion instruction of
    amd64 (CVTSS2SD) and arm64 (FCVT) does, and what Go therefore returns.  Lean's
    `Float32.toFloat` is the same conversion but its `toBits` canonicalises every NaN to
    `7ff8000000000000`, so NaNs are widened here on the bit pattern. -/
def f32to64 (b : UInt32) : UInt64 :=
  if f32IsNaN b then
    ((b &&& 0x80000000).toUInt64 <<< (32 : UInt64)) ||| (0x7ff8000000000000 : UInt64) |||
      ((b &&& 0x007fffff).toUInt64 <<< (29 : UInt64))
  else (Float32.ofBits b).toFloat.toBits
/-- `float64(int64)` / `float64(uint64)` on the integer value. -/
def i2f (v : Int) : UInt64 := (Float.ofInt v).toBits

/-- `decodeValueMsg`. -/
def decodeTVal : TVal → DVal
  | .str s => .str s
  | .float b => .num (f32to64 b)
  | .double b => .num b
  | .int v => .num (i2f v)
  | .uint v => .num (i2f v)
  | .sint v => .num (i2f v)
  | .bool b => .bool b
  | .empty => .nil

structure DFeature where
  id : Option Nat
  geom : Geom Int
  props : List (String × DVal)
deriving Repr, Inhabited

structure DLayer where
  name : String
  version : Nat
  extent : Nat
  features : List DFeature
deriving Repr, Inhabited

/-- `m[k] = v` on an association list (replace in place, else append). -/
def mapSet (m : List (String × DVal)) (k : String) (v : DVal) : List (String × DVal) :=
  match m with
  | [] => [(k, v)]
  | (k', v') :: rest => if k' == k then (k, v) :: rest else (k', v') :: mapSet rest k v

/-- The tag loop of `decoder.Feature`: pairs of indexes; an odd tail is `io.ErrUnexpectedEOF`;
    out-of-range indexes are skipped. -/
def decodeTags (keys : List String) (vals : List DVal) : List W → List (String × DVal) → R (List (String × DVal))
  | [], m => .ok m
  | [_], _ => .err .ueof
  | k :: v :: rest, m =>
    match keys[k.toNat]?, vals[v.toNat]? with
    | some ks, some vv => decodeTags keys vals rest (mapSet m ks vv)
    | _, _ => decodeTags keys vals rest m

/-- `decoder.Feature` + `decoder.Geometry`; `a` is the allocation counter.  A feature without
    geometry field (`hasGeom == false`) is the error "geom is not long enough: 0".
    (`make(geojson.Properties, count/2)` is a map size hint bounded by the field length; the
    runtime allocates buckets lazily, so it is not part of the capacity counter.) -/
def decodeFeature (ori : List (Pt Int) → Int) (keys : List String) (vals : List DVal) (a : Nat) (f : VTFeature) :
    R DFeature × Nat :=
  match decodeTags keys vals f.tags [] with
  | .err x => (.err x, a)
  | .panic s => (.panic s, a)
  | .ok props =>
    if f.geometry.isEmpty then (.err .short, a) else
    match decodeGeometryIter ori f.gtype f.geometry a with
    | (.ok g, s) => (.ok { id := f.id, geom := g, props := props }, s.alloc)
    | (.err x, s) => (.err x, s.alloc)
    | (.panic w, s) => (.panic w, s.alloc)

def decodeFeatures (ori : List (Pt Int) → Int) (keys : List String) (vals : List DVal) :
    Nat → List VTFeature → R (List DFeature) × Nat
  | a, [] => (.ok [], a)
  | a, f :: fs =>
    match decodeFeature ori keys vals a f with
    | (.ok x, a1) =>
      match decodeFeatures ori keys vals a1 fs with
      | (.ok xs, a2) => (.ok (x :: xs), a2)
      | (.err e, a2) => (.err e, a2)
      | (.panic w, a2) => (.panic w, a2)
    | (.err e, a1) => (.err e, a1)
    | (.panic w, a1) => (.panic w, a1)

/-- `decoder.Layer`: `make([]*geojson.Feature, len(d.features))`, then every feature. -/
def decodeLayer (ori : List (Pt Int) → Int) (a : Nat) (l : VTLayer) : R DLayer × Nat :=
  match decodeFeatures ori l.keys (l.values.map decodeTVal) (a + l.features.length) l.features with
  | (.ok fs, a2) => (.ok { name := l.name, version := l.version, extent := l.extent, features := fs }, a2)
  | (.err e, a2) => (.err e, a2)
  | (.panic w, a2) => (.panic w, a2)

def decodeLayers (ori : List (Pt Int) → Int) : Nat → List VTLayer → R (List DLayer) × Nat
  | a, [] => (.ok [], a)
  | a, l :: ls =>
    match decodeLayer ori a l with
    | (.ok x, a1) =>
      match decodeLayers ori a1 ls with
      | (.ok xs, a2) => (.ok (x :: xs), a2)
      | (.err e, a2) => (.err e, a2)
      | (.panic w, a2) => (.panic w, a2)
    | (.err e, a1) => (.err e, a1)
    | (.panic w, a1) => (.panic w, a1)

/-- `unmarshalTile` on the tile structure: the layers and the allocation counter. -/
def unmarshalVTWith (ori : List (Pt Int) → Int) (t : VTTile) : R (List DLayer) × Nat :=
  decodeLayers ori 0 t

def unmarshalVT (t : VTTile) : R (List DLayer) := (unmarshalVTWith oriInt t).1
def unmarshalAlloc (t : VTTile) : Nat := (unmarshalVTWith oriInt t).2

/-- Number of command words, tags and features of a tile: the part of the input length the
    allocation bound is stated against. -/
def vtSize (t : VTTile) : Nat :=
  (t.map fun l => l.features.length + (l.features.map fun f => f.tags.length + f.geometry.length).sum).sum

/-- `dataIsGZipped`: `len(data) >= 2 && data[0] == 0x1F && data[1] == 0x8B`. -/
def dataIsGZipped (data : List UInt8) : Bool :=
  match data with
  | b0 :: b1 :: _ => b0 == 0x1F && b1 == 0x8B
  | _ => false

/-- `Unmarshal`, given the outcome `r` of `unmarshalTile(data)`. -/
def unmarshalTop {α : Type} (data : List UInt8) (r : R α) : R α :=
  match r with
  | .err e => if dataIsGZipped data then .err .gzipped else .err e
  | r => r

/-! ### specification side: well-formedness and the expected round-trip value -/

def coordOK (v : Int) : Bool := decide (-(2^28 : Int) < v ∧ v < (2^28 : Int))
def ptOK (p : Pt Int) : Bool := coordOK p.x && coordOK p.y

/-- A ring of the quantifier: closed, non-zero shoelace area, not too long. -/
def ringOK (r : List (Pt Int)) : Bool :=
  closed r && oriInt r != 0 && r.all ptOK && decide (r.length < 2^29)

/-- The re-closing test of `decodePolygon` can tell the ring from its encoding: the vertex
    before the closing one differs from the first (otherwise `[a,b,c,a,a]` comes back as `[a,b,c,a]`). -/
def ringNoDupClose (r : List (Pt Int)) : Bool := !closed r.dropLast

def polyOK (p : List (List (Pt Int))) : Bool :=
  match p with
  | [] => false
  | o :: hs => ringOK o && oriInt o == 1 && hs.all fun h => ringOK h && oriInt h == -1

def lineOK (l : List (Pt Int)) : Bool := !l.isEmpty && l.all ptOK && decide (l.length < 2^29)

/-- Geometries of the quantifier (collections: members of the quantifier, not nested). -/
def geomWF : Geom Int → Bool
  | .point p => ptOK p
  | .multiPoint ps => !ps.isEmpty && ps.all ptOK && decide (ps.length < 2^29)
  | .lineString l => lineOK l
  | .multiLineString ls => !ls.isEmpty && ls.all lineOK
  | .ring r => ringOK r
  | .polygon p => polyOK p
  | .multiPolygon ps => !ps.isEmpty && ps.all polyOK
  | .bound a b => ptOK a && ptOK b && decide (a.x < b.x) && decide (a.y < b.y)
  | .collection _ => false

def geomNoDupClose : Geom Int → Bool
  | .ring r => ringNoDupClose r
  | .polygon p => p.all ringNoDupClose
  | .multiPolygon ps => ps.all fun p => p.all ringNoDupClose
  | _ => true

def gvalWF : GVal Int → Bool
  | .nilIface => true
  | .nilSlice _ => false
  | .val (.collection gs) => gs.all geomWF
  | .val g => geomWF g

def idWF : IdVal → Bool
  | .none => true
  | .int v => decide (0 ≤ v ∧ v < (2^53 : Int))
  | .uint v => decide (v < 2^53)
  | _ => false

def pvalWF : PVal → Bool
  | .jsonFail => false
  | .unsupported _ => false
  | .stringer _ _ => false   -- not in the value universe of the quantifier
  | .sint _ v => decide (-(2^63 : Int) ≤ v ∧ v < (2^63 : Int))
  | .uint _ v => decide (v < 2^64)
  | _ => true

def nodupStr : List String → Bool
  | [] => true
  | k :: ks => !ks.contains k && nodupStr ks

/-- The association list is a map: its keys are pairwise distinct. -/
def nodupKeys {β : Type} (ps : List (String × β)) : Bool := nodupStr (ps.map (·.1))

def featureWF (f : Feature) : Bool :=
  gvalWF f.geom && idWF f.id && nodupKeys f.props && f.props.all fun p => pvalWF p.2

/-- version ∈ {1,2}; extent a uint32; the key / value tables fit the uint32 tags (at most one
    new key and one new value per property). -/
def layerWF (l : Layer) : Bool :=
  (l.version == 1 || l.version == 2) && decide (l.extent < 2^32) && l.features.all featureWF &&
  decide ((l.features.map fun f => f.props.length).sum < 2^32)

/-- `MvtWF`: the quantifier of C03 as a decidable predicate. -/
def mvtWF (ls : List Layer) : Bool := ls.all layerWF

/-- a float property value that is the negative zero of its type -/
def isNegZero : PVal → Bool
  | .f64 b => b == 0x8000000000000000
  | .f32 b => b == 0x80000000
  | _ => false

def noNegZero (ps : List (String × PVal)) : Bool := ps.all fun p => !isNegZero p.2

def singleColl : GVal Int → Bool
  | .val (.collection gs) => gs.length == 1
  | _ => true

def gvalNoDupClose : GVal Int → Bool
  | .val (.collection gs) => gs.all geomNoDupClose
  | .val g => geomNoDupClose g
  | _ => true

/-- The sub-domain of `mvtWF` on which the round trip is exact: every collection has exactly
    one member (the code drops the others), no ring has its closing vertex doubled (the decoder
    cannot tell), no property value is a negative float zero (the value table is keyed by `==`). -/
def featureExact (f : Feature) : Bool := singleColl f.geom && gvalNoDupClose f.geom && noNegZero f.props
def exactDomain (ls : List Layer) : Bool := ls.all fun l => l.features.all featureExact

/-! #### the weakest side conditions under which the code is exact -/

/-- Two property values that are the two zeros (+0 / −0) of one Go float type: the value table,
    keyed by Go `==`, keeps only the one it sees first. -/
def zeroClash : PVal → PVal → Bool
  | .f64 a, .f64 b => f64IsZero a && f64IsZero b && a != b
  | .f32 a, .f32 b => f32IsZero a && f32IsZero b && a != b
  | _, _ => false

/-- no two values of the list are the two zeros of one float type -/
def noZeroClash (vs : List PVal) : Bool := vs.all fun a => vs.all fun b => !zeroClash a b

/-- every property value of a layer (one value table per layer) -/
def layerVals (l : Layer) : List PVal := l.features.flatMap fun f => f.props.map (·.2)

/-- `exactDomain` with the negative-zero clause weakened to what the code needs: a lone −0.0
    (no +0.0 of the same float type in the same layer) round-trips bit for bit. -/
def layerExactZ (l : Layer) : Bool :=
  (l.features.all fun f => singleColl f.geom && gvalNoDupClose f.geom) && noZeroClash (layerVals l)
def exactDomainZ (ls : List Layer) : Bool := ls.all layerExactZ

/-- The rings of a geometry, in the order the encoder writes them (the rings `decodePolygon`
    evaluates `Ring.Orientation` on). -/
def ringsOf : Geom Int → List (List (Pt Int))
  | .ring r => [r]
  | .polygon p => p
  | .multiPolygon ps => ps.flatten
  | .bound a b => [boundRing a b]
  | _ => []

def gvalRings : GVal Int → List (List (Pt Int))
  | .val (.collection gs) => gs.flatMap ringsOf
  | .val g => ringsOf g
  | _ => []

/-- The orientation function the decoder runs (Go: the float64 shoelace of `Ring.Orientation`)
    gives the exact sign on every ring of the input.  (Known finding regroup-rounding: false for
    some thin rings at |v| ≥ 2^27.) -/
def oriAgree (ori : List (Pt Int) → Int) (ls : List Layer) : Prop :=
  ∀ l ∈ ls, ∀ f ∈ l.features, ∀ r ∈ gvalRings f.geom, ori r = oriInt r

/-- `float64(id)`: `decoder.Feature` hands the uint64 id out as a float64 (unmarshal.go:185);
    exact below 2^53 (`idWF`), rounded to nearest-even above.  `DFeature.id` keeps the uint64; this
    conversion is applied when a decoded feature is printed / compared. -/
def idFloat (n : Nat) : UInt64 := i2f n

/-- `KVE.Inv` with the zero clause relative to the values `vs` still to come in the layer. -/
def KVE.InvZ (vs : List PVal) (e : KVE) : Prop :=
  ∀ p ∈ e.vals, encodeValue p.1 = .ok p.2 ∧ ∀ v ∈ vs, zeroClash v p.1 = false

/-- Encode, then decode, one geometry. -/
def geometryRT (g : Geom Int) : R (Geom Int) :=
  match encodeGeometry g with
  | .ok (t, ws) => decodeGeometry t ws
  | .err e => .err e
  | .panic s => .panic s

/-- Invariant of the value table: every entry is the `Tile_Value` of its map key, and no key is a
    negative zero. -/
def KVE.Inv (e : KVE) : Prop := ∀ p ∈ e.vals, encodeValue p.1 = .ok p.2 ∧ isNegZero p.1 = false

/-- The tables only grow. -/
def KVE.le (e e' : KVE) : Prop := e.keys <+: e'.keys ∧ e.vals <+: e'.vals

/-- The decoded value table of a layer (`d.values`). -/
def KVE.dvals (e : KVE) : List DVal := e.vals.map fun p => decodeTVal p.2

/-- `normG`: what a geometry of the quantifier decodes to. -/
def normG : Geom Int → Geom Int
  | .multiPoint [p] => .point p
  | .multiLineString [l] => .lineString l
  | .multiPolygon [p] => .polygon p
  | .ring r => .polygon [r]
  | .bound a b => .polygon [boundRing a b]
  | g => g

/-- Widening of a property value (`decodeValueMsg ∘ encodeValue`). -/
def widen : PVal → DVal
  | .str s => .str s
  | .bool b => .bool b
  | .sint _ v => .num (i2f v)
  | .uint _ v => .num (i2f v)
  | .f32 b => .num (f32to64 b)
  | .f64 b => .num b
  | .nil => .str "null"
  | .json t => .str t
  | .jsonFail => .nil
  | .unsupported _ => .nil
  | .stringer _ s => .str s

/-- The decoded property map of the specification: keys in sorted order, values widened. -/
def expectProps (ps : List (String × PVal)) : List (String × DVal) :=
  (sortStrings (ps.map (·.1))).map fun k => (k, widen (lookupP ps k))

/-- The features a feature should become: none for a nil geometry, one per member of a
    collection, else one. -/
def expectFeature (f : Feature) : List DFeature :=
  match gvalGeom f.geom with
  | none => []
  | some (.collection gs) => gs.map fun g => { id := convertID f.id, geom := normG g, props := expectProps f.props }
  | some g => [{ id := convertID f.id, geom := normG g, props := expectProps f.props }]

def expectLayer (l : Layer) : DLayer :=
  { name := l.name, version := l.version, extent := l.extent, features := l.features.flatMap expectFeature }

def expectLayers (ls : List Layer) : List DLayer := ls.map expectLayer

end Orb.MVT
