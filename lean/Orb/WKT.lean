/-
  Orb.WKT — model of encoding/wkt (wkt.go, unmarshal.go) AS WRITTEN.

  A Go `string` is a byte string: `Str := List UInt8`.  Coordinates are float64 bit
  patterns (`UInt64`).  Two calls leave orb and are parameters of the model:

    fmtF   : UInt64 → Str            fmt's `%g` (shortest round-trip formatting)
    parseF : Str → Option UInt64     strconv.ParseFloat(·, 64)   (`none` = any error)

  Everything else is modelled literally, including the quirks:
    * `trimSpace` returns "" for every string with at most ONE non-blank byte (`start >= end`);
    * `upperPrefix` pads with NUL bytes to 20 bytes, so the keyword tests double as length guards
      (that they do is a theorem, `hasPrefix_upperPrefix_length`, not an assumption);
    * the two regexps are hand-compiled (their class `[\s|\t]` is `\t \n \f \r space |`);
    * `splitGeometryCollection` (rewritten in /repo 5a01c04) strips the outer brackets with
      `trimSpaceBrackets` and cuts at the commas at parenthesis depth 0 (a signed depth);
      the previous version, which split in front of letters and was quadratic, is gone;
    * every Go slice / index expression that is not syntactically guarded by its own loop condition
      is an explicit `Res.panic` (`slice`, `sliceFrom`, `index`, `lastByte`, `dropLastByte`).

  `strings.EqualFold(s, "<KW> EMPTY")` is modelled by ASCII case folding.  Go folds by Unicode
  simple folding (`ſ`≃`S`, `K`≃`K`); the two agree here because every call site is preceded by
  `bytes.HasPrefix(upperPrefix(s), "<KW>")`, which pins the keyword bytes to ASCII letters, and the
  remaining constant text ` EMPTY` contains neither `S` nor `K`.
-/
import Orb.Basic

namespace Orb.WKT
open Orb

abbrev Str := List UInt8
abbrev P := Pt UInt64
abbrev G := Geom UInt64

inductive Err where
  | notWKT        -- ErrNotWKT
  | incorrect     -- ErrIncorrectGeometry
  | unsupported   -- ErrUnsupportedGeometry
deriving DecidableEq, Repr, Inhabited

abbrev R := Res Err

/-! ### byte constants -/

def cSpace : UInt8 := 32
def cTab : UInt8 := 9
def cNL : UInt8 := 10
def cLP : UInt8 := 40      -- '('
def cRP : UInt8 := 41      -- ')'
def cComma : UInt8 := 44

def kwPoint : Str := [80, 79, 73, 78, 84]                                        -- POINT
def kwLineString : Str := [76, 73, 78, 69, 83, 84, 82, 73, 78, 71]               -- LINESTRING
def kwPolygon : Str := [80, 79, 76, 89, 71, 79, 78]                              -- POLYGON
def kwMultiPoint : Str := [77, 85, 76, 84, 73, 80, 79, 73, 78, 84]               -- MULTIPOINT
def kwMultiLineString : Str := [77, 85, 76, 84, 73, 76, 73, 78, 69, 83, 84, 82, 73, 78, 71]   -- MULTILINESTRING
def kwMultiPolygon : Str := [77, 85, 76, 84, 73, 80, 79, 76, 89, 71, 79, 78]     -- MULTIPOLYGON
def kwCollection : Str := [71, 69, 79, 77, 69, 84, 82, 89, 67, 79, 76, 76, 69, 67, 84, 73, 79, 78]  -- GEOMETRYCOLLECTION
def sEmpty : Str := [32, 69, 77, 80, 84, 89]                                     -- " EMPTY"

/-! ### Go slice / index expressions -/

/-- `s[a:b]` -/
def slice (s : Str) (a b : Nat) : R Str :=
  if a ≤ b ∧ b ≤ s.length then .ok ((s.drop a).take (b - a)) else .panic "slice bounds out of range"

/-- `s[a:]` -/
def sliceFrom (s : Str) (a : Nat) : R Str :=
  if a ≤ s.length then .ok (s.drop a) else .panic "slice bounds out of range"

/-- `s[i]` -/
def index (s : Str) (i : Nat) : R UInt8 :=
  match s[i]? with
  | some b => .ok b
  | none => .panic "index out of range"

/-- `s[len(s)-1]` (index −1 on the empty string) -/
def lastByte (s : Str) : R UInt8 :=
  if s.length = 0 then .panic "index out of range [-1]" else index s (s.length - 1)

/-- `s[:len(s)-1]` (slice bound −1 on the empty string) -/
def dropLastByte (s : Str) : R Str :=
  if s.length = 0 then .panic "slice bounds out of range [:-1]" else slice s 0 (s.length - 1)

/-! ### trimSpace, upperPrefix, EqualFold, cut -/

def isBlank (b : UInt8) : Bool := b == cSpace || b == cTab || b == cNL

/-- `trimSpace`.  `start` = index of the first non-blank byte (or `len`), `e` = index of the last
    non-blank byte + 1 (or 0); Go's `start >= end` is `start + 1 ≥ e`.  The slice `s[start:end+1]`
    is in bounds whenever it is taken (`trimSpace_slice_inbounds`). -/
def trimSpace (s : Str) : Str :=
  let start := (s.takeWhile isBlank).length
  let e := s.length - (s.reverse.takeWhile isBlank).length
  if start + 1 ≥ e then [] else (s.take e).drop start

def upper (b : UInt8) : UInt8 := if 97 ≤ b ∧ b ≤ 122 then b - 32 else b

/-- `upperPrefix`: the first 20 bytes with `a..z` upper-cased, NUL-padded to exactly 20 bytes. -/
def upperPrefix (s : Str) : Str :=
  (s.take 20).map upper ++ List.replicate (20 - (s.take 20).length) 0

/-- `bytes.HasPrefix` -/
def hasPrefix (s p : Str) : Bool := p.isPrefixOf s

def foldByte (b : UInt8) : UInt8 := if 65 ≤ b ∧ b ≤ 90 then b + 32 else b

/-- `strings.EqualFold(s, t)` for an ASCII constant `t` (see the header for why this is exact here). -/
def equalFold (s t : Str) : Bool := s.map foldByte == t.map foldByte

/-- `cut(s, " ")`: split at the first space. -/
def cutSpace : Str → Option (Str × Str)
  | [] => none
  | b :: rest =>
    if b == cSpace then some ([], rest)
    else match cutSpace rest with
      | some (a, c) => some (b :: a, c)
      | none => none

/-- `trimSpaceBrackets` -/
def trimSpaceBrackets (s : Str) : R Str :=
  let s := trimSpace s
  if s.length = 0 then .ok s else
  match index s 0 with
  | .panic w => .panic w
  | .err e => .err e
  | .ok c =>
    if c != cLP then .err .notWKT else
    match sliceFrom s 1 with
    | .panic w => .panic w
    | .err e => .err e
    | .ok s =>
      match lastByte s with
      | .panic w => .panic w
      | .err e => .err e
      | .ok l =>
        if l != cRP then .err .notWKT else
        match dropLastByte s with
        | .panic w => .panic w
        | .err e => .err e
        | .ok s => .ok (trimSpace s)

/-! ### parsePoint -/

def parsePoint (parseF : Str → Option UInt64) (s : Str) : R P :=
  match cutSpace s with
  | none => .err .notWKT
  | some (one, two) =>
    match parseF one with
    | none => .err .notWKT
    | some x =>
      match parseF two with
      | none => .err .notWKT
      | some y => .ok ⟨x, y⟩

/-! ### splitOnComma -/

/-- loop state of `splitOnComma` -/
structure SC where
  at_ : Nat
  start : Nat
  sawSpace : Bool
  sawComma : Bool
deriving Repr, DecidableEq

/-- The `for i := 0; i < len(s); i++` loop of `splitOnComma` over the remaining bytes `rest`
    (`i` = index of the head of `rest` in `s`), then the final `yield(s[at:])`.
    The yield callbacks of the callers all have the shape "parse the piece, append to the
    accumulator", so the callback is a monadic fold step `f`. -/
def splitOnCommaLoop {β : Type} (s : Str) (f : β → Str → R β) : Str → Nat → SC → β → R β
  | [], _, st, acc =>
    match sliceFrom s st.at_ with
    | .ok p => f acc p
    | .err e => .err e
    | .panic w => .panic w
  | b :: rest, i, st, acc =>
    if b == cComma then
      let st := if !st.sawSpace then { st with sawSpace := true, start := i } else st
      splitOnCommaLoop s f rest (i + 1) { st with sawComma := true } acc
    else if isBlank b then
      let st := if !st.sawSpace then { st with sawSpace := true, start := i } else st
      splitOnCommaLoop s f rest (i + 1) st acc
    else if st.sawComma then
      match slice s st.at_ st.start with
      | .panic w => .panic w
      | .err e => .err e
      | .ok p =>
        match f acc p with
        | .panic w => .panic w
        | .err e => .err e
        | .ok acc => splitOnCommaLoop s f rest (i + 1) { at_ := i, start := st.start, sawSpace := false, sawComma := false } acc
    else splitOnCommaLoop s f rest (i + 1) { st with sawSpace := false, sawComma := false } acc

def splitOnComma {β : Type} (s : Str) (f : β → Str → R β) (init : β) : R β :=
  splitOnCommaLoop s f s 0 ⟨0, 0, false, false⟩ init

/-- `strings.Count(s, ",")` (only feeds `make(…, 0, count+1)`). -/
def countCommas (s : Str) : Nat := (s.filter (· == cComma)).length

/-! ### the two regexps, hand-compiled

  singleParen = `\)([\s|\t]*,[\s|\t]*)\(`
  doubleParen = `\)[\s|\t]*\)([\s|\t]*,[\s|\t]*)\([\s|\t]*\(`

  The class is `W = {\t \n \f \r space |}`.  None of `)`, `,`, `(` is in `W`, so each greedy star
  must take the maximal run of `W` and a match at a given start is unique: no backtracking.
  A matcher returns, relative to the start of the match, (group-1 start, group-1 end, match end).
-/

def isW (b : UInt8) : Bool := b == 9 || b == 10 || b == 12 || b == 13 || b == 32 || b == 124

abbrev Matcher := Str → Option (Nat × Nat × Nat)

def matchSingle : Matcher := fun s =>
  match s with
  | [] => none
  | c0 :: r1 =>
    if c0 != cRP then none else
    let n1 := (r1.takeWhile isW).length
    match r1.dropWhile isW with
    | [] => none
    | c1 :: r2 =>
      if c1 != cComma then none else
      let n2 := (r2.takeWhile isW).length
      match r2.dropWhile isW with
      | [] => none
      | c2 :: _ =>
        if c2 != cLP then none else some (1, 1 + n1 + 1 + n2, 1 + n1 + 1 + n2 + 1)

def matchDouble : Matcher := fun s =>
  match s with
  | [] => none
  | c0 :: r0 =>
    if c0 != cRP then none else
    let n0 := (r0.takeWhile isW).length
    match r0.dropWhile isW with
    | [] => none
    | c1 :: r1 =>
      if c1 != cRP then none else
      let n1 := (r1.takeWhile isW).length
      match r1.dropWhile isW with
      | [] => none
      | c2 :: r2 =>
        if c2 != cComma then none else
        let n2 := (r2.takeWhile isW).length
        match r2.dropWhile isW with
        | [] => none
        | c3 :: r3 =>
          if c3 != cLP then none else
          let n3 := (r3.takeWhile isW).length
          match r3.dropWhile isW with
          | [] => none
          | c4 :: _ =>
            if c4 != cLP then none else
            let gs := 1 + n0 + 1
            let ge := gs + n1 + 1 + n2
            some (gs, ge, ge + 1 + n3 + 1)

/-- `re.FindAllStringSubmatchIndex(s, -1)` reduced to the group-1 index pairs `(element[2], element[3])`:
    leftmost match first, then continue right after the end of that match (matches are non-empty).
    `skip` = bytes still covered by the previous match, `pos` = index of the head of the list. -/
def findAllAux (m : Matcher) : Nat → Nat → Str → List (Nat × Nat)
  | _, _, [] => []
  | skip + 1, pos, _ :: rest => findAllAux m skip (pos + 1) rest
  | 0, pos, b :: rest =>
    match m (b :: rest) with
    | some (gs, ge, me) => (pos + gs, pos + ge) :: findAllAux m (me - 1) (pos + 1) rest
    | none => findAllAux m 0 (pos + 1) rest

def findAll (m : Matcher) (s : Str) : List (Nat × Nat) := findAllAux m 0 0 s

/-- the `for _, element := range indexes` loop of `splitByRegexpYield`, then `yield(s[start:])` -/
def splitByRegexpLoop {β : Type} (s : Str) (f : β → Str → R β) : List (Nat × Nat) → Nat → β → R β
  | [], start, acc =>
    match sliceFrom s start with
    | .ok p => f acc p
    | .err e => .err e
    | .panic w => .panic w
  | (e2, e3) :: more, start, acc =>
    match slice s start e2 with
    | .panic w => .panic w
    | .err e => .err e
    | .ok p =>
      match f acc p with
      | .panic w => .panic w
      | .err e => .err e
      | .ok acc => splitByRegexpLoop s f more e3 acc

/-- `splitByRegexpYield(s, re, set, yield)`; `set(len(indexes)+1)` only sizes the result slice. -/
def splitByRegexp {β : Type} (s : Str) (m : Matcher) (f : β → Str → R β) (init : β) : R β :=
  splitByRegexpLoop s f (findAll m s) 0 init

/-! ### per-kind parsers -/

section parsers
variable (parseF : Str → Option UInt64)

/-- the common inner loop: `splitOnComma(s, func(p){ tp := parsePoint(p); ls = append(ls, tp) })` -/
def parsePoints (s : Str) : R (List P) :=
  splitOnComma s (fun acc p =>
    match parsePoint parseF p with
    | .ok tp => .ok (acc ++ [tp])
    | .err e => .err e
    | .panic w => .panic w) []

/-- ring / line-string member of a polygon or multi-line-string: strip its brackets, parse the points -/
def parseBracketedPoints (acc : List (List P)) (r : Str) : R (List (List P)) :=
  match trimSpaceBrackets r with
  | .panic w => .panic w
  | .err e => .err e
  | .ok r =>
    match parsePoints parseF r with
    | .ok ring => .ok (acc ++ [ring])
    | .err e => .err e
    | .panic w => .panic w

def unmarshalPoint (s : Str) : R P :=
  match sliceFrom s 5 with
  | .panic w => .panic w
  | .err e => .err e
  | .ok t =>
    match trimSpaceBrackets t with
    | .panic w => .panic w
    | .err e => .err e
    | .ok t => parsePoint parseF t

def unmarshalMultiPoint (s : Str) : R (List P) :=
  if equalFold s (kwMultiPoint ++ sEmpty) then .ok [] else
  match sliceFrom s 10 with
  | .panic w => .panic w
  | .err e => .err e
  | .ok t =>
    match trimSpaceBrackets t with
    | .panic w => .panic w
    | .err e => .err e
    | .ok t =>
      splitOnComma t (fun acc p =>
        match trimSpaceBrackets p with
        | .panic w => .panic w
        | .err e => .err e
        | .ok p =>
          match parsePoint parseF p with
          | .ok tp => .ok (acc ++ [tp])
          | .err e => .err e
          | .panic w => .panic w) []

def unmarshalLineString (s : Str) : R (List P) :=
  if equalFold s (kwLineString ++ sEmpty) then .ok [] else
  match sliceFrom s 10 with
  | .panic w => .panic w
  | .err e => .err e
  | .ok t =>
    match trimSpaceBrackets t with
    | .panic w => .panic w
    | .err e => .err e
    | .ok t => parsePoints parseF t

def unmarshalMultiLineString (s : Str) : R (List (List P)) :=
  if equalFold s (kwMultiLineString ++ sEmpty) then .ok [] else
  match sliceFrom s 15 with
  | .panic w => .panic w
  | .err e => .err e
  | .ok t =>
    match trimSpaceBrackets t with
    | .panic w => .panic w
    | .err e => .err e
    | .ok t => splitByRegexp t matchSingle (parseBracketedPoints parseF) []

def unmarshalPolygon (s : Str) : R (List (List P)) :=
  if equalFold s (kwPolygon ++ sEmpty) then .ok [] else
  match sliceFrom s 7 with
  | .panic w => .panic w
  | .err e => .err e
  | .ok t =>
    match trimSpaceBrackets t with
    | .panic w => .panic w
    | .err e => .err e
    | .ok t => splitByRegexp t matchSingle (parseBracketedPoints parseF) []

def unmarshalMultiPolygon (s : Str) : R (List (List (List P))) :=
  if equalFold s (kwMultiPolygon ++ sEmpty) then .ok [] else
  match sliceFrom s 12 with
  | .panic w => .panic w
  | .err e => .err e
  | .ok t =>
    match trimSpaceBrackets t with
    | .panic w => .panic w
    | .err e => .err e
    | .ok t =>
      splitByRegexp t matchDouble (fun acc poly =>
        match trimSpaceBrackets poly with
        | .panic w => .panic w
        | .err e => .err e
        | .ok poly =>
          match splitByRegexp poly matchSingle (parseBracketedPoints parseF) [] with
          | .ok tpoly => .ok (acc ++ [tpoly])
          | .err e => .err e
          | .panic w => .panic w) []

end parsers

/-! ### splitGeometryCollection (as of /repo 5a01c04: cut at the commas outside every member's parentheses) -/

/-- the `for i := 0; i < len(s); i++ { switch s[i] … }` loop and the final `append(r, s[start:])`.
    `depth` is a Go `int`: it goes negative on unbalanced input, and only `depth == 0` commas cut. -/
def sgcLoop (s : Str) : Str → Nat → Int → Nat → List Str → R (List Str)
  | [], _, _, start, r =>
    match sliceFrom s start with
    | .ok p => .ok (r ++ [p])
    | .err e => .err e
    | .panic w => .panic w
  | b :: rest, i, depth, start, r =>
    if b == cLP then sgcLoop s rest (i + 1) (depth + 1) start r
    else if b == cRP then sgcLoop s rest (i + 1) (depth - 1) start r
    else if b == cComma then
      if depth == 0 then
        match slice s start i with
        | .ok p => sgcLoop s rest (i + 1) depth (i + 1) (r ++ [p])
        | .err e => .err e
        | .panic w => .panic w
      else sgcLoop s rest (i + 1) depth start r
    else sgcLoop s rest (i + 1) depth start r

def splitGeometryCollection (s : Str) : R (List Str) :=
  match trimSpaceBrackets s with
  | .ok t => sgcLoop t t 0 0 0 []
  | .err e => .err e
  | .panic w => .panic w

/-! ### Unmarshal -/

section unmarshal
variable (parseF : Str → Option UInt64)

/-- `for _, g := range geometries { if len(g) == 0 { continue }; tg, err := Unmarshal(g); … }` -/
def collectMembers (rec : Str → R G) : List Str → List G → R (List G)
  | [], acc => .ok acc
  | g :: more, acc =>
    if g.length = 0 then collectMembers rec more acc else
    match rec g with
    | .ok tg => collectMembers rec more (acc ++ [tg])
    | .err e => .err e
    | .panic w => .panic w

/-- `unmarshalCollection`, with the recursive call to `Unmarshal` as a parameter. -/
def unmarshalCollection (rec : Str → R G) (s : Str) : R (List G) :=
  if equalFold s (kwCollection ++ sEmpty) then .ok [] else
  if s.length = 18 then .err .notWKT else
  match sliceFrom s 18 with
  | .panic w => .panic w
  | .err e => .err e
  | .ok t =>
    match splitGeometryCollection t with
    | .panic w => .panic w
    | .err e => .err e
    | .ok geometries => collectMembers rec geometries []

/-- `Unmarshal` with an explicit recursion budget for nested collections; running out of budget is
    a `panic "fuel"` so that the totality theorem also shows the budget of `unmarshal` suffices. -/
def unmarshalF : Nat → Str → R G
  | 0, _ => .panic "fuel"
  | fuel + 1, s =>
    let s := trimSpace s
    let pre := upperPrefix s
    if hasPrefix pre kwPoint then (unmarshalPoint parseF s).map .point
    else if hasPrefix pre kwLineString then (unmarshalLineString parseF s).map .lineString
    else if hasPrefix pre kwPolygon then (unmarshalPolygon parseF s).map .polygon
    else if hasPrefix pre kwMultiPoint then (unmarshalMultiPoint parseF s).map .multiPoint
    else if hasPrefix pre kwMultiLineString then (unmarshalMultiLineString parseF s).map .multiLineString
    else if hasPrefix pre kwMultiPolygon then (unmarshalMultiPolygon parseF s).map .multiPolygon
    else if hasPrefix pre kwCollection then (unmarshalCollection (unmarshalF fuel) s).map .collection
    else .err .unsupported

/-- `wkt.Unmarshal`.  Every member handed to the recursive call is a proper sub-slice of `s` (at least
    the 18 keyword bytes shorter), so `len(s)+1` levels always suffice (`wkt_unmarshal_total`,
    `unmarshalF_fuel_irrelevant`). -/
def unmarshal (s : Str) : R G := unmarshalF parseF (s.length + 1) s

/-- the guard shared by the seven typed entry points -/
def typed {α : Type} (kw : Str) (body : Str → R α) (s : Str) : R α :=
  let s := trimSpace s
  if !hasPrefix (upperPrefix s) kw then .err .incorrect else body s

def unmarshalPointT : Str → R P := typed kwPoint (unmarshalPoint parseF)
def unmarshalMultiPointT : Str → R (List P) := typed kwMultiPoint (unmarshalMultiPoint parseF)
def unmarshalLineStringT : Str → R (List P) := typed kwLineString (unmarshalLineString parseF)
def unmarshalMultiLineStringT : Str → R (List (List P)) := typed kwMultiLineString (unmarshalMultiLineString parseF)
def unmarshalPolygonT : Str → R (List (List P)) := typed kwPolygon (unmarshalPolygon parseF)
def unmarshalMultiPolygonT : Str → R (List (List (List P))) := typed kwMultiPolygon (unmarshalMultiPolygon parseF)
def unmarshalCollectionT : Str → R (List G) := typed kwCollection (unmarshalCollection (unmarshal parseF))

/-- the seven typed functions, results embedded in `G`, in the order
    Point, MultiPoint, LineString, MultiLineString, Polygon, MultiPolygon, Collection -/
def typedAll (s : Str) : List (R G) :=
  [ (unmarshalPointT parseF s).map .point,
    (unmarshalMultiPointT parseF s).map .multiPoint,
    (unmarshalLineStringT parseF s).map .lineString,
    (unmarshalMultiLineStringT parseF s).map .multiLineString,
    (unmarshalPolygonT parseF s).map .polygon,
    (unmarshalMultiPolygonT parseF s).map .multiPolygon,
    (unmarshalCollectionT parseF s).map .collection ]

end unmarshal

/-! ### Marshal (wkt.go) -/

section marshal
variable (fmtF : UInt64 → Str)

/-- `fmt.Fprintf(buf, "%g %g", p[0], p[1])` -/
def wCoord (p : P) : Str := fmtF p.x ++ cSpace :: fmtF p.y

/-- members separated by single commas -/
def commaSep : List Str → Str
  | [] => []
  | [a] => a
  | a :: b :: more => a ++ cComma :: commaSep (b :: more)

/-- `writeLineString` -/
def wLineString (ps : List P) : Str := cLP :: (commaSep (ps.map (wCoord fmtF)) ++ [cRP])

def wRings (rs : List (List P)) : Str := cLP :: (commaSep (rs.map (wLineString fmtF)) ++ [cRP])

/-- `Bound.ToRing` -/
def boundRing (a b : P) : List P := [a, ⟨b.x, a.y⟩, b, ⟨a.x, b.y⟩, a]

/-- `wkt(buf, geom)` on a value -/
def marshalG : G → Str
  | .point p => kwPoint ++ cLP :: (wCoord fmtF p ++ [cRP])
  | .multiPoint ps =>
    if ps.isEmpty then kwMultiPoint ++ sEmpty
    else kwMultiPoint ++ cLP :: (commaSep (ps.map fun p => cLP :: (wCoord fmtF p ++ [cRP])) ++ [cRP])
  | .lineString ps =>
    if ps.isEmpty then kwLineString ++ sEmpty else kwLineString ++ wLineString fmtF ps
  | .multiLineString ls =>
    if ls.isEmpty then kwMultiLineString ++ sEmpty else kwMultiLineString ++ wRings fmtF ls
  | .ring r => kwPolygon ++ wRings fmtF [r]
  | .polygon rs =>
    if rs.isEmpty then kwPolygon ++ sEmpty else kwPolygon ++ wRings fmtF rs
  | .multiPolygon ps =>
    if ps.isEmpty then kwMultiPolygon ++ sEmpty
    else kwMultiPolygon ++ cLP :: (commaSep (ps.map (wRings fmtF)) ++ [cRP])
  | .bound a b => kwPolygon ++ wRings fmtF [boundRing a b]
  | .collection gs =>
    if gs.isEmpty then kwCollection ++ sEmpty
    else kwCollection ++ cLP :: (commaSep (marshalList gs) ++ [cRP])
where
  marshalList : List G → List Str
    | [] => []
    | g :: gs => marshalG g :: marshalList gs

/-- `wkt.Marshal` on the interface value.  A nil interface writes nothing (`if geom == nil { return }`,
    since /repo dabd25f; before that it hit `default: panic("unsupported type")`); a typed nil slice
    has length 0 and prints the EMPTY form (a nil ring prints `POLYGON(())`).  The only remaining
    `panic` is the `default:` arm, unreachable for the nine kinds (`.nilSlice .point/.bound` do not exist in Go). -/
def marshal : GVal UInt64 → R Str
  | .nilIface => .ok []
  | .nilSlice .multiPoint => .ok (kwMultiPoint ++ sEmpty)
  | .nilSlice .lineString => .ok (kwLineString ++ sEmpty)
  | .nilSlice .multiLineString => .ok (kwMultiLineString ++ sEmpty)
  | .nilSlice .ring => .ok (marshalG fmtF (.ring []))
  | .nilSlice .polygon => .ok (kwPolygon ++ sEmpty)
  | .nilSlice .multiPolygon => .ok (kwMultiPolygon ++ sEmpty)
  | .nilSlice .collection => .ok (kwCollection ++ sEmpty)
  | .nilSlice _ => .panic "no such typed nil"
  | .val g => .ok (marshalG fmtF g)

end marshal

/-- What the text of a value denotes: ring and bound are written as the one-ring polygon. -/
def canon : G → G
  | .ring r => .polygon [r]
  | .bound a b => .polygon [boundRing a b]
  | .collection gs => .collection (canonList gs)
  | g => g
where
  canonList : List G → List G
    | [] => []
    | g :: gs => canon g :: canonList gs

def canonV : GVal UInt64 → Option G
  | .nilIface => none
  | .nilSlice .multiPoint => some (.multiPoint [])
  | .nilSlice .lineString => some (.lineString [])
  | .nilSlice .multiLineString => some (.multiLineString [])
  | .nilSlice .ring => some (.polygon [[]])
  | .nilSlice .polygon => some (.polygon [])
  | .nilSlice .multiPolygon => some (.multiPolygon [])
  | .nilSlice .collection => some (.collection [])
  | .nilSlice _ => none
  | .val g => some (canon g)

end Orb.WKT

/-! ### vocabulary of the property statements (used by OrbProofs.C04 and the driver) -/
namespace Orb.WKT
open Orb

def ptCoords (p : P) : List UInt64 := [p.x, p.y]
def ptsCoords (ps : List P) : List UInt64 := ps.flatMap ptCoords
def ringsCoords (rs : List (List P)) : List UInt64 := rs.flatMap ptsCoords

/-- all coordinates of a value (the ones `marshalG` prints; a bound prints its two corners' four numbers) -/
def coords : G → List UInt64
  | .point p => ptCoords p
  | .multiPoint ps | .lineString ps | .ring ps => ptsCoords ps
  | .multiLineString rs | .polygon rs => ringsCoords rs
  | .multiPolygon ps => ps.flatMap ringsCoords
  | .bound a b => ptCoords a ++ ptCoords b
  | .collection gs => coordsList gs
where
  coordsList : List G → List UInt64
    | [] => []
    | g :: gs => coords g ++ coordsList gs

def isCollection : G → Bool
  | .collection _ => true
  | _ => false

/-- position of the typed function that owns the kind of the text of `g`, in the order of `typedAll`
    (ring and bound are printed as polygons) -/
def kindIdx : G → Nat
  | .point _ => 0 | .multiPoint _ => 1 | .lineString _ => 2 | .multiLineString _ => 3
  | .polygon _ | .ring _ | .bound _ _ => 4 | .multiPolygon _ => 5 | .collection _ => 6

/-- no member of a multi-geometry is printed as `()` (not looking inside collections) -/
def noEmptyMember : G → Bool
  | .multiLineString ls => ls.all (fun l => !l.isEmpty)
  | .polygon rs => rs.all (fun r => !r.isEmpty)
  | .ring r => !r.isEmpty
  | .multiPolygon ps => ps.all fun p => !p.isEmpty && p.all (fun r => !r.isEmpty)
  | _ => true

/-- printed as `<KEYWORD> EMPTY` -/
def isEmptyValue : G → Bool
  | .multiPoint ps | .lineString ps => ps.isEmpty
  | .multiLineString l | .polygon l => l.isEmpty
  | .multiPolygon l => l.isEmpty
  | .collection l => l.isEmpty
  | _ => false

/-- bytes with a meaning for the tokenisers: blank, tab, newline, comma, parentheses -/
def isDelim (b : UInt8) : Bool := b == cSpace || b == cTab || b == cNL || b == cComma || b == cLP || b == cRP

/-- What the theorems assume of `%g` / `ParseFloat` at one coordinate: the text is not empty, contains
    no delimiter byte, and parses back to the same bits.  (True of Go for every finite float64 —
    `%g` prints digits, `.`, `e`, `+`, `-` only and shortest formatting round-trips; observed on every
    correspondence case, not proved.) -/
structure FloatText (fmtF : UInt64 → Str) (parseF : Str → Option UInt64) (x : UInt64) : Prop where
  nonempty : fmtF x ≠ []
  clean : ∀ b ∈ fmtF x, isDelim b = false
  parses : parseF (fmtF x) = some x

def GoodCoords (fmtF : UInt64 → Str) (parseF : Str → Option UInt64) (g : G) : Prop :=
  ∀ x ∈ coords g, FloatText fmtF parseF x

/-- `s` is `kw` up to the case of its letters -/
def CaseVariant (kw s : Str) : Prop := s.map upper = kw

def AllBlank (s : Str) : Prop := ∀ b ∈ s, isBlank b = true

end Orb.WKT

/-! ### re-spellings: the texts that denote a value

  `Spelled fmtF g t`: `t` is the text `marshalG fmtF g` up to the re-spellings of the property —
  keyword letters in either case, and blanks (space, tab, newline) at both ends, between keyword and
  `(`, and next to every parenthesis and every comma, for all kinds and to any depth of collections.
  Nothing is ever inserted inside a coordinate or between the two numbers of a point, and the single
  blank of `<KEYWORD> EMPTY` stays a single blank.  A member without points / rings has only the
  plain spelling `()` (such texts do not parse: the recorded finding). -/
namespace Orb.WKT
open Orb

/-- pieces joined by re-spelled commas: `p₁ a₁ , b₁ p₂ a₂ , b₂ … pₙ` with blank `aᵢ`, `bᵢ` -/
inductive SepJoin : List Str → Str → Prop where
  | one (p : Str) : SepJoin [p] p
  | cons (p a b : Str) (ps : List Str) (t : Str) :
      AllBlank a → AllBlank b → SepJoin ps t → SepJoin (p :: ps) (p ++ a ++ cComma :: (b ++ t))

/-- element-wise relation of two lists (core Lean has no `List.Forall₂`) -/
inductive Forall2 {α β : Type} (r : α → β → Prop) : List α → List β → Prop where
  | nil : Forall2 r [] []
  | cons {a : α} {b : β} {as : List α} {bs : List β} : r a b → Forall2 r as bs → Forall2 r (a :: as) (b :: bs)

/-- `a ( b body c )` -/
def bracketed (a b c body : Str) : Str := a ++ cLP :: (b ++ body ++ c ++ [cRP])

/-- `( b x y c )`, a member of a MULTIPOINT -/
def IsBrPoint (fmtF : UInt64 → Str) (p : P) (t : Str) : Prop :=
  ∃ b c, AllBlank b ∧ AllBlank c ∧ t = bracketed [] b c (wCoord fmtF p)

/-- `( b x y , x y … c )`: a ring / line-string member; a member without points is the plain `()` -/
def IsBrPoints (fmtF : UInt64 → Str) (ps : List P) (t : Str) : Prop :=
  (ps = [] ∧ t = [cLP, cRP]) ∨
  (∃ b c body, AllBlank b ∧ AllBlank c ∧ SepJoin (ps.map (wCoord fmtF)) body ∧ t = bracketed [] b c body)

/-- `( b ring , ring … c )`: a polygon member of a MULTIPOLYGON; a polygon without rings is the plain `()` -/
def IsBrPoly (fmtF : UInt64 → Str) (rs : List (List P)) (t : Str) : Prop :=
  (rs = [] ∧ t = [cLP, cRP]) ∨
  (∃ pieces b c body, AllBlank b ∧ AllBlank c ∧ Forall2 (IsBrPoints fmtF) rs pieces ∧ SepJoin pieces body ∧
    t = bracketed [] b c body)

/-- `pre core post` with blank `pre`, `post` -/
def Padded (core : Str → Prop) (t : Str) : Prop :=
  ∃ pre post c, AllBlank pre ∧ AllBlank post ∧ core c ∧ t = pre ++ c ++ post

/-- keyword (any case) followed by `a ( b body c )` -/
def KwBracketed (kw body t : Str) : Prop :=
  ∃ k a b c, CaseVariant kw k ∧ AllBlank a ∧ AllBlank b ∧ AllBlank c ∧ t = k ++ bracketed a b c body

/-- keyword (any case), then `a ( b ring , ring … c )` -/
def KwRings (fmtF : UInt64 → Str) (kw : Str) (rs : List (List P)) (t : Str) : Prop :=
  ∃ pieces body, Forall2 (IsBrPoints fmtF) rs pieces ∧ SepJoin pieces body ∧ KwBracketed kw body t

mutual
/-- spellings of `g` without blanks at the ends -/
def SpelledCore (fmtF : UInt64 → Str) : G → Str → Prop
  | .point p, t => KwBracketed kwPoint (wCoord fmtF p) t
  | .multiPoint [], t => CaseVariant (kwMultiPoint ++ sEmpty) t
  | .multiPoint (p :: ps), t =>
      ∃ pieces body, Forall2 (IsBrPoint fmtF) (p :: ps) pieces ∧ SepJoin pieces body ∧ KwBracketed kwMultiPoint body t
  | .lineString [], t => CaseVariant (kwLineString ++ sEmpty) t
  | .lineString (p :: ps), t =>
      ∃ body, SepJoin ((p :: ps).map (wCoord fmtF)) body ∧ KwBracketed kwLineString body t
  | .multiLineString [], t => CaseVariant (kwMultiLineString ++ sEmpty) t
  | .multiLineString (l :: ls), t => KwRings fmtF kwMultiLineString (l :: ls) t
  | .ring r, t => KwRings fmtF kwPolygon [r] t
  | .polygon [], t => CaseVariant (kwPolygon ++ sEmpty) t
  | .polygon (r :: rs), t => KwRings fmtF kwPolygon (r :: rs) t
  | .multiPolygon [], t => CaseVariant (kwMultiPolygon ++ sEmpty) t
  | .multiPolygon (p :: ps), t =>
      ∃ pieces body, Forall2 (IsBrPoly fmtF) (p :: ps) pieces ∧ SepJoin pieces body ∧ KwBracketed kwMultiPolygon body t
  | .bound a b, t => KwRings fmtF kwPolygon [boundRing a b] t
  | .collection [], t => CaseVariant (kwCollection ++ sEmpty) t
  | .collection (g :: gs), t =>
      ∃ ts body, SpelledList fmtF (g :: gs) ts ∧ SepJoin ts body ∧ KwBracketed kwCollection body t
/-- member-wise spellings (the blanks around a member are those of the enclosing `SepJoin` / brackets) -/
def SpelledList (fmtF : UInt64 → Str) : List G → List Str → Prop
  | [], [] => True
  | g :: gs, t :: ts => SpelledCore fmtF g t ∧ SpelledList fmtF gs ts
  | _, _ => False
end

/-- `t` is a spelling of `g` -/
def Spelled (fmtF : UInt64 → Str) (g : G) (t : Str) : Prop := Padded (SpelledCore fmtF g) t

/-- no member of a multi-geometry is printed as `()`, at any depth of collections.  This is the
    ONLY restriction of the round-trip theorem; it excludes exactly the recorded finding
    (`POLYGON(())`, `MULTILINESTRING((),…)`, `MULTIPOLYGON(())`, `MULTIPOLYGON((()))`). -/
def noEmptyMemberDeep : G → Bool
  | .collection gs => allDeep gs
  | g => noEmptyMember g
where
  allDeep : List G → Bool
    | [] => true
    | g :: gs => noEmptyMemberDeep g && allDeep gs

/-- the typed functions' expected outcomes on a text of kind index `k` whose own outcome is `own` -/
def expectedTyped (k : Nat) (own : R G) : List (R G) :=
  (List.range 7).map fun j => if j = k then own else .err .incorrect

/-- sequential fold with early exit: what the yield-callback loops compute over the pieces -/
def foldlR {β : Type} (f : β → Str → R β) : β → List Str → R β
  | acc, [] => .ok acc
  | acc, p :: ps =>
    match f acc p with
    | .ok acc' => foldlR f acc' ps
    | .err e => .err e
    | .panic w => .panic w

/-! ### text-level re-spelling (the property's own wording), for the statement `respell_invariant_full` -/

def isParenComma (b : UInt8) : Bool := b == cLP || b == cRP || b == cComma
def isLetter (b : UInt8) : Bool := (65 ≤ b && b ≤ 90) || (97 ≤ b && b ≤ 122)
def flipCase (b : UInt8) : UInt8 :=
  if 65 ≤ b ∧ b ≤ 90 then b + 32 else if 97 ≤ b ∧ b ≤ 122 then b - 32 else b

/-- no two adjacent letters (true of `%g` on finite floats: the only letter is an isolated `e`) -/
def NoAdjacentLetters : Str → Prop
  | x :: y :: rest => ¬(isLetter x = true ∧ isLetter y = true) ∧ NoAdjacentLetters (y :: rest)
  | _ => True

/-- one text-level re-spelling step: insert a blank before / after a parenthesis or comma, or at
    either end of the text; or flip the case of a letter that has a letter neighbour (a keyword letter). -/
inductive RespellStep : Str → Str → Prop where
  | before (u v : Str) (d b : UInt8) : isParenComma d = true → isBlank b = true →
      RespellStep (u ++ d :: v) (u ++ b :: d :: v)
  | after (u v : Str) (d b : UInt8) : isParenComma d = true → isBlank b = true →
      RespellStep (u ++ d :: v) (u ++ d :: b :: v)
  | atStart (t : Str) (b : UInt8) : isBlank b = true → RespellStep t (b :: t)
  | atEnd (t : Str) (b : UInt8) : isBlank b = true → RespellStep t (t ++ [b])
  | caseL (u v : Str) (x y : UInt8) : isLetter x = true → isLetter y = true →
      RespellStep (u ++ x :: y :: v) (u ++ flipCase x :: y :: v)
  | caseR (u v : Str) (x y : UInt8) : isLetter x = true → isLetter y = true →
      RespellStep (u ++ x :: y :: v) (u ++ x :: flipCase y :: v)

/-- any number of steps -/
inductive RespellStar : Str → Str → Prop where
  | refl (t : Str) : RespellStar t t
  | step {a b c : Str} : RespellStar a b → RespellStep b c → RespellStar a c

end Orb.WKT
