/-
  Orb.CoreNil — the root package on values WITH NIL MEMBERS (model file of C06).

  `Orb.Basic.Geom` has no nil below the top level and `Orb.Proto` reads a nil member as the empty
  value of its kind.  The code of clone.go / equal.go / geometry.go has branches that only a nil
  member reaches (`Ring.Clone`: `if r == nil`, `Polygon.Clone`: `if p == nil`, `orb.Clone` on a typed
  nil member, `orb.Clone(nil)` / `orb.Equal(nil, nil)` on a nil INTERFACE held by a collection, the
  two nil tests of `Collection.Bound`, geometry.go:91-108).  `NGeom` is the value tree in which every
  slice at every level is either nil or a list, and a collection member may be the nil interface:

      Polygon{nil}                      .polygon (some [none])
      MultiLineString{nil, {}}          .multiLineString (some [none, some []])
      Collection{MultiPoint(nil), nil}  .collection [.multiPoint none, .nilIface]
      Collection(nil)                   .nilCollection

  The functions follow the Go code: `len`, `range` and indexing see a nil slice as an empty one; only
  the `== nil` tests tell them apart.  Core Lean only; polymorphic in the coordinate type.
-/
import Orb.Basic
import Orb.Core

namespace Orb.CoreNil
open Orb Orb.Core

/-- a `[]orb.Point` (MultiPoint / LineString / Ring): `none` is the nil slice -/
abbrev NPts (α : Type) := Option (List (Pt α))
/-- a `[]Ring` / `[]LineString` (Polygon / MultiLineString): `none` is the nil slice -/
abbrev NPtss (α : Type) := Option (List (NPts α))
/-- a `[]Polygon` -/
abbrev NPtsss (α : Type) := Option (List (NPtss α))

/-- An `orb.Geometry` interface value with nil-ness kept at every level. -/
inductive NGeom (α : Type) where
  | nilIface
  | point (p : Pt α)
  | multiPoint (ps : NPts α)
  | lineString (ps : NPts α)
  | multiLineString (ls : NPtss α)
  | ring (ps : NPts α)
  | polygon (rs : NPtss α)
  | multiPolygon (ps : NPtsss α)
  | bound (min max : Pt α)
  | nilCollection
  | collection (gs : List (NGeom α))
deriving Repr, Inhabited

variable {α : Type}

/-- what `len` / `range` / indexing see: a nil slice is an empty one -/
def ptsOf (a : NPts α) : List (Pt α) := a.getD []
def ptssOf (a : NPtss α) : List (List (Pt α)) := (a.getD []).map ptsOf
def ptsssOf (a : NPtsss α) : List (List (List (Pt α))) := (a.getD []).map ptssOf

def NGeom.isNilIface : NGeom α → Bool
  | .nilIface => true
  | _ => false

/-! ### embedding of the nil-free values, and the two ways of forgetting nil-ness -/

mutual
/-- a value without nil members, as an `NGeom` -/
def ofGeom : Geom α → NGeom α
  | .point p => .point p
  | .multiPoint ps => .multiPoint (some ps)
  | .lineString ps => .lineString (some ps)
  | .multiLineString ls => .multiLineString (some (ls.map some))
  | .ring ps => .ring (some ps)
  | .polygon rs => .polygon (some (rs.map some))
  | .multiPolygon ps => .multiPolygon (some (ps.map fun rs => some (rs.map some)))
  | .bound a b => .bound a b
  | .collection gs => .collection (ofGeomList gs)
def ofGeomList : List (Geom α) → List (NGeom α)
  | [] => []
  | g :: gs => ofGeom g :: ofGeomList gs
end

/-- top-level values of `Orb.Basic` -/
def ofGVal : GVal α → NGeom α
  | .nilIface => .nilIface
  | .nilSlice .multiPoint => .multiPoint none
  | .nilSlice .lineString => .lineString none
  | .nilSlice .multiLineString => .multiLineString none
  | .nilSlice .ring => .ring none
  | .nilSlice .polygon => .polygon none
  | .nilSlice .multiPolygon => .multiPolygon none
  | .nilSlice .collection => .nilCollection
  | .nilSlice .point => .multiPoint none     -- unreachable: points and bounds are never nil
  | .nilSlice .bound => .multiPoint none
  | .val g => ofGeom g

mutual
/-- NORMAL FORM for equality: every nil slice becomes the empty slice of its type; nil interfaces
    (at the top and as members) stay. -/
def normN : NGeom α → NGeom α
  | .nilIface => .nilIface
  | .point p => .point p
  | .multiPoint ps => .multiPoint (some (ptsOf ps))
  | .lineString ps => .lineString (some (ptsOf ps))
  | .multiLineString ls => .multiLineString (some ((ptssOf ls).map some))
  | .ring ps => .ring (some (ptsOf ps))
  | .polygon rs => .polygon (some ((ptssOf rs).map some))
  | .multiPolygon ps => .multiPolygon (some ((ptsssOf ps).map fun rs => some (rs.map some)))
  | .bound a b => .bound a b
  | .nilCollection => .collection []
  | .collection gs => .collection (normNList gs)
def normNList : List (NGeom α) → List (NGeom α)
  | [] => []
  | g :: gs => normN g :: normNList gs
end

mutual
/-- The nil-free value that `Bound()` sees: nil slices read as empty, nil-interface MEMBERS of
    collections dropped (`Collection.Bound` skips them); `none` for the nil interface itself. -/
def strip : NGeom α → Option (Geom α)
  | .nilIface => none
  | .point p => some (.point p)
  | .multiPoint ps => some (.multiPoint (ptsOf ps))
  | .lineString ps => some (.lineString (ptsOf ps))
  | .multiLineString ls => some (.multiLineString (ptssOf ls))
  | .ring ps => some (.ring (ptsOf ps))
  | .polygon rs => some (.polygon (ptssOf rs))
  | .multiPolygon ps => some (.multiPolygon (ptsssOf ps))
  | .bound a b => some (.bound a b)
  | .nilCollection => some (.collection [])
  | .collection gs => some (.collection (stripList gs))
def stripList : List (NGeom α) → List (Geom α)
  | [] => []
  | g :: gs =>
    match strip g with
    | none => stripList gs
    | some h => h :: stripList gs
end

/-! ### clone.go and the per-type `Clone` methods -/

/-- `MultiPoint.Clone` (and `LineString.Clone`, `Ring.Clone`, which convert and call it):
    `if mp == nil { return nil }`, else `make` + `copy`. -/
def clonePts : NPts α → NPts α
  | none => none
  | some ps => some ps

/-- `Polygon.Clone` / `MultiLineString.Clone`: nil stays nil, else every member is cloned. -/
def clonePtss : NPtss α → NPtss α
  | none => none
  | some rs => some (rs.map clonePts)

/-- `MultiPolygon.Clone`. -/
def clonePtsss : NPtsss α → NPtsss α
  | none => none
  | some ps => some (ps.map clonePtss)

mutual
/-- `orb.Clone`: the nil interface and typed nil slices are returned as they are; a collection is
    rebuilt with `nc[i] = Clone(g)` for every member, nil members included. -/
def cloneN : NGeom α → NGeom α
  | .nilIface => .nilIface
  | .point p => .point p
  | .multiPoint ps => .multiPoint (clonePts ps)
  | .lineString ps => .lineString (clonePts ps)
  | .multiLineString ls => .multiLineString (clonePtss ls)
  | .ring ps => .ring (clonePts ps)
  | .polygon rs => .polygon (clonePtss rs)
  | .multiPolygon ps => .multiPolygon (clonePtsss ps)
  | .bound a b => .bound a b
  | .nilCollection => .nilCollection
  | .collection gs => .collection (cloneNList gs)
def cloneNList : List (NGeom α) → List (NGeom α)
  | [] => []
  | g :: gs => cloneN g :: cloneNList gs
end

/-! ### equal.go -/

section equal
variable [BEq α]

/-- `MultiPoint.Equal` on possibly-nil slices (`len` and indexing only). -/
def ptsEqN (a b : NPts α) : Bool := ptsEq (ptsOf a) (ptsOf b)

/-- the member loop of `Polygon.Equal` / `MultiLineString.Equal` -/
def ptssEqL : List (NPts α) → List (NPts α) → Bool
  | [], [] => true
  | p :: ps, q :: qs => ptsEqN p q && ptssEqL ps qs
  | _, _ => false

def ptssEqN (a b : NPtss α) : Bool := ptssEqL (a.getD []) (b.getD [])

/-- the member loop of `MultiPolygon.Equal` -/
def ptsssEqL : List (NPtss α) → List (NPtss α) → Bool
  | [], [] => true
  | p :: ps, q :: qs => ptssEqN p q && ptsssEqL ps qs
  | _, _ => false

def ptsssEqN (a b : NPtsss α) : Bool := ptsssEqL (a.getD []) (b.getD [])

mutual
/-- `orb.Equal`: `if g1 == nil || g2 == nil { return g1 == g2 }` (a typed nil slice is NOT a nil
    interface), the GeoJSON-type pre-test, then the type switch. -/
def equalN : NGeom α → NGeom α → Bool
  | .nilIface, .nilIface => true
  | .point p, .point q => ptEq p q
  | .multiPoint p, .multiPoint q => ptsEqN p q
  | .lineString p, .lineString q => ptsEqN p q
  | .ring p, .ring q => ptsEqN p q
  | .multiLineString p, .multiLineString q => ptssEqN p q
  | .polygon p, .polygon q => ptssEqN p q
  | .multiPolygon p, .multiPolygon q => ptsssEqN p q
  | .bound a b, .bound c d => ptEq a c && ptEq b d
  | .nilCollection, .nilCollection => true
  | .nilCollection, .collection hs => equalNList [] hs
  | .collection gs, .nilCollection => equalNList gs []
  | .collection gs, .collection hs => equalNList gs hs
  | _, _ => false
/-- `Collection.Equal`: same length, then `Equal(g, collection[i])` for every member. -/
def equalNList : List (NGeom α) → List (NGeom α) → Bool
  | [], [] => true
  | g :: gs, h :: hs => equalN g h && equalNList gs hs
  | _, _ => false
end

end equal

/-! ### the `Bound()` methods -/

section bound
variable [LT α] [LE α] [DecidableLT α] [DecidableLE α] [Min α] [Max α]

mutual
/-- `Geometry.Bound()`.  For the nil interface there is no method to call (Go panics with a nil
    dereference; `Collection.Bound` tests members for nil before calling): the arm is never used by
    `boundStart` / `boundRest` and returns the sentinel. -/
def boundN (eb : Bound α) : NGeom α → Bound α
  | .nilIface => eb
  | .point p => ⟨p, p⟩
  | .multiPoint ps => multiPointBound eb (ptsOf ps)
  | .lineString ps => multiPointBound eb (ptsOf ps)
  | .ring ps => multiPointBound eb (ptsOf ps)
  | .multiLineString ls => multiLineStringBound eb (ptssOf ls)
  | .polygon rs => polygonBound eb (ptssOf rs)
  | .multiPolygon ps => multiPolygonBound eb (ptsssOf ps)
  | .bound a b => ⟨a, b⟩
  | .nilCollection => eb
  | .collection gs => boundStart eb gs
/-- first loop of `Collection.Bound` (geometry.go:91-97): look for the first non-nil member;
    `emptyBound` when there is none (`len(c) == 0` or `start == -1`) -/
def boundStart (eb : Bound α) : List (NGeom α) → Bound α
  | [] => eb
  | .nilIface :: rest => boundStart eb rest
  | g :: rest => boundRest eb rest (boundN eb g)
/-- second loop (geometry.go:103-109): union the bounds of the remaining non-nil members -/
def boundRest (eb : Bound α) : List (NGeom α) → Bound α → Bound α
  | [], b => b
  | .nilIface :: rest, b => boundRest eb rest b
  | g :: rest, b => boundRest eb rest (b.union (boundN eb g))
end

end bound

/-! ### coordinates -/

def mapPtN {β : Type} (f : α → β) (p : Pt α) : Pt β := ⟨f p.x, f p.y⟩
def mapPts {β : Type} (f : α → β) (a : NPts α) : NPts β := a.map (·.map (mapPtN f))
def mapPtss {β : Type} (f : α → β) (a : NPtss α) : NPtss β := a.map (·.map (mapPts f))
def mapPtsss {β : Type} (f : α → β) (a : NPtsss α) : NPtsss β := a.map (·.map (mapPtss f))

mutual
/-- apply `f` to every coordinate (nil-ness and nesting untouched) -/
def NGeom.map {β : Type} (f : α → β) : NGeom α → NGeom β
  | .nilIface => .nilIface
  | .point p => .point (mapPtN f p)
  | .multiPoint ps => .multiPoint (mapPts f ps)
  | .lineString ps => .lineString (mapPts f ps)
  | .multiLineString ls => .multiLineString (mapPtss f ls)
  | .ring ps => .ring (mapPts f ps)
  | .polygon rs => .polygon (mapPtss f rs)
  | .multiPolygon ps => .multiPolygon (mapPtsss f ps)
  | .bound a b => .bound (mapPtN f a) (mapPtN f b)
  | .nilCollection => .nilCollection
  | .collection gs => .collection (NGeom.mapList f gs)
def NGeom.mapList {β : Type} (f : α → β) : List (NGeom α) → List (NGeom β)
  | [] => []
  | g :: gs => NGeom.map f g :: NGeom.mapList f gs
end

end Orb.CoreNil
