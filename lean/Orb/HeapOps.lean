/-
  Orb.HeapOps — heap-level models of the two packages whose contract is about the caller's MEMORY:

  * `project.Geometry` (project/helpers.go): every helper is a loop `for i := range s { s[i] = proj(s[i]) }`
    that overwrites the caller's slices IN PLACE and returns the very same slice headers
    (points and bounds are Go values / arrays and are returned by value).
  * `clip.Geometry` (clip/helpers.go, clip/clip.go): what is written where, established from the source.
      - `ring()` (behind `clip.Ring`, `Polygon`, `MultiPolygon`, and `Geometry`/`Collection` for those kinds)
        runs four Sutherland–Hodgman passes over two swap buffers: `out` starts as a nil slice and the
        buffers are exchanged after every pass (`in, out = out, in`), each pass beginning with
        `out = out[:0]`.  Hence pass 1 appends into a FRESH array, pass 2 appends into the caller's
        slice re-sliced to `in[:0]` — it overwrites the caller's array from the slice's first element
        up to its CAPACITY (not its length); when the pass emits more vertices than the capacity holds,
        `append` moves to a fresh array and only the first `cap` vertices stay behind in the caller's
        array — pass 3 appends into the array of pass 1, pass 4 again into the buffer pass 2 ended in
        (the caller's array when pass 2 fitted), and the final re-closing `append(out, out[0])` writes
        one more cell if there is room.  The result is either a slice of the caller's array starting at
        the same first element with the same capacity (`in[:n]`), or a fresh array, or nil.
        `nil` is returned as soon as a pass leaves nothing: before pass 2 has written anything, or
        after it has (the argument is then clobbered although nothing is returned).
      - `line()` (behind `clip.LineString`, `MultiLineString`), `clip.MultiPoint`, `clip.Bound` and the
        `Point` case only READ their argument: every output slice is built by `append` onto a nil
        slice.  (The doc comment of `clip.Geometry`, "will modify the input of '1d or 2d geometry'",
        is wrong for 1d geometry.)
      - outer arrays (`[]Ring`, `[]Polygon`, `[]Geometry`, `[]LineString`) are never written by clip:
        results are appended to nil slices / built by a composite literal.

  When no two slices of the argument have overlapping capacity windows (`Sep`) the in-place call
  computes what the value-level model `Orb.Clip.geometry` computes (OrbProofs.C08Heap.clip_denote);
  with overlapping windows — two rings cut from one buffer as `buf[a:b]`, `buf[b:c]`: the first
  one's capacity runs over the second — an earlier member's scratch writes destroy a later member
  before it is clipped (`clip_overlap_hazard`, and seen on the real code in the correspondence run).

  Compared with `Orb.Heap` (whole-array headers, enough for `Clone`), a slice header here carries
  array identity, offset, length and capacity, so that sub-slices, overlapping members and writes
  beyond `len` up to `cap` are all inside the model.  As in `Orb.Heap`, only point arrays have
  identities; the outer arrays are immutable Lean lists (project re-assigns `mls[i] = …` with the
  same header, and a collection's element array receives the projected point / bound VALUES: the
  returned `SGeom` is what the argument's outer arrays hold afterwards.  An outer array shared
  between two members is outside the model.)  Capacities of freshly allocated arrays are not
  modelled (Go's `append` growth policy): a fresh array is recorded with capacity = length; no
  caller-visible effect depends on it (see `ringEffect`).  Core Lean only.
-/
import Orb.Heap
import Orb.Project
import Orb.Clip

namespace Orb.HeapOps
open Orb Orb.Heap Orb.Core

/-- A Go slice header `arr[off : off+len : off+cap]` of a `[]orb.Point`. -/
structure Hdr where
  arr : Nat
  off : Nat
  len : Nat
  cap : Nat
deriving Repr, DecidableEq, Inhabited

/-- A geometry whose point slices are slice headers into a `Store`. -/
inductive SGeom (α : Type) where
  | point (p : Pt α)
  | multiPoint (h : Hdr)
  | lineString (h : Hdr)
  | multiLineString (hs : List Hdr)
  | ring (h : Hdr)
  | polygon (hs : List Hdr)
  | multiPolygon (hss : List (List Hdr))
  | bound (min max : Pt α)
  | collection (gs : List (SGeom α))
deriving Repr, Inhabited

variable {α : Type}

/-- one cell of the heap; `none` outside every array -/
def cell (σ : Store α) (a i : Nat) : Option (Pt α) := (read σ a)[i]?

/-- the elements visible through a header -/
def readH (σ : Store α) (h : Hdr) : List (Pt α) := ((read σ h.arr).drop h.off).take h.len

/-- the header is a legal slice of its array -/
def Hdr.WF (σ : Store α) (h : Hdr) : Prop := h.len ≤ h.cap ∧ h.off + h.cap ≤ (read σ h.arr).length

/-- cell `(a, i)` is one of the `len` elements of `h` -/
def Hdr.covers (h : Hdr) (a i : Nat) : Bool := h.arr == a && decide (h.off ≤ i) && decide (i < h.off + h.len)

/-- cell `(a, i)` lies in the window `h[:cap]` that `append(h[:0], …)` may write -/
def Hdr.inWin (h : Hdr) (a i : Nat) : Bool := h.arr == a && decide (h.off ≤ i) && decide (i < h.off + h.cap)

mutual
/-- The value a sliced geometry has in a store. -/
def denoteS (σ : Store α) : SGeom α → Geom α
  | .point p => .point p
  | .multiPoint h => .multiPoint (readH σ h)
  | .lineString h => .lineString (readH σ h)
  | .multiLineString hs => .multiLineString (hs.map (readH σ))
  | .ring h => .ring (readH σ h)
  | .polygon hs => .polygon (hs.map (readH σ))
  | .multiPolygon hss => .multiPolygon (hss.map fun hs => hs.map (readH σ))
  | .bound a b => .bound a b
  | .collection gs => .collection (denoteSList σ gs)
def denoteSList (σ : Store α) : List (SGeom α) → List (Geom α)
  | [] => []
  | g :: gs => denoteS σ g :: denoteSList σ gs
end

mutual
/-- all slice headers of a value, in traversal order (with repetitions) -/
def hdrs : SGeom α → List Hdr
  | .point _ => []
  | .multiPoint h => [h]
  | .lineString h => [h]
  | .multiLineString hs => hs
  | .ring h => [h]
  | .polygon hs => hs
  | .multiPolygon hss => hss.flatten
  | .bound _ _ => []
  | .collection gs => hdrsList gs
def hdrsList : List (SGeom α) → List Hdr
  | [] => []
  | g :: gs => hdrs g ++ hdrsList gs
end

mutual
/-- the headers of the 2-d members (rings, polygons, multi-polygons): the ones clip may write through -/
def ringHdrs : SGeom α → List Hdr
  | .ring h => [h]
  | .polygon hs => hs
  | .multiPolygon hss => hss.flatten
  | .collection gs => ringHdrsList gs
  | _ => []
def ringHdrsList : List (SGeom α) → List Hdr
  | [] => []
  | g :: gs => ringHdrs g ++ ringHdrsList gs
end

/-- embedding of the whole-array headers of `Orb.Heap` -/
def wholeHdr (σ : Store α) (a : Nat) : Hdr := ⟨a, 0, (read σ a).length, (read σ a).length⟩

mutual
def ofHGeom (σ : Store α) : HGeom α → SGeom α
  | .point p => .point p
  | .multiPoint a => .multiPoint (wholeHdr σ a)
  | .lineString a => .lineString (wholeHdr σ a)
  | .multiLineString as => .multiLineString (as.map (wholeHdr σ))
  | .ring a => .ring (wholeHdr σ a)
  | .polygon as => .polygon (as.map (wholeHdr σ))
  | .multiPolygon ass => .multiPolygon (ass.map fun as => as.map (wholeHdr σ))
  | .bound a b => .bound a b
  | .collection gs => .collection (ofHGeomList σ gs)
def ofHGeomList (σ : Store α) : List (HGeom α) → List (SGeom α)
  | [] => []
  | g :: gs => ofHGeom σ g :: ofHGeomList σ gs
end

/-- `arr[i] = g(arr[i])` on array `a` (no effect outside the heap) -/
def upd (σ : Store α) (a i : Nat) (g : Pt α → Pt α) : Store α :=
  σ.modify a fun arr => arr.modify i g

/-- `n`-fold application -/
def iter {β : Type} (f : β → β) : Nat → β → β
  | 0, x => x
  | n + 1, x => iter f n (f x)

/-- how many header occurrences of `hs` cover cell `(a, i)` -/
def coverCount (hs : List Hdr) (a i : Nat) : Nat := hs.countP (·.covers a i)

/-- no cell is reachable through two header occurrences -/
def NoOverlap (g : SGeom α) : Prop := ∀ a i, coverCount (hdrs g) a i ≤ 1

/-- the capacity windows of two headers share no cell -/
def WinDisj (h1 h2 : Hdr) : Prop := ∀ a i, ¬ (h1.inWin a i = true ∧ h2.inWin a i = true)

/-- no two slices of the argument have overlapping capacity windows -/
def Sep (g : SGeom α) : Prop := (hdrs g).Pairwise WinDisj

/-! ### project/helpers.go -/

/-- `for i := range mp { mp[i] = proj(mp[i]) }` from absolute index `i`, `n` iterations left -/
def projLoop (f : Pt α → Pt α) (a : Nat) : Nat → Nat → Store α → Store α
  | _, 0, σ => σ
  | i, n + 1, σ => projLoop f a (i + 1) n (upd σ a i f)

/-- `project.MultiPoint` / `LineString` / `Ring` on one slice -/
def projHdr (f : Pt α → Pt α) (σ : Store α) (h : Hdr) : Store α := projLoop f h.arr h.off h.len σ

/-- `project.MultiLineString` / `Polygon`: members first to last -/
def projHdrs (f : Pt α → Pt α) : Store α → List Hdr → Store α
  | σ, [] => σ
  | σ, h :: hs => projHdrs f (projHdr f σ h) hs

/-- `project.MultiPolygon` -/
def projHdrss (f : Pt α → Pt α) : Store α → List (List Hdr) → Store α
  | σ, [] => σ
  | σ, hs :: hss => projHdrss f (projHdrs f σ hs) hss

section project
variable [LT α] [LE α] [DecidableLT α] [DecidableLE α] [Min α] [Max α]

mutual
/-- `project.Geometry` on a non-nil value with a pure point function: the store afterwards and the
    returned value (the same headers; points and bounds by value). -/
def projectH (σ : Store α) : SGeom α → (Pt α → Pt α) → Store α × SGeom α
  | .point p, f => (σ, .point (f p))
  | .multiPoint h, f => (projHdr f σ h, .multiPoint h)
  | .lineString h, f => (projHdr f σ h, .lineString h)
  | .multiLineString hs, f => (projHdrs f σ hs, .multiLineString hs)
  | .ring h, f => (projHdr f σ h, .ring h)
  | .polygon hs, f => (projHdrs f σ hs, .polygon hs)
  | .multiPolygon hss, f => (projHdrss f σ hss, .multiPolygon hss)
  | .bound lo hi, f =>
    let bb := Project.boundOf (f lo) (f hi)
    (σ, .bound bb.lo bb.hi)
  | .collection gs, f => let r := projectHList σ gs f; (r.1, .collection r.2)
/-- the loop of `project.Collection` -/
def projectHList (σ : Store α) : List (SGeom α) → (Pt α → Pt α) → Store α × List (SGeom α)
  | [], _ => (σ, [])
  | g :: gs, f =>
    let r := projectH σ g f
    let rs := projectHList r.1 gs f
    (rs.1, r.2 :: rs.2)
end

mutual
/-- the value `project.Geometry` returns, as a function of the argument alone: same headers,
    points and bounds projected -/
def retS (f : Pt α → Pt α) : SGeom α → SGeom α
  | .point p => .point (f p)
  | .bound lo hi => let bb := Project.boundOf (f lo) (f hi); .bound bb.lo bb.hi
  | .collection gs => .collection (retSList f gs)
  | .multiPoint h => .multiPoint h
  | .lineString h => .lineString h
  | .multiLineString hs => .multiLineString hs
  | .ring h => .ring h
  | .polygon hs => .polygon hs
  | .multiPolygon hss => .multiPolygon hss
def retSList (f : Pt α → Pt α) : List (SGeom α) → List (SGeom α)
  | [] => []
  | g :: gs => retS f g :: retSList f gs
end

end project

/-! ### clip/clip.go, clip/helpers.go -/

/-- `append` of `xs`, one element at a time, into cells `i, i+1, …` of array `a` -/
def writeAt (a : Nat) : Nat → List (Pt α) → Store α → Store α
  | _, [], σ => σ
  | i, x :: xs, σ => writeAt a (i + 1) xs (upd σ a i fun _ => x)

/-- `append` onto a nil slice (or past the capacity): a new array at the next unused id -/
def allocH (σ : Store α) (xs : List (Pt α)) : Store α × Hdr :=
  (σ ++ [xs], ⟨σ.length, 0, xs.length, xs.length⟩)

def allocsH : Store α → List (List (Pt α)) → Store α × List Hdr
  | σ, [] => (σ, [])
  | σ, l :: ls =>
    let r := allocH σ l
    let rs := allocsH r.1 ls
    (rs.1, r.2 :: rs.2)

/-- What one call of `ring()` did, as far as the caller's memory can tell. -/
inductive Trace (α : Type) where
  /-- nil (or the empty input itself) before anything was appended into the caller's array:
      empty input, or pass 1 or pass 2 left nothing -/
  | nil0
  /-- nil after pass 2 had appended its output `p2` into `in[:0]`: pass 3 or pass 4 left nothing -/
  | nil2 (p2 : List (Pt α))
  /-- all four passes left something: outputs of pass 2 and pass 4, and the re-closed result -/
  | done (p2 p4 out : List (Pt α))
deriving Repr

/-- the vertex list `ring()` returns -/
def Trace.value : Trace α → List (Pt α)
  | .nil0 => []
  | .nil2 _ => []
  | .done _ _ out => out

section clip
variable [Add α] [Sub α] [Mul α] [Div α] [LT α] [LE α] [DecidableLT α] [DecidableLE α] [BEq α]
  [Min α] [Max α]

/-- the re-closing at the end of `ring()` -/
def closeOut (closed : Bool) (p4 : List (Pt α)) : List (Pt α) :=
  if closed then
    match p4, p4.getLast? with
    | f' :: _, some l' => if Clip.ptEqB f' l' then p4 else p4 ++ [f']
    | _, _ => p4
  else p4

/-- the four passes of `ring()` on the vertex list `inp` (`none` = `panic("no edge??")`, unreachable) -/
def ringTrace (box : Bound α) (inp : List (Pt α)) : Option (Trace α) :=
  match inp with
  | [] => some .nil0
  | f :: _ =>
    let closed := Clip.ptEqB f (inp.getLast?.getD f)
    match Clip.ringPass box 1 closed inp with
    | none => none
    | some p1 =>
    if p1.isEmpty then some .nil0 else
    match Clip.ringPass box 2 closed p1 with
    | none => none
    | some p2 =>
    if p2.isEmpty then some .nil0 else
    match Clip.ringPass box 4 closed p2 with
    | none => none
    | some p3 =>
    if p3.isEmpty then some (.nil2 p2) else
    match Clip.ringPass box 8 closed p3 with
    | none => none
    | some p4 =>
    if p4.isEmpty then some (.nil2 p2) else some (.done p2 p4 (closeOut closed p4))

end clip

/-- The memory effect of `clip.Ring(box, h)` given what the passes produced, and the returned
    header (`none` = nil).  In `ring()` the reading buffer and the writing buffer of a pass are never
    the same array (one of them was allocated by this very call), so a pass is "compute the output
    list, then append it".
    * pass 2 appends `p2` into `h[:0]`: cells `off … off+min(|p2|,cap)-1`;
    * pass 4 appends `p4` into the buffer pass 2 ended in — `h[:0]` again iff `|p2| ≤ cap`;
    * the re-closing appends one more element in place iff there is room;
    * whenever an append runs past `cap` the rest of the call works in fresh memory. -/
def ringEffect (σ : Store α) (h : Hdr) : Trace α → Store α × Option Hdr
  | .nil0 => (σ, none)
  | .nil2 p2 => (writeAt h.arr h.off (p2.take h.cap) σ, none)
  | .done p2 p4 out =>
    let σ2 := writeAt h.arr h.off (p2.take h.cap) σ
    if p2.length ≤ h.cap then
      let σ4 := writeAt h.arr h.off (p4.take h.cap) σ2
      if p4.length ≤ h.cap then
        if out.length ≤ h.cap then
          (writeAt h.arr (h.off + p4.length) (out.drop p4.length) σ4, some { h with len := out.length })
        else let r := allocH σ4 out; (r.1, some r.2)
      else let r := allocH σ4 out; (r.1, some r.2)
    else let r := allocH σ2 out; (r.1, some r.2)

section clip
variable [Add α] [Sub α] [Mul α] [Div α] [LT α] [LE α] [DecidableLT α] [DecidableLE α] [BEq α]
  [Min α] [Max α]

/-- `clip.Ring(box, h)`. -/
def ringH (box : Bound α) (σ : Store α) (h : Hdr) : Option (Store α × Option Hdr) :=
  (ringTrace box (readH σ h)).map (ringEffect σ h)

/-- the loop over the holes in `clip.Polygon` (also used for any list of rings) -/
def holesH (box : Bound α) : Store α → List Hdr → Option (Store α × List Hdr)
  | σ, [] => some (σ, [])
  | σ, h :: hs =>
    match ringH box σ h with
    | none => none
    | some (σ1, r) =>
      match holesH box σ1 hs with
      | none => none
      | some (σ2, rs) => some (σ2, match r with | none => rs | some h' => h' :: rs)

/-- `clip.Polygon`: nil for no rings or a vanished outer ring (the holes are then not touched). -/
def polygonH (box : Bound α) (σ : Store α) : List Hdr → Option (Store α × Option (List Hdr))
  | [] => some (σ, none)
  | outer :: holes =>
    match ringH box σ outer with
    | none => none
    | some (σ1, none) => some (σ1, none)
    | some (σ1, some r) =>
      match holesH box σ1 holes with
      | none => none
      | some (σ2, rs) => some (σ2, some (r :: rs))

/-- `clip.MultiPolygon`. -/
def multiPolygonH (box : Bound α) : Store α → List (List Hdr) → Option (Store α × List (List Hdr))
  | σ, [] => some (σ, [])
  | σ, p :: ps =>
    match polygonH box σ p with
    | none => none
    | some (σ1, r) =>
      match multiPolygonH box σ1 ps with
      | none => none
      | some (σ2, rs) => some (σ2, match r with | none => rs | some p' => p' :: rs)

mutual
/-- `clip.Geometry` on a non-nil value.  Outer `none` = stuck (unreachable); inner `none` = nil. -/
def geometryH (eb box : Bound α) (σ : Store α) : SGeom α → Option (Store α × Option (SGeom α))
  | .point p =>
    if !(box.intersects (Core.bound eb (.point p))) then some (σ, none) else some (σ, some (.point p))
  | .multiPoint h =>
    if !(box.intersects (Core.bound eb (.multiPoint (readH σ h)))) then some (σ, none) else
    (match Clip.multiPoint box (readH σ h) with
     | [] => some (σ, none)
     | [p] => some (σ, some (.point p))
     | l => let r := allocH σ l; some (r.1, some (.multiPoint r.2)))
  | .lineString h =>
    if !(box.intersects (Core.bound eb (.lineString (readH σ h)))) then some (σ, none) else
    (match Clip.line box false (readH σ h) with
     | none => none
     | some [] => some (σ, none)
     | some [l] => let r := allocH σ l; some (r.1, some (.lineString r.2))
     | some ls => let r := allocsH σ ls; some (r.1, some (.multiLineString r.2)))
  | .multiLineString hs =>
    if !(box.intersects (Core.bound eb (.multiLineString (hs.map (readH σ))))) then some (σ, none) else
    (match Clip.multiLineString box false (hs.map (readH σ)) with
     | none => none
     | some [] => some (σ, none)
     | some [l] => let r := allocH σ l; some (r.1, some (.lineString r.2))
     | some ls => let r := allocsH σ ls; some (r.1, some (.multiLineString r.2)))
  | .ring h =>
    if !(box.intersects (Core.bound eb (.ring (readH σ h)))) then some (σ, none) else
    (match ringH box σ h with
     | none => none
     | some (σ1, none) => some (σ1, none)
     | some (σ1, some h') => some (σ1, some (.ring h')))
  | .polygon hs =>
    if !(box.intersects (Core.bound eb (.polygon (hs.map (readH σ))))) then some (σ, none) else
    (match polygonH box σ hs with
     | none => none
     | some (σ1, none) => some (σ1, none)
     | some (σ1, some hs') => some (σ1, some (.polygon hs')))
  | .multiPolygon hss =>
    if !(box.intersects (Core.bound eb (.multiPolygon (hss.map fun hs => hs.map (readH σ))))) then
      some (σ, none) else
    (match multiPolygonH box σ hss with
     | none => none
     | some (σ1, []) => some (σ1, none)
     | some (σ1, [p]) => some (σ1, some (.polygon p))
     | some (σ1, l) => some (σ1, some (.multiPolygon l)))
  | .bound a b =>
    if !(box.intersects ⟨a, b⟩) then some (σ, none) else
    if (⟨a, b⟩ : Bound α).isEmpty then some (σ, none) else   -- `if g.IsEmpty() { return nil }`
    let r := Clip.clipBound box ⟨a, b⟩
    if r.isEmpty then some (σ, none) else some (σ, some (.bound r.lo r.hi))
  | .collection gs =>
    if !(box.intersects (Core.bound eb (.collection (denoteSList σ gs)))) then some (σ, none) else
    (match collectH eb box σ gs with
     | none => none
     | some (σ1, []) => some (σ1, none)
     | some (σ1, [g]) => some (σ1, some g)
     | some (σ1, l) => some (σ1, some (.collection l)))
/-- the loop of `clip.Collection`: members first to last on the store the previous ones left -/
def collectH (eb box : Bound α) (σ : Store α) : List (SGeom α) → Option (Store α × List (SGeom α))
  | [] => some (σ, [])
  | g :: gs =>
    match geometryH eb box σ g with
    | none => none
    | some (σ1, r) =>
      match collectH eb box σ1 gs with
      | none => none
      | some (σ2, rs) => some (σ2, match r with | none => rs | some c => c :: rs)
end

end clip

end Orb.HeapOps
