/-
  Orb.TileGeo — model of the geography half of maptile/tile.go
  (`Fraction`, `At`, `Tile.Bound`, `Tile.Center`) and of
  internal/mercator/mercator.go `ToGeo`.  Core Lean only.

  The code mixes float arithmetic with four libm calls.  The model is polymorphic in the
  number type `α` and takes the two transcendental maps as PARAMETERS (fields of `Env α`):

  * `mercY  : α → α` — latitude ↦ `0.5 + 0.5*math.Log((1+siny)/(1-siny))/(-2*math.Pi)` with
    `siny = math.Sin(lat*math.Pi/180)` (the normalised mercator ordinate, 0 at the top),
  * `latOf  : α → α` — normalised ordinate ↦
    `2.0*math.Atan(math.Exp(math.Pi-(2*math.Pi)*y))*(180.0/math.Pi) - 90.0`,
  * `floorU32 : α → Nat` — the conversion `uint32(f)`,
  * `ofNat : Nat → α` — the conversions `float64(uint32)` / `float64(uint64)`,
  * `latMax : α` — the literal `85.0511`.

  Over an ordered field, with named hypotheses on these symbols, the geography theorems of
  `OrbProofs/C13.lean` are proved.  Over `Float`, `mercYGo` / `latOfGo` below (the Go expressions,
  same operators in the same order) are instantiated with the *values Go's libm returned*
  (a table shipped with every case): the very same definitions then redo the arithmetic of the Go
  code bit for bit (`Driver/C13.lean`).

  Go evaluates `a*b/c` as `(a*b)/c`; constant sub-expressions (`2*math.Pi`, `-2*math.Pi`,
  `180.0/math.Pi`) are folded exactly by the compiler and are therefore separate constants.
  `0.5` is written `1/2` (exact in every instance).
-/
import Orb.Basic
import Orb.Tile

namespace Orb.TileGeo
open Orb Orb.Tile

/-- `orb.Bound` (Min, Max). -/
structure Bnd (α : Type) where
  min : Pt α
  max : Pt α
deriving Repr, BEq, DecidableEq, Inhabited

/-- The transcendental maps and conversions the code goes through. -/
structure Env (α : Type) where
  /-- latitude ↦ normalised mercator ordinate (`Fraction`, unclamped branch) -/
  mercY : α → α
  /-- normalised mercator ordinate ↦ latitude (`mercator.ToGeo`) -/
  latOf : α → α
  /-- `uint32(f)` -/
  floorU32 : α → Nat
  /-- `float64(n)` for an unsigned integer `n` -/
  ofNat : Nat → α
  /-- the literal `85.0511` -/
  latMax : α

/-- Go's libm symbols and the compile-time constants built from `math.Pi`. -/
structure Libm (α : Type) where
  sin : α → α
  log : α → α
  atan : α → α
  exp : α → α
  pi : α
  /-- the constant `2*math.Pi` -/
  twoPi : α
  /-- the constant `180.0/math.Pi` -/
  d180pi : α

section model
variable {α : Type} [Add α] [Sub α] [Mul α] [Div α] [Neg α] [LT α] [DecidableLT α]
  [OfNat α 0] [OfNat α 1] [OfNat α 2] [OfNat α 90] [OfNat α 180] [OfNat α 360]

/-- The unclamped branch of `maptile.Fraction`:
    `siny := math.Sin(ll[1] * math.Pi / 180.0)`;
    `lat := 0.5 + 0.5*math.Log((1.0+siny)/(1.0-siny))/(-2*math.Pi)`. -/
def mercYGo (L : Libm α) (lat : α) : α :=
  let siny := L.sin (lat * L.pi / 180)
  1 / 2 + 1 / 2 * L.log ((1 + siny) / (1 - siny)) / (-L.twoPi)

/-- The latitude expression of `mercator.ToGeo` as a function of `y/maxtiles`:
    `2.0*math.Atan(math.Exp(math.Pi-(2*math.Pi)*(y/maxtiles)))*(180.0/math.Pi) - 90.0`. -/
def latOfGo (L : Libm α) (yn : α) : α :=
  2 * L.atan (L.exp (L.pi - L.twoPi * yn)) * L.d180pi - 90

/-- `factor := uint32(1 << z); maxtiles := float64(factor)` (`Fraction`) and
    `maxtiles := float64(uint32(1 << t.Z))` (`Bound`): a uint32 shift, 0 from zoom 32 on. -/
def maxTiles32 (E : Env α) (z : Nat) : α := E.ofNat (shl32 1 z)

/-- `maxtiles := float64(uint64(1 << level))` (`mercator.ToGeo`): a uint64 shift. -/
def maxTiles64 (E : Env α) (level : Nat) : α := E.ofNat ((2 ^ level) % W64)

/-- `maptile.Fraction(ll, z)`. -/
def fraction (E : Env α) (ll : Pt α) (z : Nat) : Pt α :=
  let maxtiles := maxTiles32 E z
  let lng := ll.x / 360 + 1 / 2
  let px := lng * maxtiles
  let py :=
    if ll.y < -E.latMax then maxtiles - 1
    else if E.latMax < ll.y then 0
    else E.mercY ll.y * maxtiles
  ⟨px, py⟩

/-- `maptile.At(ll, z)`, with the last-column clamp of fix 440399b
    (`if t.X >= max { t.X = max - 1 }`) and the west-edge step-back
    (`if t.X > 0 && ll[0] < 360.0*(float64(t.X)/float64(max)-0.5) { t.X-- }`), both under `max != 0`. -/
def at_ (E : Env α) (ll : Pt α) (z : Nat) : Tile :=
  let f := fraction E ll z
  let x := E.floorU32 f.x
  let y := E.floorU32 f.y
  let max := shl32 1 z
  let x := if max ≠ 0 ∧ x ≥ max then max - 1 else x
  -- `ll[0]/360 + 0.5` is rounded: keep the column consistent with `Bound()`'s west edge
  let x := if max ≠ 0 ∧ x > 0 ∧ ll.x < 360 * (E.ofNat x / E.ofNat max - 1 / 2) then x - 1 else x
  ⟨x, y, z⟩

/-- The longitude expression of `mercator.ToGeo`: `360.0 * (x/maxtiles - 0.5)`. -/
def lonOfX (E : Env α) (level : Nat) (x : α) : α :=
  360 * (x / maxTiles64 E level - 1 / 2)

/-- The latitude of `mercator.ToGeo`: `latOf (y/maxtiles)`. -/
def latOfY (E : Env α) (level : Nat) (y : α) : α :=
  E.latOf (y / maxTiles64 E level)

/-- `mercator.ToGeo(x, y, level)`. -/
def toGeo (E : Env α) (x y : α) (level : Nat) : Pt α :=
  ⟨lonOfX E level x, latOfY E level y⟩

/-- `Tile.Bound(tileBuffer...)`; `buffer` is `0.0` when no argument is given. -/
def bound (E : Env α) (t : Tile) (buffer : α) : Bnd α :=
  let x := E.ofNat t.x
  let y := E.ofNat t.y
  let minx := x - buffer
  let miny := y - buffer
  let miny := if miny < 0 then 0 else miny
  let g1 := toGeo E minx miny t.z
  let maxx := x + 1 + buffer
  let maxtiles := maxTiles32 E t.z
  let maxy := y + 1 + buffer
  let maxy := if maxtiles < maxy then maxtiles else maxy
  let g2 := toGeo E maxx maxy t.z
  ⟨⟨g1.x, g2.y⟩, ⟨g2.x, g1.y⟩⟩

/-- `orb.Bound.Center`. -/
def bndCenter (b : Bnd α) : Pt α :=
  ⟨(b.min.x + b.max.x) / 2, (b.min.y + b.max.y) / 2⟩

/-- `Tile.Center() = t.Bound(0).Center()`. -/
def center (E : Env α) (t : Tile) : Pt α := bndCenter (bound E t 0)

end model

/-! ### spec-side vocabulary -/

section spec
variable {α : Type} [LT α] [LE α]

/-- The point lies in the bound, west and north edges included, east and south edges excluded
    (latitude grows northwards, rows grow southwards): the cell a point is assigned to by `At`. -/
def InCell (b : Bnd α) (p : Pt α) : Prop :=
  b.min.x ≤ p.x ∧ p.x < b.max.x ∧ b.min.y < p.y ∧ p.y ≤ b.max.y

/-- `orb.Bound.Contains` (closed on all four sides). -/
def InBound (b : Bnd α) (p : Pt α) : Prop :=
  b.min.x ≤ p.x ∧ p.x ≤ b.max.x ∧ b.min.y ≤ p.y ∧ p.y ≤ b.max.y

end spec

end Orb.TileGeo
