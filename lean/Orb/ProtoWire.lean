/-
  Orb.ProtoWire — the protobuf WIRE encoding of a Mapbox Vector Tile, byte for byte.

  ENCODER: what `proto.Marshal(vt)` writes for the `vectortile.Tile` built by `mvt.Marshal`,
  i.e. the gogo/protobuf generated `Tile.Marshal` of
  encoding/mvt/vectortile/vector_tile.pb.go (`MarshalToSizedBuffer` of Tile, Tile_Layer,
  Tile_Feature, Tile_Value; `encodeVarintVectorTile`).  The generated code fills a buffer of
  `Size()` bytes from the back; read from the front the bytes are, per message,
    Tile    : layers(3)*
    Layer   : name(1) features(2)* keys(3)* values(4)* extent(5) version(15)
    Feature : id(1)? tags(2, packed)? type(3) geometry(4, packed)?
    Value   : string(1) | float(2) | double(3) | int(4) | uint(5) | sint(6) | bool(7) | nothing
  (`mvt.Marshal` always sets Name, Version, Extent and Type; `id` is written iff the pointer is
  non-nil; a packed field is written iff the slice is non-empty).  `encodeTile` is that byte
  string as a function of the `VTTile` structure of `Orb.MVT`.

  DECODER: what `unmarshalTile` (encoding/mvt/unmarshal.go) reads through
  github.com/paulmach/protoscan v0.2.1 (message.go, scalar.go, iterator.go): `Next` /
  `Skip` / `packedLength` / `varint64` / `varint32` / `Fixed32` / `Fixed64` / `Bool`,
  with the scanner's actual behaviour:
    * a varint of more than 10 (uint64) / 5 (uint32) bytes is ErrIntOverflow, the excess bits
      of the last byte are dropped silently, non-minimal encodings are accepted;
    * the wire type of a KNOWN field is never looked at (the reader for the expected type runs);
    * `Skip` of an unknown field: varint, length-delimited, and fixed 64 / 32 — the latter two
      fail unless MORE than 8 / 4 bytes remain (`len <= Index+8`); wire types 3, 4, 6, 7 skip
      nothing;
    * repeated scalar occurrences: the last one wins; `decodeValueMsg` returns at the first known
      field of a value message and ignores what follows.
  Two things are outside `VTTile` and reported as their own outcome instead of being guessed:
  string fields that are not UTF-8 (`nonUtf8`: Go keeps the bytes, `String` cannot), and a
  geometry field that is not a sequence of well-formed uint32 varints (`geomTail`: orb reads
  that field lazily, so it may or may not notice).

  Every loop of the scanner consumes at least one byte per round; the loops take the number of
  bytes as fuel and running out of fuel is a `panic` of the model (unreachable:
  `decodeTile_total`).  Core Lean only.
-/
import Orb.MVT

namespace Orb.ProtoWire
open Orb Orb.MVT

abbrev Bytes := List UInt8

inductive WErr where
  | wire      -- any error of the scanner (ErrIntOverflow, ErrInvalidLength, io.ErrUnexpectedEOF)
  | geomTail  -- the (last) geometry field is not a sequence of well-formed uint32 varints
  | nonUtf8   -- a string field holds bytes that are not UTF-8
deriving DecidableEq, Repr, Inhabited

abbrev WR := Res WErr

/-! ### varints -/

/-- `encodeVarintVectorTile` / the inlined loops of the packed fields:
    `for v >= 1<<7 { out = uint8(v&0x7f | 0x80); v >>= 7 }; out = uint8(v)`.
    The fuel is the number of rounds a uint64 can take (⌈64/7⌉ = 10). -/
def encodeVarintF : Nat → Nat → Bytes
  | 0, _ => []
  | f+1, v => if v < 128 then [UInt8.ofNat v] else UInt8.ofNat (v % 128 + 128) :: encodeVarintF f (v / 128)

def encodeVarint (v : Nat) : Bytes := encodeVarintF 10 v

/-- protoscan `varint64` / `varint32` (scalar.go): `bits`-wide accumulator; `fuel` rounds are
    left before `shift >= bits` (ErrIntOverflow); an exhausted input is io.ErrUnexpectedEOF;
    `val |= uintN(d&0x7F) << shift` drops the bits shifted out. -/
def varintF (bits : Nat) : Nat → Nat → Nat → Bytes → Option (Nat × Bytes)
  | 0, _, _, _ => none
  | _+1, _, _, [] => none
  | f+1, shift, val, d :: rest =>
    let val := val ||| (((d.toNat &&& 0x7F) <<< shift) % 2^bits)
    if d ≥ 0x80 then varintF bits f (shift + 7) val rest else some (val, rest)

/-- `varint64`: shifts 0, 7, …, 63. -/
def varint64 (bs : Bytes) : Option (Nat × Bytes) := varintF 64 10 0 0 bs
/-- `varint32`: shifts 0, 7, …, 28. -/
def varint32 (bs : Bytes) : Option (Nat × Bytes) := varintF 32 5 0 0 bs

/-! ### zigzag of sint64, two's complement of int64 / int32 -/

/-- `(uint64(v) << 1) ^ uint64(v >> 63)` on an int64 (generated `Tile_Value` marshaller). -/
def zigzag64 (x : BitVec 64) : BitVec 64 := (x <<< 1) ^^^ (x.sshiftRight 63)

/-- protoscan `unZig64`: `int64((v >> 1) ^ uint64((int64(v&1) << 63) >> 63))`. -/
def unzigzag64 (v : BitVec 64) : BitVec 64 := (v >>> 1) ^^^ (((v &&& 1#64) <<< 63).sshiftRight 63)

/-- `uint64(int64 v)` (also `uint64(int32 v)`: sign extension). -/
def u64OfInt (v : Int) : Nat := (BitVec.ofInt 64 v).toNat
/-- `int64(uint64 n)`. -/
def i64OfNat (n : Nat) : Int := (BitVec.ofNat 64 n).toInt
/-- `int32(uint64 n)`. -/
def i32OfNat (n : Nat) : Int := (BitVec.ofNat 32 n).toInt

/-! ### tags, fixed-width values, strings -/

/-- The key of a field: `(field << 3) | wiretype`. -/
def tag (field wt : Nat) : Nat := (field <<< 3) ||| wt

def wtVarint : Nat := 0
def wt64 : Nat := 1
def wtLen : Nat := 2
def wt32 : Nat := 5

/-- `binary.LittleEndian.PutUint32`. -/
def le32 (b : UInt32) : Bytes :=
  let n := b.toNat
  [UInt8.ofNat (n % 256), UInt8.ofNat (n / 2^8 % 256), UInt8.ofNat (n / 2^16 % 256), UInt8.ofNat (n / 2^24 % 256)]

/-- `binary.LittleEndian.PutUint64`. -/
def le64 (b : UInt64) : Bytes :=
  let n := b.toNat
  [UInt8.ofNat (n % 256), UInt8.ofNat (n / 2^8 % 256), UInt8.ofNat (n / 2^16 % 256), UInt8.ofNat (n / 2^24 % 256),
   UInt8.ofNat (n / 2^32 % 256), UInt8.ofNat (n / 2^40 % 256), UInt8.ofNat (n / 2^48 % 256), UInt8.ofNat (n / 2^56 % 256)]

/-- The bytes of a Go string (the model's strings are UTF-8). -/
def utf8 (s : String) : Bytes := s.toUTF8.data.toList

/-- `string(b)`, for bytes that are UTF-8. -/
def ofUtf8? (bs : Bytes) : Option String := String.fromUTF8? ⟨bs.toArray⟩

/-! ### the encoder -/

/-- A varint field: key, value. -/
def vfield (field v : Nat) : Bytes := encodeVarint (tag field wtVarint) ++ encodeVarint v

/-- A length-delimited field: key, length, payload. -/
def lenDelim (field : Nat) (payload : Bytes) : Bytes :=
  encodeVarint (tag field wtLen) ++ encodeVarint payload.length ++ payload

/-- The payload of a packed `repeated uint32`. -/
def packU32 (ws : List W) : Bytes := ws.flatMap fun w => encodeVarint w.toNat

/-- `Tile_Value.MarshalToSizedBuffer` (one field set, or none). -/
def encodeValue : TVal → Bytes
  | .str s => lenDelim 1 (utf8 s)
  | .float b => encodeVarint (tag 2 wt32) ++ le32 b
  | .double b => encodeVarint (tag 3 wt64) ++ le64 b
  | .int v => vfield 4 (u64OfInt v)
  | .uint v => vfield 5 (v % 2^64)
  | .sint v => vfield 6 (zigzag64 (BitVec.ofInt 64 v)).toNat
  | .bool b => encodeVarint (tag 7 wtVarint) ++ [if b then 1 else 0]
  | .empty => []

/-- `Tile_Feature.MarshalToSizedBuffer`: id iff non-nil, tags iff non-empty, type (always set by
    `mvt.Marshal`; `uint64(int32)` sign-extends), geometry iff non-empty. -/
def encodeFeature (f : VTFeature) : Bytes :=
  (match f.id with
   | some n => vfield 1 (n % 2^64)
   | none => []) ++
  (if f.tags.isEmpty then [] else lenDelim 2 (packU32 f.tags)) ++
  vfield 3 (u64OfInt f.gtype) ++
  (if f.geometry.isEmpty then [] else lenDelim 4 (packU32 f.geometry))

/-- `Tile_Layer.MarshalToSizedBuffer`: name, features, keys, values, extent, version. -/
def encodeLayer (l : VTLayer) : Bytes :=
  lenDelim 1 (utf8 l.name) ++
  (l.features.flatMap fun f => lenDelim 2 (encodeFeature f)) ++
  (l.keys.flatMap fun k => lenDelim 3 (utf8 k)) ++
  (l.values.flatMap fun v => lenDelim 4 (encodeValue v)) ++
  vfield 5 (l.extent % 2^32) ++
  vfield 15 (l.version % 2^32)

/-- `Tile.Marshal`. -/
def encodeTile (t : VTTile) : Bytes := t.flatMap fun l => lenDelim 3 (encodeLayer l)

/-- `mvt.Marshal` down to the bytes. -/
def marshalBytes (ls : List Layer) : R Bytes := (marshalVT ls).map encodeTile

/-! ### protoscan -/

/-- `packedLength`: the length varint; negative as an `int`, or past the end of the data, is an
    error (`Index + l` overflowing `int` lands in one of the two). -/
def packedLength (bs : Bytes) : Option (Nat × Bytes) :=
  match varint64 bs with
  | none => none
  | some (l, r) => if 2^63 ≤ l then none else if r.length < l then none else some (l, r)

/-- `Bytes` / `Message` / `MessageData` / `Iterator`: the payload and what follows it. -/
def takeDelim (bs : Bytes) : Option (Bytes × Bytes) :=
  match packedLength bs with
  | none => none
  | some (l, r) => some (r.take l, r.drop l)

/-- `Message.Skip` by wire type. -/
def skip (wt : Nat) (bs : Bytes) : Option Bytes :=
  if wt = 0 then (varint64 bs).map (·.2)
  else if wt = 1 then (if bs.length ≤ 8 then none else some (bs.drop 8))
  else if wt = 2 then (takeDelim bs).map (·.2)
  else if wt = 5 then (if bs.length ≤ 4 then none else some (bs.drop 4))
  else some bs

/-- `Fixed32`. -/
def fixed32 : Bytes → Option (UInt32 × Bytes)
  | b0 :: b1 :: b2 :: b3 :: r =>
    some (UInt32.ofNat (b0.toNat + b1.toNat * 2^8 + b2.toNat * 2^16 + b3.toNat * 2^24), r)
  | _ => none

/-- `Fixed64`. -/
def fixed64 : Bytes → Option (UInt64 × Bytes)
  | b0 :: b1 :: b2 :: b3 :: b4 :: b5 :: b6 :: b7 :: r =>
    some (UInt64.ofNat (b0.toNat + b1.toNat * 2^8 + b2.toNat * 2^16 + b3.toNat * 2^24 +
      b4.toNat * 2^32 + b5.toNat * 2^40 + b6.toNat * 2^48 + b7.toNat * 2^56), r)
  | _ => none

/-- `Bool`: a one-byte value is compared with 1 directly, a longer one is read as a varint. -/
def readBool : Bytes → Option (Bool × Bytes)
  | [] => none
  | d :: r =>
    if d &&& 0x80 = 0 then some (d == 1, r)
    else (varint64 (d :: r)).map fun p => (p.1 == 1, p.2)

/-- `String`. -/
def readString (bs : Bytes) : WR (String × Bytes) :=
  match takeDelim bs with
  | none => .err .wire
  | some (p, r) =>
    match ofUtf8? p with
    | some s => .ok (s, r)
    | none => .err .nonUtf8

/-- `for iter.HasNext() { iter.Uint32() }` over a packed field. -/
def unpackU32F : Nat → Bytes → WR (List W)
  | _, [] => .ok []
  | 0, _ :: _ => .panic "fuel"
  | f+1, b :: bs =>
    match varint32 (b :: bs) with
    | none => .err .wire
    | some (v, r) =>
      match unpackU32F f r with
      | .ok ws => .ok (BitVec.ofNat 32 v :: ws)
      | .err e => .err e
      | .panic s => .panic s

def unpackU32 (bs : Bytes) : WR (List W) := unpackU32F bs.length bs

/-! ### the decoder (unmarshal.go) -/

/-- `decodeValueMsg`: the first known field decides. -/
def decodeValueF : Nat → Bytes → WR TVal
  | _, [] => .ok .empty
  | 0, _ :: _ => .panic "fuel"
  | f+1, b :: bs =>
    match varint64 (b :: bs) with
    | none => .err .wire
    | some (k, r) =>
      let fld := k >>> 3
      if fld = 1 then (match readString r with
        | .ok (s, _) => .ok (.str s) | .err e => .err e | .panic s => .panic s)
      else if fld = 2 then (match fixed32 r with | some (v, _) => .ok (.float v) | none => .err .wire)
      else if fld = 3 then (match fixed64 r with | some (v, _) => .ok (.double v) | none => .err .wire)
      else if fld = 4 then (match varint64 r with | some (v, _) => .ok (.int (i64OfNat v)) | none => .err .wire)
      else if fld = 5 then (match varint64 r with | some (v, _) => .ok (.uint v) | none => .err .wire)
      else if fld = 6 then (match varint64 r with
        | some (v, _) => .ok (.sint (unzigzag64 (BitVec.ofNat 64 v)).toInt) | none => .err .wire)
      else if fld = 7 then (match readBool r with | some (v, _) => .ok (.bool v) | none => .err .wire)
      else match skip (k &&& 7) r with
        | none => .err .wire
        | some r' => decodeValueF f r'

def decodeValue (bs : Bytes) : WR TVal := decodeValueF bs.length bs

/-- State of the field loop of `decoder.Feature`.  `geom` is the data of the LAST geometry field
    (the iterator is only set up in the loop and read later). -/
structure FeatSt where
  id : Option Nat
  tags : List W
  gtype : Int
  geom : Option Bytes
deriving Repr, Inhabited

def FeatSt.init : FeatSt := ⟨none, [], 0, none⟩

/-- The field loop of `decoder.Feature`.  A tags field is read to its end at once (pairs of
    `Uint32`); an odd number of words is `io.ErrUnexpectedEOF` — here that is raised when a later
    tags field replaces an odd one, and for the last one by `MVT.decodeTags`. -/
def featLoop : Nat → Bytes → FeatSt → WR FeatSt
  | _, [], st => .ok st
  | 0, _ :: _, _ => .panic "fuel"
  | f+1, b :: bs, st =>
    match varint64 (b :: bs) with
    | none => .err .wire
    | some (k, r) =>
      let fld := k >>> 3
      if fld = 1 then (match varint64 r with
        | some (v, r') => featLoop f r' { st with id := some v }
        | none => .err .wire)
      else if fld = 2 then (match takeDelim r with
        | none => .err .wire
        | some (p, r') =>
          if st.tags.length % 2 = 1 then .err .wire else
          match unpackU32 p with
          | .ok ws => featLoop f r' { st with tags := ws }
          | .err _ => .err .wire
          | .panic s => .panic s)
      else if fld = 3 then (match varint64 r with
        | some (v, r') => featLoop f r' { st with gtype := i32OfNat v }
        | none => .err .wire)
      else if fld = 4 then (match takeDelim r with
        | some (p, r') => featLoop f r' { st with geom := some p }
        | none => .err .wire)
      else match skip (k &&& 7) r with
        | none => .err .wire
        | some r' => featLoop f r' st

/-- One feature message → `Tile_Feature`. -/
def decodeFeatureMsg (bs : Bytes) : WR VTFeature :=
  match featLoop bs.length bs FeatSt.init with
  | .ok st =>
    (match st.geom with
     | none => .ok { id := st.id, tags := st.tags, gtype := st.gtype, geometry := [] }
     | some p =>
       match unpackU32 p with
       | .ok ws => .ok { id := st.id, tags := st.tags, gtype := st.gtype, geometry := ws }
       | .err _ => .err .geomTail
       | .panic s => .panic s)
  | .err e => .err e
  | .panic s => .panic s

def decodeFeatureMsgs : List Bytes → WR (List VTFeature)
  | [] => .ok []
  | m :: ms =>
    match decodeFeatureMsg m with
    | .ok f =>
      (match decodeFeatureMsgs ms with
       | .ok fs => .ok (f :: fs)
       | .err e => .err e
       | .panic s => .panic s)
    | .err e => .err e
    | .panic s => .panic s

/-- State of the field loop of `decoder.Layer` (`d.features` keeps the raw messages). -/
structure LayerSt where
  name : String
  version : Nat
  extent : Nat
  keys : List String
  values : List TVal
  feats : List Bytes
deriving Repr, Inhabited

/-- `Default_Tile_Layer_Version`, `Default_Tile_Layer_Extent`. -/
def LayerSt.init : LayerSt := ⟨"", defaultVersion, defaultExtent, [], [], []⟩

def layerLoop : Nat → Bytes → LayerSt → WR LayerSt
  | _, [], st => .ok st
  | 0, _ :: _, _ => .panic "fuel"
  | f+1, b :: bs, st =>
    match varint64 (b :: bs) with
    | none => .err .wire
    | some (k, r) =>
      let fld := k >>> 3
      if fld = 15 then (match varint32 r with
        | some (v, r') => layerLoop f r' { st with version := v }
        | none => .err .wire)
      else if fld = 1 then (match readString r with
        | .ok (s, r') => layerLoop f r' { st with name := s }
        | .err e => .err e
        | .panic s => .panic s)
      else if fld = 2 then (match takeDelim r with
        | some (p, r') => layerLoop f r' { st with feats := st.feats ++ [p] }
        | none => .err .wire)
      else if fld = 3 then (match readString r with
        | .ok (s, r') => layerLoop f r' { st with keys := st.keys ++ [s] }
        | .err e => .err e
        | .panic s => .panic s)
      else if fld = 4 then (match takeDelim r with
        | none => .err .wire
        | some (p, r') =>
          match decodeValue p with
          | .ok v => layerLoop f r' { st with values := st.values ++ [v] }
          | .err e => .err e
          | .panic s => .panic s)
      else if fld = 5 then (match varint32 r with
        | some (v, r') => layerLoop f r' { st with extent := v }
        | none => .err .wire)
      else match skip (k &&& 7) r with
        | none => .err .wire
        | some r' => layerLoop f r' st

/-- One layer message → `Tile_Layer`: the field loop, then every stored feature message. -/
def decodeLayerMsg (bs : Bytes) : WR VTLayer :=
  match layerLoop bs.length bs LayerSt.init with
  | .ok st =>
    (match decodeFeatureMsgs st.feats with
     | .ok fs => .ok { name := st.name, version := st.version, extent := st.extent,
                       keys := st.keys, values := st.values, features := fs }
     | .err e => .err e
     | .panic s => .panic s)
  | .err e => .err e
  | .panic s => .panic s

/-- The field loop of `unmarshalTile`. -/
def tileLoop : Nat → Bytes → List VTLayer → WR VTTile
  | _, [], acc => .ok acc
  | 0, _ :: _, _ => .panic "fuel"
  | f+1, b :: bs, acc =>
    match varint64 (b :: bs) with
    | none => .err .wire
    | some (k, r) =>
      if k >>> 3 = 3 then (match takeDelim r with
        | none => .err .wire
        | some (p, r') =>
          match decodeLayerMsg p with
          | .ok l => tileLoop f r' (acc ++ [l])
          | .err e => .err e
          | .panic s => .panic s)
      else match skip (k &&& 7) r with
        | none => .err .wire
        | some r' => tileLoop f r' acc

/-- The wire part of `unmarshalTile`: bytes → tile structure. -/
def decodeTile (bs : Bytes) : WR VTTile := tileLoop bs.length bs []

/-- `mvt.Unmarshal` on bytes: the scanner, the decoders of `Orb.MVT` on the structure, and the
    gzip-magic test on the way out. -/
def unmarshalBytesWith (ori : List (Pt Int) → Int) (data : Bytes) : R (List DLayer) :=
  unmarshalTop data <|
    match decodeTile data with
    | .ok t => (unmarshalVTWith ori t).1
    | .err _ => .err .wire
    | .panic s => .panic s

def unmarshalBytes (data : Bytes) : R (List DLayer) := unmarshalBytesWith oriInt data

/-! ### well-formedness of a tile structure (what the Go types can hold) -/

def valueFits : TVal → Bool
  | .int v => decide (-(2^63 : Int) ≤ v ∧ v < (2^63 : Int))
  | .uint v => decide (v < 2^64)
  | .sint v => decide (-(2^63 : Int) ≤ v ∧ v < (2^63 : Int))
  | _ => true

def featureFits (f : VTFeature) : Bool :=
  (match f.id with | some n => decide (n < 2^64) | none => true) &&
  decide (-(2^31 : Int) ≤ f.gtype ∧ f.gtype < (2^31 : Int))

def layerFits (l : VTLayer) : Bool :=
  decide (l.version < 2^32) && decide (l.extent < 2^32) && l.values.all valueFits && l.features.all featureFits

/-- Every number fits its Go type (uint32 version / extent, uint64 id, int32 type, int64 / uint64
    values) … -/
def tileFits (t : VTTile) : Bool := t.all layerFits

/-- … and the encoding fits an `int` length (2^63 bytes). -/
def WFTile (t : VTTile) : Prop := tileFits t = true ∧ (encodeTile t).length < 2^63

instance (t : VTTile) : Decidable (WFTile t) := by unfold WFTile; exact inferInstance

/-- What the Go types of the INPUT of `mvt.Marshal` can hold: uint32 version / extent, ids
    within int64 / uint64, integer property values within their 64-bit types. -/
def idFits : IdVal → Bool
  | .int v => decide (v < (2^63 : Int))
  | .uint v => decide (v < 2^64)
  | _ => true

def pvalFits : PVal → Bool
  | .sint _ v => decide (-(2^63 : Int) ≤ v ∧ v < (2^63 : Int))
  | .uint _ v => decide (v < 2^64)
  | _ => true

def inputFits (ls : List Layer) : Bool :=
  ls.all fun l => decide (l.version < 2^32) && decide (l.extent < 2^32) &&
    l.features.all fun f => idFits f.id && f.props.all fun p => pvalFits p.2

end Orb.ProtoWire
