/-
  Orb.Proto — the line protocol shared by the Go harness and the Lean driver.

  A case is one line of space-separated tokens:
      <prop> <op> <input tokens…> => <implementation outcome tokens…>
  Coordinates travel as 16-hex-digit float64 bit patterns.  Geometry values
  are written in prefix form with explicit counts:

      nil | nMP | nLS | nMLS | nR | nPG | nMPG | nC          (nil interface / typed nil slices)
      P x y | MP n (x y)* | LS n (x y)* | R n (x y)*
      MLS k (n (x y)*)* | PG k (n (x y)*)* | MPG j (k (n (x y)*)*)*
      B x y x y | C k geom*

  This file is parser/printer glue (trusted harness code, not used in proofs).
-/
import Orb.Basic

namespace Orb.Proto
open Orb

abbrev Toks := List String

/-- Parser monad over a token list. -/
abbrev P (α : Type) := Toks → Option (α × Toks)

def tok : P String
  | [] => none
  | t :: ts => some (t, ts)

def nat : P Nat := fun ts =>
  match ts with
  | [] => none
  | t :: ts => t.toNat?.map (·, ts)

def int : P Int := fun ts =>
  match ts with
  | [] => none
  | t :: ts => t.toInt?.map (·, ts)

def bits : P UInt64 := fun ts =>
  match ts with
  | [] => none
  | t :: ts => (hexToNat? t).map (fun n => (UInt64.ofNat n, ts))

def pt : P (Pt UInt64) := fun ts => do
  let (x, ts) ← bits ts
  let (y, ts) ← bits ts
  pure (⟨x, y⟩, ts)

def many {α} (p : P α) : Nat → P (List α)
  | 0 => fun ts => some ([], ts)
  | n+1 => fun ts => do
    let (a, ts) ← p ts
    let (as, ts) ← many p n ts
    pure (a :: as, ts)

/-- a counted list; the count token `n` marks a nil slice below the top level (read as empty: the
    models do not distinguish nil from empty members, the code has to treat both alike) -/
def counted {α} (p : P α) : P (List α) := fun ts =>
  match ts with
  | "n" :: ts => some ([], ts)
  | _ => do
    let (n, ts) ← nat ts
    many p n ts

def pts : P (List (Pt UInt64)) := counted pt
def ptss : P (List (List (Pt UInt64))) := counted pts
def ptsss : P (List (List (List (Pt UInt64)))) := counted ptss

partial def geom : P (Geom UInt64) := fun ts =>
  match ts with
  | "P" :: ts => (pt ts).map fun (p, ts) => (.point p, ts)
  | "MP" :: ts => (pts ts).map fun (p, ts) => (.multiPoint p, ts)
  | "LS" :: ts => (pts ts).map fun (p, ts) => (.lineString p, ts)
  | "R" :: ts => (pts ts).map fun (p, ts) => (.ring p, ts)
  | "MLS" :: ts => (ptss ts).map fun (p, ts) => (.multiLineString p, ts)
  | "PG" :: ts => (ptss ts).map fun (p, ts) => (.polygon p, ts)
  | "MPG" :: ts => (ptsss ts).map fun (p, ts) => (.multiPolygon p, ts)
  | "B" :: ts => do
    let (a, ts) ← pt ts
    let (b, ts) ← pt ts
    pure (.bound a b, ts)
  | "C" :: ts => do
    let (n, ts) ← nat ts
    let rec go : Nat → Toks → Option (List (Geom UInt64) × Toks)
      | 0, ts => some ([], ts)
      | n+1, ts => do
        let (g, ts) ← geom ts
        let (gs, ts) ← go n ts
        pure (g :: gs, ts)
    let (gs, ts) ← go n ts
    pure (.collection gs, ts)
  -- typed nil slices as MEMBERS of a collection: the empty value of the kind
  | "nMP" :: ts => some (.multiPoint [], ts)
  | "nLS" :: ts => some (.lineString [], ts)
  | "nMLS" :: ts => some (.multiLineString [], ts)
  | "nR" :: ts => some (.ring [], ts)
  | "nPG" :: ts => some (.polygon [], ts)
  | "nMPG" :: ts => some (.multiPolygon [], ts)
  | "nC" :: ts => some (.collection [], ts)
  | _ => none

def gval : P (GVal UInt64) := fun ts =>
  match ts with
  | "nil" :: ts => some (.nilIface, ts)
  | "nMP" :: ts => some (.nilSlice .multiPoint, ts)
  | "nLS" :: ts => some (.nilSlice .lineString, ts)
  | "nMLS" :: ts => some (.nilSlice .multiLineString, ts)
  | "nR" :: ts => some (.nilSlice .ring, ts)
  | "nPG" :: ts => some (.nilSlice .polygon, ts)
  | "nMPG" :: ts => some (.nilSlice .multiPolygon, ts)
  | "nC" :: ts => some (.nilSlice .collection, ts)
  | ts => (geom ts).map fun (g, ts) => (.val g, ts)

/-! ### printing -/

def showBits (b : UInt64) : String := natToHex b.toNat 16
def showPt (p : Pt UInt64) : String := showBits p.x ++ " " ++ showBits p.y
def showPts (ps : List (Pt UInt64)) : String :=
  ps.foldl (fun s p => s ++ " " ++ showPt p) (toString ps.length)
def showPtss (l : List (List (Pt UInt64))) : String :=
  l.foldl (fun s p => s ++ " " ++ showPts p) (toString l.length)
def showPtsss (l : List (List (List (Pt UInt64)))) : String :=
  l.foldl (fun s p => s ++ " " ++ showPtss p) (toString l.length)

partial def showGeom : Geom UInt64 → String
  | .point p => "P " ++ showPt p
  | .multiPoint p => "MP " ++ showPts p
  | .lineString p => "LS " ++ showPts p
  | .ring p => "R " ++ showPts p
  | .multiLineString p => "MLS " ++ showPtss p
  | .polygon p => "PG " ++ showPtss p
  | .multiPolygon p => "MPG " ++ showPtsss p
  | .bound a b => "B " ++ showPt a ++ " " ++ showPt b
  | .collection gs => gs.foldl (fun s g => s ++ " " ++ showGeom g) ("C " ++ toString gs.length)

def showKindNil : Kind → String
  | .multiPoint => "nMP" | .lineString => "nLS" | .multiLineString => "nMLS" | .ring => "nR"
  | .polygon => "nPG" | .multiPolygon => "nMPG" | .collection => "nC"
  | .point => "P?" | .bound => "B?"

def showGVal : GVal UInt64 → String
  | .nilIface => "nil"
  | .nilSlice k => showKindNil k
  | .val g => showGeom g

/-! ### mapping coordinates -/

def mapPt {α β} (f : α → β) (p : Pt α) : Pt β := ⟨f p.x, f p.y⟩

partial def mapGeom {α β} (f : α → β) : Geom α → Geom β
  | .point p => .point (mapPt f p)
  | .multiPoint p => .multiPoint (p.map (mapPt f))
  | .lineString p => .lineString (p.map (mapPt f))
  | .ring p => .ring (p.map (mapPt f))
  | .multiLineString p => .multiLineString (p.map (·.map (mapPt f)))
  | .polygon p => .polygon (p.map (·.map (mapPt f)))
  | .multiPolygon p => .multiPolygon (p.map (·.map (·.map (mapPt f))))
  | .bound a b => .bound (mapPt f a) (mapPt f b)
  | .collection gs => .collection (gs.map (mapGeom f))

def mapGVal {α β} (f : α → β) : GVal α → GVal β
  | .nilIface => .nilIface
  | .nilSlice k => .nilSlice k
  | .val g => .val (mapGeom f g)

/-- All coordinates of a geometry, as a flat list (for "is this an integer case" tests). -/
partial def coords {α} : Geom α → List α
  | .point p => [p.x, p.y]
  | .multiPoint p | .lineString p | .ring p => p.flatMap fun q => [q.x, q.y]
  | .multiLineString p | .polygon p => p.flatMap fun l => l.flatMap fun q => [q.x, q.y]
  | .multiPolygon p => p.flatMap fun pg => pg.flatMap fun l => l.flatMap fun q => [q.x, q.y]
  | .bound a b => [a.x, a.y, b.x, b.y]
  | .collection gs => gs.flatMap coords

/-- Split a case line at the `=>` token. -/
def splitArrow (ts : Toks) : Toks × Toks :=
  let l := ts.takeWhile (· != "=>")
  let r := (ts.dropWhile (· != "=>")).drop 1
  (l, r)

def splitLine (s : String) : Toks :=
  (s.splitOn " ").filter (· != "")

end Orb.Proto
