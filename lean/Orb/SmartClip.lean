/-
  Orb.SmartClip — model of clip/smartclip/smart.go and clip/smartclip/around_bound.go.
  Core Lean only, polymorphic in the coordinate type (Float twin / exact Rat / ordered field in the
  proofs).  The open-bound line clipper is `Orb.Clip.line box true` (model of clip/clip.go).

  Conventions
  * `Res String β`: `.ok v` = the Go value, `.panic why` = a Go panic (explicit `panic(...)` or an
    index out of range), `.err why` = the MODEL ran out of fuel / the clip model got stuck — never
    produced by the Go code.  Over an EXACT ordered field that neither occurs for a box of positive area
    and a valid orientation is a theorem (`geometry_total`, `aroundBound_total`, `smartWrap_total` in
    OrbProofs/C16.lean); the clip loop itself cannot get stuck in ANY arithmetic since /repo 2c23ded
    (`Clip.line_total_any`; before that fix the Go loop did not terminate at `Float` for a vertex on a
    corner of a general-position box and the twin answered `.err "clip stuck"`).
  * a nil slice and an empty slice are both `[]` (smartclip never returns an empty non-nil value).
  * orientations are Go's `orb.Orientation` values: `CCW = 1`, `CW = -1`.
  * the tables `nexts[CW]`, `nexts[CCW]` (`[11]int` literals), the `pointFor` switch and `pointSide`
    are transcribed by hand from around_bound.go / smart.go (they are unexported); `nexts` and
    `pointFor` are proved equal to the tables factgen regenerates from the Go source
    (`nexts_generated`, `pointFor_generated` in OrbProofs/C16.lean), and all of them are tied to the
    code behaviourally by the `arc` correspondence stream (all 8×8 side/corner pairs, both orientations).
  * `sort.Sort` is modelled as the insertion sort Go runs for `Len() ≤ 12`
    (`for i:=1;i<n;i++ { for j:=i; j>0 && Less(j,j-1); j-- { Swap(j,j-1) } }`), with the same `Less`
    (coincident endpoints are ordered by the cross product of their edge directions; the `≥`
    comparisons on sides 1 and 4 are kept as written) and the same `Swap` (which re-points
    `OtherEnd`).  For more than 12 endpoints Go switches to pdqsort; the result is the same whenever
    no two endpoints tie under `Less` (then `Less` is a strict total order).
  * the model is of the code AFTER the four repairs this property led to (/repo 86acb69, 5358bae,
    9b9a9e0, 1a86e66): `MultiPolygon` returns its input whole only when every outer ring is inside;
    `clipRings` re-joins whenever `r[0] == r[len(r)-1]` and drops zero-length boundary pieces;
    `Before` of a start endpoint is `ls[1]`; `Less` orders coincident endpoints by cross product.
  * fix C16-5: `smartWrap` remembers the index of the piece the ring under construction began with
    (`WrapSt.first`) and takes the loop for complete only at THAT piece's start (`ep.Index == first &&
    ep.Point.Equal(current[0])`): the start of another piece in the same point (a hole touching the shell
    on the box side) is stitched in, not mistaken for the end of the loop.
-/
import Orb.Basic
import Orb.Core
import Orb.Clip

namespace Orb.SmartClip
open Orb Orb.Core

/-! ### tables (around_bound.go) -/

/-- `orb.CCW` -/
def CCW : Int := 1
/-- `orb.CW` -/
def CW : Int := -1

/-- `nexts[orb.CW]` -/
def nextsCW : List Int := [-1, 9, 6, -1, 5, 1, 4, -1, 10, 8, 2]
/-- `nexts[orb.CCW]` -/
def nextsCCW : List Int := [-1, 5, 10, -1, 6, 4, 2, -1, 9, 1, 8]

/-- `nexts[o]` (a missing map key gives the zero array) -/
def nexts (o : Int) : List Int :=
  if o == CW then nextsCW else if o == CCW then nextsCCW else List.replicate 11 0

/-- `next[current]` with Go's bounds check -/
def nextAt (tbl : List Int) (c : Int) : Res String Int :=
  if c < 0 then .panic "index out of range" else
  match tbl[c.toNat]? with
  | some v => .ok v
  | none => .panic "index out of range"

/-- `const notOnSide = 0xFF` -/
def notOnSide : Nat := 255

section model
variable {α : Type} [Add α] [Sub α] [Mul α] [Div α] [LT α] [LE α] [DecidableLT α] [DecidableLE α] [BEq α]
  [OfNat α 0] [OfNat α 2]

/-- smartclip's own `bitCodeOpen` (same text as clip's, literal bit values): on the boundary is outside -/
def bitCodeOpen (b : Bound α) (p : Pt α) : Nat :=
  (if p.x ≤ b.lo.x then 1 else if p.x ≥ b.hi.x then 2 else 0) |||
  (if p.y ≤ b.lo.y then 4 else if p.y ≥ b.hi.y then 8 else 0)

/-- `pointSide`: 4 top, 2 bottom, 3 right, 1 left, tested in that order -/
def pointSide (b : Bound α) (p : Pt α) : Nat :=
  if p.y == b.hi.y then 4
  else if p.y == b.lo.y then 2
  else if p.x == b.hi.x then 3
  else if p.x == b.lo.x then 1
  else notOnSide

/-- `pointFor`: representative point of a side (its midpoint) or corner -/
def pointFor (b : Bound α) (code : Int) : Res String (Pt α) :=
  if code == 1 then .ok ⟨b.lo.x, (b.hi.y + b.lo.y) / 2⟩
  else if code == 2 then .ok ⟨b.hi.x, (b.hi.y + b.lo.y) / 2⟩
  else if code == 4 then .ok ⟨(b.hi.x + b.lo.x) / 2, b.lo.y⟩
  else if code == 5 then .ok ⟨b.lo.x, b.lo.y⟩
  else if code == 6 then .ok ⟨b.hi.x, b.lo.y⟩
  else if code == 8 then .ok ⟨(b.hi.x + b.lo.x) / 2, b.hi.y⟩
  else if code == 9 then .ok ⟨b.lo.x, b.hi.y⟩
  else if code == 10 then .ok ⟨b.hi.x, b.hi.y⟩
  else .panic "invalid code"

/-! ### endpoints and their order (smart.go) -/

/-- `type endpoint struct` -/
structure Endpoint (α : Type) where
  point : Pt α
  start : Bool
  used : Bool
  side : Nat
  index : Nat
  otherEnd : Nat
deriving Repr, Inhabited

/-- `endpoint.Before`: the vertex next to the endpoint on its piece — `ls[1]` for a start,
    `ls[len(ls)-2]` for an end -/
def before (mls : List (List (Pt α))) (e : Endpoint α) : Res String (Pt α) :=
  match mls[e.index]? with
  | none => .panic "index out of range"
  | some ls =>
    if e.start then
      match ls[1]? with
      | some p => .ok p
      | none => .panic "index out of range"
    else if ls.length < 2 then .panic "index out of range"
    else
      match ls[ls.length - 2]? with
      | some p => .ok p
      | none => .panic "index out of range"

/-- `sortableEndpoints.Less` on two endpoint records -/
def lessE (mls : List (List (Pt α))) (a b : Endpoint α) : Res String Bool :=
  if a.side != b.side then .ok (decide (a.side < b.side))
  else if a.side != notOnSide && Core.ptEq a.point b.point then do
    -- coincident endpoints: by the direction of the attached edges, in the order a
    -- counter-clockwise walk of the bound meets them
    let p := a.point
    let na ← before mls a
    let nb ← before mls b
    pure (decide ((na.x - p.x) * (nb.y - p.y) - (na.y - p.y) * (nb.x - p.x) < 0))
  else if a.side == 1 then
    if a.point.y != b.point.y then .ok (decide (a.point.y ≥ b.point.y))
    else do
      let ba ← before mls a
      let bb ← before mls b
      pure (decide (ba.y ≥ bb.y))
  else if a.side == 2 then
    if a.point.x != b.point.x then .ok (decide (a.point.x < b.point.x))
    else do
      let ba ← before mls a
      let bb ← before mls b
      pure (decide (ba.x < bb.x))
  else if a.side == 3 then
    if a.point.y != b.point.y then .ok (decide (a.point.y < b.point.y))
    else do
      let ba ← before mls a
      let bb ← before mls b
      pure (decide (ba.y < bb.y))
  else if a.side == 4 then
    if a.point.x != b.point.x then .ok (decide (a.point.x ≥ b.point.x))
    else do
      let ba ← before mls a
      let bb ← before mls b
      pure (decide (ba.x ≥ bb.x))
  else .panic "unreachable"

/-- `Less(i, j)` of `sortableEndpoints`, or of `sort.Reverse` of it when `rev` -/
def lessIdx (mls : List (List (Pt α))) (rev : Bool) (eps : List (Endpoint α)) (i j : Nat) : Res String Bool :=
  match eps[i]?, eps[j]? with
  | some a, some b => if rev then lessE mls b a else lessE mls a b
  | _, _ => .panic "index out of range"

/-- `sortableEndpoints.Swap(i, j)`: first `eps[eps[i].OtherEnd].OtherEnd = j`, then
    `eps[eps[j].OtherEnd].OtherEnd = i` (in this order), then the two slots are exchanged. -/
def swapE (eps : List (Endpoint α)) (i j : Nat) : List (Endpoint α) :=
  match eps[i]?, eps[j]? with
  | some a, some b =>
    let e1 := eps.modify a.otherEnd fun e => { e with otherEnd := j }
    let e2 := e1.modify b.otherEnd fun e => { e with otherEnd := i }
    match e2[i]?, e2[j]? with
    | some a', some b' => (e2.set i b').set j a'
    | _, _ => e2
  | _, _ => eps

/-- inner loop of Go's insertion sort: `for j := i; j > 0 && Less(j, j-1); j-- { Swap(j, j-1) }` -/
def sortInner (mls : List (List (Pt α))) (rev : Bool) : Nat → List (Endpoint α) → Res String (List (Endpoint α))
  | 0, eps => .ok eps
  | j+1, eps => do
    let b ← lessIdx mls rev eps (j+1) j
    if b then sortInner mls rev j (swapE eps (j+1) j) else pure eps

/-- `sort.Sort` (insertion sort, see the header) of the endpoint slice -/
def sortE (mls : List (List (Pt α))) (rev : Bool) (eps : List (Endpoint α)) : Res String (List (Endpoint α)) :=
  (List.range' 1 (eps.length - 1)).foldlM (fun e i => sortInner mls rev i e) eps

/-! ### aroundBound (around_bound.go) -/

/-- `for target != current { in = append(in, pointFor(box, current)); current = next[current] }` -/
def aroundLoop (box : Bound α) (tbl : List Int) (target : Int) :
    Nat → Int → List (Pt α) → Res String (List (Pt α))
  | 0, _, _ => .err "fuel"
  | fuel+1, current, acc =>
    if target == current then .ok acc
    else do
      let p ← pointFor box current
      let c ← nextAt tbl current
      aroundLoop box tbl target fuel c (acc ++ [p])

/-- `aroundBound(box, in, o)`: connect the last point of `in` to its first around the box edge in
    direction `o`, appending corner / side points and finally the first point. -/
def aroundBound (box : Bound α) (inp : List (Pt α)) (o : Int) : Res String (List (Pt α)) :=
  if o != CCW && o != CW then .panic "invalid orientation" else
  match inp, inp.getLast? with
  | f :: _, some l =>
    let next := nexts o
    let target : Int := bitCodeOpen box f
    let current : Int := bitCodeOpen box l
    if target == 0 || current == 0 then .panic "endpoints must be outside bound" else do
    -- endpoints along one edge: which comes first decides between "connect" and "all the way round"
    let early ← (if current == target then do
        let points : List (Endpoint α) :=
          [ { point := f, start := true, used := false, side := pointSide box f, index := 0, otherEnd := 0 },
            { point := l, start := false, used := false, side := pointSide box l, index := 0, otherEnd := 0 } ]
        let sorted ← sortE [inp] (o != CCW) points
        match sorted with
        | p0 :: _ => pure (!p0.start)
        | [] => pure false
      else pure false : Res String Bool)
    if early then
      (if !(Core.ptEq f l) then pure (inp ++ [f]) else pure inp)
    else do
      let c ← nextAt next current
      let out ← aroundLoop box next target 16 c inp
      pure (out ++ [f])
  | _, _ => .ok []

/-! ### clipRings (smart.go) -/

/-- `Ring.Closed()` -/
def ringClosed (r : List (Pt α)) : Bool :=
  decide (r.length ≥ 4) &&
    (match r.head?, r.getLast? with
     | some f, some l => Core.ptEq f l
     | _, _ => false)

/-- `end[0] == box.Min[0] || box.Max[0] == end[0] || end[1] == box.Min[1] || box.Max[1] == end[1]` -/
def onBoundary (box : Bound α) (p : Pt α) : Bool :=
  p.x == box.lo.x || box.hi.x == p.x || p.y == box.lo.y || box.hi.y == p.y

/-- inner `for j := 0; j < len(out); j++` of the re-joining loop.  A match appends `out[j][1:]` to
    `out[i]`, DECREMENTS `i`, moves the last piece into slot `j` and shrinks `out`; the loop then goes
    on with the next `j` and the old `end` (a second match would use the decremented `i`). -/
def joinInner (end_ : Pt α) : Nat → List (List (Pt α)) → Int → Nat → Res String (List (List (Pt α)) × Int)
  | 0, _, _, _ => .err "fuel"
  | fuel+1, out, i, j =>
    if j ≥ out.length then .ok (out, i)
    else if i == (j : Int) then joinInner end_ fuel out i (j+1)
    else
      match out[j]? with
      | some (h :: tl) =>
        if Core.ptEq h end_ then
          if i < 0 ∨ i ≥ (out.length : Int) then .panic "index out of range"
          else
            let out1 := out.modify i.toNat (· ++ tl)
            let last := out1.getLast?.getD []
            let out2 := (out1.set j last).dropLast
            joinInner end_ fuel out2 (i - 1) (j+1)
        else joinInner end_ fuel out i (j+1)
      | some [] => .panic "index out of range"
      | none => .ok (out, i)

/-- outer `for i := 0; i < len(out); i++` of the re-joining loop -/
def joinOuter (box : Bound α) : Nat → List (List (Pt α)) → Int → Res String (List (List (Pt α)))
  | 0, _, _ => .err "fuel"
  | fuel+1, out, i =>
    if i ≥ (out.length : Int) then .ok out
    else if i < 0 then .panic "index out of range"
    else
      match out[i.toNat]? with
      | none => .ok out
      | some piece =>
        match piece.getLast? with
        | none => .panic "index out of range"
        | some e =>
          if onBoundary box e then joinOuter box fuel out (i + 1)
          else do
            let (out', i') ← joinInner e (out.length + 1) out i 0
            joinOuter box fuel out' (i' + 1)

/-- the body of `for _, r := range rings` in `clipRings`: implicit closing, open-bound clip, re-joining -/
def clipOne (box : Bound α) (r : List (Pt α)) : Res String (List (List (Pt α))) :=
  -- `if len(r) == 0 { continue }`
  if r.isEmpty then .ok [] else do
  let r' ← (if !(ringClosed r) then
      match r.head?, r.getLast? with
      | some f, some l => if box.contains f || box.contains l then pure (r ++ [f]) else pure r
      | _, _ => .panic "index out of range"
    else pure r : Res String (List (Pt α)))
  match Clip.line box true r' with
  | none => .err "clip stuck"
  | some [] => pure []
  | some out =>
    -- `if r[0] == r[len(r)-1]` (the ring as it is now, after the implicit closing)
    match r'.head?, r'.getLast? with
    | some f, some l => if Core.ptEq f l then joinOuter box (2 * out.length + 2) out 0 else pure out
    | _, _ => .panic "index out of range"

/-- `ls[0] == ls[len(ls)-1] && pointSide(box, ls[0]) == notOnSide` -/
def closedInside (box : Bound α) (ls : List (Pt α)) : Res String Bool :=
  match ls.head?, ls.getLast? with
  | some f, some l => .ok (Core.ptEq f l && pointSide box f == notOnSide)
  | _, _ => .panic "index out of range"

/-- the final partition of `clipRings` into open pieces and closed interior rings -/
def partitionPieces (box : Bound α) : List (List (Pt α)) → Res String (List (List (Pt α)) × List (List (Pt α)))
  | [] => .ok ([], [])
  | ls :: rest => do
    -- `len(ls) == 2 && ls[0] == ls[1] && pointSide(box, ls[0]) != notOnSide`: a zero-length touch
    let touch := (match ls with
      | [p, q] => Core.ptEq p q && pointSide box p != notOnSide
      | _ => false)
    let c ← closedInside box ls
    let (op, cl) ← partitionPieces box rest
    if touch then pure (op, cl)
    else if c then pure (op, ls :: cl) else pure (ls :: op, cl)

/-- all pieces of all rings, in order (the `result` slice before the partition) -/
def clipAll (box : Bound α) : List (List (Pt α)) → Res String (List (List (Pt α)))
  | [] => .ok []
  | r :: rest => do
    let a ← clipOne box r
    let b ← clipAll box rest
    pure (a ++ b)

/-- `clipRings(box, rings) (open, closed)` -/
def clipRings (box : Bound α) (rings : List (List (Pt α))) : Res String (List (List (Pt α)) × List (List (Pt α))) := do
  let all ← clipAll box rings
  partitionPieces box all

/-! ### smartWrap (smart.go) -/

/-- the endpoint slice before sorting: start of piece `i` at `2i`, its end at `2i+1` -/
def mkEndpoints (box : Bound α) : Nat → List (List (Pt α)) → Res String (List (Endpoint α))
  | _, [] => .ok []
  | i, r :: rest =>
    match r.head?, r.getLast? with
    | some f, some l => do
      let tl ← mkEndpoints box (i+1) rest
      pure ({ point := f, start := true, used := false, side := pointSide box f, index := i, otherEnd := 2*i+1 } ::
            { point := l, start := false, used := false, side := pointSide box l, index := i, otherEnd := 2*i } :: tl)
    | _, _ => .panic "index out of range"

/-- state of the stitching loop -/
structure WrapSt (α : Type) where
  points : List (Endpoint α)
  current : List (Pt α)
  result : List (List (List (Pt α)))
  /-- `first`: index of the piece `current` starts with (fix C16-5) -/
  first : Nat := 0

/-- the stitching loop `for i := 0; i < 2*len(points); i++`.  `i` is the value of the loop variable
    at the loop test.  (`r[2:]` of the connecting ring is kept as `rTail`: `emptyTwoRing[2:] = []`.) -/
def wrapLoop (box : Bound α) (input : List (List (Pt α))) (o : Int) (n : Nat) :
    Nat → WrapSt α → Nat → Res String (List (List (List (Pt α))))
  | 0, _, _ => .err "fuel"
  | fuel+1, st, i =>
    if i ≥ 2 * n then .ok st.result else
    let k := i % n
    match st.points[k]? with
    | none => .panic "index out of range"
    | some ep =>
      if ep.used then wrapLoop box input o n fuel st (i+1)
      else if !ep.start then
        if st.current.isEmpty then
          match input[ep.index]? with
          | none => .panic "index out of range"
          | some piece =>
            wrapLoop box input o n fuel
              { st with current := piece, first := ep.index, points := st.points.set k { ep with used := true } } (i+1)
        else wrapLoop box input o n fuel st (i+1)
      else if st.current.isEmpty then wrapLoop box input o n fuel st (i+1)
      else
        let pts1 := st.points.set k { ep with used := true }
        match st.current.head?, st.current.getLast? with
        | some cf, some cl => do
          -- previous was end, connect to this start
          let rTail ← (if Core.ptEq ep.point cl then pure []
            else do
              let r ← aroundBound box [ep.point, cl] o
              pure (r.drop 2) : Res String (List (Pt α)))
          if ep.index == st.first && Core.ptEq ep.point cf then
            -- loop complete: back at the start of the piece the ring began with (fix C16-5: the start of
            -- ANOTHER piece in the same point — two rings touching there — goes on)
            let ring := st.current ++ rTail
            wrapLoop box input o n fuel { points := pts1, current := [], result := st.result ++ [[ring]], first := st.first } 0
          else
            match input[ep.index]? with
            | none => .panic "index out of range"
            | some piece =>
              let cur := st.current ++ (if rTail.isEmpty then [] else rTail.dropLast) ++ piece
              if ep.otherEnd ≥ pts1.length then .panic "index out of range" else
              let pts2 := pts1.modify ep.otherEnd fun e => { e with used := true }
              wrapLoop box input o n fuel { points := pts2, current := cur, result := st.result, first := st.first } (ep.otherEnd + 1)
        | _, _ => .panic "index out of range"

/-- `smartWrap(box, input, o)` -/
def smartWrap (box : Bound α) (input : List (List (Pt α))) (o : Int) : Res String (List (List (List (Pt α)))) := do
  let pts ← mkEndpoints box 0 input
  let sorted ← sortE input (o != CCW) pts
  let n := sorted.length
  wrapLoop box input o n ((2*n+2)*(2*n+2)) { points := sorted, current := [], result := [] } 0

/-! ### hole assignment -/

/-- `polygonContains(outer, r)`: some vertex of `r` is inside `outer` by the crossing rule
    `((yi > y) != (yj > y)) && (x < (xj-xi)*(y-yi)/(yj-yi)+xi)` -/
def polygonContains (outer r : List (Pt α)) : Bool :=
  let js := outer.getLast?.toList ++ outer.dropLast
  r.any fun p =>
    (outer.zip js).foldl (fun inside (pi, pj) =>
      if (decide (pi.y > p.y) != decide (pj.y > p.y)) &&
         decide (p.x < (pj.x - pi.x) * (p.y - pi.y) / (pj.y - pi.y) + pi.x) then !inside else inside) false

/-- the loop of `addToMultiPolygon` (after fix C16-3): `best` is the index and outer ring of the innermost
    polygon seen so far whose outer ring contains a vertex of `ring`; a later polygon replaces it when
    `best`'s outer ring contains one of that polygon's outer vertices.  `mp[i][0]` is evaluated for
    EVERY polygon (no early return any more), so a polygon without rings panics wherever it stands. -/
def bestContainer (ring : List (Pt α)) :
    List (List (List (Pt α))) → Nat → Option (Nat × List (Pt α)) → Res String (Option (Nat × List (Pt α)))
  | [], _, best => .ok best
  | pg :: rest, i, best =>
    match pg with
    | [] => .panic "index out of range"
    | outer :: _ =>
      let take := polygonContains outer ring &&
        (match best with
         | none => true
         | some (_, bo) => polygonContains bo outer)
      bestContainer ring rest (i + 1) (if take then some (i, outer) else best)

/-- `addToMultiPolygon`: the ring goes to the INNERMOST polygon whose outer ring contains one of its
    vertices; it is dropped when there is none. -/
def addToMultiPolygon (mp : List (List (List (Pt α)))) (ring : List (Pt α)) :
    Res String (List (List (List (Pt α)))) := do
  match ← bestContainer ring mp 0 none with
  | none => pure mp
  | some (i, _) => pure (mp.modify i (· ++ [ring]))

def addAll (mp : List (List (List (Pt α)))) (rings : List (List (Pt α))) : Res String (List (List (List (Pt α)))) :=
  rings.foldlM addToMultiPolygon mp

/-! ### entry points -/

/-- `smartclip.Ring` (`[]` = nil) -/
def ring (box : Bound α) (r : List (Pt α)) (o : Int) : Res String (List (List (List (Pt α)))) :=
  if r.isEmpty then .ok [] else do
  let (op, cl) ← clipRings box [r]
  if op.isEmpty then
    (if cl.isEmpty then pure [] else pure [[r]])
  else smartWrap box op o

/-- `smartclip.Polygon` -/
def polygon (box : Bound α) (p : List (List (Pt α))) (o : Int) : Res String (List (List (List (Pt α)))) :=
  if p.isEmpty then .ok [] else do
  let (op, cl) ← clipRings box p
  if op.isEmpty then
    (if cl.isEmpty then pure [] else pure [p])
  else do
    let result ← smartWrap box op o
    match result with
    | [pg] => pure [pg ++ cl]
    | _ => addAll result cl

/-- `p[0]` for every polygon that has rings (`if len(p) == 0 { continue }`) -/
def outerRings : List (List (List (Pt α))) → List (List (Pt α))
  | [] => []
  | [] :: rest => outerRings rest
  | (o :: _) :: rest => o :: outerRings rest

/-- `smartclip.MultiPolygon` -/
def multiPolygon (box : Bound α) (mp : List (List (List (Pt α)))) (o : Int) : Res String (List (List (List (Pt α)))) :=
  if mp.isEmpty then .ok [] else do
  let outers := outerRings mp
  let (op, closedOuters) ← clipRings box outers
  if op.isEmpty && closedOuters.isEmpty then pure []              -- everything outside bound
  else if op.isEmpty && closedOuters.length == outers.length then pure mp   -- everything inside bound
  else do
    let innerRings := mp.flatMap fun p => p.drop 1
    let (inners, closedInners) ← clipRings box innerRings
    let result ← smartWrap box (op ++ inners) o
    let result := result ++ closedOuters.map fun r => [r]
    addAll result closedInners

/-- `Geometry.Dimensions()` -/
def dimensions : Geom α → Int
  | .point _ | .multiPoint _ => 0
  | .lineString _ | .multiLineString _ => 1
  | .ring _ | .polygon _ | .multiPolygon _ | .bound _ _ => 2
  | .collection gs => dimsList gs
where
  dimsList : List (Geom α) → Int
    | [] => -1
    | g :: rest => let d := dimensions g; let m := dimsList rest; if d > m then d else m

/-- the tail of `Geometry` after the type switch: nil / single polygon / multi-polygon -/
def wrapMP (mp : List (List (List (Pt α)))) : GVal α :=
  match mp with
  | [] => .nilIface
  | [p] => .val (.polygon p)
  | l => .val (.multiPolygon l)

variable [Min α] [Max α]

/-- plain `clip.Geometry` as a top-level value -/
def plainClip (eb box : Bound α) (g : Geom α) : Res String (GVal α) :=
  match Clip.geometry eb box g with
  | none => .err "clip stuck"
  | some none => .ok .nilIface
  | some (some r) => .ok (.val r)

/-- `smartclip.Geometry` on a non-nil value (typed nil slices behave as empty values).  A collection
    with no two-dimensional member is clipped plainly as a whole; otherwise member by member, nil
    results dropped, a single survivor unwrapped, and NO survivor gives a typed nil `orb.Collection`. -/
def geometry (eb box : Bound α) (o : Int) : Geom α → Res String (GVal α)
  | .ring r => do let mp ← ring box r o; pure (wrapMP mp)
  | .polygon p => do let mp ← polygon box p o; pure (wrapMP mp)
  | .multiPolygon mp => do let r ← multiPolygon box mp o; pure (wrapMP r)
  | .bound a b => plainClip eb box (.bound a b)
  | .point p => plainClip eb box (.point p)
  | .multiPoint p => plainClip eb box (.multiPoint p)
  | .lineString p => plainClip eb box (.lineString p)
  | .multiLineString p => plainClip eb box (.multiLineString p)
  | .collection gs =>
    if dimensions.dimsList gs != 2 then plainClip eb box (.collection gs)
    else do
      let res ← members eb box o gs
      match res with
      | [] => pure (.nilSlice .collection)
      | [g] => pure (.val g)
      | l => pure (.val (.collection l))
where
  members (eb box : Bound α) (o : Int) : List (Geom α) → Res String (List (Geom α))
    | [] => .ok []
    | g :: rest => do
      let c ← geometry eb box o g
      let r ← members eb box o rest
      match c with
      | .val v => pure (v :: r)
      | .nilSlice k => pure (Core.emptyOf k :: r)
      | .nilIface => pure r

/-- `smartclip.Geometry` on a top-level value -/
def geometryV (eb box : Bound α) (o : Int) : GVal α → Res String (GVal α)
  | .nilIface => .ok .nilIface
  | .nilSlice k => geometry eb box o (Core.emptyOf k)
  | .val g => geometry eb box o g

end model

end Orb.SmartClip
