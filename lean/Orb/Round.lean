/-
  Orb.Round — model of round.go (`orb.Round`, `roundPoints`).  Core Lean only.

      func Round(g Geometry, factor ...int) Geometry

  * the factor: `f := float64(DefaultRoundingFactor)`; `if len(factor) > 0 { f = float64(factor[0]) }`
    (`DefaultRoundingFactor` is an exported package VARIABLE of type float64, initial value 1e6);
  * every coordinate `x` becomes `math.Round(x*f) / f` — two float operations around `math.Round`,
    in this order (`rc`);
  * Point and Bound are rebuilt BY VALUE (the caller's value is untouched); the slice kinds are rounded
    IN PLACE by `roundPoints` and the argument itself is returned; a collection does
    `g[i] = round(g[i], f)` for every member, with the same `float64` factor;
  * `Round(nil)` is nil; a TYPED nil slice is returned as it is.

  `math.Round`, `float64(int)`, `int(float64)` and the default factor are the fields of `REnv`:
  abstract in the theorems (OrbProofs/C06Round.lean), and `goEnv` below is the `Float` instance that
  follows Go bit for bit (`goRound` transcribes the bit manipulation of Go's math.Round; Go has no
  assembly version of it on any platform).

  Two levels: `roundG` / `roundV` on the nil-free values of `Orb.Basic` (what C20 quantifies over),
  `roundN` on `Orb.CoreNil.NGeom` (nil members at every level; what the correspondence run compares).
  `argAfterV` / `argAfterN` is the ARGUMENT as the caller sees it after the call.
-/
import Orb.Basic
import Orb.Core
import Orb.CoreNil

namespace Orb.Round
open Orb Orb.CoreNil

/-- the numeric primitives round.go uses -/
structure REnv (α : Type) where
  /-- `math.Round` -/
  rnd : α → α
  /-- `float64(n)` of an `int` -/
  ofInt : Int → α
  /-- `int(f)` of a `float64` -/
  toInt : α → Int
  /-- the current value of `orb.DefaultRoundingFactor` -/
  dflt : α

section model
variable {α : Type} [Mul α] [Div α]

/-- the factor `Round` works with: the default, or `float64(factor[0])` (further arguments are ignored) -/
def factorOf (env : REnv α) : List Int → α
  | [] => env.dflt
  | n :: _ => env.ofInt n

/-- one coordinate: `math.Round(x*f) / f` -/
def rc (rnd : α → α) (f x : α) : α := rnd (x * f) / f

/-- one point: `ps[i][0] = …; ps[i][1] = …` -/
def rpt (rnd : α → α) (f : α) (p : Pt α) : Pt α := ⟨rc rnd f p.x, rc rnd f p.y⟩

/-- `roundPoints` -/
def rpts (rnd : α → α) (f : α) (ps : List (Pt α)) : List (Pt α) := ps.map (rpt rnd f)

/-- the `for _, ls := range g { roundPoints(ls, f) }` loops -/
def rptss (rnd : α → α) (f : α) (ls : List (List (Pt α))) : List (List (Pt α)) := ls.map (rpts rnd f)
def rptsss (rnd : α → α) (f : α) (ps : List (List (List (Pt α)))) : List (List (List (Pt α))) :=
  ps.map (rptss rnd f)

/-! ### nil-free values -/

/-- `orb.Round` on a non-nil value without nil members, working factor `f`: the returned value. -/
def roundG (env : REnv α) (f : α) : Geom α → Geom α
  | .point p => .point (rpt env.rnd f p)
  | .multiPoint ps => .multiPoint (rpts env.rnd f ps)
  | .lineString ps => .lineString (rpts env.rnd f ps)
  | .multiLineString ls => .multiLineString (rptss env.rnd f ls)
  | .ring ps => .ring (rpts env.rnd f ps)
  | .polygon rs => .polygon (rptss env.rnd f rs)
  | .multiPolygon ps => .multiPolygon (rptsss env.rnd f ps)
  | .bound a b => .bound (rpt env.rnd f a) (rpt env.rnd f b)
  | .collection gs => .collection (go gs)
where
  /-- `for i := range g { g[i] = round(g[i], f) }` -/
  go : List (Geom α) → List (Geom α)
    | [] => []
    | g :: gs => roundG env f g :: go gs

/-- … including the nil interface and typed nil slices at the top: returned as they are. -/
def roundV (env : REnv α) (f : α) : GVal α → GVal α
  | .nilIface => .nilIface
  | .nilSlice k => .nilSlice k
  | .val g => .val (roundG env f g)

/-- `orb.Round(g, factor...)` -/
def round (env : REnv α) (factor : List Int) (v : GVal α) : GVal α := roundV env (factorOf env factor) v

/-- The argument as the caller sees it after the call: a Point or a Bound was passed by value inside
    the interface and is unchanged, a typed nil slice is still that typed nil; every slice kind was
    rounded in place (and a collection's members were overwritten in its backing array), so the
    argument now reads as the result. -/
def argAfterV (env : REnv α) (f : α) : GVal α → GVal α
  | .nilIface => .nilIface
  | .nilSlice k => .nilSlice k
  | .val (.point p) => .val (.point p)
  | .val (.bound a b) => .val (.bound a b)
  | .val g => .val (roundG env f g)

/-! ### values with nil members (`Orb.CoreNil.NGeom`) -/

/-- `roundPoints` on a possibly-nil slice: the `range` loop does nothing on nil, which stays nil -/
def rNPts (rnd : α → α) (f : α) (a : NPts α) : NPts α := a.map (rpts rnd f)
/-- members of a `[]Ring` / `[]LineString` (the top-level nil test is made by the caller) -/
def rNPtsL (rnd : α → α) (f : α) (l : List (NPts α)) : List (NPts α) := l.map (rNPts rnd f)
/-- members of a `[]Polygon`: `for _, p := range g { for _, r := range p { … } }`, a nil polygon
    has no rings to visit and stays nil -/
def rNPtssL (rnd : α → α) (f : α) (l : List (NPtss α)) : List (NPtss α) :=
  l.map fun p => p.map (rNPtsL rnd f)

mutual
/-- `orb.Round` on any interface value, working factor `f`: the returned interface value. -/
def roundN (env : REnv α) (f : α) : NGeom α → NGeom α
  | .nilIface => .nilIface
  | .point p => .point (rpt env.rnd f p)
  | .multiPoint none => .multiPoint none
  | .multiPoint (some ps) => .multiPoint (some (rpts env.rnd f ps))
  | .lineString none => .lineString none
  | .lineString (some ps) => .lineString (some (rpts env.rnd f ps))
  | .multiLineString none => .multiLineString none
  | .multiLineString (some ls) => .multiLineString (some (rNPtsL env.rnd f ls))
  | .ring none => .ring none
  | .ring (some ps) => .ring (some (rpts env.rnd f ps))
  | .polygon none => .polygon none
  | .polygon (some rs) => .polygon (some (rNPtsL env.rnd f rs))
  | .multiPolygon none => .multiPolygon none
  | .multiPolygon (some ps) => .multiPolygon (some (rNPtssL env.rnd f ps))
  | .bound a b => .bound (rpt env.rnd f a) (rpt env.rnd f b)
  | .nilCollection => .nilCollection
  | .collection gs => .collection (roundNList env f gs)
/-- `for i := range g { g[i] = round(g[i], f) }` -/
def roundNList (env : REnv α) (f' : α) : List (NGeom α) → List (NGeom α)
  | [] => []
  | g :: gs => roundN env f' g :: roundNList env f' gs
end

/-- the argument after the call (see `argAfterV`) -/
def argAfterN (env : REnv α) (f : α) : NGeom α → NGeom α
  | .point p => .point p
  | .bound a b => .bound a b
  | .multiPoint none => .multiPoint none
  | .lineString none => .lineString none
  | .multiLineString none => .multiLineString none
  | .ring none => .ring none
  | .polygon none => .polygon none
  | .multiPolygon none => .multiPolygon none
  | .nilCollection => .nilCollection
  | g => roundN env f g

end model

/-! ### the `Float` instance: Go's arithmetic, bit for bit -/

/-- Go's `math.Round` (src/math/floor.go), transcribed on the bit pattern:
    ```
    bits := Float64bits(x); e := uint(bits>>52) & 0x7ff
    if e < 1023 { bits &= signMask; if e == 1022 { bits |= uvone } }
    else if e < 1023+52 { e -= 1023; bits += half >> e; bits &^= fracMask >> e }
    ```
    (half away from zero; ±0, ±Inf, NaN and |x| ≥ 2^52 unchanged). -/
def goRoundBits (bits : UInt64) : UInt64 :=
  let e := (bits >>> 52) &&& 0x7ff
  if e < 1023 then
    let b := bits &&& 0x8000000000000000
    if e == 1022 then b ||| 0x3ff0000000000000 else b
  else if e < 1075 then
    let e' := e - 1023
    let b := bits + ((0x0008000000000000 : UInt64) >>> e')
    b &&& ~~~((0x000fffffffffffff : UInt64) >>> e')
  else bits

/-- `math.Round` on `Float` (a NaN stays a NaN) -/
def goRound (x : Float) : Float := if x.isNaN then x else Float.ofBits (goRoundBits x.toBits)

/-- `int(f)` as the amd64 compiler does it (CVTTSD2SQ): truncation toward zero, and the "integer
    indefinite" value -2^63 for NaN and for everything outside [-2^63, 2^63).  The Go specification
    leaves the out-of-range case to the implementation; it is reached only for factors ≥ 2^63-512 or a
    `DefaultRoundingFactor` that large / NaN. -/
def goInt (f : Float) : Int :=
  if f.isNaN || f ≥ 9223372036854775808.0 || f < -9223372036854775808.0 then -9223372036854775808
  else f.toInt64.toInt

/-- Go on `float64`, with `dflt` the current `orb.DefaultRoundingFactor` -/
def goEnv (dflt : Float) : REnv Float := ⟨goRound, Float.ofInt, goInt, dflt⟩

end Orb.Round
