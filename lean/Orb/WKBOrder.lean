/-
  Orb.WKBOrder — the encoder of `Orb.WKB` with the byte-order MARK and the byte order of the PAYLOAD
  as two parameters.

  `wkbcommon.Encoder` is configured with a `binary.ByteOrder` VALUE (an interface).  The integers and
  coordinates are written by that value's `PutUint32` / `PutUint64` (the payload order: whatever the value
  does), the mark in front of every geometry is decided separately, by `Encoder.encode`:

      if isLittleEndian(e.order) { b = []byte{1} } else { b = []byte{0} }

  Until fix C01-3 that was identity with `binary.LittleEndian`: any other little-endian byte order
  (`binary.NativeEndian` on the usual machines, a user type wrapping `binary.LittleEndian`) got a big-endian
  mark in front of a little-endian payload.  Now `isLittleEndian(e.order)` PROBES the value
  (`order.PutUint16(buf, 1); buf[0] == 1`): the mark is the order of the payload (`codeMark`), and the
  encoder is the one of `Orb.WKB` for every byte-order value (`encGeomM_same`).
-/
import Orb.WKB

namespace Orb.WKB
open Orb Generated.Params

def encPointM (m o : Order) (srid : Nat) (p : Pt UInt64) : Bytes :=
  orderByte m ::
    ((if srid = 0 then u32 o wkb_pointType else u32 o (wkb_pointType ||| wkb_ewkbType) ++ u32 o srid) ++ encPt o p)

def encLineStringM (m o : Order) (srid : Nat) (ps : List (Pt UInt64)) : Bytes :=
  orderByte m :: (typePrefix o wkb_lineStringType ps.length srid ++ ps.flatMap (encPt o))

def encPolygonM (m o : Order) (srid : Nat) (rs : List (List (Pt UInt64))) : Bytes :=
  orderByte m :: (typePrefix o wkb_polygonType rs.length srid ++ rs.flatMap (encRingBody o))

def encMultiPointM (m o : Order) (srid : Nat) (ps : List (Pt UInt64)) : Bytes :=
  orderByte m :: (typePrefix o wkb_multiPointType ps.length srid ++ ps.flatMap (encPointM m o 0))

def encMultiLineStringM (m o : Order) (srid : Nat) (ls : List (List (Pt UInt64))) : Bytes :=
  orderByte m :: (typePrefix o wkb_multiLineStringType ls.length srid ++ ls.flatMap (encLineStringM m o 0))

def encMultiPolygonM (m o : Order) (srid : Nat) (ps : List (List (List (Pt UInt64)))) : Bytes :=
  orderByte m :: (typePrefix o wkb_multiPolygonType ps.length srid ++ ps.flatMap (encPolygonM m o 0))

/-- `Encoder.encode` with mark `m` in front of every geometry (members included) and payload order `o`. -/
def encGeomM (m o : Order) (srid : Nat) : G → Bytes
  | .point p => encPointM m o srid p
  | .multiPoint ps => encMultiPointM m o srid ps
  | .lineString ps => encLineStringM m o srid ps
  | .multiLineString ls => encMultiLineStringM m o srid ls
  | .ring r => encPolygonM m o srid [r]
  | .polygon rs => encPolygonM m o srid rs
  | .multiPolygon ps => encMultiPolygonM m o srid ps
  | .bound a b => encPolygonM m o srid [boundRing a b]
  | .collection gs =>
    orderByte m :: (typePrefix o wkb_geometryCollectionType gs.length srid ++ encListM m o gs)
where
  encListM (m o : Order) : List G → Bytes
    | [] => []
    | g :: gs => encGeomM m o 0 g ++ encListM m o gs

/-- The mark `Encoder.encode` writes for a configured byte-order value: `isLittleEndianValue` says
    whether the value is (==) `binary.LittleEndian`, `payload` is the order the value writes integers in.
    `isLittleEndian`: the two values of encoding/binary by identity (their payload order is their name),
    anything else by probing — the payload order in every case. -/
def codeMark (_isLittleEndianValue : Bool) (payload : Order) : Order := payload

/-- `Marshal(geom, srid, byteOrder)` for a byte-order value described by (`isLittleEndianValue`, `payload`). -/
def encodeBO (isLittleEndianValue : Bool) (payload : Order) (srid : Nat) : GVal UInt64 → Bytes
  | .nilIface => []
  | .nilSlice _ => []
  | .val g => encGeomM (codeMark isLittleEndianValue payload) payload srid g

end Orb.WKB
