/-
  Orb.Tile — model of maptile/tile.go (integer part), core Lean only.

  `X`, `Y` are Go `uint32`, `Z` is `Zoom = uint32`; they are modelled as `Nat`
  with every Go operation written with its wrap-around (`% 2^32`, `% 2^64`)
  and Go's shift semantics (a shift count ≥ the width yields 0), so the model
  is the code that exists, not the arithmetic one would like.
-/
namespace Orb.Tile

structure Tile where
  x : Nat
  y : Nat
  z : Nat
deriving Repr, BEq, DecidableEq, Inhabited

def W32 : Nat := 2^32
def W64 : Nat := 2^64

/-- Go `a << s` on uint32. -/
def shl32 (a s : Nat) : Nat := (a <<< s) % W32
/-- Go `a >> s` on uint32 (a < 2^32). -/
def shr32 (a s : Nat) : Nat := a >>> s
/-- Go `a - b` on uint32. -/
def sub32 (a b : Nat) : Nat := (a + W32 - b % W32) % W32
/-- Go `a + b` on uint32. -/
def add32 (a b : Nat) : Nat := (a + b) % W32

/-- `Tile.Valid`: `maxIndex := uint32(1) << uint32(t.Z); t.X < maxIndex && t.Y < maxIndex`. -/
def valid (t : Tile) : Bool :=
  let maxIndex := shl32 1 t.z
  t.x < maxIndex && t.y < maxIndex

/-- `Tile.Parent`. -/
def parent (t : Tile) : Tile :=
  if t.z = 0 then t else ⟨shr32 t.x 1, shr32 t.y 1, sub32 t.z 1⟩

/-- `Parent()` applied `k` times. -/
def parentN : Nat → Tile → Tile
  | 0, t => t
  | k+1, t => parentN k (parent t)

/-- `Tile.Children` (order as in the code). -/
def children (t : Tile) : List Tile :=
  [ ⟨shl32 t.x 1, shl32 t.y 1, add32 t.z 1⟩,
    ⟨add32 (shl32 t.x 1) 1, shl32 t.y 1, add32 t.z 1⟩,
    ⟨add32 (shl32 t.x 1) 1, add32 (shl32 t.y 1) 1, add32 t.z 1⟩,
    ⟨shl32 t.x 1, add32 (shl32 t.y 1) 1, add32 t.z 1⟩ ]

/-- `Tile.Siblings`. -/
def siblings (t : Tile) : List Tile := children (parent t)

/-- `Tile.toZoom`. -/
def toZoom (t : Tile) (z : Nat) : Tile :=
  if z > t.z then ⟨shl32 t.x (sub32 z t.z), shl32 t.y (sub32 z t.z), z⟩
  else ⟨shr32 t.x (sub32 t.z z), shr32 t.y (sub32 t.z z), z⟩

/-- `Tile.Contains`. -/
def contains (t u : Tile) : Bool :=
  if u.z < t.z then false else t == toZoom u t.z

/-- One round of the `Quadkey` loop for bit `i`. -/
def quadkeyStep (t : Tile) (result i : Nat) : Nat :=
  let r1 := result ||| (((t.x &&& ((1 <<< i) % W64)) <<< i) % W64)
  r1 ||| (((t.y &&& ((1 <<< i) % W64)) <<< (i + 1)) % W64)

/-- `Tile.Quadkey`: `for i = 0; i < uint64(t.Z); i++`. -/
def quadkey (t : Tile) : Nat :=
  (List.range t.z).foldl (quadkeyStep t) 0

/-- One round of the `FromQuadkey` loop for bit `i` (X and Y are uint32, k is uint64,
    the untyped constant `1` takes k's type, so `1 << (2*i)` is a uint64 shift). -/
def fromQuadkeyStep (k : Nat) (t : Tile) (i : Nat) : Tile :=
  let x := t.x ||| (((k &&& ((1 <<< (2*i)) % W64)) >>> i) % W32)
  let y := t.y ||| (((k &&& ((1 <<< (2*i+1)) % W64)) >>> (i+1)) % W32)
  ⟨x, y, t.z⟩

/-- `FromQuadkey`. -/
def fromQuadkey (k z : Nat) : Tile :=
  (List.range z).foldl (fromQuadkeyStep k) ⟨0, 0, z⟩

/-- Bit length: `32 - bits.LeadingZeros32(v)` for `v < 2^32`. -/
def bitLen : Nat → Nat
  | 0 => 0
  | n+1 => bitLen ((n+1)/2) + 1
decreasing_by omega

/-- `Tile.SharedParent`. -/
def sharedParent (t u : Tile) : Tile :=
  let (t, u) :=
    if t.z ≠ u.z then
      if t.z < u.z then (t, toZoom u t.z) else (toZoom t u.z, u)
    else (t, u)
  if t == u then t else
  let xc := bitLen (t.x ^^^ u.x)
  let yc := bitLen (t.y ^^^ u.y)
  let maxc := if yc > xc then yc else xc
  ⟨shr32 t.x maxc, shr32 t.y maxc, sub32 t.z maxc⟩

/-- `Tile.Range`. -/
def range (t : Tile) (z : Nat) : Tile × Tile :=
  if z < t.z then (toZoom t z, toZoom t z)
  else
    let off := sub32 z t.z
    (⟨shl32 t.x off, shl32 t.y off, z⟩,
     ⟨sub32 (shl32 (add32 t.x 1) off) 1, sub32 (shl32 (add32 t.y 1) off) 1, z⟩)

/-- Inner double loop of `ChildrenInZoomRange` for one zoom delta `d`:
    x-major, y-minor, `dim = uint32(1 << d)`. -/
def childrenAtDelta (t : Tile) (d : Nat) : List Tile :=
  let xs := shl32 t.x d
  let ys := shl32 t.y d
  let dim := shl32 1 d
  -- `for x := xStart; x < xStart+dim; x++` in uint32: the bound itself may wrap
  let nx := add32 xs dim - xs
  let ny := add32 ys dim - ys
  (List.range nx).flatMap fun i =>
    (List.range ny).map fun j => ⟨xs + i, ys + j, add32 t.z d⟩

/-- `ChildrenInZoomRange` (the two `panic`s become `none`). -/
def childrenInZoomRange (t : Tile) (zs ze : Nat) : Option (List Tile) :=
  if ¬ (zs ≤ ze) then none
  else if ¬ (t.z ≤ zs) then none
  else
    let ds := sub32 zs t.z
    let de := sub32 ze t.z
    some ((List.range (de + 1 - ds)).flatMap fun k => childrenAtDelta t (ds + k))

/-! ### Abstract specification: ancestor relation on the tile pyramid -/

/-- `a` is the ancestor of `u` that lies `k` levels up. -/
def ancestorAt (u : Tile) (k : Nat) : Tile := ⟨u.x / 2^k, u.y / 2^k, u.z - k⟩

/-- `a` is an ancestor of (or equal to) `u`. -/
def IsAncestor (a u : Tile) : Prop := a.z ≤ u.z ∧ a = ancestorAt u (u.z - a.z)

/-- The property's quantifier: a valid tile with zoom 0..30. -/
def V (t : Tile) : Prop := t.x < 2^t.z ∧ t.y < 2^t.z ∧ t.z ≤ 30

instance (t : Tile) : Decidable (V t) := by unfold V; infer_instance

end Orb.Tile
