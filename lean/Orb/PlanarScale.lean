/-
  Orb.PlanarScale — multiplying every coordinate of a geometry by one factor (C10, scale invariance).

  The functions of `Orb.Planar` commute with it: `CentroidArea (s·g) = (s·c, s²·a)`, `Length (s·g) = s·Length g`,
  `DistanceFrom (s·g, s·q) = s·DistanceFrom (g, q)` with the same index (theorems `centroidArea_scale`, `length_scale`,
  `distanceFromWithIndex_scale` in OrbProofs/C10.lean, for a positive factor of an ordered field).  For `s = 2^k` the
  same holds BIT FOR BIT in float64 as long as nothing under- or overflows, which is the executable clause
  `scale-invariance` of the driver (op `scale`).

  Core Lean only.
-/
import Orb.Basic

namespace Orb.Planar
open Orb

variable {α : Type}

/-- `s · p` -/
def scalePt [Mul α] (s : α) (p : Pt α) : Pt α := ⟨s * p.x, s * p.y⟩

/-- `s · g`: every coordinate multiplied by `s` -/
def scaleGeom [Mul α] (s : α) : Geom α → Geom α
  | .point p => .point (scalePt s p)
  | .multiPoint ps => .multiPoint (ps.map (scalePt s))
  | .lineString ps => .lineString (ps.map (scalePt s))
  | .multiLineString ls => .multiLineString (ls.map (·.map (scalePt s)))
  | .ring ps => .ring (ps.map (scalePt s))
  | .polygon rs => .polygon (rs.map (·.map (scalePt s)))
  | .multiPolygon ps => .multiPolygon (ps.map (·.map (·.map (scalePt s))))
  | .bound lo hi => .bound (scalePt s lo) (scalePt s hi)
  | .collection gs => .collection (scaleList gs)
where
  scaleList : List (Geom α) → List (Geom α)
    | [] => []
    | g :: t => scaleGeom s g :: scaleList t

end Orb.Planar
