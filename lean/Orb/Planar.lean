/-
  Orb.Planar — model of planar/area.go, planar/length.go (+ internal/length/length.go),
  planar/distance.go and planar/distance_from.go: control flow, loop bounds and operator order
  as written.  Polymorphic in the coordinate type: the same definitions run on `Float`
  (twin of the Go code, bit for bit), on `Rat` (exact) and are reasoned about over an ordered
  field.  `math.Sqrt` is the explicit parameter `sqrt`.

  `math.Inf(1)` (the distance of an empty line / an empty geometry, the running minimum before
  the first segment) is `none : Option α`; a coordinate computation that itself overflows to
  ±Inf or produces NaN is outside this model (the generators stay far below overflow).

  Core Lean only.
-/
import Orb.Basic

namespace Orb.Planar
open Orb

section
variable {α : Type} [Add α] [Sub α] [Mul α] [Div α] [Neg α] [OfNat α 0] [OfNat α 1] [OfNat α 2] [OfNat α 6]
  [NatCast α] [BEq α] [LT α] [DecidableLT α]

/-! ### distance.go -/

/-- `Distance` -/
def distance (sqrt : α → α) (p1 p2 : Pt α) : α :=
  let d0 := p1.x - p2.x
  let d1 := p1.y - p2.y
  sqrt (d0 * d0 + d1 * d1)

/-- `DistanceSquared` -/
def distanceSquared (p1 p2 : Pt α) : α :=
  let d0 := p1.x - p2.x
  let d1 := p1.y - p2.y
  d0 * d0 + d1 * d1

/-! ### area.go -/

/-- `math.Abs` -/
def fabs (a : α) : α := if a < 0 then -a else a

/-- `multiPointCentroid` -/
def multiPointCentroid (mp : List (Pt α)) : Pt α :=
  match mp with
  | [] => ⟨0, 0⟩
  | _ =>
    let s := mp.foldl (fun (s : α × α) p => (s.1 + p.x, s.2 + p.y)) (0, 0)
    let num : α := (mp.length : α)
    ⟨s.1 / num, s.2 / num⟩

/-- loop of `lineStringCentroidDist`: `(point[0], point[1], dist)` over consecutive pairs -/
def lineCentroidLoop (sqrt : α → α) (o : Pt α) : List (Pt α) → α × α × α → α × α × α
  | a :: b :: t, (px, py, dist) =>
    let p1 : Pt α := ⟨a.x - o.x, a.y - o.y⟩
    let p2 : Pt α := ⟨b.x - o.x, b.y - o.y⟩
    let d := distance sqrt p1 p2
    lineCentroidLoop sqrt o (b :: t) (px + (p1.x + p2.x) / 2 * d, py + (p1.y + p2.y) / 2 * d, dist + d)
  | _, s => s

/-- `lineStringCentroidDist`; `none` is the answer `(Point{}, +Inf)` for an empty line. -/
def lineStringCentroidDist (sqrt : α → α) (ls : List (Pt α)) : Option (Pt α × α) :=
  match ls with
  | [] => none
  | o :: _ =>
    let s := lineCentroidLoop sqrt o ls (0, 0, 0)
    let dist := s.2.2
    if dist == 0 then some (o, 0)
    else some (⟨s.1 / dist + o.x, s.2.1 / dist + o.y⟩, dist)

/-- state of the loop of `multiLineStringCentroid`: point, flat (unweighted sum), dist, validCount -/
structure MLSAcc (α : Type) where
  px : α
  py : α
  fx : α
  fy : α
  dist : α
  valid : Nat

/-- one iteration of the loop of `multiLineStringCentroid` -/
def mlsStep (sqrt : α → α) (s : MLSAcc α) (ls : List (Pt α)) : MLSAcc α :=
  match lineStringCentroidDist sqrt ls with
  | none => s                                   -- d == +Inf: continue
  | some (c, d) =>
    { px := s.px + c.x * d, py := s.py + c.y * d, fx := s.fx + c.x, fy := s.fy + c.y,
      dist := s.dist + d, valid := s.valid + 1 }

/-- `multiLineStringCentroid`: length-weighted; the unweighted mean `flat / validCount` only when no
    line has a length -/
def multiLineStringCentroid (sqrt : α → α) (mls : List (List (Pt α))) : Pt α :=
  match mls with
  | [] => ⟨0, 0⟩
  | _ =>
    let s := mls.foldl (mlsStep sqrt) ⟨0, 0, 0, 0, 0, 0⟩
    if s.valid == 0 then ⟨0, 0⟩
    else if s.dist == 0 then ⟨s.fx / (s.valid : α), s.fy / (s.valid : α)⟩
    else ⟨s.px / s.dist, s.py / s.dist⟩

/-- loop of `ringCentroidArea`, `for i := 1; i < len(r)-1; i++` over `rest = r[1:]`:
    `(centroid[0], centroid[1], area)` -/
def ringLoop (o : Pt α) : List (Pt α) → α × α × α → α × α × α
  | p :: q :: t, (cx, cy, area) =>
    let a := (p.x - o.x) * (q.y - o.y) - (q.x - o.x) * (p.y - o.y)
    ringLoop o (q :: t) (cx + (p.x + q.x - 2 * o.x) * a, cy + (p.y + q.y - 2 * o.y) * a, area + a)
  | _, s => s

/-- `ringCentroidArea` -/
def ringCentroidArea (r : List (Pt α)) : Pt α × α :=
  match r with
  | [] => (⟨0, 0⟩, 0)
  | o :: rest =>
    let s := ringLoop o rest (0, 0, 0)
    if s.2.2 == 0 then (o, 0) else
    let area := s.2.2 / 2
    (⟨s.1 / (6 * area) + o.x, s.2.1 / (6 * area) + o.y⟩, area)

/-- the degenerate fall-back `c, _ := lineStringCentroidDist(orb.LineString(p[0]))` -/
def lineFallback (sqrt : α → α) (r : List (Pt α)) : Pt α :=
  match lineStringCentroidDist sqrt r with
  | none => ⟨0, 0⟩
  | some (c, _) => c

/-- `polygonCentroidArea` -/
def polygonCentroidArea (sqrt : α → α) (p : List (List (Pt α))) : Pt α × α :=
  match p with
  | [] => (⟨0, 0⟩, 0)
  | outer :: holes =>
    let ca := ringCentroidArea outer
    let centroid := ca.1
    let area := fabs ca.2
    match holes with
    | [] => if area == 0 then (lineFallback sqrt outer, 0) else (centroid, area)
    | _ =>
      -- (holeArea, weightedHoleCentroid)
      let h := holes.foldl (fun (s : α × α × α) hr =>
        let hca := ringCentroidArea hr
        let ha := fabs hca.2
        (s.1 + ha, s.2.1 + hca.1.x * ha, s.2.2 + hca.1.y * ha)) (0, 0, 0)
      let totalArea := area - h.1
      if totalArea == 0 then (lineFallback sqrt outer, 0)
      else (⟨(area * centroid.x - h.2.1) / totalArea, (area * centroid.y - h.2.2) / totalArea⟩, totalArea)

/-- the common tail of `multiPolygonCentroidArea` / `collectionCentroidArea` -/
def finishWeighted (s : α × α × α) : Pt α × α :=
  if s.2.2 == 0 then (⟨0, 0⟩, 0) else (⟨s.1 / s.2.2, s.2.1 / s.2.2⟩, s.2.2)

/-- `multiPolygonCentroidArea` -/
def multiPolygonCentroidArea (sqrt : α → α) (mp : List (List (List (Pt α)))) : Pt α × α :=
  finishWeighted <| mp.foldl (fun (s : α × α × α) p =>
    let ca := polygonCentroidArea sqrt p
    (s.1 + ca.1.x * ca.2, s.2.1 + ca.1.y * ca.2, s.2.2 + ca.2)) (0, 0, 0)

/-- `Bound.ToRing` -/
def boundRing (lo hi : Pt α) : List (Pt α) := [lo, ⟨hi.x, lo.y⟩, hi, ⟨lo.x, hi.y⟩, lo]

end

/-- `Geometry.Dimensions()`; `Collection.Dimensions` is the maximum over the members, starting from -1. -/
def dimensions {α : Type} : Geom α → Int
  | .point _ | .multiPoint _ => 0
  | .lineString _ | .multiLineString _ => 1
  | .ring _ | .polygon _ | .multiPolygon _ | .bound _ _ => 2
  | .collection gs => dimsMax gs (-1)
where
  /-- `for _, g := range c { if d := g.Dimensions(); d > max { max = d } }` -/
  dimsMax {α : Type} : List (Geom α) → Int → Int
    | [], m => m
    | g :: t, m => let d := dimensions g; dimsMax t (if m < d then d else m)

/-- `maxDim` of area.go (starts from 0, not -1) -/
def maxDim {α : Type} (gs : List (Geom α)) : Int := dimensions.dimsMax gs 0

section
variable {α : Type} [Add α] [Sub α] [Mul α] [Div α] [Neg α] [OfNat α 0] [OfNat α 1] [OfNat α 2] [OfNat α 6]
  [NatCast α] [BEq α] [LT α] [DecidableLT α]

/-- `CentroidArea` (non-nil argument) with `collectionCentroidArea`. -/
def centroidArea (sqrt : α → α) : Geom α → Pt α × α
  | .point p => (multiPointCentroid [p], 0)
  | .multiPoint ps => (multiPointCentroid ps, 0)
  | .lineString ps => (multiLineStringCentroid sqrt [ps], 0)
  | .multiLineString ls => (multiLineStringCentroid sqrt ls, 0)
  | .ring r => ringCentroidArea r
  | .polygon p => polygonCentroidArea sqrt p
  | .multiPolygon mp => multiPolygonCentroidArea sqrt mp
  | .bound lo hi => ringCentroidArea (boundRing lo hi)
  | .collection gs => finishWeighted (collLoop (maxDim gs) gs (0, 0, 0))
where
  /-- the loop of `collectionCentroidArea`: members of lower dimension are skipped -/
  collLoop (mx : Int) : List (Geom α) → α × α × α → α × α × α
    | [], s => s
    | g :: t, s =>
      if dimensions g != mx then collLoop mx t s else
      let ca := centroidArea sqrt g
      collLoop mx t (s.1 + ca.1.x * ca.2, s.2.1 + ca.1.y * ca.2, s.2.2 + ca.2)

/-- `Area` -/
def area (sqrt : α → α) (g : Geom α) : α := (centroidArea sqrt g).2

/-! ### length.go -/

/-- `lineStringLength`: `for i := 1; i < len(ls); i++ { sum += df(ls[i], ls[i-1]) }` -/
def lineStringLength (sqrt : α → α) : List (Pt α) → α → α
  | a :: b :: t, sum => lineStringLength sqrt (b :: t) (sum + distance sqrt b a)
  | _, sum => sum

/-- `polygonLength` -/
def polygonLength (sqrt : α → α) (p : List (List (Pt α))) : α :=
  p.foldl (fun sum r => sum + lineStringLength sqrt r 0) 0

/-- `length.Length(g, planar.Distance)` (non-nil argument) -/
def length (sqrt : α → α) : Geom α → α
  | .point _ | .multiPoint _ => 0
  | .lineString ls => lineStringLength sqrt ls 0
  | .multiLineString mls => mls.foldl (fun sum ls => sum + lineStringLength sqrt ls 0) 0
  | .ring r => lineStringLength sqrt r 0
  | .polygon p => polygonLength sqrt p
  | .multiPolygon mp => mp.foldl (fun sum p => sum + polygonLength sqrt p) 0
  | .bound lo hi => lineStringLength sqrt (boundRing lo hi) 0
  | .collection gs => lenLoop gs 0
where
  lenLoop : List (Geom α) → α → α
    | [], sum => sum
    | g :: t, sum => lenLoop t (sum + length sqrt g)

/-! ### distance_from.go -/

/-- `segmentDistanceFromSquared` (= `DistanceFromSegmentSquared`, the same code twice) -/
def segmentDistanceFromSquared (p1 p2 point : Pt α) : α :=
  let dx := p2.x - p1.x
  let dy := p2.y - p1.y
  let xy : α × α :=
    if dx != 0 || dy != 0 then
      let t := ((point.x - p1.x) * dx + (point.y - p1.y) * dy) / (dx * dx + dy * dy)
      if 1 < t then (p2.x, p2.y)
      else if 0 < t then (p1.x + dx * t, p1.y + dy * t)
      else (p1.x, p1.y)
    else (p1.x, p1.y)
  let ex := point.x - xy.1
  let ey := point.y - xy.2
  ex * ex + ey * ey

/-- `DistanceFromSegment` -/
def distanceFromSegment (sqrt : α → α) (a b point : Pt α) : α := sqrt (segmentDistanceFromSquared a b point)

/-- `d < dist` where `none` is `+Inf` -/
def optLt : Option α → Option α → Bool
  | some a, some b => decide (a < b)
  | some _, none => true
  | none, _ => false

/-- the running minimum `if d := …; d < dist { dist = d; index = i }` -/
def minStep (s : Option α × Int) (d : Option α) (i : Int) : Option α × Int :=
  if optLt d s.1 then (d, i) else s

/-- `multiPointDistanceFrom` -/
def multiPointDistanceFrom (sqrt : α → α) (mp : List (Pt α)) (p : Pt α) : Option α × Int :=
  let s := mp.zipIdx.foldl (fun (s : Option α × Int) (qi : Pt α × Nat) =>
    minStep s (some (distanceSquared qi.1 p)) qi.2) (none, -1)
  (s.1.map sqrt, s.2)

/-- loop of `lineStringDistanceFrom` over consecutive pairs, `i` the index of the current pair -/
def lineDistLoop (p : Pt α) : List (Pt α) → Nat → Option α × Int → Option α × Int
  | a :: b :: t, i, s => lineDistLoop p (b :: t) (i + 1) (minStep s (some (segmentDistanceFromSquared a b p)) i)
  | _, _, s => s

/-- `lineStringDistanceFrom` -/
def lineStringDistanceFrom (sqrt : α → α) (ls : List (Pt α)) (p : Pt α) : Option α × Int :=
  let s := lineDistLoop p ls 0 (none, -1)
  (s.1.map sqrt, s.2)

/-- `polygonDistanceFrom`; inside the loop `d, i := lineStringDistanceFrom(…)` shadows the loop
    counter, so the index reported is the SEGMENT index within the nearest ring. -/
def polygonDistanceFrom (sqrt : α → α) (pg : List (List (Pt α))) (p : Pt α) : Option α × Int :=
  match pg with
  | [] => (none, -1)
  | outer :: holes =>
    holes.foldl (fun s h =>
      let di := lineStringDistanceFrom sqrt h p
      if optLt di.1 s.1 then di else s) (lineStringDistanceFrom sqrt outer p)

/-- `DistanceFromWithIndex` (non-nil argument) -/
def distanceFromWithIndex (sqrt : α → α) (p : Pt α) : Geom α → Option α × Int
  | .point g => (some (distance sqrt g p), 0)
  | .multiPoint mp => multiPointDistanceFrom sqrt mp p
  | .lineString ls => lineStringDistanceFrom sqrt ls p
  | .multiLineString mls =>
    mls.zipIdx.foldl (fun s (li : List (Pt α) × Nat) => minStep s (lineStringDistanceFrom sqrt li.1 p).1 li.2) (none, -1)
  | .ring r => lineStringDistanceFrom sqrt r p
  | .polygon pg => polygonDistanceFrom sqrt pg p
  | .multiPolygon mp =>
    mp.zipIdx.foldl (fun s (gi : List (List (Pt α)) × Nat) => minStep s (polygonDistanceFrom sqrt gi.1 p).1 gi.2) (none, -1)
  | .bound lo hi => lineStringDistanceFrom sqrt (boundRing lo hi) p
  | .collection gs => collLoop gs 0 (none, -1)
where
  collLoop : List (Geom α) → Nat → Option α × Int → Option α × Int
    | [], _, s => s
    | g :: t, i, s => collLoop t (i + 1) (minStep s (distanceFromWithIndex sqrt p g).1 i)

/-- `DistanceFrom` -/
def distanceFrom (sqrt : α → α) (g : Geom α) (p : Pt α) : Option α := (distanceFromWithIndex sqrt p g).1

end

end Orb.Planar
