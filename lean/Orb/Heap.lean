/-
  Orb.Heap — a memory model for the clause of C06 that is about memory:
  "a clone shares no memory with the original: mutating either leaves the other
  unchanged" (DESIGN.md §2.3).  Core Lean only.

  A pure value model (`Orb.Core.cloneV`) cannot observe aliasing.  Here a geometry is a
  tree of SLICE HEADERS into a store of backing arrays:

  * `Store α` — the backing arrays of all `[]orb.Point` in play; the identity of an array is
    its index in the list.  `alloc` (Go's `make([]Point, n)` + `copy`) appends a new array,
    so every allocation returns an id that no existing header can hold.
  * `HGeom α` — the nine kinds with every point list replaced by the id of its backing array.
    Offsets, lengths and capacities of the headers are left out: a header is taken to span
    its whole array.  `orb.Clone` and the per-type `Clone` methods never re-slice
    (`make([]Point, len(mp))` + `copy`), so the clone side needs nothing more; for the
    original this means aliasing is modelled at the granularity of whole arrays (two members
    either are the same slice or are disjoint) — overlapping sub-slices of one array inside
    the original are outside the model (the correspondence run reports overlap of address
    ranges, not only equality of base pointers, to cover them on the Go side).
  * The outer header arrays (`[]LineString`, `[]Ring`, `[]Polygon`, `[]Geometry`) are also
    freshly allocated by the Go code (`make(MultiLineString, 0, len(mls))`, …).  The property
    speaks about edits of vertices, and a vertex lives in a point array, so only the point
    arrays are given identities; the outer lists are plain (immutable) Lean lists here.
  * Nil members below the top level are outside the model, as everywhere (§2.4); the top-level
    nil interface / typed nil slices own no memory and are covered by `Orb.Core.cloneV`.

  `clone` threads the store through the traversal in the order in which the Go code allocates
  (clone.go, multi_point.go:17-26, line_string.go:37-40, ring.go:72-79,
  multi_line_string.go:47-58, polygon.go:44-55, multi_polygon.go:45-57, geometry.go:134-145).
-/
import Orb.Basic

namespace Orb.Heap
open Orb

/-- The backing arrays; array id = index. -/
abbrev Store (α : Type) := List (List (Pt α))

/-- A geometry whose point slices are references (array ids) into a `Store`. -/
inductive HGeom (α : Type) where
  | point (p : Pt α)
  | multiPoint (a : Nat)
  | lineString (a : Nat)
  | multiLineString (as : List Nat)
  | ring (a : Nat)
  | polygon (as : List Nat)
  | multiPolygon (ass : List (List Nat))
  | bound (min max : Pt α)
  | collection (gs : List (HGeom α))
deriving Repr, Inhabited

variable {α : Type}

/-- Contents of array `a`; an id that was never allocated reads as the empty array. -/
def read (σ : Store α) (a : Nat) : List (Pt α) := σ.getD a []

mutual
/-- The value a heap geometry has in a store. -/
def denote (σ : Store α) : HGeom α → Geom α
  | .point p => .point p
  | .multiPoint a => .multiPoint (read σ a)
  | .lineString a => .lineString (read σ a)
  | .multiLineString as => .multiLineString (as.map (read σ))
  | .ring a => .ring (read σ a)
  | .polygon as => .polygon (as.map (read σ))
  | .multiPolygon ass => .multiPolygon (ass.map fun as => as.map (read σ))
  | .bound a b => .bound a b
  | .collection gs => .collection (denoteList σ gs)
def denoteList (σ : Store α) : List (HGeom α) → List (Geom α)
  | [] => []
  | g :: gs => denote σ g :: denoteList σ gs
end

mutual
/-- The ids of all backing arrays reachable from a value, in traversal order (with repetitions
    when the value shares an array between members). -/
def footprint : HGeom α → List Nat
  | .point _ => []
  | .multiPoint a => [a]
  | .lineString a => [a]
  | .multiLineString as => as
  | .ring a => [a]
  | .polygon as => as
  | .multiPolygon ass => ass.flatten
  | .bound _ _ => []
  | .collection gs => footprintList gs
def footprintList : List (HGeom α) → List Nat
  | [] => []
  | g :: gs => footprint g ++ footprintList gs
end

/-- Every header refers to an allocated array. -/
def WF (σ : Store α) (g : HGeom α) : Prop := ∀ a ∈ footprint g, a < σ.length

/-- `arr[i] = v` on backing array `a` (out-of-range indices and unallocated ids: no effect;
    Go would panic on the index, the property only speaks about edits of existing vertices). -/
def write : Store α → Nat → Nat → Pt α → Store α
  | [], _, _, _ => []
  | arr :: rest, 0, i, v => arr.set i v :: rest
  | arr :: rest, a + 1, i, v => arr :: write rest a i v

/-- `make([]Point, len(ps))` + `copy`: a new array at the next unused id. -/
def alloc (σ : Store α) (ps : List (Pt α)) : Store α × Nat := (σ ++ [ps], σ.length)

/-- `MultiPoint.Clone` (also `LineString.Clone`, `Ring.Clone`, which convert and call it). -/
def cloneArr (σ : Store α) (a : Nat) : Store α × Nat := alloc σ (read σ a)

/-- The loop of `MultiLineString.Clone` / `Polygon.Clone`: members are cloned first to last. -/
def cloneArrs (σ : Store α) : List Nat → Store α × List Nat
  | [] => (σ, [])
  | a :: as =>
    let r := cloneArr σ a
    let rs := cloneArrs r.1 as
    (rs.1, r.2 :: rs.2)

/-- The loop of `MultiPolygon.Clone`. -/
def cloneArrss (σ : Store α) : List (List Nat) → Store α × List (List Nat)
  | [] => (σ, [])
  | as :: ass =>
    let r := cloneArrs σ as
    let rs := cloneArrss r.1 ass
    (rs.1, r.2 :: rs.2)

mutual
/-- `orb.Clone` on a non-nil value: returns the store after all allocations and the new headers. -/
def clone (σ : Store α) : HGeom α → Store α × HGeom α
  | .point p => (σ, .point p)
  | .multiPoint a => let r := cloneArr σ a; (r.1, .multiPoint r.2)
  | .lineString a => let r := cloneArr σ a; (r.1, .lineString r.2)
  | .multiLineString as => let r := cloneArrs σ as; (r.1, .multiLineString r.2)
  | .ring a => let r := cloneArr σ a; (r.1, .ring r.2)
  | .polygon as => let r := cloneArrs σ as; (r.1, .polygon r.2)
  | .multiPolygon ass => let r := cloneArrss σ ass; (r.1, .multiPolygon r.2)
  | .bound a b => (σ, .bound a b)
  | .collection gs => let r := cloneList σ gs; (r.1, .collection r.2)
/-- The loop of `Collection.Clone`. -/
def cloneList (σ : Store α) : List (HGeom α) → Store α × List (HGeom α)
  | [] => (σ, [])
  | g :: gs =>
    let r := clone σ g
    let rs := cloneList r.1 gs
    (rs.1, r.2 :: rs.2)
end

end Orb.Heap
