/-
  Orb.LoopForms — the generic loop forms the Go→Lean translator
  (harness/cmd/factgen/translate_float.go) emits for the simple slice loops of the library, with
  the lemmas that relate them to `List.foldl`, `List.all`, `List.any`, `List.zip`, `List.filter`.

  * `foldlRet f xs s`      a `for … range xs` loop whose body may `return`: `f s x = .inl r` is
                           `return r`, `.inr s'` goes on with the state `s'`;
  * `foldPairsRet f xs s`  the same for the index loops over consecutive pairs
                           `for i := lo; i < len(xs)-k; i++ { … xs[i+c] … xs[i+c+1] … }`;
  * loops with an index (`for i := range xs`, `for i, x := range xs`) run over
    `List.range xs.length` and read `xs.getD i d`; `range_map_getD`, `range_map_getD_zip` turn
    them into loops over `xs` / `xs.zip ys`;
  * `all2 p xs ys`         "same length and pointwise `p`", the shape of the `Equal` methods.

  Core Lean only.
-/
namespace Orb.LoopForms

variable {β γ σ ρ : Type}

/-- a loop over `xs` whose body may return -/
def foldlRet (f : σ → β → Sum ρ σ) : List β → σ → Sum ρ σ
  | [], s => .inr s
  | x :: t, s =>
    match f s x with
    | .inl r => .inl r
    | .inr s' => foldlRet f t s'

/-- a loop over the consecutive pairs of `xs` whose body may return -/
def foldPairsRet (f : σ → β → β → Sum ρ σ) : List β → σ → Sum ρ σ
  | a :: b :: t, s =>
    match f s a b with
    | .inl r => .inl r
    | .inr s' => foldPairsRet f (b :: t) s'
  | _, s => .inr s

/-- same length and pointwise `p` -/
def all2 (p : β → γ → Bool) : List β → List γ → Bool
  | [], [] => true
  | x :: xs, y :: ys => p x y && all2 p xs ys
  | _, _ => false

@[simp] theorem foldlRet_nil (f : σ → β → Sum ρ σ) (s : σ) : foldlRet f [] s = .inr s := rfl

theorem foldlRet_cons (f : σ → β → Sum ρ σ) (x : β) (t : List β) (s : σ) :
    foldlRet f (x :: t) s = match f s x with
      | .inl r => .inl r
      | .inr s' => foldlRet f t s' := rfl

/-- a body that never returns: the loop is `List.foldl` -/
theorem foldlRet_inr (g : σ → β → σ) (xs : List β) (s : σ) :
    foldlRet (ρ := ρ) (fun s x => .inr (g s x)) xs s = .inr (xs.foldl g s) := by
  induction xs generalizing s with
  | nil => rfl
  | cons x t ih => simp only [foldlRet, List.foldl_cons]; exact ih _

/-- the loop over a mapped list -/
theorem foldlRet_map (f : σ → β → Sum ρ σ) (g : γ → β) (l : List γ) (s : σ) :
    foldlRet f (l.map g) s = foldlRet (fun s i => f s (g i)) l s := by
  induction l generalizing s with
  | nil => rfl
  | cons x t ih =>
    simp only [List.map_cons, foldlRet]
    cases f s (g x) with
    | inl r => rfl
    | inr s' => exact ih _

theorem foldl_map' (f : σ → β → σ) (g : γ → β) (l : List γ) (s : σ) :
    (l.map g).foldl f s = l.foldl (fun s i => f s (g i)) s := by
  induction l generalizing s with
  | nil => rfl
  | cons x t ih => simp only [List.map_cons, List.foldl_cons]; exact ih _

/-- `for … { if c x { return r } }` without state: the loop returns `r` iff some `x` has `c x`
    (`L4`, and `L2` with `c` the negated test) -/
theorem foldlRet_any (c : β → Prop) [DecidablePred c] (r : ρ) (xs : List β) :
    foldlRet (fun (_ : Unit) x => if c x then Sum.inl r else Sum.inr ()) xs ()
      = if xs.any (fun x => decide (c x)) then .inl r else .inr () := by
  induction xs with
  | nil => rfl
  | cons x t ih =>
    simp only [foldlRet, List.any_cons]
    by_cases h : c x
    · simp [h]
    · simp only [h, ↓reduceIte, decide_false, Bool.false_or]; exact ih

/-- reading a list through its indices -/
theorem range_map_getD (xs : List β) (d : β) :
    (List.range xs.length).map (fun i => xs.getD i d) = xs := by
  induction xs with
  | nil => rfl
  | cons x t ih =>
    rw [List.length_cons, List.range_succ_eq_map, List.map_cons, List.map_map]
    simp only [List.getD_cons_zero]
    congr 1

/-- reading two lists of the same length through their indices -/
theorem range_map_getD_zip (xs : List β) (ys : List γ) (d : β) (e : γ) (h : xs.length = ys.length) :
    (List.range xs.length).map (fun i => (xs.getD i d, ys.getD i e)) = xs.zip ys := by
  induction xs generalizing ys with
  | nil => rfl
  | cons x t ih =>
    cases ys with
    | nil => simp at h
    | cons y u =>
      rw [List.length_cons, List.range_succ_eq_map, List.map_cons, List.map_map]
      simp only [List.getD_cons_zero, List.zip_cons_cons]
      congr 1
      exact ih u (by simpa using h)

/-- a loop over the indices of `xs` that only reads `xs[i]` is the loop over `xs` -/
theorem foldlRet_range (f : σ → β → Sum ρ σ) (xs : List β) (d : β) (s : σ) :
    foldlRet (fun s i => f s (xs.getD i d)) (List.range xs.length) s = foldlRet f xs s := by
  rw [← foldlRet_map f (fun i => xs.getD i d), range_map_getD]

theorem foldl_range (f : σ → β → σ) (xs : List β) (d : β) (s : σ) :
    (List.range xs.length).foldl (fun s i => f s (xs.getD i d)) s = xs.foldl f s := by
  rw [← foldl_map' f (fun i => xs.getD i d), range_map_getD]

/-- a loop over the indices of `xs` that reads `xs[i]` and `ys[i]` (same length) is the loop
    over `xs.zip ys` -/
theorem foldlRet_range_zip (f : σ → β → γ → Sum ρ σ) (xs : List β) (ys : List γ) (d : β) (e : γ)
    (h : xs.length = ys.length) (s : σ) :
    foldlRet (fun s i => f s (xs.getD i d) (ys.getD i e)) (List.range xs.length) s
      = foldlRet (fun s (xy : β × γ) => f s xy.1 xy.2) (xs.zip ys) s := by
  rw [← range_map_getD_zip xs ys d e h, foldlRet_map]

theorem all2_length (p : β → γ → Bool) (xs : List β) (ys : List γ) (h : all2 p xs ys = true) :
    xs.length = ys.length := by
  induction xs generalizing ys with
  | nil => cases ys with
    | nil => rfl
    | cons y u => simp [all2] at h
  | cons x t ih =>
    cases ys with
    | nil => simp [all2] at h
    | cons y u =>
      simp only [all2, Bool.and_eq_true] at h
      simp [ih u h.2]

/-- `all2` on lists of the same length is `List.all` on the zipped list -/
theorem all2_eq_all_zip (p : β → γ → Bool) (xs : List β) (ys : List γ) (h : xs.length = ys.length) :
    all2 p xs ys = (xs.zip ys).all (fun xy => p xy.1 xy.2) := by
  induction xs generalizing ys with
  | nil => cases ys with
    | nil => rfl
    | cons y u => simp at h
  | cons x t ih =>
    cases ys with
    | nil => simp at h
    | cons y u =>
      simp only [all2, List.zip_cons_cons, List.all_cons]
      rw [ih u (by simpa using h)]

theorem all2_of_length_ne (p : β → γ → Bool) (xs : List β) (ys : List γ) (h : xs.length ≠ ys.length) :
    all2 p xs ys = false := by
  cases hb : all2 p xs ys with
  | false => rfl
  | true => exact absurd (all2_length p xs ys hb) h

/-- THE SHAPE OF THE `Equal` METHODS (`L2` with a length guard):
    `if len(xs) != len(ys) { return false }; for i := range xs { if !p(xs[i], ys[i]) { return false } }; return true` -/
theorem equal_loop (p : β → γ → Bool) (xs : List β) (ys : List γ) (d : β) (e : γ) :
    (if xs.length ≠ ys.length then false else
      match foldlRet (fun (_ : Unit) i => if (!p (xs.getD i d) (ys.getD i e)) = true then Sum.inl false else Sum.inr ())
          (List.range xs.length) () with
      | .inl r => r
      | .inr _ => true) = all2 p xs ys := by
  by_cases h : xs.length = ys.length
  · simp only [ne_eq, h, not_true_eq_false, ↓reduceIte]
    have := foldlRet_range_zip (ρ := Bool) (fun (_ : Unit) x y => if (!p x y) = true then Sum.inl false else Sum.inr ())
      xs ys d e h ()
    rw [← h, this, foldlRet_any (fun (xy : β × γ) => (!p xy.1 xy.2) = true) false (xs.zip ys),
      all2_eq_all_zip p xs ys h]
    cases hall : (xs.zip ys).all (fun xy => p xy.1 xy.2) with
    | true =>
      have : (xs.zip ys).any (fun x => decide ((!p x.1 x.2) = true)) = false := by
        rw [List.any_eq_false]
        intro xy hm
        have := (List.all_eq_true.mp hall) xy hm
        simp [this]
      rw [this]; rfl
    | false =>
      have : (xs.zip ys).any (fun x => decide ((!p x.1 x.2) = true)) = true := by
        rw [List.any_eq_true]
        have hne : ¬ ∀ xy ∈ xs.zip ys, p xy.1 xy.2 = true := by
          intro hc; rw [List.all_eq_true.mpr hc] at hall; exact Bool.noConfusion hall
        apply Classical.byContradiction
        intro hno
        apply hne
        intro xy hm
        cases hp : p xy.1 xy.2 with
        | true => rfl
        | false => exact absurd ⟨xy, hm, by simp [hp]⟩ hno
      rw [this]; rfl
  · simp only [ne_eq, h, not_false_eq_true, ↓reduceIte]
    exact (all2_of_length_ne p xs ys h).symm

/-- `for _, x := range xs { if c x { out = append(out, x) } }` is `List.filter` -/
theorem foldl_filter (c : β → Bool) (xs : List β) (acc : List β) :
    xs.foldl (fun (out : List β) x => if c x = true then out ++ [x] else out) acc = acc ++ xs.filter c := by
  induction xs generalizing acc with
  | nil => simp
  | cons x t ih =>
    simp only [List.foldl_cons, List.filter_cons]
    rw [ih]
    cases c x <;> simp

/-- `for _, x := range xs { if y := g x; y != nil { out = append(out, y) } }` is `List.filterMap` -/
theorem foldl_filterMap (g : β → Option γ) (xs : List β) (acc : List γ) :
    xs.foldl (fun (out : List γ) x => match g x with | some y => out ++ [y] | none => out) acc
      = acc ++ xs.filterMap g := by
  induction xs generalizing acc with
  | nil => simp
  | cons x t ih =>
    simp only [List.foldl_cons, List.filterMap_cons]
    rw [ih]
    cases g x <;> simp

/-! ### in-place loops `for i := range xs { xs[i] = f(xs[i]) }` -/

theorem getD_append_cons_length (pre : List β) (x : β) (t : List β) (d : β) :
    (pre ++ x :: t).getD pre.length d = x := by
  induction pre with
  | nil => rfl
  | cons a p ih => simp

theorem set_append_cons_length (pre : List β) (x v : β) (t : List β) :
    (pre ++ x :: t).set pre.length v = pre ++ v :: t := by
  induction pre with
  | nil => rfl
  | cons a p ih => simp [ih]

theorem foldl_set_shift (f : β → β) (d : β) (xs pre : List β) :
    ((List.range xs.length).map (· + pre.length)).foldl (fun (ys : List β) i => ys.set i (f (ys.getD i d))) (pre ++ xs)
      = pre ++ xs.map f := by
  induction xs generalizing pre with
  | nil => simp
  | cons x t ih =>
    rw [List.length_cons, List.range_succ_eq_map, List.map_cons, List.map_map, List.foldl_cons]
    simp only [Nat.zero_add, getD_append_cons_length, set_append_cons_length]
    have h := ih (pre ++ [f x])
    simp only [List.length_append, List.length_cons, List.length_nil, List.append_assoc, List.cons_append,
      List.nil_append] at h
    rw [List.map_cons, ← h]
    congr 1
    apply List.map_congr_left
    intro i _
    simp only [Function.comp, Nat.succ_eq_add_one]
    omega

/-- `for i := range xs { xs[i] = f(xs[i]) }` is `List.map` -/
theorem foldl_set_map (f : β → β) (d : β) (xs : List β) :
    (List.range xs.length).foldl (fun (ys : List β) i => ys.set i (f (ys.getD i d))) xs = xs.map f := by
  have h := foldl_set_shift f d xs []
  simpa using h

/-! ### in-place compaction `count := 0; for i := range xs { r := …xs[i]…; if skip { continue }; xs[count] = r; count++ }; xs[:count]` -/

/-- what the compaction keeps, from position `i` on: `g i x = none` skips, `some r` keeps `r` -/
def compactFrom (g : Nat → β → Option β) : Nat → List β → List β
  | _, [] => []
  | i, x :: rest =>
    match g i x with
    | none => compactFrom g (i + 1) rest
    | some r => r :: compactFrom g (i + 1) rest

/-- one iteration: the state is `(count, xs)` -/
def compactStep (g : Nat → β → Option β) (d : β) (st : Nat × List β) (i : Nat) : Nat × List β :=
  match g i (st.2.getD i d) with
  | none => st
  | some r => (st.1 + 1, st.2.set st.1 r)

/-- the loop, from any point on: `out` is what has been kept (`count = out.length`), `junk` the slots between
    `count` and `i`, `rest` the elements not yet visited (never overwritten: `count ≤ i`) -/
theorem compact_fold (g : Nat → β → Option β) (d : β) (rest out junk : List β) :
    ∃ junk', (List.range' (out.length + junk.length) rest.length).foldl (compactStep g d) (out.length, out ++ junk ++ rest)
      = (out.length + (compactFrom g (out.length + junk.length) rest).length,
         out ++ (compactFrom g (out.length + junk.length) rest ++ junk')) := by
  induction rest generalizing out junk with
  | nil => exact ⟨junk, by simp [compactFrom]⟩
  | cons x t ih =>
    have hget : (out ++ junk ++ x :: t).getD (out.length + junk.length) d = x := by
      have := getD_append_cons_length (out ++ junk) x t d
      rw [List.length_append] at this
      exact this
    rw [List.length_cons, List.range'_succ, List.foldl_cons]
    cases hg : g (out.length + junk.length) x with
    | none =>
      have hstep : compactStep g d (out.length, out ++ junk ++ x :: t) (out.length + junk.length)
          = (out.length, out ++ (junk ++ [x]) ++ t) := by
        unfold compactStep
        dsimp only
        rw [hget, hg]
        simp
      rw [hstep]
      obtain ⟨j', h⟩ := ih out (junk ++ [x])
      refine ⟨j', ?_⟩
      have e1 : out.length + (junk ++ [x]).length = out.length + junk.length + 1 := by
        simp only [List.length_append, List.length_cons, List.length_nil]; omega
      rw [e1] at h
      simp only [compactFrom, hg]
      exact h
    | some r =>
      cases junk with
      | nil =>
        simp only [List.length_nil, Nat.add_zero, List.append_nil] at hget hg ⊢
        have hstep : compactStep g d (out.length, out ++ x :: t) out.length
            = ((out ++ [r]).length, (out ++ [r]) ++ [] ++ t) := by
          have hs := set_append_cons_length out x r t
          simp only [compactStep, hget, hg, hs, List.length_append, List.length_cons, List.length_nil,
            List.append_assoc, List.cons_append, List.nil_append, List.append_nil]
        rw [hstep]
        obtain ⟨j', h⟩ := ih (out ++ [r]) []
        refine ⟨j', ?_⟩
        have e1 : (out ++ [r]).length + ([] : List β).length = out.length + 1 := by simp
        rw [e1] at h
        simp only [compactFrom, hg]
        simp only [List.length_append, List.length_cons, List.length_nil, List.append_assoc, List.cons_append,
          List.nil_append] at h ⊢
        rw [h]
        congr 1
        omega
      | cons j js =>
        have hstep : compactStep g d (out.length, out ++ (j :: js) ++ x :: t) (out.length + (j :: js).length)
            = ((out ++ [r]).length, (out ++ [r]) ++ (js ++ [x]) ++ t) := by
          have hs := set_append_cons_length out j r (js ++ x :: t)
          simp only [List.append_assoc, List.cons_append] at hget hs ⊢
          unfold compactStep
          dsimp only
          rw [hget, hg]
          dsimp only
          rw [hs]
          simp
        rw [hstep]
        obtain ⟨j', h⟩ := ih (out ++ [r]) (js ++ [x])
        refine ⟨j', ?_⟩
        have e1 : (out ++ [r]).length + (js ++ [x]).length = out.length + (j :: js).length + 1 := by
          simp only [List.length_append, List.length_cons, List.length_nil]; omega
        rw [e1] at h
        simp only [compactFrom, hg]
        simp only [List.length_append, List.length_cons, List.length_nil, List.append_assoc, List.cons_append,
          List.nil_append] at h ⊢
        rw [h]
        congr 1
        omega

/-- the whole loop followed by `xs[:count]` -/
theorem compact_loop (g : Nat → β → Option β) (d : β) (xs : List β) :
    (((List.range xs.length).foldl (compactStep g d) (0, xs)).2.take
        ((List.range xs.length).foldl (compactStep g d) (0, xs)).1) = compactFrom g 0 xs := by
  obtain ⟨j', h⟩ := compact_fold g d xs [] []
  simp only [List.length_nil, Nat.add_zero, Nat.zero_add, List.nil_append] at h
  rw [List.range_eq_range', h]
  simp

/-- `for _, x := range xs { out = append(out, f x) }` is `List.map` -/
theorem foldl_append_map (f : β → γ) (xs : List β) (acc : List γ) :
    xs.foldl (fun (out : List γ) x => out ++ [f x]) acc = acc ++ xs.map f := by
  induction xs generalizing acc with
  | nil => simp
  | cons x t ih => simp [ih]

end Orb.LoopForms
