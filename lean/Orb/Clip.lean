/-
  Orb.Clip — model of clip/clip.go and clip/helpers.go.  Core Lean only, polymorphic in the
  coordinate type (Float twin / exact Rat / ordered field in the proofs).
  Region-code bit values come from `Generated.Params` (regenerated from the Go source).
-/
import Orb.Basic
import Orb.Core
import Generated.Params

namespace Orb.Clip
open Orb Orb.Core Generated.Params

section model
variable {α : Type} [Add α] [Sub α] [Mul α] [Div α] [LT α] [LE α] [DecidableLT α] [DecidableLE α] [BEq α]
  [Min α] [Max α]

/-- `bitCode`: closed box, boundary counts as inside. -/
def bitCode (b : Bound α) (p : Pt α) : Nat :=
  (if p.x < b.lo.x then clip_codeLeft else if p.x > b.hi.x then clip_codeRight else 0) |||
  (if p.y < b.lo.y then clip_codeBottom else if p.y > b.hi.y then clip_codeTop else 0)

/-- `bitCodeOpen`: boundary counts as outside. -/
def bitCodeOpen (b : Bound α) (p : Pt α) : Nat :=
  (if p.x ≤ b.lo.x then clip_codeLeft else if p.x ≥ b.hi.x then clip_codeRight else 0) |||
  (if p.y ≤ b.lo.y then clip_codeBottom else if p.y ≥ b.hi.y then clip_codeTop else 0)

/-- `intersect`: the edge is chosen in the order top, bottom, right, left; the clipped
    coordinate is set to the edge value.  `none` models `panic("no edge??")`. -/
def intersect (box : Bound α) (edge : Nat) (a b : Pt α) : Option (Pt α) :=
  if edge &&& clip_codeTop ≠ 0 then
    some ⟨a.x + (b.x - a.x) * (box.hi.y - a.y) / (b.y - a.y), box.hi.y⟩
  else if edge &&& clip_codeBottom ≠ 0 then
    some ⟨a.x + (b.x - a.x) * (box.lo.y - a.y) / (b.y - a.y), box.lo.y⟩
  else if edge &&& clip_codeRight ≠ 0 then
    some ⟨box.hi.x, a.y + (b.y - a.y) * (box.hi.x - a.x) / (b.x - a.x)⟩
  else if edge &&& clip_codeLeft ≠ 0 then
    some ⟨box.lo.x, a.y + (b.y - a.y) * (box.lo.x - a.x) / (b.x - a.x)⟩
  else none

/-- `push(out, i, p)`. -/
def push (out : List (List (Pt α))) (i : Nat) (p : Pt α) : List (List (Pt α)) :=
  if i ≥ out.length then out ++ [[p]] else out.modify i (· ++ [p])

/-- outcome of the inner Cohen–Sutherland loop for one segment -/
inductive Seg (α : Type) where
  | accept (a b : Pt α) (codeB : Nat)   -- both ends inside after clipping; `codeB` = code of the clipped end
  | reject
  | stuck                                -- fuel exhausted / no edge: unreachable (theorem)

/-- `clampToBound`: a point that rounding left marginally outside the bound is moved onto it. -/
def clampToBound (box : Bound α) (p : Pt α) : Pt α :=
  ⟨if p.x < box.lo.x then box.lo.x else if p.x > box.hi.x then box.hi.x else p.x,
   if p.y < box.lo.y then box.lo.y else if p.y > box.hi.y then box.hi.y else p.y⟩

/-- inner `for { … }` loop: after each `intersect` the moved end is re-coded with the CLOSED
    `bitCode`, in open mode too.
    * `clipsA` / `clipsB` count the `intersect` calls per end: an end that has been clipped twice and is
      still outside is snapped onto the box (`clampToBound`) and gets the code 0 — with floats this stops
      the loop from alternating for ever between two edges at a corner;
    * open bound: a far end that is a vertex ON the boundary (not yet clipped, closed code 0) is its own
      intersection and is kept as it is (recomputing it could move it by a rounding error).
    Over exact arithmetic neither changes anything: the clamp branch is never taken and `intersect`
    returns that vertex (theorem `segLoop_eq_segLoopU`).
    Fuel: at most 3 rounds per end plus the accepting one, so 8 is never exhausted
    (theorem `segLoop_ne_stuck`, any arithmetic). -/
def segLoop (box : Bound α) (isOpen : Bool) : Nat → Pt α → Pt α → Nat → Nat → Nat → Nat → Seg α
  | 0, _, _, _, _, _, _ => .stuck
  | fuel+1, a, b, codeA, codeB, clipsA, clipsB =>
    if codeA ||| codeB = 0 then .accept a b codeB
    else if codeA &&& codeB ≠ 0 then .reject
    else if codeA ≠ 0 then
      if clipsA = 2 then segLoop box isOpen fuel (clampToBound box a) b 0 codeB clipsA clipsB
      else
        match intersect box codeA a b with
        | some a' => segLoop box isOpen fuel a' b (bitCode box a') codeB (clipsA + 1) clipsB
        | none => .stuck
    else
      if isOpen = true ∧ clipsB = 0 ∧ bitCode box b = 0 then segLoop box isOpen fuel a b codeA 0 clipsA clipsB
      else if clipsB = 2 then segLoop box isOpen fuel a (clampToBound box b) codeA 0 clipsA clipsB
      else
        match intersect box codeB a b with
        | some b' => segLoop box isOpen fuel a b' codeA (bitCode box b') clipsA (clipsB + 1)
        | none => .stuck

/-- state of the outer loop of `line` -/
structure LineSt (α : Type) where
  out : List (List (Pt α))
  line : Nat
  codeA : Nat
  stuck : Bool

/-- one iteration `i` of the outer loop (`a = in[i-1]`, `b = in[i]`, `last` = `i == loopTo-1`) -/
def lineStep (box : Bound α) (isOpen : Bool) (st : LineSt α) (a b : Pt α) (last : Bool) : LineSt α :=
  let codeB := if isOpen then bitCodeOpen box b else bitCode box b
  let endCode := codeB
  match segLoop box isOpen 8 a b st.codeA codeB 0 0 with
  | .accept a' b' codeB' =>
    let out := push st.out st.line a'
    if codeB' ≠ endCode then
      let out := push out st.line b'
      { out := out, line := if last then st.line else st.line + 1, codeA := endCode, stuck := st.stuck }
    else if last then
      { out := push out st.line b', line := st.line, codeA := endCode, stuck := st.stuck }
    else { out := out, line := st.line, codeA := endCode, stuck := st.stuck }
  | .reject => { st with codeA := endCode }
  | .stuck => { st with codeA := endCode, stuck := true }

/-- the outer loop over consecutive vertex pairs -/
def lineLoop (box : Bound α) (isOpen : Bool) : LineSt α → List (Pt α) → LineSt α
  | st, a :: b :: rest => lineLoop box isOpen (lineStep box isOpen st a b rest.isEmpty) (b :: rest)
  | st, _ => st

/-- `line(box, in, open)`; `none` = the model got stuck (never happens, whatever the arithmetic:
    theorem `line_total_any`). -/
def line (box : Bound α) (isOpen : Bool) (inp : List (Pt α)) : Option (List (List (Pt α))) :=
  match inp with
  | [] => some []
  | p :: _ =>
    let st := lineLoop box isOpen ⟨[], 0, if isOpen then bitCodeOpen box p else bitCode box p, false⟩ inp
    if st.stuck then none else some st.out

/-- `clip.LineString` (nil for no pieces = empty list). -/
def lineString (box : Bound α) (isOpen : Bool) (ls : List (Pt α)) : Option (List (List (Pt α))) :=
  line box isOpen ls

/-- `clip.MultiLineString`. -/
def multiLineString (box : Bound α) (isOpen : Bool) (mls : List (List (Pt α))) : Option (List (List (Pt α))) :=
  mls.foldl (fun acc ls => match acc, line box isOpen ls with
    | some r, some x => some (r ++ x)
    | _, _ => none) (some [])

/-! ### Sutherland–Hodgman ring clipping -/

def ptEqB (p q : Pt α) : Bool := p.x == q.x && p.y == q.y

/-- one pass of `ring` for one `edge` over the current vertex list -/
def ringPass (box : Bound α) (edge : Nat) (initClosed : Bool) (inp : List (Pt α)) : Option (List (Pt α)) :=
  match inp with
  | [] => some []
  | f :: _ =>
    let prev0 := if initClosed then inp.getLast?.getD f else f
    let rec go : List (Pt α) → Pt α → Bool → List (Pt α) → Option (List (Pt α))
      | [], _, _, out => some out
      | p :: rest, prev, prevInside, out =>
        let inside := (bitCode box p &&& edge) == 0
        let out1 : Option (List (Pt α)) :=
          if inside != prevInside then
            match intersect box edge prev p with
            | some i => some (out ++ [i])
            | none => none
          else some out
        match out1 with
        | none => none
        | some out1 =>
          let out2 := if inside then out1 ++ [p] else out1
          go rest p inside out2
    go inp prev0 ((bitCode box prev0 &&& edge) == 0) []

/-- `ring(box, in)`: four passes (edge = 1, 2, 4, 8), nil as soon as a pass leaves nothing,
    re-closed at the end if the input was closed.  `none` = `panic("no edge??")` (unreachable). -/
def ring (box : Bound α) (inp : List (Pt α)) : Option (List (Pt α)) :=
  match inp with
  | [] => some []
  | f :: _ =>
    let l := inp.getLast?.getD f
    let initClosed := ptEqB f l
    let pass (edge : Nat) (cur : Option (List (Pt α))) : Option (List (Pt α)) :=
      match cur with
      | none => none
      | some [] => some []
      | some c => ringPass box edge initClosed c
    match pass 8 (pass 4 (pass 2 (pass 1 (some inp)))) with
    | none => none
    | some [] => some []
    | some out =>
      if initClosed then
        match out, out.getLast? with
        | f' :: _, some l' => if ptEqB f' l' then some out else some (out ++ [f'])
        | _, _ => some out
      else some out

/-- `clip.Polygon`: nil when there are no rings or the outer ring vanishes; vanished holes dropped. -/
def polygon (box : Bound α) (p : List (List (Pt α))) : Option (List (List (Pt α))) :=
  match p with
  | [] => some []
  | outer :: holes =>
    match ring box outer with
    | none => none
    | some [] => some []
    | some r =>
      holes.foldl (fun acc h => match acc, ring box h with
        | some res, some [] => some res
        | some res, some h' => some (res ++ [h'])
        | _, _ => none) (some [r])

/-- `clip.MultiPolygon`. -/
def multiPolygon (box : Bound α) (mp : List (List (List (Pt α)))) : Option (List (List (List (Pt α)))) :=
  mp.foldl (fun acc p => match acc, polygon box p with
    | some res, some [] => some res
    | some res, some p' => some (res ++ [p'])
    | _, _ => none) (some [])

/-- `clip.Bound`. -/
def clipBound (b bound : Bound α) : Bound α :=
  if b.isEmpty && bound.isEmpty then bound
  else if b.isEmpty then bound
  else if bound.isEmpty then b
  else ⟨⟨max b.lo.x bound.lo.x, max b.lo.y bound.lo.y⟩, ⟨min b.hi.x bound.hi.x, min b.hi.y bound.hi.y⟩⟩

/-- `clip.MultiPoint`. -/
def multiPoint (box : Bound α) (mp : List (Pt α)) : List (Pt α) := mp.filter fun p => box.contains p

/-- `clip.Geometry`: bound pre-test, per-kind dispatch, single-member unwrapping, nil rules.
    Outer `none` = the model got stuck (unreachable); inner `none` = the Go result `nil`. -/
def geometry (eb : Bound α) (box : Bound α) : Geom α → Option (Option (Geom α))
  | .point p =>
    if !(box.intersects (Core.bound eb (.point p))) then some none else some (some (.point p))
  | .multiPoint ps =>
    if !(box.intersects (Core.bound eb (.multiPoint ps))) then some none else
    (match multiPoint box ps with
     | [] => some none
     | [p] => some (some (.point p))
     | l => some (some (.multiPoint l)))
  | .lineString ps =>
    if !(box.intersects (Core.bound eb (.lineString ps))) then some none else
    (match line box false ps with
     | none => none
     | some [] => some none
     | some [l] => some (some (.lineString l))
     | some l => some (some (.multiLineString l)))
  | .multiLineString ls =>
    if !(box.intersects (Core.bound eb (.multiLineString ls))) then some none else
    (match multiLineString box false ls with
     | none => none
     | some [] => some none
     | some [l] => some (some (.lineString l))
     | some l => some (some (.multiLineString l)))
  | .ring r =>
    if !(box.intersects (Core.bound eb (.ring r))) then some none else
    (match ring box r with
     | none => none
     | some [] => some none
     | some r' => some (some (.ring r')))
  | .polygon p =>
    if !(box.intersects (Core.bound eb (.polygon p))) then some none else
    (match polygon box p with
     | none => none
     | some [] => some none
     | some p' => some (some (.polygon p')))
  | .multiPolygon mp =>
    if !(box.intersects (Core.bound eb (.multiPolygon mp))) then some none else
    (match multiPolygon box mp with
     | none => none
     | some [] => some none
     | some [p] => some (some (.polygon p))
     | some l => some (some (.multiPolygon l)))
  | .bound a b =>
    if !(box.intersects ⟨a, b⟩) then some none else
    if (⟨a, b⟩ : Bound α).isEmpty then some none else   -- `if g.IsEmpty() { return nil }`
    let r := clipBound box ⟨a, b⟩
    if r.isEmpty then some none else some (some (.bound r.lo r.hi))
  | .collection gs =>
    if !(box.intersects (Core.bound eb (.collection gs))) then some none else
    (match collect eb box gs with
     | none => none
     | some [] => some none
     | some [g] => some (some g)
     | some l => some (some (.collection l)))
where
  collect (eb : Bound α) (box : Bound α) : List (Geom α) → Option (List (Geom α))
    | [] => some []
    | g :: rest =>
      match geometry eb box g, collect eb box rest with
      | some none, some r => some r
      | some (some c), some r => some (c :: r)
      | _, _ => none

end model

end Orb.Clip
