/-
  Orb.Quadtree — model of quadtree/quadtree.go and quadtree/maxheap.go.  Core Lean only,
  polymorphic in the coordinate type (Float twin / exact Rat / ordered field in the proofs).

  A stored `orb.Pointer` is modelled as `(id, point)`; ids stand for pointer identity.
  `*node` is `Tree.nil` (nil pointer) or `Tree.node value c0 c1 c2 c3`.
  `math.MaxFloat64` limits: the searches exist in two forms.  `matching` / `remove` / `kNearest` start
  from `none : Option α` (no limit) — the form the theorems are about, an ordered field has no largest
  element.  `matchingFrom` / `removeFrom` / `kNearestFrom` start from an explicit initial limit
  `init : Option α`; the Float twin runs them with `some math.MaxFloat64`, which is what the Go code
  does (a pointer whose squared distance is not `< MaxFloat64` — overflow to +Inf, NaN — is never
  accepted).  `OrbProofs/C11From.lean` proves that the two forms give the same answers whenever
  every accepted pointer is strictly nearer than the initial limit.
-/
import Orb.Basic
import Orb.Core

namespace Orb.Quadtree
open Orb Orb.Core

structure Ptr (α : Type) where
  id : Nat
  p : Pt α
deriving Repr, BEq, DecidableEq, Inhabited

inductive Tree (α : Type) where
  | nil
  | node (value : Option (Ptr α)) (c0 c1 c2 c3 : Tree α)
deriving Repr, Inhabited

/-- A cell `left right bottom top`. -/
structure Cell (α : Type) where
  l : α
  r : α
  b : α
  t : α
deriving Repr, Inhabited

structure QT (α : Type) where
  bound : Bound α
  root : Tree α
deriving Inhabited

section model
variable {α : Type} [Add α] [Sub α] [Mul α] [Div α] [OfNat α 2] [LT α] [LE α] [DecidableLT α] [DecidableLE α]
  [Min α] [Max α]

def Tree.isNil : Tree α → Bool
  | .nil => true
  | _ => false

def rootCell (b : Bound α) : Cell α := ⟨b.lo.x, b.hi.x, b.lo.y, b.hi.y⟩

def Cell.cx (c : Cell α) : α := (c.l + c.r) / 2
def Cell.cy (c : Cell α) : α := (c.b + c.t) / 2

/-- the four sub-cells in the code's child numbering: 0 = top-left, 1 = top-right,
    2 = bottom-left, 3 = bottom-right -/
def Cell.sub (c : Cell α) (i : Nat) : Cell α :=
  match i with
  | 0 => ⟨c.l, c.cx, c.cy, c.t⟩
  | 1 => ⟨c.cx, c.r, c.cy, c.t⟩
  | 2 => ⟨c.l, c.cx, c.b, c.cy⟩
  | _ => ⟨c.cx, c.r, c.b, c.cy⟩

/-- `childIndex(cx, cy, point)`: `point[1] <= cy → 2`, `point[0] >= cx → +1`. -/
def childIndex (cx cy : α) (p : Pt α) : Nat :=
  (if p.y ≤ cy then 2 else 0) + (if p.x ≥ cx then 1 else 0)

/-- `Quadtree.add` together with the root cases of `Quadtree.Add`: a nil node is created, an
    empty node (nil value) is reused, otherwise descend into the quadrant chosen by the
    midline comparisons. -/
def ins (t : Tree α) (p : Ptr α) (c : Cell α) : Tree α :=
  match t with
  | .nil => .node (some p) .nil .nil .nil .nil
  | .node none c0 c1 c2 c3 => .node (some p) c0 c1 c2 c3
  | .node (some v) c0 c1 c2 c3 =>
    match childIndex c.cx c.cy p.p with
    | 0 => .node (some v) (ins c0 p (c.sub 0)) c1 c2 c3
    | 1 => .node (some v) c0 (ins c1 p (c.sub 1)) c2 c3
    | 2 => .node (some v) c0 c1 (ins c2 p (c.sub 2)) c3
    | _ => .node (some v) c0 c1 c2 (ins c3 p (c.sub 3))

/-- `Quadtree.Add`: `false` = ErrPointOutsideOfBounds (tree unchanged). -/
def add (q : QT α) (p : Ptr α) : QT α × Bool :=
  if !q.bound.contains p.p then (q, false)
  else ({ q with root := ins q.root p (rootCell q.bound) }, true)

def Tree.value : Tree α → Option (Ptr α)
  | .nil => none
  | .node v _ _ _ _ => v

/-- `removeNode` on a node whose value has just been cleared: pull the value of the first
    non-nil child up, recursively; `none` = "this node has no children, the parent may drop it". -/
def fill : Tree α → Option (Tree α)
  | .nil => none
  | .node _ c0 c1 c2 c3 =>
    match c0 with
    | .node v0 _ _ _ _ => some (.node v0 ((fill c0).getD .nil) c1 c2 c3)
    | .nil =>
      match c1 with
      | .node v1 _ _ _ _ => some (.node v1 c0 ((fill c1).getD .nil) c2 c3)
      | .nil =>
        match c2 with
        | .node v2 _ _ _ _ => some (.node v2 c0 c1 ((fill c2).getD .nil) c3)
        | .nil =>
          match c3 with
          | .node v3 _ _ _ _ => some (.node v3 c0 c1 c2 ((fill c3).getD .nil))
          | .nil => none

/-- `v.closest.Value = nil; removeNode(v.closest)` at the top level: the result of the
    top-level call is ignored, so a childless node stays in the tree as an empty node. -/
def clearNode (t : Tree α) : Tree α :=
  match t with
  | .nil => .nil
  | .node _ c0 c1 c2 c3 =>
    match fill t with
    | some t' => t'
    | none => .node none c0 c1 c2 c3

/-- apply `f` to the node reached by following child indices `path` from `t` -/
def modifyAt (f : Tree α → Tree α) : List Nat → Tree α → Tree α
  | [], t => f t
  | i :: rest, .node v c0 c1 c2 c3 =>
    (match i with
     | 0 => .node v (modifyAt f rest c0) c1 c2 c3
     | 1 => .node v c0 (modifyAt f rest c1) c2 c3
     | 2 => .node v c0 c1 (modifyAt f rest c2) c3
     | _ => .node v c0 c1 c2 (modifyAt f rest c3))
  | _ :: _, .nil => .nil

/-! ### the generic traversal `visit.Visit` -/

/-- A visitor: its state `σ`, the pruning bound it exposes, the point used to order children,
    and what it does at a node holding a value (`path` identifies the node). -/
structure Visitor (α σ : Type) where
  bound : σ → Bound α
  point : Pt α
  visit : σ → Ptr α → List Nat → σ

/-- `visit.Visit(n, left, right, bottom, top)`. `path` is the reversed list of child indices. -/
def visit {σ : Type} (V : Visitor α σ) : Tree α → Cell α → List Nat → σ → σ
  | .nil, _, _, st => st
  | .node v c0 c1 c2 c3, c, path, st =>
    let b := V.bound st
    if c.l > b.hi.x ∨ c.r < b.lo.x ∨ c.b > b.hi.y ∨ c.t < b.lo.y then st else
    let st := match v with
      | some p => V.visit st p path.reverse
      | none => st
    if c0.isNil && c1.isNil && c2.isNil && c3.isNil then st else
    let s0 := fun st => visit V c0 (c.sub 0) (0 :: path) st
    let s1 := fun st => visit V c1 (c.sub 1) (1 :: path) st
    let s2 := fun st => visit V c2 (c.sub 2) (2 :: path) st
    let s3 := fun st => visit V c3 (c.sub 3) (3 :: path) st
    match childIndex c.cx c.cy V.point with
    | 0 => s3 (s2 (s1 (s0 st)))
    | 1 => s0 (s3 (s2 (s1 st)))
    | 2 => s1 (s0 (s3 (s2 st)))
    | _ => s2 (s1 (s0 (s3 st)))

def distSq (a b : Pt α) : α := (a.x - b.x) * (a.x - b.x) + (a.y - b.y) * (a.y - b.y)

/-- the box `point ± d` written into `closestBound` -/
def boxAround (p : Pt α) (d : α) : Bound α := ⟨⟨p.x - d, p.y - d⟩, ⟨p.x + d, p.y + d⟩⟩

/-! ### findVisitor (Find / Matching / the search phase of Remove) -/

structure FindSt (α : Type) where
  closest : Option (Ptr α × List Nat)
  bnd : Bound α
  minD : Option α          -- `none` = math.MaxFloat64

def findVisitor (sqrt : α → α) (pt : Pt α) (filter : Ptr α → Bool) : Visitor α (FindSt α) where
  bound := fun st => st.bnd
  point := pt
  visit := fun st v path =>
    if !filter v then st else
    let d := distSq v.p pt
    let better := match st.minD with
      | none => true
      | some m => decide (d < m)
    if better then { closest := some (v, path), bnd := boxAround pt (sqrt d), minD := some d } else st

def findRaw (sqrt : α → α) (q : QT α) (pt : Pt α) (filter : Ptr α → Bool) : FindSt α :=
  visit (findVisitor sqrt pt filter) q.root (rootCell q.bound) [] ⟨none, q.bound, none⟩

/-- `Quadtree.Matching` (`Find` = no filter). -/
def matching (sqrt : α → α) (q : QT α) (pt : Pt α) (filter : Ptr α → Bool) : Option (Ptr α) :=
  match q.root with
  | .nil => none
  | _ => (findRaw sqrt q pt filter).closest.map (·.1)

/-- `Quadtree.Remove(p, eq)`: search for the closest pointer accepted by `eq`, clear that node
    and pull values up. -/
def remove (sqrt : α → α) (q : QT α) (pt : Pt α) (eq : Ptr α → Bool) : QT α × Bool :=
  match q.root with
  | .nil => (q, false)
  | _ =>
    match (findRaw sqrt q pt eq).closest with
    | none => (q, false)
    | some (_, path) => ({ q with root := modifyAt clearNode path q.root }, true)

/-! ### maxHeap (maxheap.go) on an array of (pointer, distance) -/

abbrev Heap (α : Type) := Array (Ptr α × α)

/-- sift-up loop of `Push` starting at index `i` with the pushed item `(pt, d)` -/
def siftUp (pt : Ptr α) (d : α) : Nat → Nat → Heap α → Heap α
  | 0, _, h => h
  | fuel+1, i, h =>
    if i = 0 then h else
    let up := ((i + 1) >>> 1) - 1
    match h[up]? with
    | none => h
    | some parent =>
      if d < parent.2 then h
      else siftUp pt d fuel up ((h.setIfInBounds i parent).setIfInBounds up (pt, d))

/-- `maxHeap.Push`. -/
def heapPush (h : Heap α) (pt : Ptr α) (d : α) : Heap α :=
  let h := h.push (pt, d)
  siftUp pt d h.size (h.size - 1) h

/-- sift-down loop of `Pop` for the moved `lastItem` -/
def siftDown (last : Ptr α × α) : Nat → Nat → Heap α → Heap α
  | 0, _, h => h
  | fuel+1, i, h =>
    let right := (i + 1) <<< 1
    let left := right - 1
    match h[i]? with
    | none => h
    | some cur =>
      let (ci, child) :=
        match h[left]? with
        | some l => if cur.2 < l.2 then (left, l) else (i, cur)
        | none => (i, cur)
      let (ci, child) :=
        match h[right]? with
        | some r => if child.2 < r.2 then (right, r) else (ci, child)
        | none => (ci, child)
      if ci = i then h
      else siftDown last fuel ci ((h.setIfInBounds i child).setIfInBounds ci last)

/-- `maxHeap.Pop` (removes the maximum). -/
def heapPop (h : Heap α) : Heap α :=
  match h.back? with
  | none => h   -- Go would panic; never called on an empty heap (theorem)
  | some last =>
    let h := h.pop
    if h.size = 0 then h
    else siftDown last h.size 0 (h.setIfInBounds 0 last)

/-! ### nearestVisitor (KNearest / KNearestMatching) -/

structure NearSt (α : Type) where
  heap : Heap α
  bnd : Bound α
  maxD : Option α          -- `none` = math.MaxFloat64

def nearestVisitor (sqrt : α → α) (pt : Pt α) (filter : Ptr α → Bool) (k : Nat) : Visitor α (NearSt α) where
  bound := fun st => st.bnd
  point := pt
  visit := fun st v _ =>
    if !filter v then st else
    let d := distSq v.p pt
    let within := match st.maxD with
      | none => true
      | some m => decide (d < m)
    if !within then st else
    let h := heapPush st.heap v d
    if h.size > k then
      let h := heapPop h
      match h[0]? with
      | some top => { heap := h, bnd := boxAround pt (sqrt top.2), maxD := some top.2 }
      | none => { st with heap := h }   -- unreachable for k ≥ 1
    else { st with heap := h }

/-- drain loop of `KNearestMatching`: `buf[i] = heap[0]; heap.Pop()` for `i = len-1 … 0` -/
def drain : Nat → Heap α → List (Ptr α) → List (Ptr α)
  | 0, _, acc => acc
  | n+1, h, acc =>
    match h[0]? with
    | some top => drain n (heapPop h) (top.1 :: acc)
    | none => acc

/-- `Quadtree.KNearestMatching` (`maxDist = none` when no limit is given; `k ≤ 0` returns nothing). -/
def kNearest (sqrt : α → α) (q : QT α) (pt : Pt α) (k : Nat) (filter : Ptr α → Bool) (maxDist : Option α) :
    List (Ptr α) :=
  match q.root with
  | .nil => []
  | _ =>
    if k = 0 then [] else
    let st0 : NearSt α := ⟨#[], q.bound, maxDist.map fun m => m * m⟩
    let st := visit (nearestVisitor sqrt pt filter k) q.root (rootCell q.bound) [] st0
    drain st.heap.size st.heap []

/-! ### the same searches from an explicit initial limit (`minDistSquared: math.MaxFloat64`) -/

def findRawFrom (init : Option α) (sqrt : α → α) (q : QT α) (pt : Pt α) (filter : Ptr α → Bool) : FindSt α :=
  visit (findVisitor sqrt pt filter) q.root (rootCell q.bound) [] ⟨none, q.bound, init⟩

/-- `Quadtree.Matching` with `minDistSquared` initialised to `init`. -/
def matchingFrom (init : Option α) (sqrt : α → α) (q : QT α) (pt : Pt α) (filter : Ptr α → Bool) :
    Option (Ptr α) :=
  match q.root with
  | .nil => none
  | _ => (findRawFrom init sqrt q pt filter).closest.map (·.1)

/-- `Quadtree.Remove(p, eq)` with `minDistSquared` initialised to `init`. -/
def removeFrom (init : Option α) (sqrt : α → α) (q : QT α) (pt : Pt α) (eq : Ptr α → Bool) : QT α × Bool :=
  match q.root with
  | .nil => (q, false)
  | _ =>
    match (findRawFrom init sqrt q pt eq).closest with
    | none => (q, false)
    | some (_, path) => ({ q with root := modifyAt clearNode path q.root }, true)

/-- `Quadtree.KNearestMatching` with `maxDistSquared` initialised to `init` and overwritten by the
    square of `maxDistance[0]` when one is given (a negative limit therefore acts as its absolute
    value). -/
def kNearestFrom (init : Option α) (sqrt : α → α) (q : QT α) (pt : Pt α) (k : Nat) (filter : Ptr α → Bool)
    (maxDist : Option α) : List (Ptr α) :=
  match q.root with
  | .nil => []
  | _ =>
    if k = 0 then [] else
    let lim : Option α := match maxDist with
      | some m => some (m * m)
      | none => init
    let st0 : NearSt α := ⟨#[], q.bound, lim⟩
    let st := visit (nearestVisitor sqrt pt filter k) q.root (rootCell q.bound) [] st0
    drain st.heap.size st.heap []

/-! ### the call `q.KNearestMatching(buf, pt, k, filter, maxDistance...)` as its caller sees it -/

/-- `maxDistance ...float64`: the code tests `len(maxDistance) > 0` and reads `maxDistance[0]`;
    further elements are ignored. -/
def limitOf (maxDistance : List α) : Option α := maxDistance.head?

/-- One call, with the caller's variadic argument made explicit: the answer, and the contents of the
    `maxDistance` slice AFTER the call.  When the call is written `lims...` the parameter is the
    caller's own slice (Go makes no copy), so an assignment to `maxDistance[0]` inside the library
    would be visible to the caller and to every later call made with the same slice.  The code has
    no such assignment — it computes `maxDistance[0] * maxDistance[0]` into the visitor — hence the
    slice comes back as it went in: THE LIMIT IS A VALUE. -/
def kNearestCall (init : Option α) (sqrt : α → α) (q : QT α) (pt : Pt α) (k : Nat) (filter : Ptr α → Bool)
    (maxDistance : List α) : List (Ptr α) × List α :=
  (kNearestFrom init sqrt q pt k filter (limitOf maxDistance), maxDistance)

/-- A caller that keeps its limits in ONE slice and issues the queries `(pt, k, filter)` one after
    the other, every one as `q.KNearestMatching(nil, pt, k, filter, lims...)`: the answers in order
    and the slice at the end. -/
def kNearestCalls (init : Option α) (sqrt : α → α) (q : QT α) :
    List (Pt α × Nat × (Ptr α → Bool)) → List α → List (List (Ptr α)) × List α
  | [], lims => ([], lims)
  | (pt, k, f) :: rest, lims =>
    let r := kNearestCall init sqrt q pt k f lims
    let rs := kNearestCalls init sqrt q rest r.2
    (r.1 :: rs.1, rs.2)

/-- `make(maxHeap, 0, k+1)` in `KNearestMatching` panics ("makeslice: cap out of range") when `k+1`
    wraps around (k = MaxInt64) or `(k+1) * 24` bytes (a `heapItem` is an interface and a float64)
    exceed the runtime's `maxAlloc` = 2^48 on linux/amd64.  The call is reached only for a non-nil
    root and `k > 0`. -/
def heapCapPanics (k : Nat) : Bool := decide (k + 1 ≥ 2 ^ 63) || decide ((k + 1) * 24 > 2 ^ 48)

/-! ### inBoundVisitor (InBound / InBoundMatching) -/

def inBoundVisitor [OfNat α 0] (b : Bound α) (filter : Ptr α → Bool) : Visitor α (List (Ptr α)) where
  bound := fun _ => b
  point := ⟨0, 0⟩
  visit := fun acc v _ =>
    if !filter v then acc
    else if b.lo.x > v.p.x ∨ b.hi.x < v.p.x ∨ b.lo.y > v.p.y ∨ b.hi.y < v.p.y then acc
    else acc ++ [v]

/-- `Quadtree.InBoundMatching`. -/
def inBound [OfNat α 0] (q : QT α) (b : Bound α) (filter : Ptr α → Bool) : List (Ptr α) :=
  match q.root with
  | .nil => []
  | _ => visit (inBoundVisitor b filter) q.root (rootCell q.bound) [] []

/-! ### contents, structural invariant -/

/-- every pointer stored in the tree (pre-order) -/
def contents : Tree α → List (Ptr α)
  | .nil => []
  | .node v c0 c1 c2 c3 => v.toList ++ contents c0 ++ contents c1 ++ contents c2 ++ contents c3

/-- number of nodes (for the bound on node count after removals) -/
def nodes : Tree α → Nat
  | .nil => 0
  | .node _ c0 c1 c2 c3 => 1 + nodes c0 + nodes c1 + nodes c2 + nodes c3

end model

end Orb.Quadtree
