/-
  Orb.SimplifyFast — a compiled-code twin of the Douglas-Peucker model for LONG vertex lists.

  `Orb.Simplify.dpScan` reads `ls[start]`, `ls[end]`, `ls[i]` with `List.getD`, i.e. in time proportional
  to the index: on a vertex list of n vertices whose Douglas-Peucker nesting is n deep (an inward spiral)
  the model needs ~n^3 list steps, minutes for n = 2000.  The definitions below are the SAME functions
  with the vertex list held in an `Array` (built once per call); `dpS_eq_dpSA` proves them equal, and as a
  `@[csimp]` lemma it makes the compiler use `dpSA` wherever the driver calls `dpS`.  Nothing here is a
  new model: the theorems of OrbProofs/C12 are about `dpS`, and `dpS = dpSA` is checked by the kernel
  (restated as `C12.dp_array_twin` in the audited module).  Core Lean only.
-/
import Orb.Simplify

namespace Orb.Simplify
open Orb

section dpFast
set_option linter.unusedSectionVars false
variable {α : Type} [Add α] [Sub α] [Mul α] [Div α] [LT α] [DecidableLT α] [BEq α] [OfNat α 0] [OfNat α 1]

/-- `dpScan` on an array of vertices -/
def dpScanA (dist : Pt α → Pt α → Pt α → α) (a : Array (Pt α)) (s e : Nat) : α × Nat :=
  let z : Pt α := ⟨0, 0⟩
  (List.range' (s + 1) (e - (s + 1))).foldl (fun (m : α × Nat) i =>
    let d := dist (a.getD s z) (a.getD e z) (a.getD i z)
    if m.1 < d then (d, i) else m) (0, 0)

/-- `dpWorker` on an array of vertices -/
def dpWorkerA (dist : Pt α → Pt α → Pt α → α) (a : Array (Pt α)) (tsq : α) :
    Nat → List (Nat × Nat) → List Bool → Option (List Bool)
  | _, [], mask => some mask
  | 0, _ :: _, _ => none
  | fuel + 1, (s, e) :: rest, mask =>
    let m := dpScanA dist a s e
    if tsq < m.1 then
      dpWorkerA dist a tsq fuel ((m.2, e) :: (s, m.2) :: rest) (mask.set m.2 true)
    else
      dpWorkerA dist a tsq fuel rest mask

def dpMaskA (dist : Pt α → Pt α → Pt α → α) (t : α) (ls : List (Pt α)) : Option (List Bool) :=
  let n := ls.length
  let mask := ((List.replicate n false).set 0 true).set (n - 1) true
  dpWorkerA dist ls.toArray (t * t) (2 * n + 1) [(0, n - 1)] mask

/-- `dpSimplifyWith` over `dpMaskA` -/
def dpSimplifyWithA (dist : Pt α → Pt α → Pt α → α) (t : α) (ls : List (Pt α)) : R (List (Pt α)) :=
  if ls.length = 0 then .panic "index out of range [0] with length 0" else
  match dpMaskA dist t ls with
  | none => .err ()
  | some mask => .ok (compact ls (maskIdx mask))

def dpSimplifyA (t : α) (ls : List (Pt α)) : R (List (Pt α)) := dpSimplifyWithA distSegSq t ls

def dpSA (t : α) : Simplifier α := fun ls _ => dpSimplifyA t ls

theorem dpScanA_eq (dist : Pt α → Pt α → Pt α → α) (ls : List (Pt α)) (s e : Nat) :
    dpScanA dist ls.toArray s e = dpScan dist ls s e := by
  simp [dpScanA, dpScan, Array.getD_eq_getD_getElem?, List.getD_eq_getElem?_getD]

theorem dpWorkerA_eq (dist : Pt α → Pt α → Pt α → α) (ls : List (Pt α)) (tsq : α) :
    ∀ (fuel : Nat) (st : List (Nat × Nat)) (mask : List Bool),
      dpWorkerA dist ls.toArray tsq fuel st mask = dpWorker dist ls tsq fuel st mask := by
  intro fuel
  induction fuel with
  | zero => intro st mask; cases st <;> simp [dpWorkerA, dpWorker]
  | succ f ih =>
    intro st mask
    cases st with
    | nil => simp [dpWorkerA, dpWorker]
    | cons p rest =>
      obtain ⟨s, e⟩ := p
      simp only [dpWorkerA, dpWorker, dpScanA_eq, ih]

theorem dpMaskA_eq (dist : Pt α → Pt α → Pt α → α) (t : α) (ls : List (Pt α)) :
    dpMaskA dist t ls = dpMask dist t ls := by
  simp only [dpMaskA, dpMask, dpWorkerA_eq]

theorem dpSimplifyWithA_eq (dist : Pt α → Pt α → Pt α → α) (t : α) (ls : List (Pt α)) :
    dpSimplifyWithA dist t ls = dpSimplifyWith dist t ls := by
  simp only [dpSimplifyWithA, dpSimplifyWith, dpMaskA_eq]
  rfl

end dpFast

/-- the array twin IS the model; as a `csimp` lemma: compiled code that calls `dpS` runs `dpSA` -/
@[csimp] theorem dpS_eq_dpSA : @dpS = @dpSA := by
  funext α _ _ _ _ _ _ _ _ _ t ls area
  simp only [dpS, dpSA, dpSimplify, dpSimplifyA, dpSimplifyWithA_eq]

end Orb.Simplify
