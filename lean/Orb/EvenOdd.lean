/-
  Orb.EvenOdd — the abstract specification C09 refines to: the closed even-odd region of an
  implicitly closed vertex chain.  Division-free (cross products only), so it is exact over
  `Int`, `Rat` and any ordered ring.  Core Lean only.
-/
import Orb.Basic

namespace Orb.EvenOdd
open Orb

variable {α : Type} [Sub α] [Mul α] [OfNat α 0] [LT α] [LE α] [DecidableLT α] [DecidableLE α]

/-- twice the signed area of the triangle `s e p` (positive: `p` left of `s → e`) -/
def cross (s e p : Pt α) : α := (e.x - s.x) * (p.y - s.y) - (e.y - s.y) * (p.x - s.x)

/-- the edges of the implicitly closed ring: the closing edge `(last, first)` and every consecutive pair -/
def edges (r : List (Pt α)) : List (Pt α × Pt α) :=
  match r with
  | [] => []
  | v :: t => ((v :: t).getLast?.getD v, v) :: (v :: t).zip t

/-- `p` lies on the closed segment `s e` (collinear and inside the segment's box) -/
def onSeg (s e p : Pt α) : Bool :=
  decide (¬ cross s e p < 0 ∧ ¬ 0 < cross s e p) &&
  decide ((s.x ≤ p.x ∧ p.x ≤ e.x) ∨ (e.x ≤ p.x ∧ p.x ≤ s.x)) &&
  decide ((s.y ≤ p.y ∧ p.y ≤ e.y) ∨ (e.y ≤ p.y ∧ p.y ≤ s.y))

/-- the upward ray from `p` crosses the edge: `min s.x e.x ≤ p.x < max s.x e.x` and `p` is strictly
    below the edge's line at `p.x` -/
def crossesAbove (s e p : Pt α) : Bool :=
  decide ((s.x ≤ p.x ∧ p.x < e.x ∧ cross s e p < 0) ∨ (e.x ≤ p.x ∧ p.x < s.x ∧ 0 < cross s e p))

def onBoundary (r : List (Pt α)) (p : Pt α) : Bool := (edges r).any fun se => onSeg se.1 se.2 p
def crossings (r : List (Pt α)) (p : Pt α) : Nat := (edges r).countP fun se => crossesAbove se.1 se.2 p

/-- THE SPEC: on the boundary, or an odd number of edges strictly above. -/
def inside (r : List (Pt α)) (p : Pt α) : Bool := onBoundary r p || crossings r p % 2 == 1

/-- a polygon's region: inside the outer ring and inside no hole (no rings: nothing) -/
def polyInside (pg : List (List (Pt α))) (p : Pt α) : Bool :=
  match pg with
  | [] => false
  | o :: hs => inside o p && hs.all fun h => !inside h p

/-- a multi-polygon's region: inside any member -/
def multiInside (mp : List (List (List (Pt α)))) (p : Pt α) : Bool := mp.any fun pg => polyInside pg p

end Orb.EvenOdd
