/-
  Orb.Core — model of the root package: bound.go, clone.go, equal.go,
  multi_point.go, line_string.go, multi_line_string.go, ring.go, polygon.go,
  multi_polygon.go, geometry.go (Collection).  Core Lean only, polymorphic in
  the coordinate type so that the same definitions run on `Float` (twin of the
  Go code), on `Int`/`Rat` (exact) and are reasoned about over an ordered ring.
-/
import Orb.Basic

namespace Orb.Core
open Orb

/-- `orb.Bound`. -/
structure Bound (α : Type) where
  lo : Pt α
  hi : Pt α
deriving Repr, BEq, DecidableEq, Inhabited

section order
variable {α : Type} [LT α] [LE α] [DecidableLT α] [DecidableLE α] [Min α] [Max α]

/-- `Bound.Contains`. -/
def Bound.contains (b : Bound α) (p : Pt α) : Bool :=
  if p.y < b.lo.y ∨ b.hi.y < p.y then false
  else if p.x < b.lo.x ∨ b.hi.x < p.x then false
  else true

/-- `Bound.IsEmpty`. -/
def Bound.isEmpty (b : Bound α) : Bool :=
  decide (b.lo.x > b.hi.x ∨ b.lo.y > b.hi.y)

/-- `Bound.Extend` (with the empty-receiver rule). -/
def Bound.extend (b : Bound α) (p : Pt α) : Bound α :=
  if b.isEmpty then ⟨p, p⟩
  else if b.contains p then b
  else ⟨⟨min b.lo.x p.x, min b.lo.y p.y⟩, ⟨max b.hi.x p.x, max b.hi.y p.y⟩⟩

def Bound.leftTop (b : Bound α) : Pt α := ⟨b.lo.x, b.hi.y⟩
def Bound.rightBottom (b : Bound α) : Pt α := ⟨b.hi.x, b.lo.y⟩

/-- `Bound.Union` (with the empty-receiver rule). -/
def Bound.union (b o : Bound α) : Bound α :=
  if o.isEmpty then b
  else if b.isEmpty then o
  else (((b.extend o.lo).extend o.hi).extend o.leftTop).extend o.rightBottom

/-- `Bound.Intersects`. -/
def Bound.intersects (b o : Bound α) : Bool :=
  if b.hi.x < o.lo.x ∨ b.lo.x > o.hi.x ∨ b.hi.y < o.lo.y ∨ b.lo.y > o.hi.y then false else true

/-- `MultiPoint.Bound` (`eb` is the package's `emptyBound` sentinel). -/
def multiPointBound (eb : Bound α) (ps : List (Pt α)) : Bound α :=
  match ps with
  | [] => eb
  | p :: _ => ps.foldl Bound.extend ⟨p, p⟩

/-- `Polygon.Bound`: the outer ring only. -/
def polygonBound (eb : Bound α) (rs : List (List (Pt α))) : Bound α :=
  match rs with
  | [] => eb
  | r :: _ => multiPointBound eb r

/-- `MultiLineString.Bound`. -/
def multiLineStringBound (eb : Bound α) (ls : List (List (Pt α))) : Bound α :=
  match ls with
  | [] => eb
  | l :: rest => rest.foldl (fun b l => b.union (multiPointBound eb l)) (multiPointBound eb l)

/-- `MultiPolygon.Bound`. -/
def multiPolygonBound (eb : Bound α) (ps : List (List (List (Pt α)))) : Bound α :=
  match ps with
  | [] => eb
  | p :: rest => rest.foldl (fun b p => b.union (polygonBound eb p)) (polygonBound eb p)

/-- `Geometry.Bound()` for every kind; `Collection.Bound` unions its members. -/
def bound (eb : Bound α) : Geom α → Bound α
  | .point p => ⟨p, p⟩
  | .multiPoint ps => multiPointBound eb ps
  | .lineString ps => multiPointBound eb ps
  | .ring ps => multiPointBound eb ps
  | .multiLineString ls => multiLineStringBound eb ls
  | .polygon rs => polygonBound eb rs
  | .multiPolygon ps => multiPolygonBound eb ps
  | .bound a b => ⟨a, b⟩
  | .collection gs =>
    match gs with
    | [] => eb
    | g :: rest => rest.foldl (fun b g => b.union (bound eb g)) (bound eb g)

end order

/-- The vertices whose box `Bound()` is documented to be (outer rings for polygons). -/
def bverts {α : Type} : Geom α → List (Pt α)
  | .point p => [p]
  | .multiPoint ps | .lineString ps | .ring ps => ps
  | .multiLineString ls => ls.flatten
  | .polygon rs => rs.head?.getD []
  | .multiPolygon ps => ps.flatMap fun rs => rs.head?.getD []
  | .bound a b => [a, b]
  | .collection gs => gs.flatMap bverts

section equal
variable {α : Type} [BEq α]

def ptEq (p q : Pt α) : Bool := p.x == q.x && p.y == q.y

/-- `MultiPoint.Equal`: same length and pointwise equal. -/
def ptsEq : List (Pt α) → List (Pt α) → Bool
  | [], [] => true
  | p :: ps, q :: qs => ptEq p q && ptsEq ps qs
  | _, _ => false

def ptssEq : List (List (Pt α)) → List (List (Pt α)) → Bool
  | [], [] => true
  | p :: ps, q :: qs => ptsEq p q && ptssEq ps qs
  | _, _ => false

def ptsssEq : List (List (List (Pt α))) → List (List (List (Pt α))) → Bool
  | [], [] => true
  | p :: ps, q :: qs => ptssEq p q && ptsssEq ps qs
  | _, _ => false

/-- `orb.Equal` on non-nil values: GeoJSON-type pre-test, then the type switch
    (a ring, a polygon and a bound all have GeoJSON type "Polygon"; the switch
    answers `false` across those kinds). -/
def equal : Geom α → Geom α → Bool
  | .point p, .point q => ptEq p q
  | .multiPoint p, .multiPoint q => ptsEq p q
  | .lineString p, .lineString q => ptsEq p q
  | .ring p, .ring q => ptsEq p q
  | .multiLineString p, .multiLineString q => ptssEq p q
  | .polygon p, .polygon q => ptssEq p q
  | .multiPolygon p, .multiPolygon q => ptsssEq p q
  | .bound a b, .bound c d => ptEq a c && ptEq b d
  | .collection gs, .collection hs => go gs hs
  | _, _ => false
where
  go : List (Geom α) → List (Geom α) → Bool
    | [], [] => true
    | g :: gs, h :: hs => equal g h && go gs hs
    | _, _ => false

end equal

/-- The value a typed nil slice behaves as (`len == 0`). -/
def emptyOf {α : Type} : Kind → Geom α
  | .multiPoint => .multiPoint []
  | .lineString => .lineString []
  | .multiLineString => .multiLineString []
  | .ring => .ring []
  | .polygon => .polygon []
  | .multiPolygon => .multiPolygon []
  | .collection => .collection []
  | .point => .multiPoint []   -- unreachable: points and bounds are never nil
  | .bound => .multiPoint []

/-- What a top-level value denotes: nothing for a nil interface, the empty value for a typed nil. -/
def normV {α : Type} : GVal α → Option (Geom α)
  | .nilIface => none
  | .nilSlice k => some (emptyOf k)
  | .val g => some g

/-- `orb.Equal` including nil interfaces and typed nil slices. -/
def equalV {α : Type} [BEq α] : GVal α → GVal α → Bool
  | .nilIface, .nilIface => true
  | .nilIface, _ => false
  | _, .nilIface => false
  | .nilSlice k, .nilSlice k' => equal (emptyOf (α := α) k) (emptyOf k')
  | .nilSlice k, .val h => equal (emptyOf k) h
  | .val g, .nilSlice k => equal g (emptyOf k)
  | .val g, .val h => equal g h

/-- `orb.Clone` at the value level: a nil interface and typed nils are returned as they are,
    everything else is rebuilt element by element. -/
def cloneV {α : Type} : GVal α → GVal α
  | .nilIface => .nilIface
  | .nilSlice k => .nilSlice k
  | .val g => .val g

section ring
variable {α : Type} [Add α] [Sub α] [Mul α] [OfNat α 0] [LT α] [DecidableLT α]

/-- Go's `LineString.Reverse`: the in-place index-swap loop `for i := 0; i < len/2; i++`. -/
def reverse {β : Type} (ps : List β) : List β :=
  let a := ps.toArray
  let l := a.size - 1
  ((List.range (a.size / 2)).foldl (fun (a : Array β) i =>
      if h : i < a.size ∧ l - i < a.size then a.swap i (l - i) h.1 h.2 else a) a).toList

/-- The shoelace accumulator of `Ring.Orientation`:
    `Σ_{i=1}^{n-2} (r[i]-o)×(r[i+1]-o)` with `o = r[0]`. -/
def orientArea (r : List (Pt α)) : α :=
  match r with
  | [] => 0
  | o :: rest =>
    let rec go : List (Pt α) → α → α
      | p :: q :: t, acc =>
        go (q :: t) (acc + ((p.x - o.x) * (q.y - o.y) - (q.x - o.x) * (p.y - o.y)))
      | _, acc => acc
    go rest 0

/-- `Ring.Orientation`: 1 = CCW, -1 = CW, 0 = degenerate. -/
def orientation (r : List (Pt α)) : Int :=
  let a := orientArea r
  if (0 : α) < a then 1 else if a < 0 then -1 else 0

end ring

end Orb.Core
