import Orb.MVT

/-! Where the float64 shoelace of `Ring.Orientation` (run by `decodePolygon` to regroup rings) is
    exact: rings of small own extent, at any distance from the origin.  Used by Driver/C03.lean
    (`oriExactDomain`), bounds proved in OrbProofs/C03Ori.lean. -/
namespace Orb.MVT
open Orb

/-- largest coordinate distance of a vertex from the ring's first vertex -/
def ringExtent (r : List (Pt Int)) : Nat :=
  match r with
  | [] => 0
  | o :: rest => rest.foldl (fun m p => max m (max (p.x - o.x).natAbs (p.y - o.y).natAbs)) 0

/-- Where the float64 shoelace of `Ring.Orientation` is EXACT, however far from the origin the
    ring lies.  `Ring.Orientation` first subtracts the ring's first vertex `o` from every vertex
    and only then multiplies (`Core.orientArea`).  For integer coordinates of magnitude < 2^31
    (everything `int32(...)` produces) and extent `D = ringExtent r`:
    * each difference `p − o` is an integer of magnitude ≤ D < 2^32: exact in float64;
    * each product of two differences is an integer of magnitude ≤ D²;
    * each term (difference of two products) has magnitude ≤ 2·D², and after k terms the
      accumulator has magnitude ≤ 2·k·D², with k ≤ len.
    IEEE-754 operations return the exact result whenever it is representable, and every integer
    of magnitude ≤ 2^53 is: with `2·len·D² ≤ 2^53` every intermediate is exact, so the sign is
    the sign of the integer shoelace.  The bounds on ALL the intermediates (`orientTrace`) are
    proved over `Int` in OrbProofs/C03Ori.lean (`orientTrace_fits`); the step from "every exact
    intermediate is an integer ≤ 2^53" to "the float64 run is exact" is the IEEE-754 argument above
    (Lean's `Float` is opaque), and the driver CHECKS it on every case: a ring of this domain on
    which the Float twin and the integer shoelace disagree is reported as `diff`, never as a known
    finding.  A shoelace on the absolute coordinates has none of this: its products reach 2^56 for
    |v| < 2^28.  The known class regroup-rounding is confined to rings outside this domain. -/
def oriExactDomain (r : List (Pt Int)) : Bool :=
  decide (2 * r.length * ringExtent r * ringExtent r ≤ 2^53)

/-- Every number `Core.orientArea.go o l acc` computes, in order: per step the four differences,
    the two products, the term and the new accumulator. -/
def orientTrace (o : Pt Int) : List (Pt Int) → Int → List Int
  | p :: q :: t, acc =>
    let a := p.x - o.x
    let b := q.y - o.y
    let c := q.x - o.x
    let d := p.y - o.y
    let acc' := acc + (a * b - c * d)
    [a, b, c, d, a * b, c * d, a * b - c * d, acc'] ++ orientTrace o (q :: t) acc'
  | _, _ => []

/-- the trace of `Ring.Orientation` on a ring -/
def ringTrace (r : List (Pt Int)) : List Int :=
  match r with
  | [] => []
  | o :: rest => orientTrace o rest 0

end Orb.MVT
