/-
  Orb.Resample — model of /repo/resample/line_string.go:
  `Resample`, `ToInterval`, `resample`, `resampleEdgeCases`, `precomputeDistances`.

  Core Lean only; polymorphic in the coordinate type so that the same
  definitions run on `Float` (twin of the Go code, bit for bit), on `Rat`
  (exact) and are reasoned about over an ordered field.

  * The distance function `df` is a parameter (`orb.DistanceFunc`).
  * `int(x)` (float → int conversion) is the parameter `trunc`.
  * `float64(i)` is `Nat.cast`.
  * A line string is `Option (List (Pt α))`: `none` is the nil slice, `some []`
    the empty non-nil slice (Go's `Resample` returns its argument "as it is"
    for short lines, so the two are told apart).
  * Go panics are explicit `Res.panic` outcomes; the inner loop of `resample` is
    modelled with fuel and the outcome `Res.err Fail.diverges` (proved unreachable).
-/
import Orb.Basic

namespace Orb.Resample
open Orb

/-- The non-panic failure of the package: the append loop does not exit.  Unreachable for the
    code as it stands (the loop is bounded by `step < totalPoints` since 8096037): theorem
    `resample_total`; kept as an outcome so that totality is a theorem, not true by construction. -/
inductive Fail where
  | diverges
deriving Repr, BEq, DecidableEq, Inhabited

/-- `orb.LineString` with nil-ness: `none` = nil slice. -/
abbrev Line (α : Type) := Option (List (Pt α))

/-- the vertices (`len(nil) = 0`) -/
def Line.pts {α : Type} (l : Line α) : List (Pt α) := l.getD []

section model
variable {α : Type} [Add α] [Sub α] [Mul α] [Div α] [OfNat α 0] [NatCast α]
  [LE α] [LT α] [DecidableLE α] [DecidableLT α] [BEq α]

/-- `Point.Equal`: `p[0] == q[0] && p[1] == q[1]`. -/
def ptEq (p q : Pt α) : Bool := p.x == q.x && p.y == q.y

/-- the `equal` flag computed by the loop of `resampleEdgeCases` -/
def allEq (ps : List (Pt α)) : Bool :=
  match ps with
  | [] => true
  | p0 :: _ => ps.all (ptEq p0)

/-- `resampleEdgeCases(ls, totalPoints)`.  `.ok (some r)` is Go's `(r, true)`,
    `.ok none` is `(ls, false)`.  `ls[:totalPoints]` panics for a negative count. -/
def edgeCases (ls : Line α) (n : Int) : Res Fail (Option (Line α)) :=
  let ps := ls.pts
  if ps.length ≤ 1 then .ok (some ls)            -- degenerate case: returned as it is
  else
    match ps with
    | [] => .ok (some ls)
    | p0 :: _ =>
      if allEq ps then
        if n > (ps.length : Int) then
          .ok (some (some (ps ++ List.replicate (n.toNat - ps.length) p0)))   -- append ls[0] until len = n
        else if n < 0 then .panic "slice bounds out of range"
        else .ok (some (some (ps.take n.toNat)))                             -- ls[:n]
      else .ok none

/-- the `dists` slice of `precomputeDistances`: `dists[i] = df(ls[i], ls[i+1])` -/
def dists (df : Pt α → Pt α → α) (ps : List (Pt α)) : List α :=
  List.zipWith df ps ps.tail

/-- the running sum `total := 0.0; total += dists[i]` -/
def sumDists (ds : List α) : α := ds.foldl (· + ·) 0

/-- length of the line as the code computes it -/
def lineLength (df : Pt α → Pt α → α) (ps : List (Pt α)) : α := sumDists (dists df ps)

/-- `precomputeDistances`: `make([]float64, len(ls)-1)` panics on a line without vertices. -/
def precompute (df : Pt α → Pt α → α) (ps : List (Pt α)) : Res Fail (α × List α) :=
  match ps with
  | [] => .panic "makeslice: len out of range"
  | _ :: _ => .ok (lineLength df ps, dists df ps)

/-- linear interpolation `a + percent*(b-a)`, per coordinate, as written in `resample` -/
def lerp (a b : Pt α) (percent : α) : Pt α :=
  ⟨a.x + percent * (b.x - a.x), a.y + percent * (b.y - a.y)⟩

/-- the step target after `step++`:
    `currentDistance = totalDistance * float64(step) / float64(totalPoints-1)`,
    overridden by `totalDistance` when `step == totalPoints-1`. -/
def target (total : α) (n step : Nat) : α :=
  if step == n - 1 then total else total * (step : α) / ((n - 1 : Nat) : α)

/-- The inner loop `for currentDistance <= nextDistance && step < totalPoints { append; step++; … }`
    on the segment `a b` of length `segd` that starts at distance `dist` (`next = dist + segd`);
    `percent` is `0` on a segment of zero length.
    Returns the appended points and the new `(step, currentDistance)`;
    `none` when `fuel` appends were not enough (never, for `fuel + step > n`: lemma `inner_isSome`). -/
def inner (total : α) (n : Nat) (a b : Pt α) (segd dist next : α) :
    Nat → Nat → α → Option (List (Pt α) × Nat × α)
  | fuel, step, cur =>
    if cur ≤ next ∧ step < n then
      match fuel with
      | 0 => none
      | fuel + 1 =>
        let percent := if 0 < segd then (cur - dist) / segd else 0
        let p := lerp a b percent
        match inner total n a b segd dist next fuel (step + 1) (target total n (step + 1)) with
        | none => none
        | some (ps, st, c) => some (p :: ps, st, c)
    else some ([], step, cur)

/-- The outer loop `for i := 0; i < len(ls)-1; i++` over the segments; returns every appended point. -/
def walk (total : α) (n fuel : Nat) : List (Pt α) → List α → α → Nat → α → Option (List (Pt α))
  | a :: b :: rest, d :: ds, dist, step, cur =>
    let next := dist + d
    match inner total n a b d dist next fuel step cur with
    | none => none
    | some (out, step', cur') =>
      match walk total n fuel (b :: rest) ds next step' cur' with
      | none => none
      | some out' => some (out ++ out')
  | _, _, _, _, _ => some []

/-- Fuel of the inner loop: it appends at most `n - step` points (`step < totalPoints` is part
    of the loop condition), so `n + 1` is always enough and `Fail.diverges` is unreachable
    (theorem `resample_total`). -/
def walkFuel (n : Nat) : Nat := n + 1

/-- `resample(ls, dists, totalDistance, totalPoints)` (called with `len(ls) ≥ 2`).

    * `make([]orb.Point, 1, totalPoints)` panics for `totalPoints < 1`.
    * `totalPoints = 1`: `totalDistance / float64(0)` is `+Inf` or `NaN`, so
      `currentDistance <= nextDistance` is false for every (finite) segment end
      and nothing is appended: the result is `[ls[0]]`.  (In a field `x / 0 = 0`,
      hence the explicit case.)
    * `points[totalPoints-1] = ls[len(ls)-1]` panics if fewer than
      `totalPoints - 1` points were appended. -/
def resampleCore (ps : List (Pt α)) (ds : List α) (total : α) (n : Int) : Res Fail (Line α) :=
  if n < 1 then .panic "makeslice: cap out of range"
  else
    match ps with
    | [] => .panic "index out of range"
    | p0 :: rest =>
      let N := n.toNat
      if N == 1 then .ok (some [p0])
      else
        match walk total N (walkFuel N) ps ds 0 1 (total / ((N - 1 : Nat) : α)) with
        | none => .err .diverges
        | some out =>
          let points := p0 :: out
          if points.length < N then .panic "index out of range"
          else .ok (some (points.set (N - 1) ((p0 :: rest).getLast (List.cons_ne_nil _ _))))

/-- `resample.Resample(ls, df, totalPoints)`. -/
def resample (df : Pt α → Pt α → α) (ls : Line α) (n : Int) : Res Fail (Line α) :=
  if n ≤ 0 then .ok none
  else
    match edgeCases ls n with
    | .ok (some r) => .ok r
    | .ok none =>
      (match precompute df ls.pts with
       | .ok (total, ds) => resampleCore ls.pts ds total n
       | .err e => .err e
       | .panic s => .panic s)
    | .err e => .err e
    | .panic s => .panic s

/-- `resample.ToInterval(ls, df, dist)`: a line with fewer than two vertices is returned
    as it is; otherwise the distances are precomputed, then the edge cases are looked at. -/
def toInterval (trunc : α → Int) (df : Pt α → Pt α → α) (ls : Line α) (d : α) : Res Fail (Line α) :=
  if d ≤ 0 then .ok none
  else if ls.pts.length ≤ 1 then .ok ls
  else
    match precompute df ls.pts with
    | .err e => .err e
    | .panic s => .panic s
    | .ok (total, ds) =>
      let n : Int := trunc (total / d) + 1
      match edgeCases ls n with
      | .ok (some r) => .ok r
      | .ok none => resampleCore ls.pts ds total n
      | .err e => .err e
      | .panic s => .panic s

end model

end Orb.Resample
