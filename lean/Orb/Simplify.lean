/-
  Orb.Simplify — model of package simplify (douglas_peucker.go, radial.go, visvalingam.go,
  helpers.go) and of the two planar distance functions they use (planar/distance.go,
  planar/distance_from.go).  Core Lean only, polymorphic in the coordinate type: the same
  definitions run on `Float` (bit-for-bit twin of the Go code), on `Rat` (exact) and are reasoned
  about over a linear ordered field.

  What is modelled, as the code has it:
  * `DistanceSquared`, `DistanceFromSegmentSquared` (projection parameter `t`, the `t > 1` /
    `t > 0` clamp, the `dx != 0 || dy != 0` guard).
  * Douglas-Peucker: `dpWorker` as the explicit stack of `(start,end)` pairs, the inner scan
    with `dist > maxDist` (first maximum wins), the strict `maxDist > threshold*threshold`, the
    mask and the in-place compaction `ls[count] = ls[i]`.
  * Radial: the single scan that overwrites `ls[count]` while it still reads `ls[current]` and
    `ls[i]` from the same slice, and the final "keep the last vertex" step.
  * Visvalingam: `toKeep` defaults, the array min-heap of item pointers with per-item heap
    index (`Push`/`Pop`/`Update`/`up`/`down`), the doubly linked list, `max(area, current.area)`,
    the stop test `current.area > threshold || len(ls)-removed <= toKeep`, the final walk.
    `+Inf` areas (the two end items, and `math.MaxFloat64*2`) are `none : Option α`.
  * helpers.go: `runSimplify` (≤ 2 points returned untouched), `lineString`, `multiLineString`,
    `ring`, `polygon` (inner rings reduced to ≤ 2 points dropped), `multiPolygon` (polygons without
    rings or whose outer ring is ≤ 2 points dropped), `collection` (members whose result is nil dropped),
    and the generic `simplify` type switch with its "empty result ⇒ nil interface" rule.

  Outcomes: `.ok v`, `.panic why` (a Go run-time panic), `.err ()` (loop fuel exhausted, i.e. the
  Go loop would not terminate; shown impossible over ordered fields in OrbProofs/C12).
-/
import Orb.Basic
import Orb.Core

namespace Orb.Simplify
open Orb

/-- outcome of a modelled simplify function -/
abbrev R (β : Type) := Res Unit β

/-! ### planar distances -/

section dist
variable {α : Type} [Add α] [Sub α] [Mul α] [Div α] [LT α] [DecidableLT α] [BEq α] [OfNat α 0] [OfNat α 1]

/-- `planar.DistanceSquared`. -/
def distSq (p1 p2 : Pt α) : α :=
  let d0 := p1.x - p2.x
  let d1 := p1.y - p2.y
  d0 * d0 + d1 * d1

/-- `planar.DistanceFromSegmentSquared(a, b, point)`. -/
def distSegSq (a b p : Pt α) : α :=
  let x := a.x
  let y := a.y
  let dx := b.x - x
  let dy := b.y - y
  let xy : α × α :=
    if dx != 0 || dy != 0 then
      let t := ((p.x - x) * dx + (p.y - y) * dy) / (dx * dx + dy * dy)
      if 1 < t then (b.x, b.y)
      else if 0 < t then (x + dx * t, y + dy * t)
      else (x, y)
    else (x, y)
  let dx := p.x - xy.1
  let dy := p.y - xy.2
  dx * dx + dy * dy

end dist

/-! ### in-place compaction shared by Douglas-Peucker and Visvalingam -/

/-- `count := 0; for idx in idxs { ls[count] = ls[idx]; count++ }; return ls[:count]`
    on the one backing array (reads see earlier writes). -/
def compact {β : Type} (ls : List β) (idxs : List Nat) : List β :=
  let r := idxs.foldl (fun (acc : List β × Nat) i =>
    match acc.1[i]? with
    | some v => (acc.1.set acc.2 v, acc.2 + 1)
    | none => acc) (ls, 0)
  r.1.take r.2

/-! ### Douglas-Peucker -/

section dp
variable {α : Type} [Add α] [Sub α] [Mul α] [Div α] [LT α] [DecidableLT α] [BEq α] [OfNat α 0] [OfNat α 1]

/-- inner scan of `dpWorker`: `for i := start+1; i < end; i++ { if dist > maxDist {…} }`,
    starting from `maxDist = 0.0, maxIndex = 0`. -/
def dpScan (dist : Pt α → Pt α → Pt α → α) (ls : List (Pt α)) (s e : Nat) : α × Nat :=
  let z : Pt α := ⟨0, 0⟩
  (List.range' (s + 1) (e - (s + 1))).foldl (fun (m : α × Nat) i =>
    let d := dist (ls.getD s z) (ls.getD e z) (ls.getD i z)
    if m.1 < d then (d, i) else m) (0, 0)

/-- the `for len(stack) > 0` loop of `dpWorker`; the head of the list is the top pair of the stack.
    `none` = fuel exhausted. -/
def dpWorker (dist : Pt α → Pt α → Pt α → α) (ls : List (Pt α)) (tsq : α) :
    Nat → List (Nat × Nat) → List Bool → Option (List Bool)
  | _, [], mask => some mask
  | 0, _ :: _, _ => none
  | fuel + 1, (s, e) :: rest, mask =>
    let m := dpScan dist ls s e
    if tsq < m.1 then
      -- mask[maxIndex] = 1; stack[len-1] = maxIndex; stack = append(stack, maxIndex, end)
      dpWorker dist ls tsq fuel ((m.2, e) :: (s, m.2) :: rest) (mask.set m.2 true)
    else
      dpWorker dist ls tsq fuel rest mask

/-- indices whose mask byte is 1, in increasing order -/
def maskIdx (mask : List Bool) : List Nat :=
  (List.range mask.length).filter fun i => mask.getD i false

/-- the mask after `dpWorker` (`mask[0] = mask[len-1] = 1` first) -/
def dpMask (dist : Pt α → Pt α → Pt α → α) (t : α) (ls : List (Pt α)) : Option (List Bool) :=
  let n := ls.length
  let mask := ((List.replicate n false).set 0 true).set (n - 1) true
  dpWorker dist ls (t * t) (2 * n + 1) [(0, n - 1)] mask

/-- `DouglasPeuckerSimplifier.simplify` for an arbitrary segment-distance function. -/
def dpSimplifyWith (dist : Pt α → Pt α → Pt α → α) (t : α) (ls : List (Pt α)) : R (List (Pt α)) :=
  if ls.length = 0 then .panic "index out of range [0] with length 0" else
  match dpMask dist t ls with
  | none => .err ()
  | some mask => .ok (compact ls (maskIdx mask))

/-- `DouglasPeuckerSimplifier.simplify(ls, _, false)`. -/
def dpSimplify (t : α) (ls : List (Pt α)) : R (List (Pt α)) := dpSimplifyWith distSegSq t ls

/-- recursive specification of the same algorithm (kept interior indices of `(s, e)`, in order);
    `fuel` bounds the recursion depth. -/
def dpRec (dist : Pt α → Pt α → Pt α → α) (ls : List (Pt α)) (tsq : α) : Nat → Nat → Nat → List Nat
  | 0, _, _ => []
  | fuel + 1, s, e =>
    let m := dpScan dist ls s e
    if tsq < m.1 then dpRec dist ls tsq fuel s m.2 ++ m.2 :: dpRec dist ls tsq fuel m.2 e
    else []

end dp

/-! ### Radial -/

section radial
variable {α : Type} [LT α] [DecidableLT α] [OfNat α 0]

/-- state of the scan: the slice (overwritten in place), `count`, `current` -/
structure RadSt (α : Type) where
  ls : List (Pt α)
  count : Nat
  current : Nat

/-- one iteration `i` of the scan -/
def radialStep (df : Pt α → Pt α → α) (t : α) (st : RadSt α) (i : Nat) : RadSt α :=
  let z : Pt α := ⟨0, 0⟩
  if t < df (st.ls.getD st.current z) (st.ls.getD i z) then
    { ls := st.ls.set st.count (st.ls.getD i z), count := st.count + 1, current := i }
  else st

/-- `RadialSimplifier.simplify(ls, _, false)` with distance function `df` and threshold `t`. -/
def radialSimplify (df : Pt α → Pt α → α) (t : α) (ls : List (Pt α)) : R (List (Pt α)) :=
  let n := ls.length
  let z : Pt α := ⟨0, 0⟩
  let st := (List.range' 1 (n - 1)).foldl (radialStep df t) ⟨ls, 1, 0⟩
  if n = 0 then .panic "index out of range [-1]"      -- 0 != len(ls)-1, then ls[len(ls)-1]
  else if st.current ≠ n - 1 then
    .ok ((st.ls.set st.count (st.ls.getD (n - 1) z)).take (st.count + 1))
  else .ok (st.ls.take st.count)

end radial

/-! ### Visvalingam -/

/-- default minimum counts (visvalingam.go:56-66) -/
def visDefaultLine : Nat := 2
def visDefaultOpenRing : Nat := 3
def visDefaultClosedRing : Nat := 4

/-- `visItem`; `area = none` is `+Inf`; `next`/`prev` are item ids (`none` = nil pointer);
    the id of an item is its point index (id 0 is `linkedListStart`). -/
structure VItem (α : Type) where
  area : Option α
  pointIndex : Nat
  next : Option Nat
  prev : Option Nat
  index : Nat
deriving Repr, Inhabited

/-- all items plus the heap (a slice of item pointers) -/
structure VS (α : Type) where
  items : Array (VItem α)
  heap : Array Nat
deriving Repr, Inhabited

section vis
variable {α : Type} [Add α] [Sub α] [Mul α] [Neg α] [LT α] [LE α] [DecidableLT α] [DecidableLE α]
  [BEq α] [OfNat α 0] [OfNat α 2]

/-- `a <= b` on areas with `none = +Inf` -/
def aLe : Option α → Option α → Bool
  | _, none => true
  | none, some _ => false
  | some x, some y => decide (x ≤ y)

/-- `a < b` on areas with `none = +Inf` -/
def aLt : Option α → Option α → Bool
  | none, _ => false
  | some _, none => true
  | some x, some y => decide (x < y)

/-- `math.Max` on areas -/
def aMax : Option α → Option α → Option α
  | some x, some y => some (if x < y then y else x)
  | _, _ => none

def VS.get (st : VS α) (id : Nat) : VItem α := st.items.getD id ⟨none, 0, none, none, 0⟩
def VS.area (st : VS α) (id : Nat) : Option α := (st.get id).area
def VS.modify (st : VS α) (id : Nat) (f : VItem α → VItem α) : VS α :=
  { st with items := st.items.modify id f }
def VS.setIndex (st : VS α) (id i : Nat) : VS α := st.modify id fun it => { it with index := i }
def VS.setHeap (st : VS α) (i id : Nat) : VS α := { st with heap := st.heap.setIfInBounds i id }

/-- the loop of `minHeap.up` for the item `obj` currently at heap position `i` -/
def upLoop (obj : Nat) : Nat → Nat → VS α → VS α
  | 0, _, st => st
  | fuel + 1, i, st =>
    if i = 0 then st else
    let up := ((i + 1) >>> 1) - 1
    let parent := st.heap.getD up 0
    if aLe (st.area parent) (st.area obj) then st
    else
      -- parent.index = i; h[i] = parent; object.index = up; h[up] = object
      let st := ((st.setIndex parent i).setHeap i parent)
      let st := ((st.setIndex obj up).setHeap up obj)
      upLoop obj fuel up st

/-- `minHeap.up(i)` -/
def up (st : VS α) (i : Nat) : VS α := upLoop (st.heap.getD i 0) (i + 1) i st

/-- the loop of `minHeap.down` for the item `obj` currently at heap position `i` -/
def downLoop (obj : Nat) : Nat → Nat → VS α → VS α
  | 0, _, st => st
  | fuel + 1, i, st =>
    let right := (i + 1) <<< 1
    let left := right - 1
    let down := i
    let child := st.heap.getD down 0
    let dc : Nat × Nat :=
      if left < st.heap.size && aLt (st.area (st.heap.getD left 0)) (st.area child) then (left, st.heap.getD left 0)
      else (down, child)
    let dc : Nat × Nat :=
      if right < st.heap.size && aLt (st.area (st.heap.getD right 0)) (st.area dc.2) then (right, st.heap.getD right 0)
      else dc
    if dc.1 = i then st
    else
      -- child.index = i; h[child.index] = child; object.index = down; h[down] = object
      let st := ((st.setIndex dc.2 i).setHeap i dc.2)
      let st := ((st.setIndex obj dc.1).setHeap dc.1 obj)
      downLoop obj fuel dc.1 st

/-- `minHeap.down(i)` -/
def down (st : VS α) (i : Nat) : VS α := downLoop (st.heap.getD i 0) (st.heap.size + 1) i st

/-- `minHeap.Push(item)` -/
def push (st : VS α) (id : Nat) : VS α :=
  let st := st.setIndex id st.heap.size
  let st := { st with heap := st.heap.push id }
  up st (st.get id).index

/-- `minHeap.Pop()`; never called on an empty heap (the loop tests `len(heap) > 0`). -/
def pop (st : VS α) : Nat × VS α :=
  let removed := st.heap.getD 0 0
  let last := st.heap.getD (st.heap.size - 1) 0
  let st := { st with heap := st.heap.pop }
  if st.heap.size > 0 then
    let st := (st.setIndex last 0).setHeap 0 last
    (removed, down st 0)
  else (removed, st)

/-- `minHeap.Update(item, area)` -/
def update (st : VS α) (id : Nat) (area : Option α) : VS α :=
  if aLt area (st.area id) then
    let st := st.modify id fun it => { it with area := area }
    up st (st.get id).index
  else
    let st := st.modify id fun it => { it with area := area }
    down st (st.get id).index

/-- `doubleTriangleArea(ls, i1, i2, i3)` -/
def doubleTriangleArea (ls : List (Pt α)) (i1 i2 i3 : Nat) : α :=
  let z : Pt α := ⟨0, 0⟩
  let a := ls.getD i1 z
  let b := ls.getD i2 z
  let c := ls.getD i3 z
  let v := (b.x - a.x) * (c.y - a.y) - (b.y - a.y) * (c.x - a.x)
  if v < 0 then -v else v

/-- building the heap and the linked list (visvalingam.go:86-117) -/
def visInit (ls : List (Pt α)) : VS α :=
  let n := ls.length
  let st : VS α := ⟨Array.replicate n ⟨some 0, 0, none, none, 0⟩, #[]⟩
  -- linkedListStart
  let st := st.modify 0 fun it => { it with area := none, pointIndex := 0 }
  let st := push st 0
  -- internal path items
  let st := (List.range' 1 (n - 2)).foldl (fun (st : VS α) i =>
    let st := st.modify i fun it =>
      { it with area := some (doubleTriangleArea ls (i - 1) i (i + 1)), pointIndex := i, prev := some (i - 1) }
    let st := push st i
    st.modify (i - 1) fun it => { it with next := some i }) st
  -- final item
  let st := st.modify (n - 1) fun it => { it with area := none, pointIndex := n - 1, prev := some (n - 2) }
  let st := st.modify (n - 2) fun it => { it with next := some (n - 1) }
  push st (n - 1)

/-- the reduction loop (visvalingam.go:120-156); `thr2` is the doubled threshold -/
def visLoop (ls : List (Pt α)) (thr2 : Option α) (toKeep : Nat) : Nat → VS α → Nat → R (VS α)
  | 0, _, _ => .err ()
  | fuel + 1, st, removed =>
    if st.heap.size = 0 then .ok st else
    let (cur, st) := pop st
    let c := st.get cur
    if aLt thr2 c.area || decide (ls.length ≤ toKeep + removed) then .ok st else
    match c.prev, c.next with
    | none, _ => .panic "nil pointer dereference (previous)"
    | some _, none => .panic "nil pointer dereference (next)"
    | some prev, some next =>
      -- previous.next = current.next; next.previous = current.previous; removed++
      let st := st.modify prev fun it => { it with next := c.next }
      let st := st.modify next fun it => { it with prev := c.prev }
      let st :=
        match (st.get prev).prev with
        | some pp =>
          let a := doubleTriangleArea ls (st.get pp).pointIndex (st.get prev).pointIndex (st.get next).pointIndex
          update st prev (aMax (some a) c.area)
        | none => st
      let st :=
        match (st.get next).next with
        | some nn =>
          let a := doubleTriangleArea ls (st.get prev).pointIndex (st.get next).pointIndex (st.get nn).pointIndex
          update st next (aMax (some a) c.area)
        | none => st
      visLoop ls thr2 toKeep fuel st (removed + 1)

/-- the final walk along `next` from `linkedListStart`, collecting point indices -/
def visWalk (st : VS α) : Nat → Option Nat → List Nat
  | 0, _ => []
  | _, none => []
  | fuel + 1, some id => (st.get id).pointIndex :: visWalk st fuel (st.get id).next

/-- the effective `toKeep` -/
def visToKeep (toKeep : Nat) (ls : List (Pt α)) (area : Bool) : Nat :=
  let z : Pt α := ⟨0, 0⟩
  if toKeep = 0 then
    if area then
      if Core.ptEq (ls.getD 0 z) (ls.getD (ls.length - 1) z) then visDefaultClosedRing else visDefaultOpenRing
    else visDefaultLine
  else toKeep

/-- kept point indices of `VisvalingamSimplifier.simplify` for an input longer than `toKeep`.
    `thr = none` stands for a `Threshold` whose double is `+Inf` (`VisvalingamKeep`'s `math.MaxFloat64`). -/
def visKept (thr : Option α) (toKeep : Nat) (ls : List (Pt α)) : R (List Nat) :=
  let thr2 := thr.map (· * 2)
  match visLoop ls thr2 toKeep (ls.length + 1) (visInit ls) 0 with
  | .ok st => .ok (visWalk st (ls.length + 1) (some 0))
  | .err e => .err e
  | .panic s => .panic s

/-- `VisvalingamSimplifier.simplify(ls, area, false)`. -/
def visSimplify (thr : Option α) (toKeep : Nat) (ls : List (Pt α)) (area : Bool) : R (List (Pt α)) :=
  if ls.length ≤ 1 then .ok ls else
  let k := visToKeep toKeep ls area
  if ls.length ≤ k then .ok ls else
  match visKept thr k ls with
  | .ok idxs => .ok (compact ls idxs)
  | .err e => .err e
  | .panic s => .panic s

end vis

/-! ### helpers.go -/

/-- the unexported `simplifier` interface: `simplify(ls, area, false)` -/
abbrev Simplifier (α : Type) := List (Pt α) → Bool → R (List (Pt α))

/-- result of the generic `Simplify`: members of a collection may become nil interfaces -/
inductive OGeom (α : Type) where
  | nil
  | geom (g : Geom α)
  | coll (gs : List (OGeom α))
deriving Repr, Inhabited

/-- is this result a nil interface? -/
def OGeom.isNil {α : Type} : OGeom α → Bool
  | .nil => true
  | _ => false

section helpers
variable {α : Type}

/-- `runSimplify` -/
def runSimplify (s : Simplifier α) (ls : List (Pt α)) (area : Bool) : R (List (Pt α)) :=
  if ls.length ≤ 2 then .ok ls else s ls area

/-- `lineString` -/
def lineString (s : Simplifier α) (ls : List (Pt α)) : R (List (Pt α)) := runSimplify s ls false

/-- `multiLineString` -/
def multiLineString (s : Simplifier α) : List (List (Pt α)) → R (List (List (Pt α)))
  | [] => .ok []
  | l :: rest =>
    match runSimplify s l false with
    | .ok l' =>
      (match multiLineString s rest with
       | .ok rest' => .ok (l' :: rest')
       | .err e => .err e
       | .panic w => .panic w)
    | .err e => .err e
    | .panic w => .panic w

/-- `ring` -/
def ring (s : Simplifier α) (r : List (Pt α)) : R (List (Pt α)) := runSimplify s r true

/-- the loop of `polygon` from ring number `i` on -/
def polygonFrom (s : Simplifier α) : Nat → List (List (Pt α)) → R (List (List (Pt α)))
  | _, [] => .ok []
  | i, r :: rest =>
    match runSimplify s r true with
    | .ok r' =>
      (match polygonFrom s (i + 1) rest with
       | .ok rest' => if i ≠ 0 ∧ r'.length ≤ 2 then .ok rest' else .ok (r' :: rest')
       | .err e => .err e
       | .panic w => .panic w)
    | .err e => .err e
    | .panic w => .panic w

/-- `polygon` -/
def polygon (s : Simplifier α) (p : List (List (Pt α))) : R (List (List (Pt α))) := polygonFrom s 0 p

/-- `multiPolygon`: `if len(p) == 0 || len(p[0]) <= 2 { continue }` -/
def multiPolygon (s : Simplifier α) : List (List (List (Pt α))) → R (List (List (List (Pt α))))
  | [] => .ok []
  | p :: rest =>
    match polygon s p with
    | .ok p' =>
      (match multiPolygon s rest with
       | .ok rest' =>
         (match p' with
          | [] => .ok rest'
          | r0 :: _ => if r0.length ≤ 2 then .ok rest' else .ok (p' :: rest'))
       | .err e => .err e
       | .panic w => .panic w)
    | .err e => .err e
    | .panic w => .panic w

/-- wrap a typed result the way the type switch of `simplify` does: `len(g) == 0` ⇒ nil interface -/
def wrapLen {β : Type} (mk : List β → Geom α) (r : R (List β)) : R (OGeom α) :=
  match r with
  | .ok l => if l.length = 0 then .ok .nil else .ok (.geom (mk l))
  | .err e => .err e
  | .panic w => .panic w

/-- the generic `simplify(s, geom)` on a non-nil value, and `collection` (a member that simplifies to
    nothing is dropped; a collection none of whose members is left comes back as a nil interface) -/
def simplifyG (s : Simplifier α) : Geom α → R (OGeom α)
  | .point p => .ok (.geom (.point p))
  | .multiPoint ps => .ok (.geom (.multiPoint ps))
  | .lineString ls => wrapLen .lineString (lineString s ls)
  | .multiLineString mls => wrapLen .multiLineString (multiLineString s mls)
  | .ring r => wrapLen .ring (ring s r)
  | .polygon p => wrapLen .polygon (polygon s p)
  | .multiPolygon mp => wrapLen .multiPolygon (multiPolygon s mp)
  | .bound a b => .ok (.geom (.bound a b))
  | .collection gs =>
    match go gs with
    | .ok l => if l.length = 0 then .ok .nil else .ok (.coll l)
    | .err e => .err e
    | .panic w => .panic w
where
  go : List (Geom α) → R (List (OGeom α))
    | [] => .ok []
    | g :: rest =>
      match simplifyG s g with
      | .ok g' =>
        (match go rest with
         -- `g := simplify(s, c[i]); if g == nil { continue }; c[count] = g; count++`
         | .ok rest' => if g'.isNil then .ok rest' else .ok (g' :: rest')
         | .err e => .err e
         | .panic w => .panic w)
      | .err e => .err e
      | .panic w => .panic w

/-- `collection` (the typed method `Collection`): members whose result is a nil interface are dropped,
    the others compacted in order (`c[:count]`) -/
def collection (s : Simplifier α) (gs : List (Geom α)) : R (List (OGeom α)) := simplifyG.go s gs

/-- the exported `Simplify(g)` including a nil interface and typed nil slices at top level:
    every one of them comes back as a nil interface. -/
def simplifyV (s : Simplifier α) : GVal α → R (OGeom α)
  | .nilIface => .ok .nil
  | .nilSlice _ => .ok .nil
  | .val g => simplifyG s g

end helpers

/-! ### the three simplifiers as `Simplifier` values -/

section inst
variable {α : Type} [Add α] [Sub α] [Mul α] [Div α] [Neg α] [LT α] [LE α] [DecidableLT α] [DecidableLE α]
  [BEq α] [OfNat α 0] [OfNat α 1] [OfNat α 2]

def dpS (t : α) : Simplifier α := fun ls _ => dpSimplify t ls
def radialS (df : Pt α → Pt α → α) (t : α) : Simplifier α := fun ls _ => radialSimplify df t ls
def visS (thr : Option α) (toKeep : Nat) : Simplifier α := fun ls area => visSimplify thr toKeep ls area

end inst

end Orb.Simplify
