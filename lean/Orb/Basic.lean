/-
  Orb.Basic — shared vocabulary of every model (core Lean only).

  * `Pt α`, `Geom α` (the nine geometry kinds of orb), `GVal α` (top-level nil-ness).
  * `Res ε α` — outcome of a modelled Go function: value, error class, or panic.
  * conversions between float64 bit patterns, `Float` and exact `Rat`.
-/

namespace Orb

/-- A 2-d point `orb.Point = [2]float64`. -/
structure Pt (α : Type) where
  x : α
  y : α
deriving Repr, BEq, DecidableEq, Inhabited

/-- Outcome of a modelled Go function. `panic` is an explicit outcome so that
    totality is a theorem and not true by construction. -/
inductive Res (ε α : Type) where
  | ok (a : α)
  | err (e : ε)
  | panic (why : String)
deriving Repr, BEq, DecidableEq, Inhabited

namespace Res
def isPanic {ε α} : Res ε α → Bool
  | .panic _ => true
  | _ => false

def isOk {ε α} : Res ε α → Bool
  | .ok _ => true
  | _ => false

def map {ε α β} (f : α → β) : Res ε α → Res ε β
  | .ok a => .ok (f a)
  | .err e => .err e
  | .panic s => .panic s

def bind {ε α β} (r : Res ε α) (f : α → Res ε β) : Res ε β :=
  match r with
  | .ok a => f a
  | .err e => .err e
  | .panic s => .panic s

instance {ε} : Monad (Res ε) where
  pure := .ok
  bind := Res.bind
end Res

/-- The nine geometry kinds. -/
inductive Kind where
  | point | multiPoint | lineString | multiLineString | ring | polygon | multiPolygon | bound | collection
deriving Repr, BEq, DecidableEq, Inhabited

/-- An `orb.Geometry` value (no nil members below the top level). -/
inductive Geom (α : Type) where
  | point (p : Pt α)
  | multiPoint (ps : List (Pt α))
  | lineString (ps : List (Pt α))
  | multiLineString (ls : List (List (Pt α)))
  | ring (ps : List (Pt α))
  | polygon (rs : List (List (Pt α)))
  | multiPolygon (ps : List (List (List (Pt α))))
  | bound (min max : Pt α)
  | collection (gs : List (Geom α))
deriving Repr, Inhabited

/-- Top-level value of the Go interface: a nil interface, a typed nil slice, or a value. -/
inductive GVal (α : Type) where
  | nilIface
  | nilSlice (k : Kind)
  | val (g : Geom α)
deriving Repr, Inhabited

namespace Geom
def kind {α} : Geom α → Kind
  | .point _ => .point
  | .multiPoint _ => .multiPoint
  | .lineString _ => .lineString
  | .multiLineString _ => .multiLineString
  | .ring _ => .ring
  | .polygon _ => .polygon
  | .multiPolygon _ => .multiPolygon
  | .bound _ _ => .bound
  | .collection _ => .collection
end Geom

/-! ### float64 bit patterns ⇄ exact rationals -/

/-- Exact value of a finite float64 given by its bit pattern; `none` for NaN/±Inf. -/
def bitsToRat? (b : UInt64) : Option Rat :=
  let n := b.toNat
  let sign := n / 2^63
  let e := (n / 2^52) % 2048
  let m : Nat := n % 2^52
  if e == 2047 then none
  else
    let mi : Int := Int.ofNat m
    let fi : Int := Int.ofNat (2^52 + m)
    let mag : Rat :=
      if e == 0 then (mi : Rat) / ((2:Rat)^1074)
      else if e ≥ 1075 then (fi : Rat) * ((2:Rat)^(e - 1075))
      else (fi : Rat) / ((2:Rat)^(1075 - e))
    some (if sign == 1 then -mag else mag)

/-- Small integers travel as floats; this recovers the integer if the bit pattern is one. -/
def bitsToInt? (b : UInt64) : Option Int :=
  match bitsToRat? b with
  | some r => if r.den == 1 then some r.num else none
  | none => none

def hexDigit? (c : Char) : Option Nat :=
  if '0' ≤ c ∧ c ≤ '9' then some (c.toNat - '0'.toNat)
  else if 'a' ≤ c ∧ c ≤ 'f' then some (c.toNat - 'a'.toNat + 10)
  else if 'A' ≤ c ∧ c ≤ 'F' then some (c.toNat - 'A'.toNat + 10)
  else none

def hexToNat? (s : String) : Option Nat :=
  if s.isEmpty then none else
  s.toList.foldl (fun acc c => do
    let a ← acc
    let d ← hexDigit? c
    pure (a * 16 + d)) (some 0)

def natToHex (n : Nat) (width : Nat) : String :=
  let rec go (fuel : Nat) (n : Nat) (acc : List Char) : List Char :=
    match fuel with
    | 0 => acc
    | fuel+1 =>
      let d := n % 16
      let c := if d < 10 then Char.ofNat ('0'.toNat + d) else Char.ofNat ('a'.toNat + d - 10)
      go fuel (n / 16) (c :: acc)
  String.ofList (go width n [])

def floatToHex (f : Float) : String := natToHex f.toBits.toNat 16

end Orb
