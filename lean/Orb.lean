import Orb.Basic
import Orb.Proto
import Orb.Tile
