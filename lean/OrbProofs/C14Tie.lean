/-
  C14 — translation tie for `maptile.At`, which every function of maptile/tilecover starts from.
  `Generated/TileGeoGo.lean` is REGENERATED from /repo on every run by
  harness/cmd/factgen/translate_float.go.  The model `Orb.TileCover.tileAt` takes the longitude and the
  fraction `Fraction(ll, z)` as arguments and keeps `uint32(f)` and the west-edge expression
  `360.0*(float64(x)/float64(max)-0.5)` in its record `Ops`; `tileAt_tie` proves the regenerated `At` equal to
  `tileAt` at the regenerated `Fraction`, for every `Ops` whose `westEdge` is that expression
  (`westEdgeOf ofNat`) and whose `toU32` answers a uint32.  (`OrbProofs/C13FloatTie.lean` ties the same
  translation to `Orb.TileGeo.at_` and `Fraction` to `Orb.TileGeo.fraction`.)
-/
import Orb.TileCover
import Generated.TileGeoGo
import Generated.TilecoverGo
import Orb.LoopForms

namespace Orb.C14Tie
open Orb Orb.Tile Orb.TileCover

set_option linter.unusedSectionVars false

variable {α : Type} [Add α] [Sub α] [Mul α] [Div α] [Neg α] [LT α] [DecidableLT α]
  [OfNat α 0] [OfNat α 1] [OfNat α 2] [OfNat α 90] [OfNat α 180] [OfNat α 360]

theorem u32_pred (n : Nat) (h0 : 0 < n) (h : n < 2 ^ 32) : (n + 2 ^ 32 - 1) % 2 ^ 32 = n - 1 := by
  have e : n + 2 ^ 32 - 1 = (n - 1) + 2 ^ 32 := by omega
  rw [e, Nat.add_mod_right, Nat.mod_eq_of_lt (by omega)]

/-- `maptile.At(ll, z)` is the model's `tileAt` at `Fraction(ll, z)` -/
theorem tileAt_tie (ops : Ops α) (ofNat : Nat → α) (hw : ops.westEdge = westEdgeOf ofNat)
    (hu : ∀ a, ops.toU32 a < 2 ^ 32) (sin log : α → α) (pi twoPi latMax : α) (ll : Pt α) (z : Nat) :
    Generated.TileGeoGo.at_ sin log ops.toU32 pi twoPi latMax ofNat ll z
      = tileAt ops ll.x (Generated.TileGeoGo.fraction sin log pi twoPi latMax ofNat ll z) z := by
  unfold Generated.TileGeoGo.at_ tileAt
  rw [hw]
  simp only [westEdgeOf]
  generalize Generated.TileGeoGo.fraction sin log pi twoPi latMax ofNat ll z = f
  have hx := hu f.x
  generalize ops.toU32 f.x = x at hx ⊢
  generalize ops.toU32 f.y = y
  have hm : shl32 1 z < 2 ^ 32 := Nat.mod_lt _ (by decide)
  generalize shl32 1 z = mx at hm ⊢
  by_cases h0 : mx = 0
  · subst h0; simp
  · have hpos : 0 < mx := Nat.pos_of_ne_zero h0
    simp only [ne_eq, h0, not_false_eq_true, ↓reduceIte, true_and, ge_iff_le, gt_iff_lt]
    rw [u32_pred mx hpos hm]
    by_cases h1 : mx ≤ x
    · simp only [h1, ↓reduceIte]
      have hlt : mx - 1 < 2 ^ 32 := by omega
      by_cases h2 : 0 < mx - 1 ∧ ll.x < 360 * (ofNat (mx - 1) / ofNat mx - 1 / 2)
      · simp only [h2, and_self, ↓reduceIte]
        rw [u32_pred (mx - 1) h2.1 hlt]
      · simp only [h2, ↓reduceIte]
    · simp only [h1, ↓reduceIte]
      by_cases h2 : 0 < x ∧ ll.x < 360 * (ofNat x / ofNat mx - 1 / 2)
      · simp only [h2, and_self, ↓reduceIte]
        rw [u32_pred x h2.1 hx]
      · simp only [h2, ↓reduceIte]

/-! ### maptile/tilecover/helpers.go: `Point`, `MultiPoint`

A `maptile.Set` (a Go map) that is only written (`set[k] = true`) and returned is translated as the list of the keys
in insertion order — what the model's covers are. -/

section cover
variable [BEq α]

theorem coverPoint_tie (ops : Ops α) (ofNat : Nat → α) (hw : ops.westEdge = westEdgeOf ofNat)
    (hu : ∀ a, ops.toU32 a < 2 ^ 32) (sin log : α → α) (pi twoPi latMax : α) (fuel : Nat) (p : Pt α) (z : Nat) :
    cover ops (fun q => Generated.TileGeoGo.fraction sin log pi twoPi latMax ofNat q z) z fuel (.point p)
      = .ok (Generated.TilecoverGo.coverPoint sin log ops.toU32 pi twoPi latMax ofNat p z) := by
  rw [cover, Generated.TilecoverGo.coverPoint, tileAt_tie ops ofNat hw hu]

theorem coverMultiPoint_tie (ops : Ops α) (ofNat : Nat → α) (hw : ops.westEdge = westEdgeOf ofNat)
    (hu : ∀ a, ops.toU32 a < 2 ^ 32) (sin log : α → α) (pi twoPi latMax : α) (fuel : Nat) (ps : List (Pt α)) (z : Nat) :
    cover ops (fun q => Generated.TileGeoGo.fraction sin log pi twoPi latMax ofNat q z) z fuel (.multiPoint ps)
      = .ok (Generated.TilecoverGo.coverMultiPoint sin log ops.toU32 pi twoPi latMax ofNat ps z) := by
  have hf : (fun p => Generated.TileGeoGo.at_ sin log ops.toU32 pi twoPi latMax ofNat p z)
      = (fun p => tileAt ops p.x (Generated.TileGeoGo.fraction sin log pi twoPi latMax ofNat p z) z) := by
    funext p; exact tileAt_tie ops ofNat hw hu sin log pi twoPi latMax p z
  rw [cover]
  unfold Generated.TilecoverGo.coverMultiPoint
  have h := Orb.LoopForms.foldl_append_map
    (fun p => Generated.TileGeoGo.at_ sin log ops.toU32 pi twoPi latMax ofNat p z) ps []
  simp only [List.nil_append] at h
  simp only []
  rw [h, hf]

end cover

theorem all_translated_TilecoverGo : Generated.TilecoverGo.translated = ["coverPoint", "coverMultiPoint"] := by
  decide

theorem at_translated : "at_" ∈ Generated.TileGeoGo.translated ∧ "fraction" ∈ Generated.TileGeoGo.translated := by
  decide

end Orb.C14Tie
