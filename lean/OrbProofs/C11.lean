/-
  C11 — Quadtree answers every query as a plain list of its contents would.
  PROPERTY THEOREMS about the model `Orb.Quadtree` (quadtree/quadtree.go, quadtree/maxheap.go).

  Coordinates range over an arbitrary ordered field (exact arithmetic); the square root used to
  size the pruning box is only assumed to be an upper bound (`SqrtUp`), so the results do not
  depend on its rounding direction as long as it does not round below.  `Spec` (in
  C11Tree.lean) is the ten-line plain-list specification; its boxes are written with explicit
  inequalities (`inBox`), independent of the model's own `Bound.contains`.

  WHAT THE THEOREMS DO NOT COVER.  They are about exact arithmetic with an upper-bound square root.
  The Float twin that the correspondence run samples uses float64 arithmetic and the hardware
  square root, which can round BELOW the true root (`Float.sqrt 3` squared is less than 3), so
  `SqrtUp` does not hold for it: the twin is tied to the Go code bit for bit, and to these theorems
  only by sharing the definitions.  The searches of the code start from the limit
  `math.MaxFloat64`; `*_from_limit_spec` below carry the refinement over to that start for every
  tree whose accepted pointers are nearer than the limit.
-/
import OrbProofs.C11Lemmas
import OrbProofs.C11From
import OrbProofs.C11Args
import Generated.Writes
import Mathlib.Tactic.Linarith
import Mathlib.Algebra.Order.Field.Rat

namespace Orb.Quadtree
open Orb Orb.Core

variable {α : Type} [Field α] [LinearOrder α] [IsStrictOrderedRing α]

/-- The empty tree satisfies the structural invariant. -/
theorem inv_empty (b : Bound α) : QInv (⟨b, .nil⟩ : QT α) := inv_empty' b

/-- Adding inside the bound keeps the invariant and adds exactly the pointer; adding outside is
    rejected and changes nothing. -/
theorem add_spec (q : QT α) (p : Ptr α) (h : QInv q) :
    Spec q.bound (contents q.root) (.add p) (.flag (add q p).2) (contents (add q p).1.root) ∧
    QInv (add q p).1 ∧ (add q p).1.bound = q.bound ∧ ((add q p).2 = false → (add q p).1 = q) := add_spec' q p h

/-- Removal reports whether a match existed and removes exactly one, a closest match. -/
theorem remove_spec (sqrt : α → α) (hs : SqrtUp sqrt) (q : QT α) (pt : Pt α) (eq : Ptr α → Bool) (h : QInv q) :
    Spec q.bound (contents q.root) (.remove pt eq) (.flag (remove sqrt q pt eq).2) (contents (remove sqrt q pt eq).1.root) ∧
    QInv (remove sqrt q pt eq).1 ∧ (remove sqrt q pt eq).1.bound = q.bound := remove_spec' sqrt hs q pt eq h

/-- Nearest-point search (optionally filtered): a stored pointer at minimum distance, or none. -/
theorem matching_spec (sqrt : α → α) (hs : SqrtUp sqrt) (q : QT α) (pt : Pt α) (f : Ptr α → Bool) (h : QInv q) :
    Spec q.bound (contents q.root) (.matching pt f) (.ptr (matching sqrt q pt f)) (contents q.root) :=
  matching_spec' sqrt hs q pt f h

/-- k-nearest: the k closest accepted pointers strictly within the limit, sorted nearest first. -/
theorem kNearest_spec (sqrt : α → α) (hs : SqrtUp sqrt) (q : QT α) (pt : Pt α) (k : Nat) (f : Ptr α → Bool)
    (md : Option α) (h : QInv q) :
    Spec q.bound (contents q.root) (.kNearest pt k f md) (.ptrs (kNearest sqrt q pt k f md)) (contents q.root) :=
  kNearest_spec' sqrt hs q pt k f md h

/-- Bound search: exactly the accepted stored pointers inside the closed box. -/
theorem inBound_spec (q : QT α) (b : Bound α) (f : Ptr α → Bool) (h : QInv q) :
    Spec q.bound (contents q.root) (.inBound b f) (.ptrs (inBound q b f)) (contents q.root) :=
  inBound_spec' q b f h

/-- Removal never grows the tree: the node count does not increase. -/
theorem remove_nodes_le (sqrt : α → α) (q : QT α) (pt : Pt α) (eq : Ptr α → Bool) :
    nodes (remove sqrt q pt eq).1.root ≤ nodes q.root := remove_nodes_le' sqrt q pt eq

/-- FOR ALL FINITE HISTORIES starting from the empty tree (removal before any add, duplicates,
    points on midlines and on the bound included), every answer is one the plain list allows. -/
theorem history_refines (sqrt : α → α) (hs : SqrtUp sqrt) (b : Bound α) (ops : List (Op α)) :
    Trace sqrt ⟨b, .nil⟩ ops := history_refines' sqrt hs b ops

/-! ### the vocabulary of `Spec`, made explicit -/

/-- The add clause: a pointer is accepted exactly when its point lies in the closed tree bound —
    stated with the four inequalities, not with the model's own test. -/
theorem add_accepts_iff_in_closed_bound (q : QT α) (p : Ptr α) :
    (add q p).2 = true ↔
      (q.bound.lo.x ≤ p.p.x ∧ p.p.x ≤ q.bound.hi.x ∧ q.bound.lo.y ≤ p.p.y ∧ p.p.y ≤ q.bound.hi.y) := by
  have h : (add q p).2 = q.bound.contains p.p := by
    unfold add; cases q.bound.contains p.p <;> rfl
  rw [h, contains_eq_inBox]; simp [inBox]

/-- The distance limit of k-nearest: the property text says "strictly within the optional distance
    limit" and is silent about a negative limit; the code squares the limit, so a limit `m` means
    "distance `< |m|`" (`s` is any non-negative number whose square is the squared distance). -/
theorem limit_is_absolute (pt : Pt α) (m s : α) (x : Ptr α) (hs : 0 ≤ s) (hss : s * s = distSq x.p pt) :
    within pt (some m) x = true ↔ s < |m| := within_iff_lt_abs pt m s x hs hss

theorem limit_neg (pt : Pt α) (m : α) (x : Ptr α) : within pt (some (-m)) x = within pt (some m) x :=
  within_neg pt m x

/-! ### the searches as the code starts them (`minDistSquared: math.MaxFloat64`) -/

/-- `Find` / `Matching` started from the limit `M`: the refinement holds whenever every accepted stored
    pointer is nearer than `M` (for float64 and `M = MaxFloat64`: no squared distance overflows). -/
theorem matching_from_limit_spec (M : α) (sqrt : α → α) (hs : SqrtUp sqrt) (q : QT α) (pt : Pt α)
    (f : Ptr α → Bool) (h : QInv q) (hM : ∀ y ∈ contents q.root, f y = true → distSq y.p pt < M) :
    Spec q.bound (contents q.root) (.matching pt f) (.ptr (matchingFrom (some M) sqrt q pt f)) (contents q.root) :=
  matchingFrom_spec' M sqrt hs q pt f h hM

theorem remove_from_limit_spec (M : α) (sqrt : α → α) (hs : SqrtUp sqrt) (q : QT α) (pt : Pt α)
    (eq : Ptr α → Bool) (h : QInv q) (hM : ∀ y ∈ contents q.root, eq y = true → distSq y.p pt < M) :
    Spec q.bound (contents q.root) (.remove pt eq) (.flag (removeFrom (some M) sqrt q pt eq).2)
      (contents (removeFrom (some M) sqrt q pt eq).1.root) ∧ QInv (removeFrom (some M) sqrt q pt eq).1 :=
  removeFrom_spec' M sqrt hs q pt eq h hM

theorem kNearest_from_limit_spec (M : α) (sqrt : α → α) (hs : SqrtUp sqrt) (q : QT α) (pt : Pt α) (k : Nat)
    (f : Ptr α → Bool) (md : Option α) (h : QInv q)
    (hM : md = none → ∀ y ∈ contents q.root, f y = true → distSq y.p pt < M) :
    Spec q.bound (contents q.root) (.kNearest pt k f md) (.ptrs (kNearestFrom (some M) sqrt q pt k f md))
      (contents q.root) := kNearestFrom_spec' M sqrt hs q pt k f md h hM

/-- Outside that hypothesis (listed under `partial`): a one-pointer tree whose pointer is at squared
    distance `≥ M` — `Find` started from `M` answers nil on a non-empty tree. -/
theorem find_from_limit_skips_far (M : α) (sqrt : α → α) (b : Bound α) (x : Ptr α) (pt : Pt α)
    (hfar : ¬ distSq x.p pt < M) (hin : ¬ miss (rootCell b) b) :
    matchingFrom (some M) sqrt ⟨b, .node (some x) .nil .nil .nil .nil⟩ pt (fun _ => true) = none :=
  matchingFrom_skips_far M sqrt b x pt hfar hin

/-! ### the arguments of a k-nearest call: the distance limit is a value -/

section args
variable {β : Type} [Add β] [Sub β] [Mul β] [Div β] [OfNat β 2] [LT β] [LE β] [DecidableLT β] [DecidableLE β]
  [Min β] [Max β]

/-- The caller's limits slice (`q.KNearest(buf, p, k, lims...)` passes the caller's OWN slice) reads
    after the call exactly what it read before: the model of a call has no write to it.  The
    correspondence run checks the same on the Go code after every k-nearest call (clause
    `argument-mutated limit`), and C19's `caller_arguments_read_only` checks it on the regenerated
    write table. -/
theorem kNearestCall_limits_unchanged (init : Option β) (sqrt : β → β) (q : QT β) (pt : Pt β) (k : Nat)
    (f : Ptr β → Bool) (lims : List β) : (kNearestCall init sqrt q pt k f lims).2 = lims :=
  kNearestCall_limits_unchanged' init sqrt q pt k f lims

/-- Only the first element of the variadic argument is looked at; an empty one means "no limit". -/
theorem kNearestCall_reads_first_only (init : Option β) (sqrt : β → β) (q : QT β) (pt : Pt β) (k : Nat)
    (f : Ptr β → Bool) (m : β) (rest : List β) :
    (kNearestCall init sqrt q pt k f (m :: rest)).1 = kNearestFrom init sqrt q pt k f (some m) ∧
    (kNearestCall init sqrt q pt k f []).1 = kNearestFrom init sqrt q pt k f none :=
  kNearestCall_reads_first_only' init sqrt q pt k f m rest

/-- A caller that passes ONE limits slice to any number of successive calls gets from every call
    the answer for the limit it stored, and finds its slice unchanged at the end. -/
theorem kNearestCalls_eq_map (init : Option β) (sqrt : β → β) (q : QT β)
    (cs : List (Pt β × Nat × (Ptr β → Bool))) (lims : List β) :
    (kNearestCalls init sqrt q cs lims).1 = cs.map (fun c => kNearestFrom init sqrt q c.1 c.2.1 c.2.2 (limitOf lims)) ∧
    (kNearestCalls init sqrt q cs lims).2 = lims :=
  kNearestCalls_eq_map' init sqrt q cs lims

end args

/-- Every call of such a sequence satisfies the plain-list specification for the stored limit. -/
theorem kNearestCall_spec (sqrt : α → α) (hs : SqrtUp sqrt) (q : QT α) (pt : Pt α) (k : Nat) (f : Ptr α → Bool)
    (lims : List α) (h : QInv q) :
    Spec q.bound (contents q.root) (.kNearest pt k f (limitOf lims))
      (.ptrs (kNearestCall none sqrt q pt k f lims).1) (contents q.root) := by
  have e : (kNearestCall none sqrt q pt k f lims).1 = kNearest sqrt q pt k f (limitOf lims) :=
    kNearestFrom_none sqrt q pt k f (limitOf lims)
  rw [e]
  exact kNearest_spec' sqrt hs q pt k f (limitOf lims) h

/-- THE CLAUSE CAN FAIL, and its failure is visible in later answers: were the limit squared in
    place (`maxDistance[0] *= maxDistance[0]`), the caller's slice `[2]` would read `[4]` after the
    first call, and three calls with that one slice on four pointers at distances 0, 1, 3, 10 would
    answer 2, then 3, then 4 pointers — the model answers 2 pointers every time. -/
theorem squaring_in_place_is_visible :
    let call := fun lims => kNearestCallSquaring none (fun x : ℚ => x + 1) lineTree ⟨0, 0⟩ 10 (fun _ => true) lims
    (call [2]).2 = [4] ∧
    ((call [2]).1.map (·.id), (call (call [2]).2).1.map (·.id), (call (call (call [2]).2).2).1.map (·.id)) =
      ([1, 2], [1, 2, 3], [1, 2, 3, 4]) ∧
    ((kNearestCalls none (fun x : ℚ => x + 1) lineTree [(⟨0, 0⟩, 10, fun _ => true), (⟨0, 0⟩, 10, fun _ => true), (⟨0, 0⟩, 10, fun _ => true)] [2]).1.map
      fun l => l.map (·.id)) = [[1, 2], [1, 2], [1, 2]] :=
  squaring_in_place_is_visible'

/-! ### facts regenerated from the Go source (factgen's type-checked view of package quadtree) -/

/-- STORED POINTERS ARE NEVER COMPARED: package quadtree contains no `==` / `!=` between two interface
    values (other than with the literal nil) and no `switch` over one.  The model identifies a stored
    `orb.Pointer` by an id and looks at its point only; the Go code can depart from that only by
    comparing Pointer values — which panics for the same uncomparable dynamic type on both sides (a
    value struct with a slice or a map inside, such as `geojson.Feature`) — or by type assertions.
    Regenerated on every run (Generated/Writes.lean `interfaceComparisons`). -/
theorem pointers_never_compared : Generated.Writes.interfaceComparisons = [] := by decide

/-- THE HEAP GROWS ON DEMAND: `maxHeap.Push` appends to the per-call heap (a row of kind `append`
    whose destination is `*h` in the regenerated write table) — it does not reslice inside a
    capacity that `KNearestMatching` chose; the model's `heapPush` is `Array.push` and has no
    capacity.  (Fix 7b9021e; with the reslice form `k` beyond the pre-allocation panics.) -/
theorem heap_push_appends :
    (Generated.Writes.writes.any fun w => w.fn == "maxHeap.Push" && w.kind == "append" && w.rootVar == "h") = true := by
  decide

/-! ### non-vacuity -/

/-- `SqrtUp` is satisfiable over ℚ by any upper bound, e.g. `x ↦ x + 1`. -/
theorem sqrtUp_succ : SqrtUp (fun x : ℚ => x + 1) := by
  intro x hx
  constructor
  · linarith
  · nlinarith

/-- the answers of a history as id lists (`[1]` / `[0]` for a flag, `[]` for nil) -/
def outIds : Out ℚ → List Nat
  | .flag b => [if b then 1 else 0]
  | .ptr none => []
  | .ptr (some p) => [p.id]
  | .ptrs l => l.map (·.id)

def runIds (sqrt : ℚ → ℚ) : QT ℚ → List (Op ℚ) → List (List Nat)
  | _, [] => []
  | q, op :: rest => outIds (step sqrt q op).2 :: runIds sqrt (step sqrt q op).1 rest

/-- A concrete history over ℚ on the tree bound [-10,10]²: removal before any add; adds on both root
    midlines, of a duplicate point, outside the bound, of the SAME pointer twice, of a non-dyadic
    point on the bound; k-nearest with k beyond / a negative limit / k = 0; removal with an `eq`
    accepting several pointers at different distances; filtered find; in-bound with a proper and an
    inverted box; removal of an absent pointer; removal of one of two copies. -/
def exOps : List (Op ℚ) := [
  .remove ⟨0, 0⟩ (fun _ => true),
  .add ⟨1, ⟨0, 0⟩⟩, .add ⟨2, ⟨5, 5⟩⟩, .add ⟨3, ⟨5, 5⟩⟩, .add ⟨4, ⟨11, 0⟩⟩, .add ⟨1, ⟨0, 0⟩⟩,
  .add ⟨5, ⟨1/3, -10⟩⟩,
  .kNearest ⟨1, 1⟩ 2 (fun _ => true) none,
  .kNearest ⟨4, 4⟩ 3 (fun _ => true) (some (-2)),
  .kNearest ⟨4, 4⟩ 0 (fun _ => true) none,
  .remove ⟨4, 4⟩ (fun x => x.id % 2 == 1),
  .matching ⟨4, 4⟩ (fun x => x.id % 2 == 1),
  .inBound ⟨⟨0, 0⟩, ⟨10, 10⟩⟩ (fun _ => true),
  .inBound ⟨⟨10, 10⟩, ⟨0, 0⟩⟩ (fun _ => true),
  .remove ⟨7, 7⟩ (fun x => x.id == 9),
  .remove ⟨0, 0⟩ (fun x => x.id == 1),
  .matching ⟨-3, 2⟩ (fun _ => true)]

/-- … its answers, computed by the model over ℚ with the upper-bound root `x + 1` … -/
theorem example_history_answers :
    runIds (fun x => x + 1) ⟨⟨⟨-10, -10⟩, ⟨10, 10⟩⟩, .nil⟩ exOps =
      [[0], [1], [1], [1], [0], [1], [1], [1, 1], [2, 3], [], [1], [1], [1, 1, 2], [], [0], [1], [1]] := by
  decide +kernel

/-- … and the refinement theorem instantiated on it (every one of these answers is one the plain list
    allows). -/
example : Trace (fun x : ℚ => x + 1) ⟨⟨⟨-10, -10⟩, ⟨10, 10⟩⟩, .nil⟩ exOps :=
  history_refines _ sqrtUp_succ _ exOps

end Orb.Quadtree
