/-
  C11 — Quadtree answers every query as a plain list of its contents would.
  PROPERTY THEOREMS about the model `Orb.Quadtree` (quadtree/quadtree.go, quadtree/maxheap.go).

  Coordinates range over an arbitrary ordered field (exact arithmetic); the square root used to
  size the pruning box is only assumed to be an upper bound (`SqrtUp`), so the results do not
  depend on its rounding direction as long as it does not round below.  `Spec` (in
  C11Lemmas.lean) is the ten-line plain-list specification.
-/
import OrbProofs.C11Lemmas
import Mathlib.Tactic.Linarith
import Mathlib.Algebra.Order.Field.Rat

namespace Orb.Quadtree
open Orb Orb.Core

variable {α : Type} [Field α] [LinearOrder α] [IsStrictOrderedRing α]

/-- The empty tree satisfies the structural invariant. -/
theorem inv_empty (b : Bound α) : QInv (⟨b, .nil⟩ : QT α) := inv_empty' b

/-- Adding inside the bound keeps the invariant and adds exactly the pointer; adding outside is
    rejected and changes nothing. -/
theorem add_spec (q : QT α) (p : Ptr α) (h : QInv q) :
    Spec q.bound (contents q.root) (.add p) (.flag (add q p).2) (contents (add q p).1.root) ∧
    QInv (add q p).1 ∧ (add q p).1.bound = q.bound ∧ ((add q p).2 = false → (add q p).1 = q) := add_spec' q p h

/-- Removal reports whether a match existed and removes exactly one, a closest match. -/
theorem remove_spec (sqrt : α → α) (hs : SqrtUp sqrt) (q : QT α) (pt : Pt α) (eq : Ptr α → Bool) (h : QInv q) :
    Spec q.bound (contents q.root) (.remove pt eq) (.flag (remove sqrt q pt eq).2) (contents (remove sqrt q pt eq).1.root) ∧
    QInv (remove sqrt q pt eq).1 ∧ (remove sqrt q pt eq).1.bound = q.bound := remove_spec' sqrt hs q pt eq h

/-- Nearest-point search (optionally filtered): a stored pointer at minimum distance, or none. -/
theorem matching_spec (sqrt : α → α) (hs : SqrtUp sqrt) (q : QT α) (pt : Pt α) (f : Ptr α → Bool) (h : QInv q) :
    Spec q.bound (contents q.root) (.matching pt f) (.ptr (matching sqrt q pt f)) (contents q.root) :=
  matching_spec' sqrt hs q pt f h

/-- k-nearest: the k closest accepted pointers strictly within the limit, sorted nearest first. -/
theorem kNearest_spec (sqrt : α → α) (hs : SqrtUp sqrt) (q : QT α) (pt : Pt α) (k : Nat) (f : Ptr α → Bool)
    (md : Option α) (h : QInv q) :
    Spec q.bound (contents q.root) (.kNearest pt k f md) (.ptrs (kNearest sqrt q pt k f md)) (contents q.root) :=
  kNearest_spec' sqrt hs q pt k f md h

/-- Bound search: exactly the accepted stored pointers inside the closed box. -/
theorem inBound_spec (q : QT α) (b : Bound α) (f : Ptr α → Bool) (h : QInv q) :
    Spec q.bound (contents q.root) (.inBound b f) (.ptrs (inBound q b f)) (contents q.root) :=
  inBound_spec' q b f h

/-- Removal never grows the tree: the node count does not increase. -/
theorem remove_nodes_le (sqrt : α → α) (q : QT α) (pt : Pt α) (eq : Ptr α → Bool) :
    nodes (remove sqrt q pt eq).1.root ≤ nodes q.root := remove_nodes_le' sqrt q pt eq

/-- FOR ALL FINITE HISTORIES starting from the empty tree (removal before any add, duplicates,
    points on midlines and on the bound included), every answer is one the plain list allows. -/
theorem history_refines (sqrt : α → α) (hs : SqrtUp sqrt) (b : Bound α) (ops : List (Op α)) :
    Trace sqrt ⟨b, .nil⟩ ops := history_refines' sqrt hs b ops

/-- Non-vacuity: `SqrtUp` is satisfiable over ℚ-like fields by any upper bound, e.g. `x ↦ x + 1`;
    and a concrete history exercises add / remove / k-nearest. -/
example : SqrtUp (fun x : ℚ => x + 1) := by
  intro x hx
  constructor
  · linarith
  · nlinarith

end Orb.Quadtree
