/-
  C03, the wire level — PROPERTY THEOREMS about `Orb.ProtoWire`, the byte-for-byte model of what
  `proto.Marshal` (gogo-generated `Tile.Marshal`) writes and what `unmarshalTile` reads through
  paulmach/protoscan.  With these the two byte-level clauses of C03 — "marshalling the same
  layers twice yields byte-identical output regardless of map iteration order" and
  "unmarshalling it returns the same layers" — are theorems about BYTES, not about the
  `VTTile` structure: `marshalBytes = encodeTile ∘ marshalVT`, `unmarshalBytes = unmarshalVT ∘
  decodeTile` (plus the gzip-magic test).

  `WFTile t`: every number of `t` fits its Go type (`tileFits`: uint32 version / extent, uint64
  id, int32 geometry type, int64 / uint64 values) and the encoding is shorter than 2^63 bytes
  (protoscan reads a length into an `int`).  `tileFits` is proved for every output of
  `marshalVT` on Go-typed input (`inputFits`, implied by `mvtWF`); the length bound is a
  hypothesis (no Go slice is longer).
-/
import OrbProofs.C03Lemmas
import OrbProofs.C03WireCodec
import OrbProofs.C03WireTotal
import OrbProofs.C03WireFits

namespace Orb.ProtoWire
open Orb Orb.MVT

/-! ### primitives -/

/-- A uint64 written as a base-128 varint is read back, with what follows it untouched. -/
theorem varint_roundtrip (n : Nat) (rest : Bytes) (h : n < 2^64) :
    varint64 (encodeVarint n ++ rest) = some (n, rest) := varint64_encodeVarint n rest h

/-- The uint32 reader (five bytes at most) reads back every value below 2^32. -/
theorem varint32_roundtrip (n : Nat) (rest : Bytes) (h : n < 2^32) :
    varint32 (encodeVarint n ++ rest) = some (n, rest) := varint32_encodeVarint n rest h

/-- A varint is 1 to 10 bytes long. -/
theorem varint_length_le_10 (n : Nat) : 1 ≤ (encodeVarint n).length ∧ (encodeVarint n).length ≤ 10 :=
  ⟨encodeVarint_length_pos n, encodeVarint_length_le n⟩

/-- `unZig64 ∘ zigzag = id` on all 2^64 values (`Value.sint_value`). -/
theorem zigzag64_roundtrip (x : BitVec 64) : unzigzag64 (zigzag64 x) = x := zigzag64_roundtrip' x

/-- `(field << 3) | wiretype` gives back the field number and the wire type. -/
theorem tag_roundtrip (field wt : Nat) (h : wt < 8) :
    tag field wt >>> 3 = field ∧ tag field wt &&& 7 = wt := tag_roundtrip' field wt h

/-- The keys the encoder writes are the one-byte literals of the generated code
    (0x0a 0x12 0x1a 0x22 0x28 0x78 for a layer, 0x08 0x12 0x18 0x22 for a feature,
    0x0a 0x15 0x19 0x20 0x28 0x30 0x38 for a value, 0x1a for the tile). -/
theorem keys_as_generated :
    [tag 1 wtLen, tag 2 wtLen, tag 3 wtLen, tag 4 wtLen, tag 5 wtVarint, tag 15 wtVarint] = [0x0a, 0x12, 0x1a, 0x22, 0x28, 0x78] ∧
    [tag 1 wtVarint, tag 3 wtVarint] = [0x08, 0x18] ∧
    [tag 2 wt32, tag 3 wt64, tag 4 wtVarint, tag 6 wtVarint, tag 7 wtVarint] = [0x15, 0x19, 0x20, 0x30, 0x38] ∧
    ∀ k, k < 128 → encodeVarint k = [UInt8.ofNat k] :=
  ⟨by decide, by decide, by decide, encodeVarint_small⟩

/-- Little-endian fixed-width values (`Value.float_value`, `Value.double_value`). -/
theorem fixed_roundtrip (a : UInt32) (b : UInt64) (rest : Bytes) :
    fixed32 (le32 a ++ rest) = some (a, rest) ∧ fixed64 (le64 b ++ rest) = some (b, rest) :=
  ⟨fixed32_le32 a rest, fixed64_le64 b rest⟩

/-! ### the tile codec -/

/-- Decoding the bytes of a well-formed tile structure gives the structure back. -/
theorem decodeTile_encodeTile (t : VTTile) (h : WFTile t) : decodeTile (encodeTile t) = .ok t :=
  decodeTile_encodeTile' t h

/-- The MODEL's scan loops terminate on every byte string: `Orb.ProtoWire` has one panic source,
    running out of fuel (fuel = number of unread bytes), and it is never reached.  This is a
    termination fact about the model.  It is NOT a proof that protoscan's slice expressions
    (`m.Data[m.Index:m.Index+l]`, `binary.LittleEndian.Uint32(b.Data[b.Index:])`) stay in range:
    the model totalises them with `take` / `drop` / pattern matching after the same bounds tests
    the Go code makes (`packedLength`, the `len(m.Data) <= m.Index+8` test of `Skip`); that no Go
    index panic occurs in the scanner rests on the `wireh` correspondence (every hostile string is
    run through `mvt.Unmarshal` under `recover`, verdict `propfail panic unmarshal`). -/
theorem decodeTile_total (bs : Bytes) : (decodeTile bs).isPanic = false := decodeTile_total' bs

/-- … and the model of `Unmarshal` as a whole has no panic outcome either: no fuel exhaustion in
    the scanner, and none of the explicit index panics of the structure decoders of `Orb.MVT`
    (`unmarshal_total`: there every Go index IS an explicit panic outcome of the model). -/
theorem unmarshalBytes_total (bs : Bytes) : (unmarshalBytes bs).isPanic = false := unmarshalBytes_total' bs

/-- The same with any orientation function in the polygon decoder (Go: the float64 shoelace). -/
theorem unmarshalBytesWith_total (ori : List (Pt Int) → Int) (bs : Bytes) :
    (unmarshalBytesWith ori bs).isPanic = false := unmarshalBytesWith_total' ori bs

/-- Every tile structure `Marshal` builds from Go-typed input holds numbers that fit the Go
    types of `vectortile.Tile` … -/
theorem marshalVT_tileFits (ls : List Layer) (t : VTTile) (hin : inputFits ls = true)
    (h : marshalVT ls = .ok t) : tileFits t = true := marshalVT_tileFits' ls t hin h

/-- … in particular on the quantifier of C03. -/
theorem mvtWF_tileFits (ls : List Layer) (t : VTTile) (hwf : mvtWF ls = true)
    (h : marshalVT ls = .ok t) : tileFits t = true :=
  marshalVT_tileFits' ls t (mvtWF_inputFits ls hwf) h

/-! ### determinism, at the byte level -/

/-- `encodeTile` is a function of the structure, and the structure does not depend on the
    iteration order of the property maps: every schedule yields byte-identical output (or the
    same failure). -/
theorem encodeTile_deterministic (ls ls' : List Layer) (h : layersPermEq ls ls')
    (hn : ∀ l ∈ ls, ∀ f ∈ l.features, nodupKeys f.props = true) :
    marshalBytes ls = marshalBytes ls' := by
  unfold marshalBytes
  rw [marshalVT_deterministic' ls ls' h hn]

/-! ### the round trip, at the byte level -/

/-- The wire layer is transparent: unmarshalling the bytes `Marshal` wrote is unmarshalling the
    structure it built (so every structure-level statement of C03 — also the known findings —
    is a statement about bytes). -/
theorem wire_transparent (ls : List Layer) (t : VTTile) (hin : inputFits ls = true)
    (hm : marshalVT ls = .ok t) (hlen : (encodeTile t).length < 2^63) :
    marshalBytes ls = .ok (encodeTile t) ∧
    unmarshalBytes (encodeTile t) = unmarshalTop (encodeTile t) (unmarshalVT t) := by
  constructor
  · simp [marshalBytes, hm, Res.map]
  · unfold unmarshalBytes unmarshalBytesWith
    rw [decodeTile_encodeTile' t ⟨marshalVT_tileFits' ls t hin hm, hlen⟩]
    rfl

/-- For layers of the quantifier, in the exact domain (the hypotheses of `layer_roundtrip_partial`):
    `Marshal` succeeds, and `Unmarshal` of the BYTES it wrote returns the expected layers. -/
theorem bytes_roundtrip (ls : List Layer) (h : mvtWF ls = true) (hx : exactDomain ls = true) :
    ∃ bs, marshalBytes ls = .ok bs ∧
      (bs.length < 2^63 → unmarshalBytes bs = .ok (expectLayers ls)) := by
  obtain ⟨t, hm, hu⟩ := layer_roundtrip_partial' ls h hx
  refine ⟨encodeTile t, ?_, fun hlen => ?_⟩
  · simp [marshalBytes, hm, Res.map]
  · rw [(wire_transparent ls t (mvtWF_inputFits ls h) hm hlen).2, hu]
    rfl

/-- The byte-level round trip at full strength (what Go runs): `unmarshalBytesWith ori` for any
    orientation function that is exact on the rings of the input, layers without a +0 / −0 clash. -/
theorem bytes_roundtrip_exact (ori : List (Pt Int) → Int) (ls : List Layer) (h : mvtWF ls = true)
    (hx : exactDomainZ ls = true) (ho : oriAgree ori ls) :
    ∃ bs, marshalBytes ls = .ok bs ∧
      (bs.length < 2^63 → unmarshalBytesWith ori bs = .ok (expectLayers ls)) := by
  obtain ⟨t, hm, hu⟩ := layer_roundtrip_exact' ori ls h hx ho
  refine ⟨encodeTile t, ?_, fun hlen => ?_⟩
  · simp [marshalBytes, hm, Res.map]
  · unfold unmarshalBytesWith
    rw [decodeTile_encodeTile' t ⟨marshalVT_tileFits' ls t (mvtWF_inputFits ls h) hm, hlen⟩]
    simp only [hu]
    rfl

/-- The gzip-magic test (`dataIsGZipped`, unmarshal.go:38-40, 475-477): an error of `unmarshalTile`
    is replaced by `ErrDataIsGZipped` exactly when the data starts with 1f 8b; a success is kept. -/
theorem unmarshalTop_spec {α : Type} (data : Bytes) (r : R α) :
    (∀ a, r = .ok a → unmarshalTop data r = .ok a) ∧
    (∀ e, r = .err e → dataIsGZipped data = true → unmarshalTop data r = .err .gzipped) ∧
    (∀ e, r = .err e → dataIsGZipped data = false → unmarshalTop data r = .err e) := by
  refine ⟨?_, ?_, ?_⟩
  · rintro a rfl; rfl
  · rintro e rfl hg; simp [unmarshalTop, hg]
  · rintro e rfl hg; simp [unmarshalTop, hg]

/-- Non-vacuity: a well-formed tile structure (strings, every number kind, packed fields); and the
    bytes `mvt.Marshal` wrote (recorded from the Go run) for one point feature with id 300 and the
    property k = int8(-3), reproduced by evaluation — and decoded back. -/
example : WFTile [⟨"ab", 2, 4096, ["k"], [.sint (-3), .uint 300, .double 0x4000000000000000, .bool true],
    [⟨some 7, [0, 0], 1, [9, 4, 6]⟩, ⟨none, [], 3, []⟩]⟩] ∧
    encodeTile [⟨"a", 2, 4096, ["k"], [.sint (-3)], [⟨some 300, [0, 0], 1, [9, 4, 6]⟩]⟩] =
      [0x1a, 0x1f, 0x0a, 0x01, 0x61, 0x12, 0x0e, 0x08, 0xac, 0x02, 0x12, 0x02, 0x00, 0x00, 0x18, 0x01,
       0x22, 0x03, 0x09, 0x04, 0x06, 0x1a, 0x01, 0x6b, 0x22, 0x02, 0x30, 0x05, 0x28, 0x80, 0x20, 0x78, 0x02] ∧
    decodeTile [0x1a, 0x1f, 0x0a, 0x01, 0x61, 0x12, 0x0e, 0x08, 0xac, 0x02, 0x12, 0x02, 0x00, 0x00, 0x18, 0x01,
       0x22, 0x03, 0x09, 0x04, 0x06, 0x1a, 0x01, 0x6b, 0x22, 0x02, 0x30, 0x05, 0x28, 0x80, 0x20, 0x78, 0x02] =
      .ok [⟨"a", 2, 4096, ["k"], [.sint (-3)], [⟨some 300, [0, 0], 1, [9, 4, 6]⟩]⟩] := by
  decide

end Orb.ProtoWire
