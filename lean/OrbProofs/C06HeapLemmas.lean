/-
  Lemmas for the heap-level part of C06 (`Orb.Heap`): a clone denotes the same value, lives in
  fresh arrays only, and writes outside a footprint are invisible.  Core Lean only.
  The primed statements are re-exported by OrbProofs/C06.lean.
-/
import Orb.Heap

namespace Orb.Heap
open Orb

variable {α : Type}

/-- structural induction for the nested inductive `HGeom` -/
theorem HGeom.ind {motive : HGeom α → Prop}
    (h1 : ∀ p, motive (.point p)) (h2 : ∀ a, motive (.multiPoint a))
    (h3 : ∀ a, motive (.lineString a)) (h4 : ∀ as, motive (.multiLineString as))
    (h5 : ∀ a, motive (.ring a)) (h6 : ∀ as, motive (.polygon as))
    (h7 : ∀ ass, motive (.multiPolygon ass)) (h8 : ∀ a b, motive (.bound a b))
    (hc : ∀ gs, (∀ g ∈ gs, motive g) → motive (.collection gs)) : ∀ g, motive g := by
  intro g
  refine HGeom.rec (motive_1 := motive) (motive_2 := fun gs => ∀ g ∈ gs, motive g)
    h1 h2 h3 h4 h5 h6 h7 h8 hc ?_ ?_ g
  · intro g hg; cases hg
  · intro head tail hh ht g hg
    rcases List.mem_cons.1 hg with rfl | hg
    · exact hh
    · exact ht g hg

/-! ### reading from an extended store -/

theorem read_append_lt (σ ext : Store α) {a : Nat} (h : a < σ.length) :
    read (σ ++ ext) a = read σ a := by
  simp [read, List.getD_eq_getElem?_getD, List.getElem?_append_left h]

theorem read_append_add (σ ext : Store α) (i : Nat) :
    read (σ ++ ext) (σ.length + i) = read ext i := by
  simp [read, List.getD_eq_getElem?_getD, List.getElem?_append_right]

theorem read_append_length (σ : Store α) (ps : List (Pt α)) (ext : Store α) :
    read (σ ++ ps :: ext) σ.length = ps := by
  simp [read]

theorem map_read_range' (σ ext : Store α) :
    (List.range' σ.length ext.length).map (read (σ ++ ext)) = ext := by
  apply List.ext_getElem
  · simp
  · intro i h1 h2
    simp only [List.getElem_map, List.getElem_range', Nat.one_mul]
    rw [read_append_add]
    simp [read, List.getD_eq_getElem?_getD, List.getElem?_eq_getElem h2]

/-! ### `denote` only looks at the arrays in the footprint -/

theorem denote_congr (σ σ' : Store α) (g : HGeom α)
    (h : ∀ a ∈ footprint g, read σ' a = read σ a) : denote σ' g = denote σ g := by
  induction g using HGeom.ind with
  | h1 p => simp [denote]
  | h2 a => simp [denote, h a (by simp [footprint])]
  | h3 a => simp [denote, h a (by simp [footprint])]
  | h5 a => simp [denote, h a (by simp [footprint])]
  | h4 as =>
    simp only [denote, footprint] at h ⊢
    congr 1
    exact List.map_congr_left h
  | h6 as =>
    simp only [denote, footprint] at h ⊢
    congr 1
    exact List.map_congr_left h
  | h7 ass =>
    simp only [denote, footprint] at h ⊢
    congr 1
    apply List.map_congr_left
    intro as has
    apply List.map_congr_left
    intro a ha
    exact h a (List.mem_flatten.2 ⟨as, has, ha⟩)
  | h8 a b => simp [denote]
  | hc gs ih =>
    simp only [denote]
    congr 1
    rw [footprint] at h
    induction gs with
    | nil => simp [denoteList]
    | cons g gs ihl =>
      rw [footprintList] at h
      simp only [denoteList]
      rw [ih g (by simp) (fun a ha => h a (List.mem_append_left _ ha)),
        ihl (fun g hg => ih g (List.mem_cons_of_mem _ hg)) (fun a ha => h a (List.mem_append_right _ ha))]

theorem denote_append (σ ext : Store α) (g : HGeom α) (h : WF σ g) :
    denote (σ ++ ext) g = denote σ g :=
  denote_congr σ (σ ++ ext) g fun a ha => read_append_lt σ ext (h a ha)

/-! ### writes -/

theorem write_length (σ : Store α) (a i : Nat) (v : Pt α) : (write σ a i v).length = σ.length := by
  induction σ generalizing a with
  | nil => simp [write]
  | cons arr rest ih => cases a <;> simp [write, ih]

theorem read_write_ne (σ : Store α) (a b i : Nat) (v : Pt α) (h : b ≠ a) :
    read (write σ a i v) b = read σ b := by
  induction σ generalizing a b with
  | nil => simp [write]
  | cons arr rest ih =>
    cases a with
    | zero =>
      cases b with
      | zero => exact absurd rfl h
      | succ b => simp [write, read]
    | succ a =>
      cases b with
      | zero => simp [write, read]
      | succ b =>
        have := ih a b (fun hb => h (by rw [hb]))
        simpa [write, read] using this

theorem read_write_same (σ : Store α) (a i : Nat) (v : Pt α) :
    read (write σ a i v) a = (read σ a).set i v := by
  induction σ generalizing a with
  | nil => simp [write, read]
  | cons arr rest ih =>
    cases a with
    | zero => simp [write, read]
    | succ a => simpa [write, read] using ih a

theorem write_frame' (σ : Store α) (g : HGeom α) (a i : Nat) (v : Pt α) (h : a ∉ footprint g) :
    denote (write σ a i v) g = denote σ g :=
  denote_congr σ _ g fun b hb => read_write_ne σ a b i v (fun e => h (e ▸ hb))

/-! ### the allocation loops -/

theorem cloneArrs_append (σ : Store α) (as bs : List Nat) :
    cloneArrs σ (as ++ bs) =
      ((cloneArrs (cloneArrs σ as).1 bs).1, (cloneArrs σ as).2 ++ (cloneArrs (cloneArrs σ as).1 bs).2) := by
  induction as generalizing σ with
  | nil => simp [cloneArrs]
  | cons a as ih => simp [cloneArrs, ih]

theorem cloneArrs_length (σ : Store α) (as : List Nat) :
    (cloneArrs σ as).1.length = σ.length + as.length := by
  induction as generalizing σ with
  | nil => simp [cloneArrs]
  | cons a as ih => simp [cloneArrs, ih, cloneArr, alloc]; omega

/-- the new headers are exactly the next `n` unused ids, in order -/
theorem cloneArrs_snd (σ : Store α) (as : List Nat) :
    (cloneArrs σ as).2 = List.range' σ.length as.length := by
  induction as generalizing σ with
  | nil => simp [cloneArrs]
  | cons a as ih => simp [cloneArrs, ih, cloneArr, alloc, List.range'_succ]

/-- the new arrays hold copies of the members, in order -/
theorem cloneArrs_store (σ : Store α) (as : List Nat) (h : ∀ a ∈ as, a < σ.length) :
    (cloneArrs σ as).1 = σ ++ as.map (read σ) := by
  induction as generalizing σ with
  | nil => simp [cloneArrs]
  | cons a as ih =>
    have h1 : ∀ b ∈ as, b < (σ ++ [read σ a]).length := fun b hb => by
      have := h b (List.mem_cons_of_mem _ hb); simp; omega
    simp only [cloneArrs, cloneArr, alloc, List.map_cons]
    rw [ih _ h1, List.append_assoc]
    congr 1
    simp only [List.singleton_append, List.cons.injEq, true_and]
    apply List.map_congr_left
    intro b hb
    exact read_append_lt σ _ (h b (List.mem_cons_of_mem _ hb))

theorem cloneArrs_read (σ : Store α) (as : List Nat) (h : ∀ a ∈ as, a < σ.length) :
    (cloneArrs σ as).2.map (read (cloneArrs σ as).1) = as.map (read σ) := by
  rw [cloneArrs_snd, cloneArrs_store σ as h]
  have := map_read_range' σ (as.map (read σ))
  simpa using this

/-- `MultiPolygon.Clone` allocates like one flat loop over all rings -/
theorem cloneArrss_flat (σ : Store α) (ass : List (List Nat)) :
    (cloneArrss σ ass).1 = (cloneArrs σ ass.flatten).1 ∧
    (cloneArrss σ ass).2.flatten = (cloneArrs σ ass.flatten).2 := by
  induction ass generalizing σ with
  | nil => simp [cloneArrss, cloneArrs]
  | cons as ass ih =>
    simp only [cloneArrss, List.flatten_cons, cloneArrs_append]
    exact ⟨(ih _).1, by rw [(ih _).2]⟩

mutual
/-- `orb.Clone` allocates like one flat loop over the footprint -/
theorem clone_flat (σ : Store α) : ∀ g : HGeom α,
    (clone σ g).1 = (cloneArrs σ (footprint g)).1 ∧
    footprint (clone σ g).2 = (cloneArrs σ (footprint g)).2
  | .point p => by simp [clone, footprint, cloneArrs]
  | .multiPoint a => by simp [clone, footprint, cloneArrs]
  | .lineString a => by simp [clone, footprint, cloneArrs]
  | .ring a => by simp [clone, footprint, cloneArrs]
  | .multiLineString as => by simp [clone, footprint]
  | .polygon as => by simp [clone, footprint]
  | .multiPolygon ass => by simpa [clone, footprint] using cloneArrss_flat σ ass
  | .bound a b => by simp [clone, footprint, cloneArrs]
  | .collection gs => by simpa [clone, footprint] using cloneList_flat σ gs
theorem cloneList_flat (σ : Store α) : ∀ gs : List (HGeom α),
    (cloneList σ gs).1 = (cloneArrs σ (footprintList gs)).1 ∧
    footprintList (cloneList σ gs).2 = (cloneArrs σ (footprintList gs)).2
  | [] => by simp [cloneList, footprintList, cloneArrs]
  | g :: gs => by
    have hg := clone_flat σ g
    have hl := cloneList_flat (clone σ g).1 gs
    simp only [cloneList, footprintList, cloneArrs_append]
    rw [hl.1, hl.2, hg.1, hg.2]
    exact ⟨rfl, rfl⟩
end

theorem clone_footprint (σ : Store α) (g : HGeom α) :
    footprint (clone σ g).2 = List.range' σ.length (footprint g).length := by
  rw [(clone_flat σ g).2, cloneArrs_snd]

theorem clone_length (σ : Store α) (g : HGeom α) :
    (clone σ g).1.length = σ.length + (footprint g).length := by
  rw [(clone_flat σ g).1, cloneArrs_length]

theorem clone_store (σ : Store α) (g : HGeom α) (h : WF σ g) :
    (clone σ g).1 = σ ++ (footprint g).map (read σ) := by
  rw [(clone_flat σ g).1, cloneArrs_store σ _ h]

/-- the clone is well-formed in the store it was allocated in -/
theorem clone_wf (σ : Store α) (g : HGeom α) : WF (clone σ g).1 (clone σ g).2 := by
  intro a ha
  rw [clone_footprint, List.mem_range'_1] at ha
  rw [clone_length]
  exact ha.2

theorem cloneArrss_store (σ : Store α) (ass : List (List Nat)) (h : ∀ a ∈ ass.flatten, a < σ.length) :
    (cloneArrss σ ass).1 = σ ++ ass.flatten.map (read σ) := by
  rw [(cloneArrss_flat σ ass).1, cloneArrs_store σ _ h]

theorem cloneArrss_read (σ : Store α) (ass : List (List Nat)) (h : ∀ a ∈ ass.flatten, a < σ.length) :
    (cloneArrss σ ass).2.map (fun as => as.map (read (cloneArrss σ ass).1)) =
      ass.map (fun as => as.map (read σ)) := by
  induction ass generalizing σ with
  | nil => simp [cloneArrss]
  | cons as ass ih =>
    have has : ∀ a ∈ as, a < σ.length := fun a ha => h a (by simp [ha])
    have hass : ∀ a ∈ ass.flatten, a < (cloneArrs σ as).1.length := fun a ha => by
      have := h a (by simp only [List.flatten_cons, List.mem_append]; exact Or.inr ha)
      rw [cloneArrs_length]; omega
    simp only [cloneArrss, List.map_cons, List.cons.injEq]
    constructor
    · rw [cloneArrss_store _ ass hass, ← cloneArrs_read σ as has]
      apply List.map_congr_left
      intro a ha
      apply read_append_lt
      rw [cloneArrs_snd, List.mem_range'_1] at ha
      rw [cloneArrs_length]
      exact ha.2
    · rw [ih _ hass]
      apply List.map_congr_left
      intro bs hbs
      apply List.map_congr_left
      intro b hb
      rw [cloneArrs_store σ as has]
      exact read_append_lt σ _ (h b (by
        simp only [List.flatten_cons, List.mem_append]
        exact Or.inr (List.mem_flatten.2 ⟨bs, hbs, hb⟩)))

/-! ### a clone denotes the same value -/

theorem cloneList_denote (gs : List (HGeom α))
    (ih : ∀ g ∈ gs, ∀ σ : Store α, WF σ g → denote (clone σ g).1 (clone σ g).2 = denote σ g)
    (σ : Store α) (h : ∀ a ∈ footprintList gs, a < σ.length) :
    denoteList (cloneList σ gs).1 (cloneList σ gs).2 = denoteList σ gs := by
  induction gs generalizing σ with
  | nil => simp [cloneList, denoteList]
  | cons g gs ihl =>
    rw [footprintList] at h
    have hg : WF σ g := fun a ha => h a (List.mem_append_left _ ha)
    have hgs : ∀ a ∈ footprintList gs, a < (clone σ g).1.length := fun a ha => by
      have := h a (List.mem_append_right _ ha); rw [clone_length]; omega
    simp only [cloneList, denoteList]
    congr 1
    · rw [(cloneList_flat _ gs).1, cloneArrs_store _ _ hgs, denote_append _ _ _ (clone_wf σ g)]
      exact ih g (by simp) σ hg
    · rw [ihl (fun g' hg' => ih g' (List.mem_cons_of_mem _ hg')) _ hgs]
      rw [clone_store σ g hg]
      clear ihl ih hgs
      induction gs with
      | nil => simp [denoteList]
      | cons g' gs ih2 =>
        rw [footprintList] at h
        simp only [denoteList]
        rw [denote_append σ _ g' (fun a ha => h a (List.mem_append_right _ (List.mem_append_left _ ha))),
          ih2 (fun a ha => by
            rcases List.mem_append.1 ha with ha | ha
            · exact h a (List.mem_append_left _ ha)
            · exact h a (List.mem_append_right _ (List.mem_append_right _ ha)))]

theorem clone_denote' (σ : Store α) (g : HGeom α) (h : WF σ g) :
    denote (clone σ g).1 (clone σ g).2 = denote σ g := by
  induction g using HGeom.ind generalizing σ with
  | h1 p => simp [clone, denote]
  | h2 a => simp [clone, denote, cloneArr, alloc, read_append_length]
  | h3 a => simp [clone, denote, cloneArr, alloc, read_append_length]
  | h5 a => simp [clone, denote, cloneArr, alloc, read_append_length]
  | h4 as => simp only [clone, denote]; rw [cloneArrs_read σ as h]
  | h6 as => simp only [clone, denote]; rw [cloneArrs_read σ as h]
  | h7 ass => simp only [clone, denote]; rw [cloneArrss_read σ ass h]
  | h8 a b => simp [clone, denote]
  | hc gs ih =>
    simp only [clone, denote]
    rw [cloneList_denote gs ih σ h]

theorem clone_preserves_original' (σ : Store α) (g : HGeom α) (h : WF σ g) :
    denote (clone σ g).1 g = denote σ g := by
  rw [clone_store σ g h]
  exact denote_append σ _ g h

/-! ### freshness and independence -/

theorem clone_fresh' (σ : Store α) (g : HGeom α) :
    (∀ a ∈ footprint (clone σ g).2, σ.length ≤ a) ∧
    (footprint (clone σ g).2).Nodup ∧
    (WF σ g → ∀ a ∈ footprint (clone σ g).2, a ∉ footprint g) := by
  rw [clone_footprint]
  refine ⟨fun a ha => (List.mem_range'_1.1 ha).1, List.nodup_range', fun hw a ha hg => ?_⟩
  have h1 := (List.mem_range'_1.1 ha).1
  have h2 := hw a hg
  omega

theorem clone_independent' (σ : Store α) (g : HGeom α) (h : WF σ g) :
    (∀ a ∈ footprint (clone σ g).2, ∀ (i : Nat) (v : Pt α),
        denote (write (clone σ g).1 a i v) g = denote σ g) ∧
    (∀ a ∈ footprint g, ∀ (i : Nat) (v : Pt α),
        denote (write (clone σ g).1 a i v) (clone σ g).2 = denote σ g) := by
  constructor
  · intro a ha i v
    rw [write_frame' _ g a i v (fun hg => (clone_fresh' σ g).2.2 h a ha hg)]
    exact clone_preserves_original' σ g h
  · intro a ha i v
    rw [write_frame' _ _ a i v (fun hc => (clone_fresh' σ g).2.2 h a hc ha)]
    exact clone_denote' σ g h

end Orb.Heap
