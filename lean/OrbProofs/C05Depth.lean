/-
  C05: recursion depth of the WKB decoders.  The only recursion is `Decoder.Decode` → `readCollection`
  → `Decode` of a member; `Orb.WKB.decodeDepth` (Orb/WKB.lean, next to the decoder it follows) is the
  largest number of `Decode` activations that are on the Go stack at the same time, for succeeding AND
  failing decodes.  It never exceeds `MaxCollectionDepth + 1`, whatever the input.
-/
import OrbProofs.C05Lemmas

namespace Orb.WKB
open Orb Generated.Params

theorem collLoopDepth_le (dec : Bytes → R (G × Nat × Bytes)) (decDepth : Bytes → Nat) (K : Nat)
    (h : ∀ t, decDepth t ≤ K) (n : Nat) : ∀ s, collLoopDepth dec decDepth n s ≤ K := by
  induction n with
  | zero => intro s; simp only [collLoopDepth]; exact Nat.zero_le _
  | succ n ih =>
    intro s
    simp only [collLoopDepth]
    refine Nat.max_le.2 ⟨h s, ?_⟩
    split
    · exact ih _
    · exact Nat.zero_le _

theorem decodeWithDepth_le (cd : Order → Bytes → Nat) (K : Nat) (h : ∀ o s, cd o s ≤ K) (s : Bytes) :
    decodeWithDepth cd s ≤ K + 1 := by
  unfold decodeWithDepth
  split
  · rename_i o _ _ s1 _
    split
    · have := h o s1; omega
    · omega
  · omega

theorem readCollectionDepthF_le (left : Nat) : ∀ (o : Order) (s : Bytes),
    readCollectionDepthF left o s ≤ left := by
  induction left with
  | zero => intro o s; simp only [readCollectionDepthF]; exact Nat.le_refl _
  | succ left ih =>
    intro o s
    simp only [readCollectionDepthF]
    split
    · exact collLoopDepth_le _ _ (left + 1) (decodeWithDepth_le _ left ih) _ _
    · exact Nat.zero_le _

theorem decodeDepth_le' (bs : Bytes) : decodeDepth bs ≤ wkb_MaxCollectionDepth + 1 :=
  decodeWithDepth_le _ _ (readCollectionDepthF_le wkb_MaxCollectionDepth) bs

theorem unmarshalDepth_le' (bs : Bytes) : unmarshalDepth bs ≤ wkb_MaxCollectionDepth + 1 := by
  unfold unmarshalDepth
  split
  · split
    · exact decodeDepth_le' bs
    · exact Nat.zero_le _
  · exact Nat.zero_le _

end Orb.WKB
