/-
  C06 / C20 — `orb.Round` (round.go): THEOREMS about the model `Orb.Round`.

  `env : REnv α` holds the numeric primitives (`math.Round`, `float64(int)`, `int(float64)`, the
  default factor) as an ARBITRARY structure over an arbitrary coordinate type with `*` and `/`: nothing
  below depends on float arithmetic, and the Float instance used by the correspondence run
  (`Orb.Round.goEnv`) is one instance.  `f` is the working factor of the call
  (`round_default` / `round_factor` say where it comes from).

    (a) totality            the models are plain total functions: no `Res`/`Option` outcome, every Go path
                            returns (the closing `panic` of the type switch is unreachable for the nine kinds).
    (b) kind / shape        `round_kind`, `round_shape`: kind, nesting and all lengths are those of the argument.
    (c) every vertex        `round_verts`: every stored vertex `(x, y)` became
                            `(math.Round(x*f)/f, math.Round(y*f)/f)`, in storage order, at every depth.
    (d) collection = map    `round_collection`: `Round(Collection{g…}, f) = Collection{Round(g, f)…}`.
    (e) idempotent          `round_idem`: when `round(round(x*f)/f*f) = round(x*f)` for every coordinate of
                            the value, a second call changes nothing.  `round_idem_field`: over any field,
                            any `f ≠ 0` and any `rnd` that fixes its own values the hypothesis holds
                            (non-vacuity on ℚ with Mathlib's `round` at the end of the file).  In float64
                            it fails for some |x*f| ≥ 2^52 (seen by the run: tag `round-not-idempotent`).
    (f) nil                 `roundV_nil`, `roundV_typed_nil`: nil stays nil, a typed nil slice stays that typed
                            nil; with nil members (`Orb.CoreNil.NGeom`): `roundN_nil_members`.
    (g) argument            `argAfter_*`: what the caller's value reads as after the call (by value for
                            Point / Bound, in place for the slice kinds and for collection members).
    (h) two levels          `roundN_ofGeom`: on values without nil members the `NGeom` model is the `Geom` model.
-/
import Orb.Round
import Orb.Project
import OrbProofs.C06Lemmas
import Mathlib.Algebra.Order.Round
import Mathlib.Algebra.Order.Field.Rat
import Mathlib.Algebra.Order.Floor.Defs
import Mathlib.Data.Rat.Floor

set_option linter.unusedSectionVars false

namespace Orb.Round
open Orb Orb.Core Orb.CoreNil

section generic
variable {α : Type} [Mul α] [Div α] (env : REnv α) (f : α)

/-! ### where the factor comes from -/

/-- no factor argument: the current value of `orb.DefaultRoundingFactor` -/
theorem round_default (v : GVal α) : round env [] v = roundV env env.dflt v := rfl

/-- a factor argument: `float64(factor[0])`; further arguments are ignored -/
theorem round_factor (n : Int) (more : List Int) (v : GVal α) :
    round env (n :: more) v = roundV env (env.ofInt n) v := rfl

theorem rpts_eq (rnd : α → α) : rpts rnd f = List.map (rpt rnd f) := rfl
theorem rptss_eq (rnd : α → α) : rptss rnd f = List.map (List.map (rpt rnd f)) := rfl
theorem rptsss_eq (rnd : α → α) : rptsss rnd f = List.map (List.map (List.map (rpt rnd f))) := rfl

/-! ### (b) kind and shape -/

theorem round_kind (g : Geom α) : (roundG env f g).kind = g.kind := by
  cases g <;> rfl

theorem roundG_go_eq_map (f' : α) (gs : List (Geom α)) :
    roundG.go env f' gs = gs.map (roundG env f') := by
  induction gs with
  | nil => rfl
  | cons g gs ih => rw [roundG.go, ih, List.map_cons]

/-! ### (d) a collection is rounded member by member, with the same factor -/

theorem round_collection (gs : List (Geom α)) :
    roundG env f (.collection gs) = .collection (gs.map (roundG env f)) := by
  rw [roundG, roundG_go_eq_map]

theorem shape_go_eq_map (gs : List (Geom α)) : Project.shape.go gs = gs.map Project.shape := by
  induction gs with
  | nil => rfl
  | cons g gs ih => rw [Project.shape.go, ih, List.map_cons]

theorem verts_go_eq_flatMap (gs : List (Geom α)) : Project.verts.go gs = gs.flatMap Project.verts := by
  induction gs with
  | nil => rfl
  | cons g gs ih => rw [Project.verts.go, ih, List.flatMap_cons]

/-- kind, nesting and every length are those of the argument (whatever the factor does at depth) -/
theorem round_shape (g : Geom α) : Project.shape (roundG env f g) = Project.shape g := by
  induction g using Geom.ind with
  | hc gs ih =>
    rw [round_collection, Project.shape, Project.shape, shape_go_eq_map, shape_go_eq_map, List.map_map]
    congr 1
    apply List.map_congr_left
    intro g hg
    exact ih g hg
  | _ => simp only [roundG, Project.shape, rpts_eq, rptss_eq, rptsss_eq, List.map_map, Function.comp_def]

/-! ### (c) every vertex -/

/-- a value without collections: every vertex is mapped, no hypothesis -/
theorem round_verts_flat (g : Geom α) (hg : g.kind ≠ .collection) :
    Project.verts (roundG env f g) = (Project.verts g).map (rpt env.rnd f) := by
  cases g <;>
    first
    | exact absurd rfl hg
    | simp [roundG, Project.verts, rpts_eq, rptss_eq, rptsss_eq, List.map_flatten]

/-- any value -/
theorem round_verts (g : Geom α) :
    Project.verts (roundG env f g) = (Project.verts g).map (rpt env.rnd f) := by
  induction g using Geom.ind with
  | hc gs ih =>
    rw [round_collection env f, Project.verts, Project.verts, verts_go_eq_flatMap, verts_go_eq_flatMap,
      List.flatMap_map, List.map_flatMap]
    apply List.flatMap_congr
    intro g hg
    exact ih g hg
  | h1 p => exact round_verts_flat env f _ (by simp [Geom.kind])
  | h2 p => exact round_verts_flat env f _ (by simp [Geom.kind])
  | h3 p => exact round_verts_flat env f _ (by simp [Geom.kind])
  | h4 p => exact round_verts_flat env f _ (by simp [Geom.kind])
  | h5 p => exact round_verts_flat env f _ (by simp [Geom.kind])
  | h6 p => exact round_verts_flat env f _ (by simp [Geom.kind])
  | h7 p => exact round_verts_flat env f _ (by simp [Geom.kind])
  | h8 a b => exact round_verts_flat env f _ (by simp [Geom.kind])

/-- … in coordinates: `x ↦ math.Round(x*f) / f` on both components -/
theorem rpt_def (p : Pt α) : rpt env.rnd f p = ⟨env.rnd (p.x * f) / f, env.rnd (p.y * f) / f⟩ := rfl

/-! ### (e) idempotence -/

/-- the hypothesis of idempotence for one coordinate -/
def Stable (x : α) : Prop := env.rnd (rc env.rnd f x * f) = env.rnd (x * f)

theorem rc_idem (x : α) (h : Stable env f x) : rc env.rnd f (rc env.rnd f x) = rc env.rnd f x := by
  unfold Stable at h
  unfold rc at h ⊢
  rw [h]

theorem rpt_idem (p : Pt α) (hx : Stable env f p.x) (hy : Stable env f p.y) :
    rpt env.rnd f (rpt env.rnd f p) = rpt env.rnd f p := by
  simp only [rpt, rc_idem env f _ hx, rc_idem env f _ hy]

/-- every coordinate of every stored vertex is stable -/
def StableG (g : Geom α) : Prop := ∀ p ∈ Project.verts g, Stable env f p.x ∧ Stable env f p.y

theorem rpts_idem (ps : List (Pt α)) (h : ∀ p ∈ ps, Stable env f p.x ∧ Stable env f p.y) :
    rpts env.rnd f (rpts env.rnd f ps) = rpts env.rnd f ps := by
  simp only [rpts, List.map_map]
  apply List.map_congr_left
  intro p hp
  exact rpt_idem env f p (h p hp).1 (h p hp).2

theorem rptss_idem (ls : List (List (Pt α))) (h : ∀ p ∈ ls.flatten, Stable env f p.x ∧ Stable env f p.y) :
    rptss env.rnd f (rptss env.rnd f ls) = rptss env.rnd f ls := by
  simp only [rptss, List.map_map]
  apply List.map_congr_left
  intro l hl
  exact rpts_idem env f l (fun p hp => h p (List.mem_flatten.2 ⟨l, hl, hp⟩))

theorem rptsss_idem (ps : List (List (List (Pt α))))
    (h : ∀ p ∈ ps.flatten.flatten, Stable env f p.x ∧ Stable env f p.y) :
    rptsss env.rnd f (rptsss env.rnd f ps) = rptsss env.rnd f ps := by
  simp only [rptsss, List.map_map]
  apply List.map_congr_left
  intro l hl
  exact rptss_idem env f l (fun p hp => by
    obtain ⟨r, hr, hpr⟩ := List.mem_flatten.1 hp
    exact h p (List.mem_flatten.2 ⟨r, List.mem_flatten.2 ⟨l, hl, hr⟩, hpr⟩))

/-- A second call with the same factor changes nothing, provided `round(round(x*f)/f*f) = round(x*f)`
    for every coordinate of the value. -/
theorem round_idem (g : Geom α) (h : StableG env f g) :
    roundG env f (roundG env f g) = roundG env f g := by
  induction g using Geom.ind with
  | hc gs ih =>
    rw [round_collection env f, round_collection env f, List.map_map]
    congr 1
    apply List.map_congr_left
    intro g hg
    apply ih g hg
    intro p hp
    apply h p
    rw [Project.verts, verts_go_eq_flatMap]
    exact List.mem_flatMap.2 ⟨g, hg, hp⟩
  | h1 p =>
    simp only [roundG]
    rw [rpt_idem env f p (h p (by simp [Project.verts])).1 (h p (by simp [Project.verts])).2]
  | h2 ps => simp only [roundG]; rw [rpts_idem env f ps (fun p hp => h p (by simpa [Project.verts] using hp))]
  | h3 ps => simp only [roundG]; rw [rpts_idem env f ps (fun p hp => h p (by simpa [Project.verts] using hp))]
  | h5 ps => simp only [roundG]; rw [rpts_idem env f ps (fun p hp => h p (by simpa [Project.verts] using hp))]
  | h4 ls => simp only [roundG]; rw [rptss_idem env f ls (fun p hp => h p (by simpa [Project.verts] using hp))]
  | h6 ls => simp only [roundG]; rw [rptss_idem env f ls (fun p hp => h p (by simpa [Project.verts] using hp))]
  | h7 ps => simp only [roundG]; rw [rptsss_idem env f ps (fun p hp => h p (by simpa [Project.verts] using hp))]
  | h8 a b =>
    simp only [roundG]
    rw [rpt_idem env f a (h a (by simp [Project.verts])).1 (h a (by simp [Project.verts])).2,
      rpt_idem env f b (h b (by simp [Project.verts])).1 (h b (by simp [Project.verts])).2]

/-! ### (f) nil -/

theorem roundV_nil : roundV env f .nilIface = .nilIface := rfl

/-- a typed nil slice is returned as it is -/
theorem roundV_typed_nil (k : Kind) : roundV env f (.nilSlice k) = .nilSlice k := rfl

theorem roundV_val (g : Geom α) : roundV env f (.val g) = .val (roundG env f g) := rfl

/-- with nil members: the nil interface and every typed nil slice (top level or member of a
    collection) stay what they are, a nil ring / line / polygon below the top level stays nil (the
    `range` loops do not visit it), and a collection is rounded member by member. -/
theorem roundN_nil_members :
    roundN env f .nilIface = .nilIface ∧
    roundN env f (.multiPoint none) = .multiPoint none ∧ roundN env f (.lineString none) = .lineString none ∧
    roundN env f (.ring none) = .ring none ∧ roundN env f (.multiLineString none) = .multiLineString none ∧
    roundN env f (.polygon none) = .polygon none ∧ roundN env f (.multiPolygon none) = .multiPolygon none ∧
    roundN env f .nilCollection = .nilCollection ∧
    rNPts env.rnd f none = none ∧
    (∀ ls, roundN env f (.polygon (some (none :: ls))) = .polygon (some (none :: rNPtsL env.rnd f ls))) ∧
    (∀ ps, roundN env f (.multiPolygon (some (none :: ps))) = .multiPolygon (some (none :: rNPtssL env.rnd f ps))) ∧
    (∀ gs, roundN env f (.collection gs) = .collection (gs.map (roundN env f))) := by
  refine ⟨rfl, rfl, rfl, rfl, rfl, rfl, rfl, rfl, rfl, fun _ => rfl, fun _ => rfl, fun gs => ?_⟩
  rw [roundN]
  congr 1
  induction gs with
  | nil => rfl
  | cons g gs ih => rw [roundNList, ih, List.map_cons]

/-! ### (g) the argument after the call -/

/-- a Point or a Bound travels by value: the caller's value is untouched -/
theorem argAfter_point (p : Pt α) : argAfterV env f (.val (.point p)) = .val (.point p) := rfl
theorem argAfter_bound (a b : Pt α) : argAfterV env f (.val (.bound a b)) = .val (.bound a b) := rfl

/-- every other kind is rounded in place: afterwards the argument reads as the result -/
theorem argAfter_in_place (g : Geom α) (hp : g.kind ≠ .point) (hb : g.kind ≠ .bound) :
    argAfterV env f (.val g) = roundV env f (.val g) := by
  cases g <;> first | exact absurd rfl hp | exact absurd rfl hb | rfl

/-- a nil interface / a typed nil slice is still what it was -/
theorem argAfter_nil : argAfterV env f .nilIface = .nilIface ∧ ∀ k, argAfterV env f (.nilSlice k) = .nilSlice k :=
  ⟨rfl, fun _ => rfl⟩

/-! ### (h) the two levels agree on values without nil members -/

theorem rNPtsL_map_some (ls : List (List (Pt α))) :
    rNPtsL env.rnd f (ls.map some) = (rptss env.rnd f ls).map some := by
  simp [rNPtsL, rNPts, rptss, List.map_map, Function.comp_def]

theorem rNPtssL_map_some (ps : List (List (List (Pt α)))) :
    rNPtssL env.rnd f (ps.map fun rs => some (rs.map some)) =
      (rptsss env.rnd f ps).map fun rs => some (rs.map some) := by
  simp [rNPtssL, rptsss, List.map_map, Function.comp_def, rNPtsL_map_some]

theorem roundN_ofGeom (g : Geom α) : roundN env f (ofGeom g) = ofGeom (roundG env f g) := by
  induction g using Geom.ind with
  | hc gs ih =>
    rw [ofGeom, roundN, roundG, ofGeom]
    congr 1
    induction gs with
    | nil => rfl
    | cons g gs ih2 =>
      rw [ofGeomList, roundNList, roundG.go, ofGeomList, ih g (List.mem_cons_self ..),
        ih2 (fun g hg => ih g (List.mem_cons_of_mem _ hg))]
  | _ => simp [ofGeom, roundN, roundG, rNPtsL_map_some, rNPtssL_map_some]

end generic

/-! ### (e′) the idempotence hypothesis in exact arithmetic -/

section exact
variable {α : Type} [Field α] (env : REnv α) (f : α)

/-- Over a field, for a non-zero factor and a rounding function that leaves its own values alone
    (`round (round y) = round y`), every coordinate is stable … -/
theorem stable_of_field (hf0 : f ≠ 0) (hfix : ∀ y, env.rnd (env.rnd y) = env.rnd y) (x : α) : Stable env f x := by
  unfold Stable rc
  rw [div_mul_cancel₀ _ hf0, hfix]

/-- … hence `Round` is idempotent on every value. -/
theorem round_idem_field (hf0 : f ≠ 0) (hfix : ∀ y, env.rnd (env.rnd y) = env.rnd y)
    (g : Geom α) : roundG env f (roundG env f g) = roundG env f g :=
  round_idem env f g (fun p _ => ⟨stable_of_field env f hf0 hfix p.x, stable_of_field env f hf0 hfix p.y⟩)

/-- the rational numbers with Mathlib's `round`, exact `int` conversions and the default 10^6 -/
def ratEnv : REnv ℚ := ⟨fun x => ((_root_.round x : ℤ) : ℚ), fun n => (n : ℚ), fun x => ⌊x⌋, 1000000⟩

/-- Non-vacuity: on ℚ the hypotheses of `round_idem_field` hold for every integer factor other than 0
    (in particular the default), so `round_idem` is not about an empty class of environments. -/
theorem ratEnv_ok (n : ℤ) (hn : n ≠ 0) :
    ((n : ℚ) ≠ 0) ∧ (∀ y, ratEnv.rnd (ratEnv.rnd y) = ratEnv.rnd y) := by
  refine ⟨by exact_mod_cast hn, fun y => ?_⟩
  simp [ratEnv]

example : roundG ratEnv 10 (.collection [.point ⟨1/4, -7/20⟩, .lineString [⟨123456/100000, 5/100⟩]]) =
    .collection [.point ⟨3/10, -3/10⟩, .lineString [⟨12/10, 1/10⟩]] := by
  simp [roundG, roundG.go, rpt, rpts, rc, ratEnv]
  norm_num [round_eq, Int.floor_eq_iff]

end exact

end Orb.Round
