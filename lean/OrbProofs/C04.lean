/-
  C04 — WKT text round-trips every geometry with full float precision; the typed parse functions
  accept exactly their own kind; keyword case and blanks do not change the result.
  C05 (WKT share) — `wkt.Unmarshal` and the seven typed functions never panic.

  PROPERTY THEOREMS about the model `Orb.WKT` (encoding/wkt/wkt.go, unmarshal.go as of /repo 5a01c04).

  A Go string is a byte list; coordinates are float64 bit patterns.  `fmtF` (fmt's `%g`) and `parseF`
  (`strconv.ParseFloat`) are parameters; the theorems assume of them, at the coordinates of the value
  only, `FloatText fmtF parseF x`: the text is non-empty, contains none of the six delimiter bytes
  (blank, tab, newline, comma, parentheses) and parses back to the same bits.  Nothing else: exponent
  forms (`1e+21`), signs, `NaN`/`+Inf` spellings are all allowed — the theorems hold for them if the
  pair (fmtF, parseF) round-trips them.

  The assumption is reduced further in the section "`%g`" below: the layout half of `%g`
  (`gLayout`, Orb/WKTFloat.lean: strconv's `%e`/`%f` writers and the choice between them) is modelled,
  and for EVERY sign, digit list and decimal-point position its text is proved non-empty, free of
  delimiter bytes and of adjacent letters.  What remains assumed (`GRoundTrip`): the text of a finite
  coordinate is `gLayout` of SOME digits (Go's shortest-digit generator is not modelled; the driver
  checks this shape on Go's own text of every coordinate of every case), and `ParseFloat` maps the
  text back to the same bits (the driver checks that too, on Go's own answer).

  `Spelled fmtF g t` (Orb/WKT.lean): `t` is a re-spelling of the text of `g` — keyword letters in
  either case, blanks at both ends, after the keyword and next to every parenthesis and comma.
  `noEmptyMemberDeep g`: no member of a multi-geometry prints as `()` — the one recorded finding.
-/
import OrbProofs.C04Lemmas

namespace Orb.WKT

section
variable (fmtF : UInt64 → Str) (parseF : Str → Option UInt64)

/-! ### round trip -/

/-- Parsing ANY re-spelling of the text of `g` returns the canonical value (ring and bound as the
    one-ring polygon, empty values as empty values), for all nine kinds, collections nested to any
    depth, EMPTY members, exponent-form coordinates. -/
theorem unmarshal_spelled (g : G) (t : Str) (hs : Spelled fmtF g t) (he : noEmptyMemberDeep g = true)
    (hc : GoodCoords fmtF parseF g) : unmarshal parseF t = .ok (canon g) :=
  unmarshal_spelled' fmtF parseF g t hs he hc

/-- the text `Marshal` writes is one of the spellings … -/
theorem marshalG_spelled (g : G) : Spelled fmtF g (marshalG fmtF g) := marshalG_spelled' fmtF g

/-- … hence `Unmarshal ∘ Marshal = canon`. -/
theorem unmarshal_marshal (g : G) (he : noEmptyMemberDeep g = true) (hc : GoodCoords fmtF parseF g) :
    unmarshal parseF (marshalG fmtF g) = .ok (canon g) := unmarshal_marshal' fmtF parseF g he hc

/-- The statement of the property without the restriction.  It is FALSE of the code (witnesses
    below): a multi-geometry with a member printed as `()` does not parse. -/
def unmarshal_marshal_full : Prop :=
  ∀ (fmtF : UInt64 → Str) (parseF : Str → Option UInt64) (g : G), GoodCoords fmtF parseF g →
    unmarshal parseF (marshalG fmtF g) = .ok (canon g)

/-- Re-spelling does not change the result, structural form: every text in `Spelled` (keyword case,
    blanks at both ends, after the keyword and next to every parenthesis and comma, all kinds, all
    depths) parses like the plain text.  (Kept under its planned name; the text-edit form of the
    clause, `respell_invariant` below, is proved too, so nothing of the clause is left partial.) -/
theorem respell_invariant_partial (g : G) (t : Str) (hs : Spelled fmtF g t) (he : noEmptyMemberDeep g = true)
    (hc : GoodCoords fmtF parseF g) : unmarshal parseF t = unmarshal parseF (marshalG fmtF g) :=
  respell_invariant_partial' fmtF parseF g t hs he hc

/-- One text edit of the property's wording — insert a blank immediately before or after a
    parenthesis or comma, or at either end of the text; flip the case of a letter that has a letter
    neighbour — turns a spelling into a spelling.  `CleanText`: the printed coordinates are non-empty,
    contain no delimiter byte and no two adjacent letters (a finite `%g` has at most an isolated `e`),
    so the only adjacent letters of the text are keyword letters. -/
theorem spelled_step (g : G) (t t' : Str) (hc : ∀ x ∈ coords g, CleanText (fmtF x))
    (he : noEmptyMemberDeep g = true) (hs : Spelled fmtF g t) (h : RespellStep t t') : Spelled fmtF g t' :=
  spelled_step' fmtF g t t' hc he hs h

/-- The re-spelling clause in the property's own wording: ANY sequence of such text edits applied to
    the text `Marshal` produced leaves the result of `Unmarshal` unchanged (never a blank between
    the two numbers of a coordinate: no edit inserts one there). -/
theorem respell_invariant (g : G) (t : Str) (he : noEmptyMemberDeep g = true) (hc : GoodCoords fmtF parseF g)
    (hl : ∀ x ∈ coords g, NoAdjacentLetters (fmtF x)) (h : RespellStar (marshalG fmtF g) t) :
    unmarshal parseF t = unmarshal parseF (marshalG fmtF g) :=
  respell_invariant' fmtF parseF g t he hc hl h

/-! ### `%g`: the float assumption reduced to the digit generator

  `gLayout neg d dp` is what `strconv.FormatFloat(x, 'g', -1, 64)` — i.e. `fmt`'s `%g` — writes once
  the shortest digits `d` and the decimal-point position `dp` of `|x|` are known.  The three
  text-level parts of the assumption hold for all `neg`, `d`, `dp`: -/

theorem gLayout_nonempty (neg : Bool) (d : List Nat) (dp : Int) : gLayout neg d dp ≠ [] :=
  gLayout_ne_nil' neg d dp

/-- every byte is a digit, `.`, `e`, `+` or `-` … -/
theorem gLayout_bytes (neg : Bool) (d : List Nat) (dp : Int) : ∀ b ∈ gLayout neg d dp, isGByte b = true :=
  gLayout_bytes' neg d dp

/-- … hence no blank, tab, newline, comma or parenthesis -/
theorem gLayout_clean (neg : Bool) (d : List Nat) (dp : Int) : ∀ b ∈ gLayout neg d dp, isDelim b = false :=
  gLayout_clean' neg d dp

/-- the only letter is the `e` of the exponent form, followed by the sign of the exponent -/
theorem gLayout_noAdjacentLetters (neg : Bool) (d : List Nat) (dp : Int) : NoAdjacentLetters (gLayout neg d dp) :=
  gLayout_noAdjacentLetters' neg d dp

/-- `FloatText` follows from the reduced assumption -/
theorem floatText_of_gRoundTrip (x : UInt64) (h : GRoundTrip fmtF parseF x) : FloatText fmtF parseF x :=
  floatText_of_gRoundTrip' h

/-- Round trip under the reduced assumption: the `%g` text of every coordinate is `gLayout` of some
    digits and `ParseFloat` reads it back (`GCoords`). -/
theorem unmarshal_marshal_g (g : G) (he : noEmptyMemberDeep g = true) (hc : GCoords fmtF parseF g) :
    unmarshal parseF (marshalG fmtF g) = .ok (canon g) :=
  unmarshal_marshal' fmtF parseF g he (goodCoords_of_gCoords' hc)

/-- the typed decision table under the reduced assumption -/
theorem typed_accepts_own_g (g : G) (t : Str) (hs : Spelled fmtF g t) (he : noEmptyMemberDeep g = true)
    (hc : GCoords fmtF parseF g) : typedAll parseF t = expectedTyped (kindIdx g) (.ok (canon g)) :=
  typed_spelled' fmtF parseF g t hs he (goodCoords_of_gCoords' hc)

/-- The re-spelling clause in the property's own wording under the reduced assumption (no separate
    hypothesis about adjacent letters: it is a theorem about `gLayout`). -/
theorem respell_invariant_g (g : G) (t : Str) (he : noEmptyMemberDeep g = true) (hc : GCoords fmtF parseF g)
    (h : RespellStar (marshalG fmtF g) t) : unmarshal parseF t = .ok (canon g) := by
  rw [respell_invariant' fmtF parseF g t he (goodCoords_of_gCoords' hc)
    (fun x hx => noAdjacentLetters_of_gText' (hc x hx).shaped) h]
  exact unmarshal_marshal' fmtF parseF g he (goodCoords_of_gCoords' hc)

/-! ### the blank in front of `EMPTY` (outside the quantifier: what the code does there) -/

/-- `<KEYWORD> EMPTY` needs exactly one space: with any other run of blanks `a` (none, two spaces, a tab,
    a newline …) between a keyword of position `i` (order of `typedAll`, any letter case) and `EMPTY`
    (any letter case), and blanks at both ends, `Unmarshal` answers `ErrNotWKT`; `POINT` (`i = 0`), which
    has no EMPTY form, does so for the single space as well.  (With the single space the six other
    kinds parse to their empty value: `unmarshal_spelled` on `.multiPoint []` ….) -/
theorem empty_form_needs_single_space (i : Nat) (hi : i < 7) (k a e pre post : Str)
    (hk : CaseVariant (kwAt i) k) (he : CaseVariant kwEmptyWord e) (ha : AllBlank a)
    (hne : i = 0 ∨ a ≠ [cSpace]) (hpre : AllBlank pre) (hpost : AllBlank post) :
    unmarshal parseF (pre ++ (k ++ (a ++ e)) ++ post) = .err .notWKT :=
  empty_form_needs_single_space' parseF i hi k a e pre post hk he ha hne hpre hpost

/-! ### the typed entry points: a 7 × 7 decision table -/

/-- every typed function other than the one owning the kind of the text answers
    `ErrIncorrectGeometry` — for every value and every spelling, with no hypothesis on the floats -/
theorem typed_rejects_other (g : G) (t : Str) (hs : Spelled fmtF g t) (j : Nat) (hj : j < 7) (hne : j ≠ kindIdx g) :
    (typedAll parseF t)[j]? = some (.err .incorrect) := typed_rejects_other' fmtF parseF g t hs j hj hne

/-- the owning typed function answers exactly what `Unmarshal` answers (value or error) -/
theorem typed_own_eq_unmarshal (g : G) (t : Str) (hs : Spelled fmtF g t) :
    (typedAll parseF t)[kindIdx g]? = some (unmarshal parseF t) := typed_own_eq_unmarshal' fmtF parseF g t hs

/-- the whole row: own kind accepted with the canonical value, the six others rejected -/
theorem typed_accepts_own (g : G) (t : Str) (hs : Spelled fmtF g t) (he : noEmptyMemberDeep g = true)
    (hc : GoodCoords fmtF parseF g) : typedAll parseF t = expectedTyped (kindIdx g) (.ok (canon g)) :=
  typed_spelled' fmtF parseF g t hs he hc

end

/-! ### the recorded finding: a member printed as `()` does not parse back

  Whatever `%g` and `ParseFloat` do (the texts contain no coordinate).  These are the witnesses that
  `unmarshal_marshal_full` is false; the restriction `noEmptyMemberDeep` excludes exactly them. -/

section
variable (fmtF : UInt64 → Str) (parseF : Str → Option UInt64)

/-- `POLYGON(())` (a polygon whose only ring is empty) -/
theorem roundtrip_fails_empty_ring : unmarshal parseF (marshalG fmtF (.polygon [[]])) = .err .notWKT :=
  roundtrip_fails_empty_ring' fmtF parseF

/-- … which is also the text of an empty `orb.Ring` -/
theorem roundtrip_fails_empty_ring_value : unmarshal parseF (marshalG fmtF (.ring [])) = .err .notWKT :=
  roundtrip_fails_empty_ring_value' fmtF parseF

/-- `MULTILINESTRING(())` -/
theorem roundtrip_fails_empty_line : unmarshal parseF (marshalG fmtF (.multiLineString [[]])) = .err .notWKT :=
  roundtrip_fails_empty_line' fmtF parseF

/-- `MULTIPOLYGON(())` -/
theorem roundtrip_fails_empty_polygon : unmarshal parseF (marshalG fmtF (.multiPolygon [[]])) = .err .notWKT :=
  roundtrip_fails_empty_polygon' fmtF parseF

/-- `MULTIPOLYGON((()))` -/
theorem roundtrip_fails_empty_polygon_ring : unmarshal parseF (marshalG fmtF (.multiPolygon [[[]]])) = .err .notWKT :=
  roundtrip_fails_empty_polygon_ring' fmtF parseF

end

theorem unmarshal_marshal_full_false : ¬ unmarshal_marshal_full := unmarshal_marshal_full_false'

/-! ### C05: totality -/

/-- `wkt.Unmarshal` never panics, on any byte string, whatever `ParseFloat` answers; in particular
    the recursion budget `len(s)+1` of the model is never exhausted. -/
theorem wkt_unmarshal_total (parseF : Str → Option UInt64) (s : Str) : (unmarshal parseF s).isPanic = false :=
  wkt_unmarshal_total' parseF s

/-- neither do `UnmarshalPoint` … `UnmarshalCollection` -/
theorem wkt_typed_total (parseF : Str → Option UInt64) (s : Str) : ∀ r ∈ typedAll parseF s, r.isPanic = false :=
  wkt_typed_total' parseF s

/-! ### C05: capacities requested by the parser's own `make` calls

  `make(…, 0, strings.Count(s, ",")+1)`, `make(…, 0, len(indexes)+1)` (the `set` callback of
  `splitByRegexpYield`) and `make(orb.Collection, 0, len(geometries))` are the only allocations of
  orb's own code in this package; each is bounded by the length of the text in hand.  (The SUM over
  a whole parse, and the Go runtime / regexp allocations, are measured by the harness, not proved.) -/

theorem countCommas_le (s : Str) : countCommas s ≤ s.length := countCommas_le' s

theorem findAll_length_le (s : Str) :
    (findAll matchSingle s).length ≤ s.length ∧ (findAll matchDouble s).length ≤ s.length :=
  ⟨findAll_length_le' matchSingle_ok s, findAll_length_le' matchDouble_ok s⟩

theorem splitGeometryCollection_count (s : Str) (ms : List Str) (h : splitGeometryCollection s = .ok ms) :
    ms.length ≤ s.length + 1 := splitGeometryCollection_count' h

/-- the keyword test is the length guard of the slice that follows it -/
theorem keyword_guards_slice (s kw : Str) (hk : ∀ b ∈ kw, b ≠ 0) (h : hasPrefix (upperPrefix s) kw = true) :
    kw.length ≤ s.length := hasPrefix_upperPrefix_length hk h

/-! ### non-vacuity

  `fmt0`/`parse0` print and parse four bit patterns (`1`, `2`, `-0.5`, and the exponent form `1e+21`).
  `g0` = a collection holding a nested collection (with a point and an EMPTY line string), a point
  with an exponent-form coordinate, a multi-polygon with a hole, a bound and a multi-point. -/

example : unmarshal parse0 (marshalG fmt0 g0) = .ok (canon g0) := unmarshal_marshal fmt0 parse0 g0 deep0 good0

example : typedAll parse0 (marshalG fmt0 g0) = expectedTyped 6 (.ok (canon g0)) :=
  typed_accepts_own fmt0 parse0 g0 _ (marshalG_spelled fmt0 g0) deep0 good0

/-- ` point (\t1 2\n) ` parses to the point -/
example : unmarshal parse0 t1 = .ok (.point ⟨1, 2⟩) := unmarshal_spelled fmt0 parse0 _ t1 spelled1 (by decide) good1

example : (typedAll parse0 t1)[2]? = some (.err .incorrect) :=
  typed_rejects_other fmt0 parse0 _ t1 spelled1 2 (by decide) (by decide)

example : (unmarshal parse0 t1).isPanic = false := wkt_unmarshal_total parse0 t1

/-- two text edits on Marshal's text of `g0`: a tab in front, the first `E` of the keyword in lower case -/
example : unmarshal parse0 (9 :: ([71] ++ flipCase 69 :: 79 :: (marshalG fmt0 g0).drop 3)) = .ok (canon g0) := by
  rw [respell_invariant fmt0 parse0 g0 _ deep0 good0 (fun x _ => noAdj0 x)
    (.step (.step (.refl _) (.caseL [71] ((marshalG fmt0 g0).drop 3) 69 79 (by decide) (by decide)))
      (.atStart _ 9 (by decide)))]
  exact unmarshal_marshal fmt0 parse0 g0 deep0 good0

/-- the reduced assumption is satisfiable too: `1`, `2`, `-0.5`, `1e+21` are `gLayout` of the digits
    `1`, `2`, `5` (`dp = 0`, negative), `1` (`dp = 22`) -/
example : unmarshal parse0 (marshalG fmt0 g0) = .ok (canon g0) := unmarshal_marshal_g fmt0 parse0 g0 deep0 gcoords0

example : gLayout true [5] 0 = [45, 48, 46, 53] ∧ gLayout false [1] 22 = [49, 101, 43, 50, 49] ∧
    gLayout false [1, 2, 3, 4, 5, 6, 7] 7 = [49, 46, 50, 51, 52, 53, 54, 55, 101, 43, 48, 54] ∧
    gLayout false [1, 2, 3, 4, 5, 6] 6 = [49, 50, 51, 52, 53, 54] ∧ gLayout false [1] 6 = [49, 48, 48, 48, 48, 48] ∧
    gLayout true [9, 9, 9, 9] (-4) = [45, 57, 46, 57, 57, 57, 101, 45, 48, 53] ∧ gLayout false [1] (-3) = [48, 46, 48, 48, 48, 49] ∧
    gLayout true [] 0 = [45, 48] ∧ gLayout false [5] (-323) = [53, 101, 45, 51, 50, 52] := by decide

/-- `MULTIPOLYGON\tEMPTY`, `polygon  empty`, `LINESTRINGEMPTY` and `POINT EMPTY` are not WKT for this parser -/
example : unmarshal parse0 ([] ++ (kwMultiPolygon ++ ([9] ++ kwEmptyWord)) ++ []) = .err .notWKT :=
  empty_form_needs_single_space parse0 5 (by decide) kwMultiPolygon [9] kwEmptyWord [] []
    (by unfold CaseVariant; decide) (by unfold CaseVariant; decide) (by unfold AllBlank; decide)
    (.inr (by decide)) blankNil blankNil

/-- `Polygon ( ( 1 2 , 2 1 ) ,\n(-0.5 -0.5) ) ` parses to the two-ring polygon -/
example : unmarshal parse0 t2 = .ok g2 := unmarshal_spelled fmt0 parse0 g2 t2 spelled2 (by decide) good2

end Orb.WKT
