/-
  C08 (region), geometry layer: the Boolean cross-product predicates of the even-odd specification
  (`Orb.EvenOdd.onSeg`, `crossesAbove`) versus the parametric segment predicate `Orb.Clip.OnSeg`
  of the clipping proofs, and the two SPLIT lemmas: cutting an edge `a b` at a point `i` of the edge
  changes neither "the point is on the edge" nor the parity of the upward-ray crossings.
-/
import OrbProofs.C08
import OrbProofs.C09Lemmas
import Mathlib.Tactic.Linarith
import Mathlib.Tactic.Ring
import Mathlib.Tactic.FieldSimp

namespace Orb.Clip.C08R
open Orb Orb.Core Orb.EvenOdd Orb.Contains Orb.Clip Orb.Clip.C08

set_option linter.unusedSectionVars false
set_option linter.unusedSimpArgs false

variable {α : Type} [Field α] [LinearOrder α] [IsStrictOrderedRing α]

/-! ### `OnSeg` (parametric) = `onSeg` (cross product and bounding box) -/

theorem between_lerp (a b t : α) (h0 : 0 ≤ t) (h1 : t ≤ 1) :
    (a ≤ a + t * (b - a) ∧ a + t * (b - a) ≤ b) ∨ (b ≤ a + t * (b - a) ∧ a + t * (b - a) ≤ a) := by
  rcases le_total a b with h | h
  · left; constructor <;> nlinarith
  · right; constructor <;> nlinarith

theorem onSeg_of_OnSeg {a b q : Pt α} (h : OnSeg a b q) : onSeg a b q = true := by
  obtain ⟨t, h0, h1, rfl⟩ := h
  rw [onSeg_iff]
  refine ⟨?_, between_lerp _ _ t h0 h1, between_lerp _ _ t h0 h1⟩
  simp only [EvenOdd.cross, lerp_x, lerp_y]; ring

theorem OnSeg_of_onSeg {a b q : Pt α} (h : onSeg a b q = true) : OnSeg a b q := by
  rw [onSeg_iff] at h
  obtain ⟨hc, hx, hy⟩ := h
  simp only [EvenOdd.cross] at hc
  by_cases hxe : a.x = b.x
  · by_cases hye : a.y = b.y
    · refine ⟨0, le_refl _, zero_le_one, ?_⟩
      rw [lerp_zero]
      apply pt_eq
      · rcases hx with h | h <;> [exact le_antisymm (hxe ▸ h.2) h.1; exact le_antisymm h.2 (hxe ▸ h.1)]
      · rcases hy with h | h <;> [exact le_antisymm (hye ▸ h.2) h.1; exact le_antisymm h.2 (hye ▸ h.1)]
    · have hd : b.y - a.y ≠ 0 := sub_ne_zero.2 (Ne.symm hye)
      have hqx : q.x = a.x := by
        rcases hx with h | h <;> [exact le_antisymm (hxe ▸ h.2) h.1; exact le_antisymm h.2 (hxe ▸ h.1)]
      refine ⟨(q.y - a.y) / (b.y - a.y), ?_, ?_, ?_⟩
      · rcases hy with ⟨h1, h2⟩ | ⟨h1, h2⟩
        · exact div_nonneg (by linarith) (by linarith)
        · exact div_nonneg_of_nonpos (by linarith) (by linarith)
      · rcases hy with ⟨h1, h2⟩ | ⟨h1, h2⟩
        · have : 0 < b.y - a.y := lt_of_le_of_ne (by linarith) (Ne.symm hd)
          rw [div_le_one this]; linarith
        · have : b.y - a.y < 0 := lt_of_le_of_ne (by linarith) hd
          rw [div_le_one_of_neg this]; linarith
      · apply pt_eq
        · simp only [lerp_x, hqx, ← hxe, sub_self, mul_zero, add_zero]
        · simp only [lerp_y]; field_simp; ring
  · have hd : b.x - a.x ≠ 0 := sub_ne_zero.2 (Ne.symm hxe)
    refine ⟨(q.x - a.x) / (b.x - a.x), ?_, ?_, ?_⟩
    · rcases hx with ⟨h1, h2⟩ | ⟨h1, h2⟩
      · exact div_nonneg (by linarith) (by linarith)
      · exact div_nonneg_of_nonpos (by linarith) (by linarith)
    · rcases hx with ⟨h1, h2⟩ | ⟨h1, h2⟩
      · have : 0 < b.x - a.x := lt_of_le_of_ne (by linarith) (Ne.symm hd)
        rw [div_le_one this]; linarith
      · have : b.x - a.x < 0 := lt_of_le_of_ne (by linarith) hd
        rw [div_le_one_of_neg this]; linarith
    · apply pt_eq
      · simp only [lerp_x]; field_simp; ring
      · simp only [lerp_y]
        have : q.y - a.y = (q.x - a.x) / (b.x - a.x) * (b.y - a.y) := by
          field_simp
          linarith
        linarith

theorem onSeg_iff_OnSeg (a b q : Pt α) : onSeg a b q = true ↔ OnSeg a b q :=
  ⟨OnSeg_of_onSeg, onSeg_of_OnSeg⟩

/-! ### cutting an edge at one of its points -/

/-- `OnSeg` splits at an interior point -/
theorem OnSeg_split {a b i : Pt α} (h : OnSeg a b i) (q : Pt α) :
    OnSeg a b q ↔ (OnSeg a i q ∨ OnSeg i b q) := by
  constructor
  · intro hq
    obtain ⟨t, t0, t1, rfl⟩ := h
    obtain ⟨s, s0, s1, rfl⟩ := hq
    rcases le_total s t with hst | hst
    · left
      have := onSeg_between a b (s := 0) (e := t) (t := s) s0 hst
      rwa [lerp_zero] at this
    · right
      have := onSeg_between a b (s := t) (e := 1) (t := s) hst s1
      rwa [lerp_one] at this
  · rintro (hq | hq)
    · exact OnSeg.sub (onSeg_left a b) h hq
    · exact OnSeg.sub h (onSeg_right a b) hq

theorem onSeg_split {a b i : Pt α} (h : OnSeg a b i) (q : Pt α) :
    onSeg a b q = (onSeg a i q || onSeg i b q) := by
  rw [Bool.eq_iff_iff, Bool.or_eq_true, onSeg_iff_OnSeg, onSeg_iff_OnSeg, onSeg_iff_OnSeg]
  exact OnSeg_split h q

theorem cross_lerp_left (a b p : Pt α) (t : α) :
    EvenOdd.cross a (lerp a b t) p = t * EvenOdd.cross a b p := by
  simp only [EvenOdd.cross, lerp_x, lerp_y]; ring

theorem cross_lerp_right (a b p : Pt α) (t : α) :
    EvenOdd.cross (lerp a b t) b p = (1 - t) * EvenOdd.cross a b p := by
  simp only [EvenOdd.cross, lerp_x, lerp_y]; ring

theorem crossesAbove_le {s e : Pt α} (h : s.x ≤ e.x) (p : Pt α) :
    crossesAbove s e p = true ↔ (s.x ≤ p.x ∧ p.x < e.x ∧ EvenOdd.cross s e p < 0) := by
  rw [crossesAbove_iff]
  constructor
  · rintro (a | a)
    · exact a
    · exact absurd (lt_of_le_of_lt a.1 a.2.1) (not_lt.2 h)
  · exact Or.inl

/-- the split lemma for an edge that does not run right-to-left -/
theorem crossesAbove_split_le {a b : Pt α} (hab : a.x ≤ b.x) (t : α) (t0 : 0 ≤ t) (t1 : t ≤ 1) (p : Pt α) :
    crossesAbove a b p = (crossesAbove a (lerp a b t) p != crossesAbove (lerp a b t) b p) := by
  have hd : 0 ≤ b.x - a.x := sub_nonneg.2 hab
  have hai : a.x ≤ (lerp a b t).x := by simp only [lerp_x]; nlinarith
  have hib : (lerp a b t).x ≤ b.x := by simp only [lerp_x]; nlinarith
  rcases lt_or_ge p.x (lerp a b t).x with h1 | h1
  · have hz : crossesAbove (lerp a b t) b p = false := by
      rw [← Bool.not_eq_true, crossesAbove_le hib]
      intro h; exact absurd (lt_of_lt_of_le h1 h.1) (lt_irrefl _)
    rw [hz, Bool.bne_false, Bool.eq_iff_iff, crossesAbove_le hab, crossesAbove_le hai, cross_lerp_left]
    constructor
    · rintro ⟨h2, _, h4⟩
      have ht : 0 < t := by
        rcases eq_or_lt_of_le t0 with h | h
        · exfalso; rw [← h] at h1; simp only [lerp_x, zero_mul, add_zero] at h1
          exact absurd (lt_of_le_of_lt h2 h1) (lt_irrefl _)
        · exact h
      exact ⟨h2, h1, mul_neg_of_pos_of_neg ht h4⟩
    · rintro ⟨h2, _, h4⟩
      refine ⟨h2, lt_of_lt_of_le h1 hib, ?_⟩
      by_contra hc
      exact absurd h4 (not_lt.2 (mul_nonneg t0 (not_lt.1 hc)))
  · have hz : crossesAbove a (lerp a b t) p = false := by
      rw [← Bool.not_eq_true, crossesAbove_le hai]
      intro h; exact absurd (lt_of_le_of_lt h1 h.2.1) (lt_irrefl _)
    rw [hz, Bool.false_bne, Bool.eq_iff_iff, crossesAbove_le hab, crossesAbove_le hib, cross_lerp_right]
    constructor
    · rintro ⟨_, h3, h4⟩
      have ht : 0 < 1 - t := by
        rcases eq_or_lt_of_le t1 with h | h
        · exfalso; rw [h] at h1; simp only [lerp_x, one_mul] at h1
          have : b.x ≤ p.x := by linarith
          exact absurd (lt_of_lt_of_le h3 this) (lt_irrefl _)
        · exact sub_pos.2 h
      exact ⟨h1, h3, mul_neg_of_pos_of_neg ht h4⟩
    · rintro ⟨_, h3, h4⟩
      refine ⟨le_trans hai h1, h3, ?_⟩
      by_contra hc
      exact absurd h4 (not_lt.2 (mul_nonneg (sub_nonneg.2 t1) (not_lt.1 hc)))

theorem bne_comm' (x y : Bool) : (x != y) = (y != x) := by cases x <;> cases y <;> rfl

theorem lerp_swap (a b : Pt α) (t : α) : lerp a b t = lerp b a (1 - t) := by
  apply pt_eq <;> simp only [lerp_x, lerp_y] <;> ring

/-- THE SPLIT LEMMA: cutting an edge `a b` at a point `i` of the edge does not change the parity of the
    number of crossings of the upward ray from `p` (whatever `p` is). -/
theorem crossesAbove_split {a b i : Pt α} (h : OnSeg a b i) (p : Pt α) :
    crossesAbove a b p = (crossesAbove a i p != crossesAbove i b p) := by
  obtain ⟨t, t0, t1, rfl⟩ := h
  rcases le_total a.x b.x with hab | hab
  · exact crossesAbove_split_le hab t t0 t1 p
  · rw [crossesAbove_swap b a p, crossesAbove_swap (lerp a b t) a p, crossesAbove_swap b (lerp a b t) p,
      lerp_swap a b t, bne_comm' (crossesAbove (lerp b a (1 - t)) a p)]
    exact crossesAbove_split_le hab (1 - t) (sub_nonneg.2 t1) (by linarith) p

end Orb.Clip.C08R
