/-
  C15 — Projections invert each other and transform every vertex in place.
  PROPERTY THEOREMS about the model `Orb.Project` (project/helpers.go, project/projections.go,
  internal/mercator/mercator.go, encoding/mvt/projection.go).

  * `project.Geometry` (all inputs, arbitrary — even stateful — point functions): the result has the
    kind, nesting and member counts of the input, `proj` is called on every vertex exactly once in
    storage order, and a bound becomes the box of its two projected corners.
  * The tile round trip is proved for ABSTRACT planar/geo maps `P`, `G` over an ordered field, with a
    POINTWISE accuracy hypothesis (`CloseAt P G ε c`: only at the pixel centre `c` that the code
    feeds to `ToGeo` — the real `toPlanar ∘ toGeo` is not uniformly accurate because of its clamp):
    with the half-pixel centre of the power-of-two path any error below ½ pixel is absorbed;
    the non-power-of-two path HAD no margin before fix 7b86dd1 (`nonPow2ProjUnfixed`, spec side) — it
    was the identity only for an exact inverse pair and came back one pixel low on each axis whose
    coordinate comes back low by ANY positive amount (the defect the property describes); with the pixel centre the code has now
    (`nonPow2Proj`) any error below ½/extent is absorbed.
  * `mvt.newProjection` itself: `isPowerOfTwo e ↔ e = 0 ∨ ∃ k, e = 2^k`, `TrailingZeros32 (2^k) = k`,
    `TrailingZeros32 0 = 32`, `maxtiles = 2^level` below level 64 and `0` from 64 on, the tile origin
    is an integer of the field; composed: `newProjection_roundtrip` (both paths, any extent, accuracy
    at the pixel centre), and chained with `planar_geo_roundtrip_partial`:
    `newProjection_roundtrip_exact`.
  * `Layer.ProjectToTile / ProjectToWGS84` and `Layers.ProjectTo*` (models `layerProjectTo*`,
    `layersProjectTo*` in Orb/Project.lean) map `project.Geometry` over the features with ONE
    projection per layer (`layer_projectToTile_eq`), and round-trip whole layers (`layer_roundtrip`,
    `layers_roundtrip`) under the same pointwise hypothesis at every vertex (features without bounds:
    a bound is re-boxed by each stage).
  * The mercator closed forms are mutually inverse given explicit inverse-pair hypotheses on
    `atan/tan/exp/log` (and `sin` for ToPlanar/ToGeo) and an inactive clamp.  These hypotheses are
    jointly satisfiable: OrbProofs/C15Real.lean proves every one of them for Mathlib's real functions
    and derives the unconditional round trips over ℝ.

  * ABSOLUTE position (`toWGS84_absolute_two_pow`, `toWGS84_absolute_other`, `tile_corner_*`): the WGS84
    image of pixel (p, q) of tile (X, Y, Z) is `ToGeo` at the tile's own zoom of the world coordinate
    `tile + (pixel + ½)/extent`; pixel −½ and pixel extent−½ are the tile's north-west and south-east
    corners `ToGeo(X, Y, Z)`, `ToGeo(X+1, Y+1, Z)` (what `maptile.Tile.Bound()` computes).  A round trip
    is blind to an origin that both directions get wrong in the same way; these statements are not
    (the driver's clauses `tile-wgs84-absolute` / `tile-corner-bound` are their executable form).

  NOT proved: the numeric bounds 1e-9° / 1 mm and the exact integer recovery under float64 `exp/atan/
  log/sin` are float-accuracy statements (`…_full` below); the correspondence check measures them.
-/
import OrbProofs.C15Lemmas
import OrbProofs.C15ProjLemmas
import OrbProofs.C15AbsLemmas

namespace Orb.Project
open Orb Orb.Core

section project
variable {σ α : Type} [LinearOrder α]

/-- Structure preservation with an arbitrary stateful point function: the calls to `proj` are
    exactly the run of `proj` over the vertex list in storage order (each vertex once), the final
    state is the state after that run, and the result is the input's shape filled with the outputs. -/
theorem project_map (proj : Proj σ α) (g : Geom α) (s : σ) :
    geometryM proj g s = (fill g (ptsM proj (verts g) s).1, (ptsM proj (verts g) s).2) :=
  project_map' proj g s

/-- "exactly once, in order", spelled out: recording the arguments of `proj` yields the vertex list. -/
theorem project_calls (f : Pt α → Pt α) (g : Geom α) :
    (geometryM (fun p (l : List (Pt α)) => (f p, l ++ [p])) g []).2 = verts g := project_calls' f g

/-- Kind, nesting and member counts are preserved. -/
theorem project_shape (proj : Proj σ α) (g : Geom α) (s : σ) :
    shape (geometryM proj g s).1 = shape g := project_shape' proj g s

/-- With a pure point function the result is the map of that function over every vertex … -/
theorem project_pure (f : Pt α → Pt α) (g : Geom α) :
    geometry f g = fill g ((verts g).map f) := project_pure' f g

/-- … literally so when no bound is involved (a bound is re-boxed, see `project_bound`). -/
theorem project_verts (f : Pt α → Pt α) (g : Geom α) (h : NoBounds g) :
    verts (geometry f g) = (verts g).map f := project_verts' f g h

/-- The projected bound is the box of the two projected corners. -/
theorem project_bound (f : Pt α → Pt α) (lo hi : Pt α) :
    geometry f (.bound lo hi) =
      .bound ⟨min (f lo).x (f hi).x, min (f lo).y (f hi).y⟩ ⟨max (f lo).x (f hi).x, max (f lo).y (f hi).y⟩ :=
  project_bound' f lo hi

/-- nil interfaces and typed nil slices are returned as they are, without calling `proj`.
    (True by definition of the model `geometryVM`: the content of this clause is the correspondence
    check, which compares value, kind of nil and call count with the Go code.) -/
theorem project_nil (proj : Proj σ α) (s : σ) (k : Kind) :
    geometryVM proj .nilIface s = (.nilIface, s) ∧ geometryVM proj (.nilSlice k) s = (.nilSlice k, s) :=
  project_nil' proj s k

end project

section tile
variable {α : Type} [Field α] [LinearOrder α] [IsStrictOrderedRing α]

/-- Power-of-two extents: if the planar/geo maps invert each other to within `ε < ½` pixel AT THE
    PIXEL CENTRE `(i + mx + ½, j + my + ½)` (nowhere else), the integer tile coordinates `(i, j)`
    survive tile → WGS84 → tile exactly (the `+0.5` gives a margin of ½). -/
theorem tile_roundtrip_margin (floor : α → α)
    (hfloor : ∀ (x : α) (n : ℤ), (n : α) ≤ x → x < (n : α) + 1 → floor x = (n : α))
    (P G : Pt α → Pt α) (ε : α) (hε : ε < 1 / 2) (mx my i j : ℤ)
    (hPG : CloseAt P G ε ⟨(i : α) + mx + 1 / 2, (j : α) + my + 1 / 2⟩) :
    (pow2Proj floor P G (mx : α) (my : α)).toTile ((pow2Proj floor P G (mx : α) (my : α)).toWGS84 ⟨(i : α), (j : α)⟩)
      = ⟨(i : α), (j : α)⟩ := tile_roundtrip_margin' floor hfloor P G ε hε mx my i j hPG

/-- Other extents, code BEFORE fix 7b86dd1 (`nonPow2ProjUnfixed`): the identity held for an EXACT inverse pair (ε = 0) … -/
theorem tile_roundtrip_nonpow2_exact (floor : α → α)
    (hfloor : ∀ (x : α) (n : ℤ), (n : α) ≤ x → x < (n : α) + 1 → floor x = (n : α))
    (P G : Pt α → Pt α) (hPG : ∀ u, P (G u) = u) (minx miny e : α) (he : e ≠ 0) (i j : ℤ) :
    (nonPow2ProjUnfixed floor P G minx miny e).toTile ((nonPow2ProjUnfixed floor P G minx miny e).toWGS84 ⟨(i : α), (j : α)⟩)
      = ⟨(i : α), (j : α)⟩ := tile_roundtrip_nonpow2_exact' floor hfloor P G hPG minx miny e he i j

/-- … and failed for every negative error, pointwise and per axis: if AT THE POINT `(i/e + minx,
    j/e + miny)` the planar/geo pair comes back low by `δx > 0` in x and `δy > 0` in y (each at most a
    pixel, `δ·e ≤ 1`; the two need not be equal and nothing is assumed at other points), pixel
    `(i, j)` comes back as `(i − 1, j − 1)`.  There is no margin. -/
theorem tile_roundtrip_nonpow2_no_margin (floor : α → α)
    (hfloor : ∀ (x : α) (n : ℤ), (n : α) ≤ x → x < (n : α) + 1 → floor x = (n : α))
    (P G : Pt α → Pt α) (minx miny e : α) (he : 0 < e) (i j : ℤ) (δx δy : α)
    (hδx : 0 < δx) (hδxe : δx * e ≤ 1) (hδy : 0 < δy) (hδye : δy * e ≤ 1)
    (hx : (P (G ⟨(i : α) / e + minx, (j : α) / e + miny⟩)).x = (i : α) / e + minx - δx)
    (hy : (P (G ⟨(i : α) / e + minx, (j : α) / e + miny⟩)).y = (j : α) / e + miny - δy) :
    (nonPow2ProjUnfixed floor P G minx miny e).toTile ((nonPow2ProjUnfixed floor P G minx miny e).toWGS84 ⟨(i : α), (j : α)⟩)
      = ⟨(i : α) - 1, (j : α) - 1⟩ :=
  tile_roundtrip_nonpow2_no_margin' floor hfloor P G minx miny e he i j δx δy hδx hδxe hδy hδye hx hy

/-- … one axis alone: an error in x only loses the column and keeps the row. -/
theorem tile_roundtrip_nonpow2_no_margin_x (floor : α → α)
    (hfloor : ∀ (x : α) (n : ℤ), (n : α) ≤ x → x < (n : α) + 1 → floor x = (n : α))
    (P G : Pt α → Pt α) (minx miny e : α) (he : 0 < e) (i j : ℤ) (δx : α)
    (hδx : 0 < δx) (hδxe : δx * e ≤ 1)
    (hx : (P (G ⟨(i : α) / e + minx, (j : α) / e + miny⟩)).x = (i : α) / e + minx - δx)
    (hy : (P (G ⟨(i : α) / e + minx, (j : α) / e + miny⟩)).y = (j : α) / e + miny) :
    (nonPow2ProjUnfixed floor P G minx miny e).toTile ((nonPow2ProjUnfixed floor P G minx miny e).toWGS84 ⟨(i : α), (j : α)⟩)
      = ⟨(i : α) - 1, (j : α)⟩ :=
  tile_roundtrip_nonpow2_no_margin_x' floor hfloor P G minx miny e he i j δx hδx hδxe hx hy

/-- A concrete witness over ℚ: with the unfixed code an inverse pair off by 10⁻⁹ brings pixel (5,7) of a
    1000-extent tile back as (4,6), while the power-of-two path with the same pair returns (5,7). -/
theorem tile_roundtrip_nonpow2_witness :
    (nonPow2ProjUnfixed ratFloor (fun u => ⟨u.x - 1 / 1000000000, u.y - 1 / 1000000000⟩) id 3 2 1000).toTile
        ((nonPow2ProjUnfixed ratFloor (fun u => ⟨u.x - 1 / 1000000000, u.y - 1 / 1000000000⟩) id 3 2 1000).toWGS84 ⟨5, 7⟩)
      = (⟨4, 6⟩ : Pt Rat) ∧
    (pow2Proj ratFloor (fun u => ⟨u.x - 1 / 1000000000, u.y - 1 / 1000000000⟩) id 3072 2048).toTile
        ((pow2Proj ratFloor (fun u => ⟨u.x - 1 / 1000000000, u.y - 1 / 1000000000⟩) id 3072 2048).toWGS84 ⟨5, 7⟩)
      = (⟨5, 7⟩ : Pt Rat) := tile_roundtrip_nonpow2_witness'

/-- Other extents, the code as it is now (`+0.5` pixel centre, fix 7b86dd1): there is a margin —
    an error `ε` with `ε·e < ½` AT THE PIXEL CENTRE `((i+½)/e + minx, (j+½)/e + miny)` is absorbed and
    the integer tile coordinates survive exactly. -/
theorem tile_roundtrip_nonpow2_fixed_margin (floor : α → α)
    (hfloor : ∀ (x : α) (n : ℤ), (n : α) ≤ x → x < (n : α) + 1 → floor x = (n : α))
    (P G : Pt α → Pt α) (ε : α) (minx miny e : α) (he : 0 < e) (hε : ε * e < 1 / 2) (i j : ℤ)
    (hPG : CloseAt P G ε ⟨((i : α) + 1 / 2) / e + minx, ((j : α) + 1 / 2) / e + miny⟩) :
    (nonPow2Proj floor P G minx miny e).toTile ((nonPow2Proj floor P G minx miny e).toWGS84 ⟨(i : α), (j : α)⟩)
      = ⟨(i : α), (j : α)⟩ := tile_roundtrip_nonpow2_fixed_margin' floor hfloor P G ε minx miny e he hε i j hPG

/-- `newProjection` is the power-of-two path at zoom `Z + log₂ extent` for power-of-two extents and the
    other path otherwise. -/
theorem newProjection_pow2 (F : MFn α) (X Y Z extent : Nat) (h : isPowerOfTwo extent = true) :
    newProjection F X Y Z extent =
      pow2Proj F.floor (toPlanar F (Z + trailingZeros32 extent)) (toGeo F (Z + trailingZeros32 extent))
        (F.ofNat ((X * 2 ^ trailingZeros32 extent) % 2 ^ 64)) (F.ofNat ((Y * 2 ^ trailingZeros32 extent) % 2 ^ 64)) :=
  newProjection_pow2' F X Y Z extent h

theorem newProjection_nonpow2 (F : MFn α) (X Y Z extent : Nat) (h : isPowerOfTwo extent = false) :
    newProjection F X Y Z extent =
      nonPow2Proj F.floor (toPlanar F Z) (toGeo F Z) (F.ofNat X) (F.ofNat Y) (F.ofNat extent) :=
  newProjection_nonpow2' F X Y Z extent h

/-! #### `newProjection`: which path, which level, which origin -/

omit [Field α] [LinearOrder α] [IsStrictOrderedRing α] in
/-- `isPowerOfTwo(n) = (n & (n-1)) == 0` is true exactly for 0 and the powers of two. -/
theorem isPowerOfTwo_iff (e : Nat) : isPowerOfTwo e = true ↔ e = 0 ∨ ∃ k, e = 2 ^ k := isPowerOfTwo_iff' e

omit [Field α] [LinearOrder α] [IsStrictOrderedRing α] in
/-- `bits.TrailingZeros32(2^k) = k` for every uint32 power of two … -/
theorem trailingZeros32_two_pow (k : Nat) (hk : k < 32) : trailingZeros32 (2 ^ k) = k :=
  trailingZeros32_two_pow' k hk

omit [Field α] [LinearOrder α] [IsStrictOrderedRing α] in
/-- … and 32 for extent 0 (which `isPowerOfTwo` accepts): the power-of-two path at zoom + 32. -/
theorem trailingZeros32_zero : trailingZeros32 0 = 32 := trailingZeros32_zero'

/-- `maxtiles = float64(uint64(1 << level))` is `2^level` below level 64 … -/
theorem maxTiles_eq (F : MFn α) (hofNat : ∀ n : Nat, F.ofNat n = (n : α)) (z : Nat) (hz : z < 64) :
    maxTiles F z = 2 ^ z := maxTiles_eq' F hofNat z hz

/-- … and 0 from level 64 on (the shift wraps): every later division is by zero. -/
theorem maxTiles_wrap (F : MFn α) (hofNat : ∀ n : Nat, F.ofNat n = (n : α)) (z : Nat) (hz : 64 ≤ z) :
    maxTiles F z = 0 := maxTiles_wrap' F hofNat z hz

/-- Integrality of the origin: with an exact `float64(uint64(·))` the `minx, miny` of the
    power-of-two path are integers of the field (what `tile_roundtrip_margin`'s `mx my : ℤ` needs). -/
theorem newProjection_origin_int (F : MFn α) (hofNat : ∀ n : Nat, F.ofNat n = (n : α)) (X n : Nat) :
    F.ofNat ((X * 2 ^ n) % 2 ^ 64) = ((((X * 2 ^ n) % 2 ^ 64 : ℕ) : ℤ) : α) :=
  newProjection_origin_int' F hofNat X n

omit [Field α] [LinearOrder α] [IsStrictOrderedRing α] in
/-- the level: `Z + k` for extent `2^k`, `Z + 32` for extent 0, `Z` otherwise -/
theorem projLevel_two_pow (Z k : Nat) (hk : k < 32) : projLevel Z (2 ^ k) = Z + k := projLevel_two_pow' Z k hk

omit [Field α] [LinearOrder α] [IsStrictOrderedRing α] in
theorem projLevel_zero (Z : Nat) : projLevel Z 0 = Z + 32 := projLevel_zero' Z

omit [Field α] [LinearOrder α] [IsStrictOrderedRing α] in
theorem projLevel_other (Z e : Nat) (h : isPowerOfTwo e = false) : projLevel Z e = Z := projLevel_other' Z e h

/-- the pixel centre handed to `ToGeo`, spelled out: extent `2^k` (valid tile indices never wrap) … -/
theorem pixelCentre_two_pow (X Y k : Nat) (hk : k < 32) (hX : X < 2 ^ 32) (hY : Y < 2 ^ 32) (i j : ℤ) :
    (pixelCentre X Y (2 ^ k) i j : Pt α) =
      ⟨(i : α) + (X : α) * 2 ^ k + 1 / 2, (j : α) + (Y : α) * 2 ^ k + 1 / 2⟩ :=
  pixelCentre_two_pow' X Y k hk hX hY i j

/-- … and any other extent. -/
theorem pixelCentre_other (X Y e : Nat) (h : isPowerOfTwo e = false) (i j : ℤ) :
    (pixelCentre X Y e i j : Pt α) =
      ⟨((i : α) + 1 / 2) / (e : α) + (X : α), ((j : α) + 1 / 2) / (e : α) + (Y : α)⟩ :=
  pixelCentre_other' X Y e h i j

/-- THE composed theorem about `mvt.newProjection(tile, extent)` — both paths, every extent
    (powers of two, 0, all others), every tile: with an exact floor and an exact `float64(uint64(·))`,
    if `ToPlanar ∘ ToGeo` at the projection's level is accurate to `ε` with `ε · pixelScale < ½`
    at the centre of pixel `(i, j)`, then `ToTile (ToWGS84 (i, j)) = (i, j)`. -/
theorem newProjection_roundtrip (F : MFn α)
    (hfloor : ∀ (x : α) (n : ℤ), (n : α) ≤ x → x < (n : α) + 1 → F.floor x = (n : α))
    (hofNat : ∀ n : Nat, F.ofNat n = (n : α))
    (X Y Z extent : Nat) (ε : α) (hε : ε * pixelScale extent < 1 / 2) (i j : ℤ)
    (hclose : CloseAt (toPlanar F (projLevel Z extent)) (toGeo F (projLevel Z extent)) ε
      (pixelCentre X Y extent i j)) :
    (newProjection F X Y Z extent).toTile ((newProjection F X Y Z extent).toWGS84 ⟨(i : α), (j : α)⟩)
      = ⟨(i : α), (j : α)⟩ := newProjection_roundtrip' F hfloor hofNat X Y Z extent ε hε i j hclose

/-- The chain `planar_geo_roundtrip_partial → CloseAt … 0 → tile round trip → newProjection`: given the
    Gudermannian identity on the opaque functions and `ToPlanar`'s clamp inactive AT THE PIXEL CENTRE,
    `newProjection` returns exactly the same integers (level below 64, where `maxtiles ≠ 0`). -/
theorem newProjection_roundtrip_exact (F : MFn α)
    (hfloor : ∀ (x : α) (n : ℤ), (n : α) ≤ x → x < (n : α) + 1 → F.floor x = (n : α))
    (hofNat : ∀ n : Nat, F.ofNat n = (n : α))
    (X Y Z extent : Nat) (hlev : projLevel Z extent < 64) (i j : ℤ)
    (hpi : F.pi ≠ 0) (htwo : F.twoPi = 2 * F.pi) (hd : F.d180pi = 180 / F.pi)
    (hgd : ∀ t, F.log ((1 + F.sin (2 * F.atan (F.exp t) - F.pi / 2)) / (1 - F.sin (2 * F.atan (F.exp t) - F.pi / 2))) = 2 * t)
    (hclamp :
      ¬ F.sin (2 * F.atan (F.exp (F.pi - F.twoPi *
          ((pixelCentre X Y extent i j : Pt α).y / maxTiles F (projLevel Z extent)))) - F.pi / 2) < -F.c9999 ∧
      ¬ F.c9999 < F.sin (2 * F.atan (F.exp (F.pi - F.twoPi *
          ((pixelCentre X Y extent i j : Pt α).y / maxTiles F (projLevel Z extent)))) - F.pi / 2)) :
    (newProjection F X Y Z extent).toTile ((newProjection F X Y Z extent).toWGS84 ⟨(i : α), (j : α)⟩)
      = ⟨(i : α), (j : α)⟩ :=
  newProjection_roundtrip_exact' F hfloor hofNat X Y Z extent hlev i j hpi htwo hd hgd hclamp

/-- The same chain for the bare power-of-two path with an abstract integer origin:
    `tile_roundtrip_margin` applied to `planar_geo_roundtrip_partial` at the pixel centre. -/
theorem tile_roundtrip_pow2_of_planar_geo (F : MFn α)
    (hfloor : ∀ (x : α) (n : ℤ), (n : α) ≤ x → x < (n : α) + 1 → F.floor x = (n : α))
    (z : Nat) (mx my i j : ℤ)
    (hpi : F.pi ≠ 0) (hm : maxTiles F z ≠ 0) (htwo : F.twoPi = 2 * F.pi) (hd : F.d180pi = 180 / F.pi)
    (hgd : ∀ t, F.log ((1 + F.sin (2 * F.atan (F.exp t) - F.pi / 2)) / (1 - F.sin (2 * F.atan (F.exp t) - F.pi / 2))) = 2 * t)
    (hclamp :
      ¬ F.sin (2 * F.atan (F.exp (F.pi - F.twoPi * (((j : α) + my + 1 / 2) / maxTiles F z))) - F.pi / 2) < -F.c9999 ∧
      ¬ F.c9999 < F.sin (2 * F.atan (F.exp (F.pi - F.twoPi * (((j : α) + my + 1 / 2) / maxTiles F z))) - F.pi / 2)) :
    (pow2Proj F.floor (toPlanar F z) (toGeo F z) (mx : α) (my : α)).toTile
        ((pow2Proj F.floor (toPlanar F z) (toGeo F z) (mx : α) (my : α)).toWGS84 ⟨(i : α), (j : α)⟩)
      = ⟨(i : α), (j : α)⟩ :=
  tile_roundtrip_pow2_of_planar_geo' F hfloor z mx my i j hpi hm htwo hd hgd hclamp

/-! #### `Layer.ProjectToTile / ProjectToWGS84`, `Layers.ProjectTo*` -/

/-- `Layer.ProjectToTile` builds ONE projection from (tile, l.Extent) and maps `project.Geometry`
    with its `ToTile` over the features; nil and typed-nil geometries stay as they are (`gmap`).
    (By `project_pure` each projected feature is its own shape filled with the mapped vertices.) -/
theorem layer_projectToTile_eq (F : MFn α) (X Y Z extent : Nat) (feats : List (GVal α)) :
    layerProjectToTile F X Y Z extent feats = feats.map (gmap (newProjection F X Y Z extent).toTile) :=
  layerProjectToTile_eq' F X Y Z extent feats

theorem layer_projectToWGS84_eq (F : MFn α) (X Y Z extent : Nat) (feats : List (GVal α)) :
    layerProjectToWGS84 F X Y Z extent feats = feats.map (gmap (newProjection F X Y Z extent).toWGS84) :=
  layerProjectToWGS84_eq' F X Y Z extent feats

omit [Field α] [IsStrictOrderedRing α] in
/-- If `f` undoes `h` on every vertex, `project.Geometry(·, f)` undoes `project.Geometry(·, h)` on
    geometries without bounds (each stage re-boxes a bound: `project_bound`). -/
theorem geometry_roundtrip (f h : Pt α → Pt α) (g : Geom α) (hn : NoBounds g)
    (hfh : ∀ p ∈ verts g, f (h p) = p) : geometry f (geometry h g) = g := geometry_roundtrip' f h g hn hfh

/-- The layer-level statement of the property: `Layer.ProjectToWGS84` then `Layer.ProjectToTile`
    returns exactly the same layer — same features, kinds, nesting, order, same integers — when every
    vertex of every feature is an integer pixel at whose centre `ToPlanar ∘ ToGeo` is accurate to
    better than half a pixel (`PixelsOK`; nil / typed-nil features are allowed). -/
theorem layer_roundtrip (F : MFn α)
    (hfloor : ∀ (x : α) (n : ℤ), (n : α) ≤ x → x < (n : α) + 1 → F.floor x = (n : α))
    (hofNat : ∀ n : Nat, F.ofNat n = (n : α))
    (X Y Z extent : Nat) (feats : List (GVal α))
    (hpix : ∀ g, GVal.val g ∈ feats → PixelsOK F X Y Z extent g) :
    layerProjectToTile F X Y Z extent (layerProjectToWGS84 F X Y Z extent feats) = feats :=
  layer_roundtrip' F hfloor hofNat X Y Z extent feats hpix

/-- `Layers.ProjectToWGS84` then `Layers.ProjectToTile`: every layer with its own extent. -/
theorem layers_roundtrip (F : MFn α)
    (hfloor : ∀ (x : α) (n : ℤ), (n : α) ≤ x → x < (n : α) + 1 → F.floor x = (n : α))
    (hofNat : ∀ n : Nat, F.ofNat n = (n : α))
    (X Y Z : Nat) (ls : List (Nat × List (GVal α)))
    (hpix : ∀ l ∈ ls, ∀ g, GVal.val g ∈ l.2 → PixelsOK F X Y Z l.1 g) :
    layersProjectToTile F X Y Z (layersProjectToWGS84 F X Y Z ls) = ls :=
  layers_roundtrip' F hfloor hofNat X Y Z ls hpix

/-! #### absolute position of a tile's pixels -/

/-- Extent `2^k` (k < 32, a valid tile, level below 64): the WGS84 image of ANY pixel coordinate
    `(p, q)` of the field is `ToGeo` at the tile's own zoom `Z` of `tile + (pixel + ½)/2^k`. -/
theorem toWGS84_absolute_two_pow (F : MFn α) (hofNat : ∀ n : Nat, F.ofNat n = (n : α))
    (X Y Z k : Nat) (hk : k < 32) (hX : X < 2 ^ 32) (hY : Y < 2 ^ 32) (hlev : Z + k < 64) (p q : α) :
    (newProjection F X Y Z (2 ^ k)).toWGS84 ⟨p, q⟩ =
      toGeo F Z ⟨(X : α) + (p + 1 / 2) / 2 ^ k, (Y : α) + (q + 1 / 2) / 2 ^ k⟩ :=
  toWGS84_absolute_two_pow' F hofNat X Y Z k hk hX hY hlev p q

/-- The same for every extent that is not a power of two. -/
theorem toWGS84_absolute_other (F : MFn α) (hofNat : ∀ n : Nat, F.ofNat n = (n : α))
    (X Y Z e : Nat) (h : isPowerOfTwo e = false) (p q : α) :
    (newProjection F X Y Z e).toWGS84 ⟨p, q⟩ =
      toGeo F Z ⟨(X : α) + (p + 1 / 2) / (e : α), (Y : α) + (q + 1 / 2) / (e : α)⟩ :=
  toWGS84_absolute_other' F hofNat X Y Z e h p q

/-- Pixel −½ is the north-west corner `ToGeo(X, Y, Z)` of the tile … -/
theorem tile_corner_nw_two_pow (F : MFn α) (hofNat : ∀ n : Nat, F.ofNat n = (n : α))
    (X Y Z k : Nat) (hk : k < 32) (hX : X < 2 ^ 32) (hY : Y < 2 ^ 32) (hlev : Z + k < 64) :
    (newProjection F X Y Z (2 ^ k)).toWGS84 ⟨-(1 / 2), -(1 / 2)⟩ = toGeo F Z ⟨(X : α), (Y : α)⟩ :=
  tile_corner_nw_two_pow' F hofNat X Y Z k hk hX hY hlev

theorem tile_corner_nw_other (F : MFn α) (hofNat : ∀ n : Nat, F.ofNat n = (n : α))
    (X Y Z e : Nat) (h : isPowerOfTwo e = false) :
    (newProjection F X Y Z e).toWGS84 ⟨-(1 / 2), -(1 / 2)⟩ = toGeo F Z ⟨(X : α), (Y : α)⟩ :=
  tile_corner_nw_other' F hofNat X Y Z e h

/-- … and pixel extent−½ the south-east corner `ToGeo(X+1, Y+1, Z)`. -/
theorem tile_corner_se_two_pow (F : MFn α) (hofNat : ∀ n : Nat, F.ofNat n = (n : α))
    (X Y Z k : Nat) (hk : k < 32) (hX : X < 2 ^ 32) (hY : Y < 2 ^ 32) (hlev : Z + k < 64) :
    (newProjection F X Y Z (2 ^ k)).toWGS84 ⟨2 ^ k - 1 / 2, 2 ^ k - 1 / 2⟩ =
      toGeo F Z ⟨(X : α) + 1, (Y : α) + 1⟩ :=
  tile_corner_se_two_pow' F hofNat X Y Z k hk hX hY hlev

theorem tile_corner_se_other (F : MFn α) (hofNat : ∀ n : Nat, F.ofNat n = (n : α))
    (X Y Z e : Nat) (h : isPowerOfTwo e = false) :
    (newProjection F X Y Z e).toWGS84 ⟨(e : α) - 1 / 2, (e : α) - 1 / 2⟩ =
      toGeo F Z ⟨(X : α) + 1, (Y : α) + 1⟩ :=
  tile_corner_se_other' F hofNat X Y Z e h

end tile

section mercator
variable {α : Type} [Field α] [LinearOrder α] [IsStrictOrderedRing α] (F : MFn α)

/-- WGS84 → Mercator → WGS84 is the identity, GIVEN the inverse pairs `exp∘log`, `atan∘tan` on the
    ranges that occur, the relations between the folded constants, and an inactive clamp. -/
theorem merc_roundtrip_partial (g : Pt α)
    (hpi : 0 < F.pi) (hR : F.R ≠ 0)
    (hrPi : F.rPi = F.R * F.pi) (hrPi180 : F.rPi180 = F.rPi / 180)
    (hd : F.d180pi = 180 / F.pi) (hph : F.piHalf = F.pi / 2)
    (hexplog : ∀ t, 0 < t → F.exp (F.log t) = t)
    (htanpos : ∀ θ, 0 < θ → θ < F.pi / 2 → 0 < F.tan θ)
    (hatantan : ∀ θ, 0 < θ → θ < F.pi / 2 → F.atan (F.tan θ) = θ)
    (hlat : -90 < g.y ∧ g.y < 90)
    (hclamp : F.max (-F.rPi) (F.min (F.log (F.tan ((90 + g.y) * F.pi / 360)) * F.R) F.rPi)
                = F.log (F.tan ((90 + g.y) * F.pi / 360)) * F.R) :
    mercatorToWGS84 F (wgs84ToMercator F g) = g :=
  merc_roundtrip_partial' F g hpi hR hrPi hrPi180 hd hph hexplog htanpos hatantan hlat hclamp

/-- Mercator → WGS84 → Mercator is the identity, GIVEN `tan∘atan`, `log∘exp` and an inactive clamp. -/
theorem merc_roundtrip_rev_partial (p : Pt α)
    (hpi : F.pi ≠ 0) (hR : F.R ≠ 0)
    (hrPi : F.rPi = F.R * F.pi) (hrPi180 : F.rPi180 = F.rPi / 180)
    (hd : F.d180pi = 180 / F.pi) (hph : F.piHalf = F.pi / 2)
    (htanatan : ∀ u, F.tan (F.atan u) = u) (hlogexp : ∀ t, F.log (F.exp t) = t)
    (hclamp : F.max (-F.rPi) (F.min p.y F.rPi) = p.y) :
    wgs84ToMercator F (mercatorToWGS84 F p) = p :=
  merc_roundtrip_rev_partial' F p hpi hR hrPi hrPi180 hd hph htanatan hlogexp hclamp

/-- `ToPlanar (ToGeo p) = p` at every zoom, GIVEN the Gudermannian identity
    `log((1+sin(2·atan(eᵗ)−π/2))/(1−sin(2·atan(eᵗ)−π/2))) = 2t` as a hypothesis on the opaque functions,
    and the 0.9999 clamp not active AT `p`.  Pointwise, like the tile theorems' hypothesis `CloseAt`:
    it yields `CloseAt (toPlanar F z) (toGeo F z) 0 p` (`closeAt_of_eq`), and the two are chained in
    `tile_roundtrip_pow2_of_planar_geo` and `newProjection_roundtrip_exact`. -/
theorem planar_geo_roundtrip_partial (z : Nat) (p : Pt α)
    (hpi : F.pi ≠ 0) (hm : maxTiles F z ≠ 0) (htwo : F.twoPi = 2 * F.pi) (hd : F.d180pi = 180 / F.pi)
    (hgd : ∀ t, F.log ((1 + F.sin (2 * F.atan (F.exp t) - F.pi / 2)) / (1 - F.sin (2 * F.atan (F.exp t) - F.pi / 2))) = 2 * t)
    (hclamp : ¬ F.sin (2 * F.atan (F.exp (F.pi - F.twoPi * (p.y / maxTiles F z))) - F.pi / 2) < -F.c9999 ∧
              ¬ F.c9999 < F.sin (2 * F.atan (F.exp (F.pi - F.twoPi * (p.y / maxTiles F z))) - F.pi / 2)) :
    toPlanar F z (toGeo F z p) = p :=
  planar_geo_roundtrip_partial' F z p hpi hm htwo hd hgd hclamp

/-! Full statements that are NOT proved (float accuracy; measured by the correspondence check). -/

/-- lon/lat → mercator → lon/lat within `tol` (1e-9°) for latitudes inside the mercator range. -/
def merc_roundtrip_full (tol lim : α) : Prop :=
  ∀ g : Pt α, -180 ≤ g.x → g.x ≤ 180 → -lim ≤ g.y → g.y ≤ lim →
    |(mercatorToWGS84 F (wgs84ToMercator F g)).x - g.x| ≤ tol ∧
    |(mercatorToWGS84 F (wgs84ToMercator F g)).y - g.y| ≤ tol

/-- mercator → lon/lat → mercator within `tol` (1 mm). -/
def merc_roundtrip_rev_full (tol : α) : Prop :=
  ∀ p : Pt α, -F.rPi ≤ p.x → p.x ≤ F.rPi → -F.rPi ≤ p.y → p.y ≤ F.rPi →
    |(wgs84ToMercator F (mercatorToWGS84 F p)).x - p.x| ≤ tol ∧
    |(wgs84ToMercator F (mercatorToWGS84 F p)).y - p.y| ≤ tol

/-- integer tile coordinates survive tile → WGS84 → tile exactly, for every tile and extent
    (was false for non-power-of-two extents before fix 7b86dd1: `tile_roundtrip_nonpow2_no_margin`;
    still false for buffer pixels of zoom 0/1 tiles beyond latitude asin(0.9999), where `toPlanar` clamps). -/
def tile_roundtrip_full : Prop :=
  ∀ (X Y Z extent : Nat) (i j : ℤ), Z ≤ 22 → X < 2 ^ Z → Y < 2 ^ Z → 0 < extent →
    -(extent : ℤ) ≤ i → i < 2 * extent → -(extent : ℤ) ≤ j → j < 2 * extent →
    (newProjection F X Y Z extent).toTile ((newProjection F X Y Z extent).toWGS84 ⟨(i : α), (j : α)⟩) = ⟨(i : α), (j : α)⟩

end mercator

/-- Non-vacuity: the hypotheses of the tile theorems hold for `ratFloor` with `P = G = id`, `ε = 0`
    at every pixel centre (over ℝ with the real `toPlanar`, `toGeo`: OrbProofs/C15Real.lean);
    and a concrete stateful projection (a call counter added to x) over a nested collection. -/
example : (∀ (x : Rat) (n : ℤ), (n : Rat) ≤ x → x < (n : Rat) + 1 → ratFloor x = (n : Rat)) ∧
    (∀ c : Pt Rat, CloseAt id id 0 c) :=
  ⟨ratFloor_spec, fun c => closeAt_of_eq id id c rfl⟩

/-- the hypotheses of `tile_roundtrip_nonpow2_no_margin` are satisfiable with DIFFERENT errors on the
    two axes, at one point only (`P` is exact everywhere else) -/
example : ∃ (P G : Pt Rat → Pt Rat),
    (P (G ⟨(5 : ℤ) / 1000 + 3, (7 : ℤ) / 1000 + 2⟩)).x = (5 : ℤ) / 1000 + 3 - 1 / 1000000 ∧
    (P (G ⟨(5 : ℤ) / 1000 + 3, (7 : ℤ) / 1000 + 2⟩)).y = (7 : ℤ) / 1000 + 2 - 1 / 3000 ∧
    P (G ⟨0, 0⟩) = ⟨0, 0⟩ :=
  ⟨fun u => if u.x = (5 : ℤ) / 1000 + 3 then ⟨u.x - 1 / 1000000, u.y - 1 / 3000⟩ else u, id, by
    refine ⟨?_, ?_, ?_⟩ <;> norm_num⟩

example : (geometryM (fun (p : Pt Int) (k : Int) => (⟨p.x + k, p.y⟩, k + 1))
      (.collection [.lineString [⟨0, 0⟩, ⟨0, 1⟩], .bound ⟨5, 5⟩ ⟨0, 9⟩]) 0).2 = 4 := by decide

end Orb.Project
