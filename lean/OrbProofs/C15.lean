/-
  C15 — Projections invert each other and transform every vertex in place.
  PROPERTY THEOREMS about the model `Orb.Project` (project/helpers.go, project/projections.go,
  internal/mercator/mercator.go, encoding/mvt/projection.go).

  * `project.Geometry` (all inputs, arbitrary — even stateful — point functions): the result has the
    kind, nesting and member counts of the input, `proj` is called on every vertex exactly once in
    storage order, and a bound becomes the box of its two projected corners.
  * The tile round trip is proved for ABSTRACT planar/geo maps `P`, `G` over an ordered field:
    with the half-pixel centre of the power-of-two path any error below ½ pixel is absorbed;
    the non-power-of-two path HAD no margin before fix 7b86dd1 (`nonPow2ProjUnfixed`, spec side) — it
    was the identity only for an exact inverse pair and came back one pixel low for EVERY negative
    error (the defect the property describes); with the pixel centre the code has now
    (`nonPow2Proj`) any error below ½/extent is absorbed.
  * The mercator closed forms are mutually inverse given explicit inverse-pair hypotheses on
    `atan/tan/exp/log` (and `sin` for ToPlanar/ToGeo) and an inactive clamp.

  NOT proved: the numeric bounds 1e-9° / 1 mm and the exact integer recovery under float64 `exp/atan/
  log/sin` are float-accuracy statements (`…_full` below); the correspondence check measures them.
-/
import OrbProofs.C15Lemmas

namespace Orb.Project
open Orb Orb.Core

section project
variable {σ α : Type} [LinearOrder α]

/-- Structure preservation with an arbitrary stateful point function: the calls to `proj` are
    exactly the run of `proj` over the vertex list in storage order (each vertex once), the final
    state is the state after that run, and the result is the input's shape filled with the outputs. -/
theorem project_map (proj : Proj σ α) (g : Geom α) (s : σ) :
    geometryM proj g s = (fill g (ptsM proj (verts g) s).1, (ptsM proj (verts g) s).2) :=
  project_map' proj g s

/-- "exactly once, in order", spelled out: recording the arguments of `proj` yields the vertex list. -/
theorem project_calls (f : Pt α → Pt α) (g : Geom α) :
    (geometryM (fun p (l : List (Pt α)) => (f p, l ++ [p])) g []).2 = verts g := project_calls' f g

/-- Kind, nesting and member counts are preserved. -/
theorem project_shape (proj : Proj σ α) (g : Geom α) (s : σ) :
    shape (geometryM proj g s).1 = shape g := project_shape' proj g s

/-- With a pure point function the result is the map of that function over every vertex … -/
theorem project_pure (f : Pt α → Pt α) (g : Geom α) :
    geometry f g = fill g ((verts g).map f) := project_pure' f g

/-- … literally so when no bound is involved (a bound is re-boxed, see `project_bound`). -/
theorem project_verts (f : Pt α → Pt α) (g : Geom α) (h : NoBounds g) :
    verts (geometry f g) = (verts g).map f := project_verts' f g h

/-- The projected bound is the box of the two projected corners. -/
theorem project_bound (f : Pt α → Pt α) (lo hi : Pt α) :
    geometry f (.bound lo hi) =
      .bound ⟨min (f lo).x (f hi).x, min (f lo).y (f hi).y⟩ ⟨max (f lo).x (f hi).x, max (f lo).y (f hi).y⟩ :=
  project_bound' f lo hi

/-- nil interfaces and typed nil slices are returned as they are, without calling `proj`. -/
theorem project_nil (proj : Proj σ α) (s : σ) (k : Kind) :
    geometryVM proj .nilIface s = (.nilIface, s) ∧ geometryVM proj (.nilSlice k) s = (.nilSlice k, s) :=
  project_nil' proj s k

end project

section tile
variable {α : Type} [Field α] [LinearOrder α] [IsStrictOrderedRing α]

/-- Power-of-two extents: with planar/geo maps that invert each other up to an error `ε < ½` pixel,
    integer tile coordinates survive tile → WGS84 → tile exactly (the `+0.5` gives a margin of ½). -/
theorem tile_roundtrip_margin (floor : α → α)
    (hfloor : ∀ (x : α) (n : ℤ), (n : α) ≤ x → x < (n : α) + 1 → floor x = (n : α))
    (P G : Pt α → Pt α) (ε : α) (hε : ε < 1 / 2)
    (hPG : ∀ u, |(P (G u)).x - u.x| ≤ ε ∧ |(P (G u)).y - u.y| ≤ ε) (mx my i j : ℤ) :
    (pow2Proj floor P G (mx : α) (my : α)).toTile ((pow2Proj floor P G (mx : α) (my : α)).toWGS84 ⟨(i : α), (j : α)⟩)
      = ⟨(i : α), (j : α)⟩ := tile_roundtrip_margin' floor hfloor P G ε hε hPG mx my i j

/-- Other extents, code BEFORE fix 7b86dd1 (`nonPow2ProjUnfixed`): the identity held for an EXACT inverse pair (ε = 0) … -/
theorem tile_roundtrip_nonpow2_exact (floor : α → α)
    (hfloor : ∀ (x : α) (n : ℤ), (n : α) ≤ x → x < (n : α) + 1 → floor x = (n : α))
    (P G : Pt α → Pt α) (hPG : ∀ u, P (G u) = u) (minx miny e : α) (he : e ≠ 0) (i j : ℤ) :
    (nonPow2ProjUnfixed floor P G minx miny e).toTile ((nonPow2ProjUnfixed floor P G minx miny e).toWGS84 ⟨(i : α), (j : α)⟩)
      = ⟨(i : α), (j : α)⟩ := tile_roundtrip_nonpow2_exact' floor hfloor P G hPG minx miny e he i j

/-- … and failed for EVERY negative error: if the planar/geo pair comes back low by any `δ > 0`
    (at most a pixel, `δ·e ≤ 1`) every pixel comes back one lower. There is no margin. -/
theorem tile_roundtrip_nonpow2_no_margin (floor : α → α)
    (hfloor : ∀ (x : α) (n : ℤ), (n : α) ≤ x → x < (n : α) + 1 → floor x = (n : α))
    (P G : Pt α → Pt α) (δ : α) (hδ : 0 < δ) (minx miny e : α) (he : 0 < e) (hδe : δ * e ≤ 1)
    (hPG : ∀ u, P (G u) = ⟨u.x - δ, u.y - δ⟩) (i j : ℤ) :
    (nonPow2ProjUnfixed floor P G minx miny e).toTile ((nonPow2ProjUnfixed floor P G minx miny e).toWGS84 ⟨(i : α), (j : α)⟩)
      = ⟨(i : α) - 1, (j : α) - 1⟩ := tile_roundtrip_nonpow2_no_margin' floor hfloor P G δ hδ minx miny e he hδe hPG i j

/-- A concrete witness over ℚ: with the unfixed code an inverse pair off by 10⁻⁹ brings pixel (5,7) of a
    1000-extent tile back as (4,6), while the power-of-two path with the same pair returns (5,7). -/
theorem tile_roundtrip_nonpow2_witness :
    (nonPow2ProjUnfixed ratFloor (fun u => ⟨u.x - 1 / 1000000000, u.y - 1 / 1000000000⟩) id 3 2 1000).toTile
        ((nonPow2ProjUnfixed ratFloor (fun u => ⟨u.x - 1 / 1000000000, u.y - 1 / 1000000000⟩) id 3 2 1000).toWGS84 ⟨5, 7⟩)
      = (⟨4, 6⟩ : Pt Rat) ∧
    (pow2Proj ratFloor (fun u => ⟨u.x - 1 / 1000000000, u.y - 1 / 1000000000⟩) id 3072 2048).toTile
        ((pow2Proj ratFloor (fun u => ⟨u.x - 1 / 1000000000, u.y - 1 / 1000000000⟩) id 3072 2048).toWGS84 ⟨5, 7⟩)
      = (⟨5, 7⟩ : Pt Rat) := tile_roundtrip_nonpow2_witness'

/-- Other extents, the code as it is now (`+0.5` pixel centre, fix 7b86dd1): there is a margin —
    any error with `ε·e < ½` is absorbed and integer tile coordinates survive exactly. -/
theorem tile_roundtrip_nonpow2_fixed_margin (floor : α → α)
    (hfloor : ∀ (x : α) (n : ℤ), (n : α) ≤ x → x < (n : α) + 1 → floor x = (n : α))
    (P G : Pt α → Pt α) (ε : α) (minx miny e : α) (he : 0 < e) (hε : ε * e < 1 / 2)
    (hPG : ∀ u, |(P (G u)).x - u.x| ≤ ε ∧ |(P (G u)).y - u.y| ≤ ε) (i j : ℤ) :
    (nonPow2Proj floor P G minx miny e).toTile ((nonPow2Proj floor P G minx miny e).toWGS84 ⟨(i : α), (j : α)⟩)
      = ⟨(i : α), (j : α)⟩ := tile_roundtrip_nonpow2_fixed_margin' floor hfloor P G ε minx miny e he hε hPG i j

/-- `newProjection` is the power-of-two path at zoom `Z + log₂ extent` for power-of-two extents and the
    other path otherwise. -/
theorem newProjection_pow2 (F : MFn α) (X Y Z extent : Nat) (h : isPowerOfTwo extent = true) :
    newProjection F X Y Z extent =
      pow2Proj F.floor (toPlanar F (Z + trailingZeros32 extent)) (toGeo F (Z + trailingZeros32 extent))
        (F.ofNat ((X * 2 ^ trailingZeros32 extent) % 2 ^ 64)) (F.ofNat ((Y * 2 ^ trailingZeros32 extent) % 2 ^ 64)) :=
  newProjection_pow2' F X Y Z extent h

theorem newProjection_nonpow2 (F : MFn α) (X Y Z extent : Nat) (h : isPowerOfTwo extent = false) :
    newProjection F X Y Z extent =
      nonPow2Proj F.floor (toPlanar F Z) (toGeo F Z) (F.ofNat X) (F.ofNat Y) (F.ofNat extent) :=
  newProjection_nonpow2' F X Y Z extent h

end tile

section mercator
variable {α : Type} [Field α] [LinearOrder α] [IsStrictOrderedRing α] (F : MFn α)

/-- WGS84 → Mercator → WGS84 is the identity, GIVEN the inverse pairs `exp∘log`, `atan∘tan` on the
    ranges that occur, the relations between the folded constants, and an inactive clamp. -/
theorem merc_roundtrip_partial (g : Pt α)
    (hpi : 0 < F.pi) (hR : F.R ≠ 0)
    (hrPi : F.rPi = F.R * F.pi) (hrPi180 : F.rPi180 = F.rPi / 180)
    (hd : F.d180pi = 180 / F.pi) (hph : F.piHalf = F.pi / 2)
    (hexplog : ∀ t, 0 < t → F.exp (F.log t) = t)
    (htanpos : ∀ θ, 0 < θ → θ < F.pi / 2 → 0 < F.tan θ)
    (hatantan : ∀ θ, 0 < θ → θ < F.pi / 2 → F.atan (F.tan θ) = θ)
    (hlat : -90 < g.y ∧ g.y < 90)
    (hclamp : F.max (-F.rPi) (F.min (F.log (F.tan ((90 + g.y) * F.pi / 360)) * F.R) F.rPi)
                = F.log (F.tan ((90 + g.y) * F.pi / 360)) * F.R) :
    mercatorToWGS84 F (wgs84ToMercator F g) = g :=
  merc_roundtrip_partial' F g hpi hR hrPi hrPi180 hd hph hexplog htanpos hatantan hlat hclamp

/-- Mercator → WGS84 → Mercator is the identity, GIVEN `tan∘atan`, `log∘exp` and an inactive clamp. -/
theorem merc_roundtrip_rev_partial (p : Pt α)
    (hpi : F.pi ≠ 0) (hR : F.R ≠ 0)
    (hrPi : F.rPi = F.R * F.pi) (hrPi180 : F.rPi180 = F.rPi / 180)
    (hd : F.d180pi = 180 / F.pi) (hph : F.piHalf = F.pi / 2)
    (htanatan : ∀ u, F.tan (F.atan u) = u) (hlogexp : ∀ t, F.log (F.exp t) = t)
    (hclamp : F.max (-F.rPi) (F.min p.y F.rPi) = p.y) :
    wgs84ToMercator F (mercatorToWGS84 F p) = p :=
  merc_roundtrip_rev_partial' F p hpi hR hrPi hrPi180 hd hph htanatan hlogexp hclamp

/-- `ToPlanar (ToGeo p) = p` at every zoom, GIVEN the Gudermannian identity
    `log((1+sin(2·atan(eᵗ)−π/2))/(1−sin(2·atan(eᵗ)−π/2))) = 2t` as a hypothesis on the opaque functions,
    and the 0.9999 clamp not active.  This is the `ε = 0` instance of the tile theorems' hypothesis. -/
theorem planar_geo_roundtrip_partial (z : Nat) (p : Pt α)
    (hpi : F.pi ≠ 0) (hm : maxTiles F z ≠ 0) (htwo : F.twoPi = 2 * F.pi) (hd : F.d180pi = 180 / F.pi)
    (hgd : ∀ t, F.log ((1 + F.sin (2 * F.atan (F.exp t) - F.pi / 2)) / (1 - F.sin (2 * F.atan (F.exp t) - F.pi / 2))) = 2 * t)
    (hclamp : ¬ F.sin (2 * F.atan (F.exp (F.pi - F.twoPi * (p.y / maxTiles F z))) - F.pi / 2) < -F.c9999 ∧
              ¬ F.c9999 < F.sin (2 * F.atan (F.exp (F.pi - F.twoPi * (p.y / maxTiles F z))) - F.pi / 2)) :
    toPlanar F z (toGeo F z p) = p :=
  planar_geo_roundtrip_partial' F z p hpi hm htwo hd hgd hclamp

/-! Full statements that are NOT proved (float accuracy; measured by the correspondence check). -/

/-- lon/lat → mercator → lon/lat within `tol` (1e-9°) for latitudes inside the mercator range. -/
def merc_roundtrip_full (tol lim : α) : Prop :=
  ∀ g : Pt α, -180 ≤ g.x → g.x ≤ 180 → -lim ≤ g.y → g.y ≤ lim →
    |(mercatorToWGS84 F (wgs84ToMercator F g)).x - g.x| ≤ tol ∧
    |(mercatorToWGS84 F (wgs84ToMercator F g)).y - g.y| ≤ tol

/-- mercator → lon/lat → mercator within `tol` (1 mm). -/
def merc_roundtrip_rev_full (tol : α) : Prop :=
  ∀ p : Pt α, -F.rPi ≤ p.x → p.x ≤ F.rPi → -F.rPi ≤ p.y → p.y ≤ F.rPi →
    |(wgs84ToMercator F (mercatorToWGS84 F p)).x - p.x| ≤ tol ∧
    |(wgs84ToMercator F (mercatorToWGS84 F p)).y - p.y| ≤ tol

/-- integer tile coordinates survive tile → WGS84 → tile exactly, for every tile and extent
    (was false for non-power-of-two extents before fix 7b86dd1: `tile_roundtrip_nonpow2_no_margin`;
    still false for buffer pixels of zoom 0/1 tiles beyond latitude asin(0.9999), where `toPlanar` clamps). -/
def tile_roundtrip_full : Prop :=
  ∀ (X Y Z extent : Nat) (i j : ℤ), Z ≤ 22 → X < 2 ^ Z → Y < 2 ^ Z → 0 < extent →
    -(extent : ℤ) ≤ i → i < 2 * extent → -(extent : ℤ) ≤ j → j < 2 * extent →
    (newProjection F X Y Z extent).toTile ((newProjection F X Y Z extent).toWGS84 ⟨(i : α), (j : α)⟩) = ⟨(i : α), (j : α)⟩

end mercator

/-- Non-vacuity: the hypotheses of the tile theorems hold for `ratFloor` with `P = G = id`, `ε = 0`;
    and a concrete stateful projection (a call counter added to x) over a nested collection. -/
example : (∀ (x : Rat) (n : ℤ), (n : Rat) ≤ x → x < (n : Rat) + 1 → ratFloor x = (n : Rat)) ∧
    (∀ u : Pt Rat, |((id (id u)) : Pt Rat).x - u.x| ≤ 0 ∧ |((id (id u)) : Pt Rat).y - u.y| ≤ 0) :=
  ⟨ratFloor_spec, fun u => by simp⟩

example : (geometryM (fun (p : Pt Int) (k : Int) => (⟨p.x + k, p.y⟩, k + 1))
      (.collection [.lineString [⟨0, 0⟩, ⟨0, 1⟩], .bound ⟨5, 5⟩ ⟨0, 9⟩]) 0).2 = 4 := by decide

end Orb.Project
